import Hive.Model.DerivedVar
/-!
# Quiescence of `reactive.DerivedVariable` (model `Hive.Model.DerivedVar`)

In every reachable configuration in which every thread has finished (the constructor has subscribed
to all inputs, every writer has run its whole script) the derived value equals `f` of the current
input vector — for any number of inputs, any `f`, any number of writers with arbitrary scripts and
any schedule.

A thread is *in flight for `j`* when it has stored a new value of input `j` (or registered the
callback on `j`) and its recompute is not committed yet.  The invariants say that every
difference between the committed vector `seen` (or a snapshot being read) and the current inputs is
covered by a thread in flight; mutual exclusion of the three kinds of locks is shown by counting.
-/
namespace Hive.Derived
open Hive.Conc

def Kont.isW : Kont → Bool
  | .writer _ => true
  | .ctor _ => false

def Kont.todo : Kont → List Nat
  | .writer _ => []
  | .ctor rest => rest

/-! Everything auxiliary lives in `Hive.Derived.DVar`; the results are stated in `Hive.Derived`. -/
namespace DVar

/-! ## Small helpers -/

@[simp] theorem setAt_same {α : Type} (g : Nat → α) (i : Nat) (v : α) : setAt g i v i = v := by
  simp [setAt]

theorem setAt_other {α : Type} (g : Nat → α) (i j : Nat) (v : α) (h : j ≠ i) : setAt g i v j = g j := by
  simp [setAt, h]

theorem mem_mid {α : Type} {pre post : List α} {t u : α} :
    u ∈ pre ++ t :: post ↔ u = t ∨ (u ∈ pre ∨ u ∈ post) := by
  simp only [List.mem_append, List.mem_cons]
  constructor
  · rintro (h | h | h)
    · exact Or.inr (Or.inl h)
    · exact Or.inl h
    · exact Or.inr (Or.inr h)
  · rintro (h | h | h)
    · exact Or.inr (Or.inl h)
    · exact Or.inl h
    · exact Or.inr (Or.inr h)

theorem mem_mid_self {α : Type} {pre post : List α} {t : α} : t ∈ pre ++ t :: post :=
  mem_mid.2 (Or.inl rfl)

theorem mem_mid_rest {α : Type} {pre post : List α} {t u : α} (h : u ∈ pre ∨ u ∈ post) :
    u ∈ pre ++ t :: post :=
  mem_mid.2 (Or.inr h)

/-- A witness survives the move of thread `t` to `t'` if the move preserves the property. -/
theorem exists_mid {α : Type} {pre post : List α} {t t' : α} {Q : α → Prop}
    (h : ∃ w ∈ pre ++ t :: post, Q w) (ht : Q t → Q t') : ∃ w ∈ pre ++ t' :: post, Q w := by
  obtain ⟨w, hw, hq⟩ := h
  rcases mem_mid.1 hw with rfl | hw
  · exact ⟨t', mem_mid_self, ht hq⟩
  · exact ⟨w, mem_mid_rest hw, hq⟩

theorem exists_new {α : Type} {pre post : List α} {t' : α} {Q : α → Prop} (ht : Q t') :
    ∃ w ∈ pre ++ t' :: post, Q w :=
  ⟨t', mem_mid_self, ht⟩

/-- If a lock is held by the moving thread, nobody else holds it. -/
theorem excl_of_count {p : DVT → Bool} {pre post : List DVT} {t u : DVT} {b : Bool}
    (h : (pre ++ t :: post).countP p = if b then 1 else 0) (ht : p t = true)
    (hu : u ∈ pre ∨ u ∈ post) : p u = false := by
  rw [countP_mid] at h
  simp only [ht, if_true] at h
  have h1 : pre.countP p = 0 := by split at h <;> omega
  have h2 : post.countP p = 0 := by split at h <;> omega
  rw [List.countP_eq_zero] at h1 h2
  rcases hu with hu | hu
  · simpa using h1 u hu
  · simpa using h2 u hu

/-- If a lock is free, nobody holds it. -/
theorem free_of_count {p : DVT → Bool} {ts : List DVT} {u : DVT} {b : Bool}
    (h : ts.countP p = if b then 1 else 0) (hb : b = false) (hu : u ∈ ts) : p u = false := by
  subst hb
  simp only [Bool.false_eq_true, if_false] at h
  rw [List.countP_eq_zero] at h
  simpa using h u hu

/-! ## The transitions as a relation -/

inductive DVStep (n : Nat) (f : (Nat → Int) → Int) (trig : Nat → Bool) : DVS → DVT → DVS → DVT → Prop
  | lock (s : DVS) (i : Nat) (v : Int) (sc : List (Nat × Int)) (h : s.upd i = false) :
      DVStep n f trig s (.idle ((i, v) :: sc)) { s with upd := setAt s.upd i true } (.locked i v sc)
  | same (s : DVS) (i : Nat) (v : Int) (sc : List (Nat × Int)) (h : s.val i = v) :
      DVStep n f trig s (.locked i v sc) s (.rel3 i sc)
  | write (s : DVS) (i : Nat) (v : Int) (sc : List (Nat × Int)) (h : s.val i ≠ v) (hr : s.reg i = true) :
      DVStep n f trig s (.locked i v sc) { s with val := setAt s.val i v } (.wrote i v sc)
  | writeU (s : DVS) (i : Nat) (v : Int) (sc : List (Nat × Int)) (h : s.val i ≠ v) (hr : s.reg i = false) :
      DVStep n f trig s (.locked i v sc) { s with val := setAt s.val i v } (.rel3 i sc)
  | enter (s : DVS) (i : Nat) (v : Int) (sc : List (Nat × Int)) (h : s.ex i = false) :
      DVStep n f trig s (.wrote i v sc) { s with ex := setAt s.ex i true } (.inCb i v (.writer sc))
  | register (s : DVS) (i : Nat) (rest : List Nat) (h : s.ex i = false) (hr : s.reg i = false) :
      DVStep n f trig s (.cIdle (i :: rest)) { s with reg := setAt s.reg i true, ex := setAt s.ex i true }
        (.inCb i (s.val i) (.ctor rest))
  | skip (s : DVS) (i : Nat) (rest : List Nat) (h : s.ex i = false) (hr : s.reg i = false) (hz : s.val i = 0)
      (ht : trig i = false) :
      DVStep n f trig s (.cIdle (i :: rest)) { s with reg := setAt s.reg i true, ex := setAt s.ex i true }
        (.rel2 i (.ctor rest))
  | begin (s : DVS) (i : Nat) (v : Int) (k : Kont) (h : s.dUpd = false) :
      DVStep n f trig s (.inCb i v k) { s with dUpd := true }
        (.comp i v (fun _ => 0) ((List.range n).filter (· != i)) k)
  | read (s : DVS) (i : Nat) (v : Int) (snap : Nat → Int) (j : Nat) (todo : List Nat) (k : Kont) :
      DVStep n f trig s (.comp i v snap (j :: todo) k) s (.comp i v (setAt snap j (s.val j)) todo k)
  | commit (s : DVS) (i : Nat) (v : Int) (snap : Nat → Int) (k : Kont) :
      DVStep n f trig s (.comp i v snap [] k) { s with d := f (setAt snap i v), seen := setAt snap i v } (.rel1 i k)
  | relD (s : DVS) (i : Nat) (k : Kont) :
      DVStep n f trig s (.rel1 i k) { s with dUpd := false } (.rel2 i k)
  | relExW (s : DVS) (i : Nat) (sc : List (Nat × Int)) :
      DVStep n f trig s (.rel2 i (.writer sc)) { s with ex := setAt s.ex i false } (.rel3 i sc)
  | relExC (s : DVS) (i : Nat) (rest : List Nat) :
      DVStep n f trig s (.rel2 i (.ctor rest)) { s with ex := setAt s.ex i false } (.cIdle rest)
  | relU (s : DVS) (i : Nat) (sc : List (Nat × Int)) :
      DVStep n f trig s (.rel3 i sc) { s with upd := setAt s.upd i false } (.idle sc)

theorem dvStep_sound {n : Nat} {f : (Nat → Int) → Int} {trig : Nat → Bool} {s s' : DVS} {t t' : DVT}
    (h : (s', t') ∈ dvStep n f trig s t) : DVStep n f trig s t s' t' := by
  cases t with
  | idle sc =>
    cases sc with
    | nil => simp [dvStep] at h
    | cons p sc =>
      obtain ⟨i, v⟩ := p
      simp only [dvStep] at h
      split at h
      · simp at h
      · next hu =>
        simp only [List.mem_singleton, Prod.mk.injEq] at h
        obtain ⟨rfl, rfl⟩ := h
        exact DVStep.lock _ _ _ _ (by simpa using hu)
  | locked i v sc =>
    simp only [dvStep] at h
    split at h
    · next hv =>
      simp only [List.mem_singleton, Prod.mk.injEq] at h
      obtain ⟨rfl, rfl⟩ := h
      exact DVStep.same _ _ _ _ (by simpa using hv)
    · next hv =>
      split at h
      · next hr =>
        simp only [List.mem_singleton, Prod.mk.injEq] at h
        obtain ⟨rfl, rfl⟩ := h
        exact DVStep.write _ _ _ _ (by simpa using hv) hr
      · next hr =>
        simp only [List.mem_singleton, Prod.mk.injEq] at h
        obtain ⟨rfl, rfl⟩ := h
        exact DVStep.writeU _ _ _ _ (by simpa using hv) (by simpa using hr)
  | wrote i v sc =>
    simp only [dvStep] at h
    split at h
    · simp at h
    · next he =>
      simp only [List.mem_singleton, Prod.mk.injEq] at h
      obtain ⟨rfl, rfl⟩ := h
      exact DVStep.enter _ _ _ _ (by simpa using he)
  | cIdle rest =>
    cases rest with
    | nil => simp [dvStep] at h
    | cons i rest =>
      simp only [dvStep] at h
      split at h
      · simp at h
      · next he =>
        simp only [Bool.or_eq_true, not_or, Bool.not_eq_true] at he
        split at h
        · simp only [List.mem_singleton, Prod.mk.injEq] at h
          obtain ⟨rfl, rfl⟩ := h
          exact DVStep.register _ _ _ he.1 he.2
        · next hz =>
          simp only [List.mem_singleton, Prod.mk.injEq] at h
          obtain ⟨rfl, rfl⟩ := h
          simp only [Bool.or_eq_true, bne_iff_ne, ne_eq, not_or, Decidable.not_not, Bool.not_eq_true] at hz
          exact DVStep.skip _ _ _ he.1 he.2 hz.1 hz.2
  | inCb i v k =>
    simp only [dvStep] at h
    split at h
    · simp at h
    · next hd =>
      simp only [List.mem_singleton, Prod.mk.injEq] at h
      obtain ⟨rfl, rfl⟩ := h
      exact DVStep.begin _ _ _ _ (by simpa using hd)
  | comp i v snap todo k =>
    cases todo with
    | nil =>
      simp only [dvStep, List.mem_singleton, Prod.mk.injEq] at h
      obtain ⟨rfl, rfl⟩ := h
      exact DVStep.commit _ _ _ _ _
    | cons j todo =>
      simp only [dvStep, List.mem_singleton, Prod.mk.injEq] at h
      obtain ⟨rfl, rfl⟩ := h
      exact DVStep.read _ _ _ _ _ _ _
  | rel1 i k =>
    simp only [dvStep, List.mem_singleton, Prod.mk.injEq] at h
    obtain ⟨rfl, rfl⟩ := h
    exact DVStep.relD _ _ _
  | rel2 i k =>
    cases k with
    | writer sc =>
      simp only [dvStep, List.mem_singleton, Prod.mk.injEq] at h
      obtain ⟨rfl, rfl⟩ := h
      exact DVStep.relExW _ _ _
    | ctor rest =>
      simp only [dvStep, List.mem_singleton, Prod.mk.injEq] at h
      obtain ⟨rfl, rfl⟩ := h
      exact DVStep.relExC _ _ _
  | rel3 i sc =>
    simp only [dvStep, List.mem_singleton, Prod.mk.injEq] at h
    obtain ⟨rfl, rfl⟩ := h
    exact DVStep.relU _ _ _

/-! ## Thread classifications -/

/-- in flight for input `j` -/
def inflight (j : Nat) : DVT → Bool
  | .wrote i _ _ => j == i
  | .inCb i _ _ => j == i
  | .comp i _ _ _ _ => j == i
  | _ => false

def isWrote (j : Nat) : DVT → Bool
  | .wrote i _ _ => j == i
  | _ => false

def holdsUpd (j : Nat) : DVT → Bool
  | .locked i _ _ => j == i
  | .wrote i _ _ => j == i
  | .inCb i _ k => k.isW && j == i
  | .comp i _ _ _ k => k.isW && j == i
  | .rel1 i k => k.isW && j == i
  | .rel2 i k => k.isW && j == i
  | .rel3 i _ => j == i
  | _ => false

def holdsEx (j : Nat) : DVT → Bool
  | .inCb i _ _ => j == i
  | .comp i _ _ _ _ => j == i
  | .rel1 i _ => j == i
  | .rel2 i _ => j == i
  | _ => false

def holdsD : DVT → Bool
  | .comp _ _ _ _ _ => true
  | .rel1 _ _ => true
  | _ => false

/-- inputs the constructor thread has still to subscribe to -/
def ctorTodo : DVT → List Nat
  | .cIdle rest => rest
  | .inCb _ _ k => k.todo
  | .comp _ _ _ _ k => k.todo
  | .rel1 _ k => k.todo
  | .rel2 _ k => k.todo
  | _ => []

/-- a constructor thread that will still *start* a complete recompute: it has inputs left to subscribe to (the last
subscription always triggers, invariant `L`), or it sits in front of `d.Compute` -/
def pend : DVT → Bool
  | .cIdle rest => !rest.isEmpty
  | .inCb _ _ k => !k.isW
  | .comp _ _ _ _ k => !k.isW && !k.todo.isEmpty
  | .rel1 _ k => !k.isW && !k.todo.isEmpty
  | .rel2 _ k => !k.isW && !k.todo.isEmpty
  | _ => false

/-- a constructor thread that will still *commit* a complete recompute -/
def ctorEarly : DVT → Bool
  | .comp _ _ _ _ k => !k.isW
  | t => pend t

theorem pend_early {t : DVT} (h : pend t = true) : ctorEarly t = true := by
  cases t <;> simp_all [ctorEarly, pend]

/-! ## Mutual exclusion by counting -/

def E1 (s : DVS) (ts : List DVT) : Prop := ∀ j, ts.countP (holdsUpd j) = if s.upd j then 1 else 0
def E2 (s : DVS) (ts : List DVT) : Prop := ∀ j, ts.countP (holdsEx j) = if s.ex j then 1 else 0
def E3 (s : DVS) (ts : List DVT) : Prop := ts.countP holdsD = if s.dUpd then 1 else 0

/-- closes a counting goal by cases on the lock bit `c` -/
macro "dvar_count " c:term : tactic =>
  `(tactic| (cases hc : ($c : Bool) <;> simp [holdsUpd, holdsEx, holdsD, Kont.isW, setAt, *] at * <;> omega))

variable {n : Nat} {f : (Nat → Int) → Int} {trig : Nat → Bool} {s s' : DVS} {t t' : DVT} {pre post : List DVT}

theorem E1_pres (h : E1 s (pre ++ t :: post)) (hs : DVStep n f trig s t s' t') : E1 s' (pre ++ t' :: post) := by
  intro j
  have hj := h j
  rw [countP_mid] at hj ⊢
  generalize pre.countP (holdsUpd j) = a at hj ⊢
  generalize post.countP (holdsUpd j) = b at hj ⊢
  clear h
  cases hs with
  | lock i v sc h =>
    by_cases hij : j = i
    · subst hij; dvar_count (s.upd j)
    · dvar_count (s.upd j)
  | same i v sc h => simpa [holdsUpd] using hj
  | write i v sc h hr => simpa [holdsUpd] using hj
  | writeU i v sc h hr => simpa [holdsUpd] using hj
  | enter i v sc h => simpa [holdsUpd, Kont.isW] using hj
  | register i rest h hr => simpa [holdsUpd, Kont.isW] using hj
  | skip i rest h hr hz ht => simpa [holdsUpd, Kont.isW] using hj
  | begin i v k h => simpa [holdsUpd] using hj
  | read i v snap j0 todo k => simpa [holdsUpd] using hj
  | commit i v snap k => simpa [holdsUpd] using hj
  | relD i k => simpa [holdsUpd] using hj
  | relExW i sc => simpa [holdsUpd, Kont.isW] using hj
  | relExC i rest => simpa [holdsUpd, Kont.isW] using hj
  | relU i sc =>
    by_cases hij : j = i
    · subst hij; dvar_count (s.upd j)
    · dvar_count (s.upd j)

theorem E2_pres (h : E2 s (pre ++ t :: post)) (hs : DVStep n f trig s t s' t') : E2 s' (pre ++ t' :: post) := by
  intro j
  have hj := h j
  rw [countP_mid] at hj ⊢
  generalize pre.countP (holdsEx j) = a at hj ⊢
  generalize post.countP (holdsEx j) = b at hj ⊢
  clear h
  cases hs with
  | lock i v sc h => simpa [holdsEx] using hj
  | same i v sc h => simpa [holdsEx] using hj
  | write i v sc h hr => simpa [holdsEx] using hj
  | writeU i v sc h hr => simpa [holdsEx] using hj
  | enter i v sc h =>
    by_cases hij : j = i
    · subst hij; dvar_count (s.ex j)
    · dvar_count (s.ex j)
  | register i rest h hr =>
    by_cases hij : j = i
    · subst hij; dvar_count (s.ex j)
    · dvar_count (s.ex j)
  | skip i rest h hr hz ht =>
    by_cases hij : j = i
    · subst hij; dvar_count (s.ex j)
    · dvar_count (s.ex j)
  | begin i v k h => simpa [holdsEx] using hj
  | read i v snap j0 todo k => simpa [holdsEx] using hj
  | commit i v snap k => simpa [holdsEx] using hj
  | relD i k => simpa [holdsEx] using hj
  | relExW i sc =>
    by_cases hij : j = i
    · subst hij; dvar_count (s.ex j)
    · dvar_count (s.ex j)
  | relExC i rest =>
    by_cases hij : j = i
    · subst hij; dvar_count (s.ex j)
    · dvar_count (s.ex j)
  | relU i sc => simpa [holdsEx] using hj

theorem E3_pres (h : E3 s (pre ++ t :: post)) (hs : DVStep n f trig s t s' t') : E3 s' (pre ++ t' :: post) := by
  have hj := h
  unfold E3 at hj ⊢
  rw [countP_mid] at hj ⊢
  generalize pre.countP holdsD = a at hj ⊢
  generalize post.countP holdsD = b at hj ⊢
  clear h
  cases hs with
  | lock i v sc h => simpa [holdsD] using hj
  | same i v sc h => simpa [holdsD] using hj
  | write i v sc h hr => simpa [holdsD] using hj
  | writeU i v sc h hr => simpa [holdsD] using hj
  | enter i v sc h => simpa [holdsD] using hj
  | register i rest h hr => simpa [holdsD] using hj
  | skip i rest h hr hz ht => simpa [holdsD] using hj
  | begin i v k h => dvar_count (s.dUpd)
  | read i v snap j0 todo k => simpa [holdsD] using hj
  | commit i v snap k => simpa [holdsD] using hj
  | relD i k => dvar_count (s.dUpd)
  | relExW i sc => simpa [holdsD] using hj
  | relExC i rest => simpa [holdsD] using hj
  | relU i sc => simpa [holdsD] using hj

/-! ## Registration bookkeeping -/

/-- inputs still to be subscribed to are real inputs -/
def C1 (n : Nat) (ts : List DVT) : Prop := ∀ u ∈ ts, ∀ j ∈ ctorTodo u, j < n
/-- only real inputs get a callback -/
def I7 (n : Nat) (s : DVS) : Prop := ∀ j, s.reg j = true → j < n
/-- a callback is only ever run for a registered input -/
def I5 (s : DVS) (ts : List DVT) : Prop := ∀ u ∈ ts, ∀ j, inflight j u = true → s.reg j = true
/-- `d` is the result of the last commit, unless the constructor has not committed yet -/
def I1 (f : (Nat → Int) → Int) (s : DVS) (ts : List DVT) : Prop :=
  s.d = f s.seen ∨ ∃ w ∈ ts, ctorEarly w = true
/-- every input is subscribed or still on the constructor's list -/
def P (n : Nat) (s : DVS) (ts : List DVT) : Prop :=
  ∀ j, j < n → s.reg j = true ∨ ∃ w ∈ ts, j ∈ ctorTodo w

theorem todo_sub (hs : DVStep n f trig s t s' t') : ∀ j ∈ ctorTodo t', j ∈ ctorTodo t := by
  cases hs <;> simp [ctorTodo, Kont.todo] <;> (intro j hj; exact Or.inr hj)

theorem reg_mono (hs : DVStep n f trig s t s' t') (j : Nat) (h : s.reg j = true) : s'.reg j = true := by
  cases hs <;> simp [setAt, h]

/-- the subscription to the last input of a constructor's list is made with `triggerWithInitialZeroValue` -/
def LOK (trig : Nat → Bool) (t : DVT) : Prop := ∀ l, (ctorTodo t).getLast? = some l → trig l = true
def L (trig : Nat → Bool) (ts : List DVT) : Prop := ∀ u ∈ ts, LOK trig u

theorem todo_step (hs : DVStep n f trig s t s' t') : ctorTodo t' = ctorTodo t ∨ ∃ i, ctorTodo t = i :: ctorTodo t' := by
  cases hs <;> simp [ctorTodo, Kont.todo]

theorem getLast?_tail {α : Type} (i : α) (r : List α) (l : α) (h : r.getLast? = some l) :
    (i :: r).getLast? = some l := by
  cases r with
  | nil => simp at h
  | cons a r => simpa [List.getLast?_cons_cons] using h

theorem L_pres (h : L trig (pre ++ t :: post)) (hs : DVStep n f trig s t s' t') : L trig (pre ++ t' :: post) := by
  intro u hu l hl
  rcases mem_mid.1 hu with rfl | hu
  · rcases todo_step hs with e | ⟨i, e⟩
    · exact h t mem_mid_self l (by rw [← e]; exact hl)
    · exact h t mem_mid_self l (by rw [e]; exact getLast?_tail i _ l hl)
  · exact h u (mem_mid_rest hu) l hl

/-- a subscription that does not trigger is not the constructor's last one -/
theorem skip_rest {i : Nat} {rest : List Nat} (hL : LOK trig (.cIdle (i :: rest))) (ht : trig i = false) :
    rest.isEmpty = false := by
  cases rest with
  | nil =>
    have := hL i (by simp [ctorTodo])
    simp [ht] at this
  | cons a r => rfl

/-- a pending constructor stays pending until it enters `d.Compute` (which needs `d`'s update-order mutex) -/
theorem pend_keep (hL : LOK trig t) (hs : DVStep n f trig s t s' t') (hp : pend t = true) :
    pend t' = true ∨ s.dUpd = false := by
  cases hs with
  | begin i v k h => exact Or.inr h
  | skip i rest he hr hz ht => exact Or.inl (by simp [pend, Kont.isW, Kont.todo, skip_rest hL ht])
  | _ => left; simp_all [pend, Kont.isW, Kont.todo]

theorem early_keep (hL : LOK trig t) (hs : DVStep n f trig s t s' t') (he : ctorEarly t = true) :
    ctorEarly t' = true ∨ (∃ i v snap k, t = .comp i v snap [] k) := by
  cases hs with
  | commit i v snap k => exact Or.inr ⟨_, _, _, _, rfl⟩
  | skip i rest he hr hz ht => exact Or.inl (by simp [ctorEarly, pend, Kont.isW, Kont.todo, skip_rest hL ht])
  | _ => left; simp_all [ctorEarly, pend, Kont.isW, Kont.todo]

theorem C1_pres (h : C1 n (pre ++ t :: post)) (hs : DVStep n f trig s t s' t') : C1 n (pre ++ t' :: post) := by
  intro u hu j hj
  rcases mem_mid.1 hu with rfl | hu
  · exact h t mem_mid_self j (todo_sub hs j hj)
  · exact h u (mem_mid_rest hu) j hj

theorem I7_pres (hc : C1 n (pre ++ t :: post)) (h : I7 n s) (hs : DVStep n f trig s t s' t') : I7 n s' := by
  intro j hj
  have ht := hc t mem_mid_self
  cases hs with
  | register i rest he hr =>
    by_cases hij : j = i
    · subst hij; exact ht j (by simp [ctorTodo])
    · exact h j (by simpa [setAt, hij] using hj)
  | skip i rest he hr hz htr =>
    by_cases hij : j = i
    · subst hij; exact ht j (by simp [ctorTodo])
    · exact h j (by simpa [setAt, hij] using hj)
  | _ => exact h j hj

theorem I5_pres (h : I5 s (pre ++ t :: post)) (hs : DVStep n f trig s t s' t') : I5 s' (pre ++ t' :: post) := by
  intro u hu j hj
  rcases mem_mid.1 hu with rfl | hu
  · have ht := h t mem_mid_self j
    cases hs <;> simp_all [inflight, setAt]
  · exact reg_mono hs j (h u (mem_mid_rest hu) j hj)

theorem I1_pres (hL : L trig (pre ++ t :: post)) (h : I1 f s (pre ++ t :: post)) (hs : DVStep n f trig s t s' t') :
    I1 f s' (pre ++ t' :: post) := by
  have hLt := hL t mem_mid_self
  cases hs with
  | commit i v snap k => exact Or.inl rfl
  | skip i rest he hr hz ht =>
    exact h.imp id (fun hw => exists_mid hw
      (fun _ => by simp [ctorEarly, pend, Kont.isW, Kont.todo, skip_rest hLt ht]))
  | _ => exact h.imp id (fun hw => exists_mid hw (by simp [ctorEarly, pend, Kont.isW, Kont.todo]))

theorem P_pres (h : P n s (pre ++ t :: post)) (hs : DVStep n f trig s t s' t') : P n s' (pre ++ t' :: post) := by
  intro j hj
  rcases h j hj with hr | hw
  · exact Or.inl (reg_mono hs j hr)
  · cases hs with
    | register i rest he hr =>
      obtain ⟨w, hw, hjw⟩ := hw
      rcases mem_mid.1 hw with rfl | hw
      · simp only [ctorTodo, List.mem_cons] at hjw
        rcases hjw with rfl | hjw
        · exact Or.inl (by simp)
        · exact Or.inr (exists_new (by simpa [ctorTodo, Kont.todo] using hjw))
      · exact Or.inr ⟨w, mem_mid_rest hw, hjw⟩
    | skip i rest he hr hz htr =>
      obtain ⟨w, hw, hjw⟩ := hw
      rcases mem_mid.1 hw with rfl | hw
      · simp only [ctorTodo, List.mem_cons] at hjw
        rcases hjw with rfl | hjw
        · exact Or.inl (by simp)
        · exact Or.inr (exists_new (by simpa [ctorTodo, Kont.todo] using hjw))
      · exact Or.inr ⟨w, mem_mid_rest hw, hjw⟩
    | _ => exact Or.inr (exists_mid hw (by simp [ctorTodo, Kont.todo]))

/-! ## The argument of a running callback -/

/-- a writer's callback argument is the current value of its input (it holds the update-order mutex) -/
def wArg (val : Nat → Int) : DVT → Prop
  | .wrote i v _ => val i = v
  | .inCb i v k => k.isW = true → val i = v
  | .comp i v _ _ k => k.isW = true → val i = v
  | _ => True

def I6 (s : DVS) (ts : List DVT) : Prop := ∀ u ∈ ts, wArg s.val u

theorem wArg_setAt {val : Nat → Int} {i : Nat} {v : Int} {u : DVT} (hx : holdsUpd i u = false)
    (h : wArg val u) : wArg (setAt val i v) u := by
  cases u with
  | wrote i' v' sc =>
    have hne : i' ≠ i := by intro e; subst e; simp [holdsUpd] at hx
    simpa [wArg, setAt_other _ _ _ _ hne] using h
  | inCb i' v' k =>
    intro hk
    have hne : i' ≠ i := by intro e; subst e; simp [holdsUpd, hk] at hx
    simpa [setAt_other _ _ _ _ hne] using h hk
  | comp i' v' snap todo k =>
    intro hk
    have hne : i' ≠ i := by intro e; subst e; simp [holdsUpd, hk] at hx
    simpa [setAt_other _ _ _ _ hne] using h hk
  | _ => trivial

theorem I6_pres (hE : E1 s (pre ++ t :: post)) (h : I6 s (pre ++ t :: post)) (hs : DVStep n f trig s t s' t') :
    I6 s' (pre ++ t' :: post) := by
  intro u hu
  rcases mem_mid.1 hu with rfl | hu2
  · have ht := h t mem_mid_self
    cases hs <;> simp_all [wArg, Kont.isW]
  · have hu' := h u (mem_mid_rest hu2)
    cases hs with
    | write i v sc hv hr =>
      exact wArg_setAt (excl_of_count (hE i) (by simp [holdsUpd]) hu2) hu'
    | writeU i v sc hv hr =>
      exact wArg_setAt (excl_of_count (hE i) (by simp [holdsUpd]) hu2) hu'
    | _ => exact hu'

/-- the constructor's callback argument may be stale, but then a writer is waiting for the execution lock -/
def cArg (val : Nat → Int) (ts : List DVT) : DVT → Prop
  | .inCb i v k => k.isW = false → val i ≠ v → ∃ w ∈ ts, isWrote i w = true
  | .comp i v _ _ k => k.isW = false → val i ≠ v → ∃ w ∈ ts, isWrote i w = true
  | _ => True

def I4 (s : DVS) (ts : List DVT) : Prop := ∀ u ∈ ts, cArg s.val ts u

/-- a change of a registered input leaves the writer in state `wrote` -/
theorem val_change (hs : DVStep n f trig s t s' t') (j : Nat) (hr : s.reg j = true) (hne : s'.val j ≠ s.val j) :
    isWrote j t' = true := by
  cases hs with
  | write i v sc hv hr =>
    by_cases hij : j = i
    · simp [isWrote, hij]
    · simp [setAt, hij] at hne
  | writeU i v sc hv hr' =>
    by_cases hij : j = i
    · subst hij; simp [hr] at hr'
    · simp [setAt, hij] at hne
  | _ => exact absurd rfl hne

/-- a thread leaves state `wrote` only by taking the free execution lock -/
theorem wrote_leave (hs : DVStep n f trig s t s' t') (j : Nat) (hw : isWrote j t = true) :
    isWrote j t' = true ∨ s.ex j = false := by
  cases hs <;> simp_all [isWrote]

theorem I4_pres (hE : E2 s (pre ++ t :: post)) (h5 : I5 s (pre ++ t :: post)) (h : I4 s (pre ++ t :: post))
    (hs : DVStep n f trig s t s' t') : I4 s' (pre ++ t' :: post) := by
  intro u hu
  rcases mem_mid.1 hu with rfl | hu2
  · have ht := h t mem_mid_self
    cases hs with
    | begin i v k hd => intro hk hne; exact exists_mid (ht hk hne) (by simp [isWrote])
    | read i v snap j todo k => intro hk hne; exact exists_mid (ht hk hne) (by simp [isWrote])
    | register i rest he hr => intro _ hne; exact absurd rfl hne
    | skip i rest he hr hz htr => trivial
    | enter i v sc he => intro hk; simp [Kont.isW] at hk
    | _ => trivial
  · have hu' := h u (mem_mid_rest hu2)
    have key : ∀ i (v : Int), holdsEx i u = true → inflight i u = true →
        (s.val i ≠ v → ∃ w ∈ pre ++ t :: post, isWrote i w = true) →
        s'.val i ≠ v → ∃ w ∈ pre ++ t' :: post, isWrote i w = true := by
      intro i v hex hin hold hne
      by_cases hc : s'.val i = s.val i
      · rw [hc] at hne
        refine exists_mid (hold hne) (fun hw => ?_)
        rcases wrote_leave hs i hw with h' | h'
        · exact h'
        · have := free_of_count (hE i) h' (mem_mid_rest hu2)
          simp [hex] at this
      · exact exists_new (val_change hs i (h5 u (mem_mid_rest hu2) i hin) hc)
    cases u with
    | inCb i v k => intro hk; exact key i v (by simp [holdsEx]) (by simp [inflight]) (hu' hk)
    | comp i v snap todo k => intro hk; exact key i v (by simp [holdsEx]) (by simp [inflight]) (hu' hk)
    | _ => trivial

/-! ## Coverage of stale reads by threads in flight -/

def committing : DVT → Bool
  | .comp _ _ _ [] _ => true
  | _ => false

theorem committing_holdsD {t : DVT} (h : committing t = true) : holdsD t = true := by
  cases t with
  | comp i v snap todo k => rfl
  | _ => simp [committing] at h

/-- a thread stays in flight until it commits -/
theorem inflight_keep (hs : DVStep n f trig s t s' t') (j : Nat) (hin : inflight j t = true) :
    inflight j t' = true ∨ committing t = true := by
  cases hs <;> simp_all [inflight, committing]

/-- every change of a (now) registered input, and every registration, puts the moving thread in flight — or, for a
registration that does not trigger, leaves a constructor that has further inputs to subscribe to -/
theorem cover (hL : LOK trig t) (hs : DVStep n f trig s t s' t') (j : Nat) (hreg : s'.reg j = true)
    (hch : s.reg j = false ∨ s'.val j ≠ s.val j) : inflight j t' = true ∨ pend t' = true := by
  cases hs with
  | write i v sc hv hr =>
    left
    by_cases hij : j = i
    · simp [inflight, hij]
    · rcases hch with h | h
      · simp [show s.reg j = true from hreg] at h
      · simp [setAt, hij] at h
  | writeU i v sc hv hr =>
    left
    by_cases hij : j = i
    · subst hij; simp [hr] at hreg
    · rcases hch with h | h
      · simp [show s.reg j = true from hreg] at h
      · simp [setAt, hij] at h
  | register i rest he hr =>
    left
    by_cases hij : j = i
    · simp [inflight, hij]
    · rcases hch with h | h
      · simp [setAt, hij, h] at hreg
      · exact absurd rfl h
  | skip i rest he hr hz ht =>
    by_cases hij : j = i
    · right; simp [pend, Kont.isW, Kont.todo, skip_rest hL ht]
    · rcases hch with h | h
      · simp [setAt, hij, h] at hreg
      · exact absurd rfl h
  | _ =>
    rcases hch with h | h
    · simp [show s.reg j = true from hreg] at h
    · exact absurd rfl h

/-- the reads done so far by a recompute are current, or covered by a thread in flight, or a constructor will still
start a complete recompute (a registration that did not trigger may have left a stale read uncovered) -/
def compOK (n : Nat) (val : Nat → Int) (reg : Nat → Bool) (ts : List DVT) : DVT → Prop
  | .comp i _ snap todo _ => ∀ j, j ≠ i → j < n → j ∉ todo → reg j = true → snap j ≠ val j →
      (∃ w ∈ ts, inflight j w = true) ∨ (∃ w ∈ ts, pend w = true)
  | _ => True

def I3 (n : Nat) (s : DVS) (ts : List DVT) : Prop := ∀ u ∈ ts, compOK n s.val s.reg ts u

theorem I3_pres (hL : L trig (pre ++ t :: post)) (hE : E3 s (pre ++ t :: post)) (h : I3 n s (pre ++ t :: post))
    (hs : DVStep n f trig s t s' t') : I3 n s' (pre ++ t' :: post) := by
  have hLt := hL t mem_mid_self
  intro u hu
  rcases mem_mid.1 hu with rfl | hu2
  · have ht := h t mem_mid_self
    cases hs with
    | begin i v k hd =>
      intro j hji hjn hjt
      exact absurd (by simp [List.mem_filter, hjn, hji]) hjt
    | read i v snap j0 todo k =>
      intro j hji hjn hjt hreg hne
      by_cases hj0 : j = j0
      · subst hj0; simp at hne
      · rw [setAt_other _ _ _ _ hj0] at hne
        rcases ht j hji hjn (by simp [hj0, hjt]) hreg hne with hh | hh
        · exact Or.inl (exists_mid hh (by simp [inflight]))
        · exact Or.inr (exists_mid hh (by simp [pend]))
    | _ => trivial
  · have hu' := h u (mem_mid_rest hu2)
    cases u with
    | comp i v snap todo k =>
      intro j hji hjn hjt hreg hne
      by_cases hc : s.reg j = true ∧ s'.val j = s.val j
      · rw [hc.2] at hne
        rcases hu' j hji hjn hjt hc.1 hne with hh | hh
        · refine Or.inl (exists_mid hh (fun hin => ?_))
          rcases inflight_keep hs j hin with h' | h'
          · exact h'
          · have := excl_of_count hE (committing_holdsD h') hu2
            simp [holdsD] at this
        · refine Or.inr (exists_mid hh (fun hp => ?_))
          rcases pend_keep hLt hs hp with h' | h'
          · exact h'
          · have := free_of_count hE h' (mem_mid_rest hu2)
            simp [holdsD] at this
      · have hch : s.reg j = false ∨ s'.val j ≠ s.val j := by
          cases hr : s.reg j with
          | false => exact Or.inl rfl
          | true => exact Or.inr (fun e => hc ⟨hr, e⟩)
        rcases cover hLt hs j hreg hch with h' | h'
        · exact Or.inl (exists_new h')
        · exact Or.inr (exists_new h')
    | _ => trivial

/-! ## The committed vector -/

/-- every difference between the committed vector and the inputs is covered by a thread in flight, or by a
constructor that will still commit a complete recompute -/
def I2 (s : DVS) (ts : List DVT) : Prop :=
  ∀ j, s.reg j = true → s.seen j ≠ s.val j →
    (∃ w ∈ ts, inflight j w = true) ∨ (∃ w ∈ ts, ctorEarly w = true)

theorem isWrote_inflight {j : Nat} {w : DVT} (h : isWrote j w = true) : inflight j w = true := by
  cases w <;> simp_all [isWrote, inflight]

theorem seen_same (hs : DVStep n f trig s t s' t') (hnc : committing t = false) : s'.seen = s.seen := by
  cases hs <;> first | rfl | simp [committing] at hnc

theorem I2_pres (hL : L trig (pre ++ t :: post)) (h3 : I3 n s (pre ++ t :: post)) (h4 : I4 s (pre ++ t :: post))
    (h6 : I6 s (pre ++ t :: post))
    (h7 : I7 n s) (h : I2 s (pre ++ t :: post)) (hs : DVStep n f trig s t s' t') : I2 s' (pre ++ t' :: post) := by
  have hLt := hL t mem_mid_self
  intro j hreg hne
  cases hcm : committing t with
  | false =>
    rw [seen_same hs hcm] at hne
    by_cases hc : s.reg j = true ∧ s'.val j = s.val j
    · rw [hc.2] at hne
      rcases h j hc.1 hne with hh | hh
      · refine Or.inl (exists_mid hh (fun hin => ?_))
        rcases inflight_keep hs j hin with h' | h'
        · exact h'
        · simp [hcm] at h'
      · refine Or.inr (exists_mid hh (fun he => ?_))
        rcases early_keep hLt hs he with h' | ⟨i, v, snap, k, rfl⟩
        · exact h'
        · simp [committing] at hcm
    · have hch : s.reg j = false ∨ s'.val j ≠ s.val j := by
        cases hr : s.reg j with
        | false => exact Or.inl rfl
        | true => exact Or.inr (fun e => hc ⟨hr, e⟩)
      rcases cover hLt hs j hreg hch with h' | h'
      · exact Or.inl (exists_new h')
      · exact Or.inr (exists_new (pend_early h'))
  | true =>
    have ht3 := h3 t mem_mid_self
    have ht4 := h4 t mem_mid_self
    have ht6 := h6 t mem_mid_self
    cases hs with
    | commit i v snap k =>
      by_cases hij : j = i
      · subst hij
        have hne' : s.val j ≠ v := by
          intro e; apply hne; simp [e]
        cases hk : k.isW with
        | true => exact absurd (ht6 hk) hne'
        | false =>
          obtain ⟨w, hw, hq⟩ := exists_mid (ht4 hk hne') (t' := DVT.rel1 j k) (by simp [isWrote])
          exact Or.inl ⟨w, hw, isWrote_inflight hq⟩
      · have hne' : snap j ≠ s.val j := by
          intro e; apply hne; simp [setAt, hij, e]
        rcases ht3 j hij (h7 j hreg) (by simp) hreg hne' with hh | hh
        · exact Or.inl (exists_mid hh (by simp [inflight, hij]))
        · obtain ⟨w, hw, hq⟩ := exists_mid hh (t' := DVT.rel1 i k) (by simp [pend])
          exact Or.inr ⟨w, hw, pend_early hq⟩
    | _ => simp [committing] at hcm

/-! ## The combined invariant -/

structure Inv (n : Nat) (f : (Nat → Int) → Int) (trig : Nat → Bool) (c : Cfg DVS DVT) : Prop where
  e1 : E1 c.1 c.2
  e2 : E2 c.1 c.2
  e3 : E3 c.1 c.2
  c1 : C1 n c.2
  i7 : I7 n c.1
  i5 : I5 c.1 c.2
  i6 : I6 c.1 c.2
  i4 : I4 c.1 c.2
  i3 : I3 n c.1 c.2
  i2 : I2 c.1 c.2
  i1 : I1 f c.1 c.2
  p : P n c.1 c.2
  l : L trig c.2

theorem Inv_step (a b : Cfg DVS DVT) (h : Inv n f trig a) (hs : Step (dvSys n f trig) a b) : Inv n f trig b := by
  cases hs with
  | mk s pre t post s' t' hmem =>
    have hd : DVStep n f trig s t s' t' := dvStep_sound hmem
    exact ⟨E1_pres h.e1 hd, E2_pres h.e2 hd, E3_pres h.e3 hd, C1_pres h.c1 hd, I7_pres h.c1 h.i7 hd,
      I5_pres h.i5 hd, I6_pres h.e1 h.i6 hd, I4_pres h.e2 h.i5 h.i4 hd, I3_pres h.l h.e3 h.i3 hd,
      I2_pres h.l h.i3 h.i4 h.i6 h.i7 h.i2 hd, I1_pres h.l h.i1 hd, P_pres h.p hd, L_pres h.l hd⟩

/-- Initial configurations: all locks free, only idle writers and constructors that have not started. -/
theorem Inv_init (s : DVS) (ts : List DVT)
    (hts : ∀ u ∈ ts, (∃ r, u = DVT.cIdle r ∧ ∀ j ∈ r, j < n) ∨ ∃ sc, u = DVT.idle sc)
    (hu : ∀ j, s.upd j = false) (he : ∀ j, s.ex j = false) (hd : s.dUpd = false)
    (h7 : I7 n s) (h2 : ∀ j, s.reg j = true → s.seen j = s.val j) (h1 : I1 f s ts) (hp : P n s ts)
    (hl : L trig ts) :
    Inv n f trig (s, ts) where
  e1 := by
    intro j
    simp only [hu j, Bool.false_eq_true, if_false]
    rw [List.countP_eq_zero]
    intro u hmem
    rcases hts u hmem with ⟨r, rfl, _⟩ | ⟨sc, rfl⟩ <;> simp [holdsUpd]
  e2 := by
    intro j
    simp only [he j, Bool.false_eq_true, if_false]
    rw [List.countP_eq_zero]
    intro u hmem
    rcases hts u hmem with ⟨r, rfl, _⟩ | ⟨sc, rfl⟩ <;> simp [holdsEx]
  e3 := by
    show List.countP holdsD ts = if s.dUpd then 1 else 0
    simp only [hd, Bool.false_eq_true, if_false]
    rw [List.countP_eq_zero]
    intro u hmem
    rcases hts u hmem with ⟨r, rfl, _⟩ | ⟨sc, rfl⟩ <;> simp [holdsD]
  c1 := by
    intro u hmem j hj
    rcases hts u hmem with ⟨r, rfl, hr⟩ | ⟨sc, rfl⟩
    · exact hr j hj
    · simp [ctorTodo] at hj
  i7 := h7
  i5 := by
    intro u hmem j hj
    rcases hts u hmem with ⟨r, rfl, _⟩ | ⟨sc, rfl⟩ <;> simp [inflight] at hj
  i6 := by
    intro u hmem
    rcases hts u hmem with ⟨r, rfl, _⟩ | ⟨sc, rfl⟩ <;> trivial
  i4 := by
    intro u hmem
    rcases hts u hmem with ⟨r, rfl, _⟩ | ⟨sc, rfl⟩ <;> trivial
  i3 := by
    intro u hmem
    rcases hts u hmem with ⟨r, rfl, _⟩ | ⟨sc, rfl⟩ <;> trivial
  i2 := fun j hr hne => absurd (h2 j hr) hne
  i1 := h1
  p := hp
  l := hl

theorem fin_cases {t : DVT} (h : t.finished = true) : t = DVT.idle [] ∨ t = DVT.cIdle [] := by
  cases t with
  | idle sc =>
    cases sc with
    | nil => exact Or.inl rfl
    | cons => simp [DVT.finished] at h
  | cIdle r =>
    cases r with
    | nil => exact Or.inr rfl
    | cons => simp [DVT.finished] at h
  | _ => simp [DVT.finished] at h

/-- In a quiescent configuration satisfying the invariant the derived value is up to date. -/
theorem quiescent_of_inv (hf : ∀ a b : Nat → Int, (∀ j, j < n → a j = b j) → f a = f b)
    {c : Cfg DVS DVT} (h : Inv n f trig c) (hq : ∀ t ∈ c.2, t.finished = true) : c.1.d = f c.1.val := by
  have h1 : c.1.d = f c.1.seen := by
    rcases h.i1 with h1 | ⟨w, hw, hearly⟩
    · exact h1
    · rcases fin_cases (hq w hw) with rfl | rfl <;> simp [ctorEarly, pend] at hearly
  rw [h1]
  apply hf
  intro j hj
  have hreg : c.1.reg j = true := by
    rcases h.p j hj with hr | ⟨w, hw, hjw⟩
    · exact hr
    · rcases fin_cases (hq w hw) with rfl | rfl <;> simp [ctorTodo] at hjw
  by_cases e : c.1.seen j = c.1.val j
  · exact e
  · rcases h.i2 j hreg e with ⟨w, hw, hin⟩ | ⟨w, hw, hin⟩
    · rcases fin_cases (hq w hw) with rfl | rfl <;> simp [inflight] at hin
    · rcases fin_cases (hq w hw) with rfl | rfl <;> simp [ctorEarly, pend] at hin

end DVar
open DVar

theorem getLast?_range_eq {n l : Nat} (h : (List.range n).getLast? = some l) : l = n - 1 := by
  cases n with
  | zero => simp at h
  | succ m =>
    rw [List.range_succ, List.getLast?_append] at h
    simp at h
    omega

/-- Main: construction concurrent with writers.  `trig i` is the `triggerWithInitialZeroValue` flag of the
subscription to input `i`; what the result needs is the flag of the **last** subscription (that one recomputes from
all inputs whatever their values are) — `dv_quiescent_needs_last_flag` shows it cannot be dropped. -/
theorem dv_quiescent (n : Nat) (hn : 0 < n) (f : (Nat → Int) → Int) (trig : Nat → Bool) (htrig : trig (n - 1) = true)
    (hf : ∀ a b : Nat → Int, (∀ j, j < n → a j = b j) → f a = f b)
    (val0 : Nat → Int) (d0 : Int) (writers : List (List (Nat × Int))) (c : Cfg DVS DVT)
    (hr : Reach (dvSys n f trig) (DVS.fresh val0 d0, DVT.cIdle (List.range n) :: writers.map DVT.idle) c)
    (hq : ∀ t ∈ c.2, t.finished = true) :
    c.1.d = f c.1.val := by
  refine quiescent_of_inv hf (inv_induction (Inv n f trig) ?_ Inv_step hr) hq
  apply Inv_init
  · intro u hu
    simp only [List.mem_cons, List.mem_map] at hu
    rcases hu with rfl | ⟨sc, _, rfl⟩
    · exact Or.inl ⟨_, rfl, fun j hj => List.mem_range.1 hj⟩
    · exact Or.inr ⟨sc, rfl⟩
  · intro j; rfl
  · intro j; rfl
  · rfl
  · intro j hj; simp [DVS.fresh] at hj
  · intro j hj; simp [DVS.fresh] at hj
  · refine Or.inr ⟨_, List.mem_cons_self, ?_⟩
    cases hrn : List.range n with
    | nil =>
      have := congrArg List.length hrn
      simp at this
      omega
    | cons a r => rfl
  · intro j hj
    exact Or.inr ⟨_, List.mem_cons_self, by simpa [ctorTodo] using hj⟩
  · intro u hu l hl
    simp only [List.mem_cons, List.mem_map] at hu
    rcases hu with rfl | ⟨sc, _, rfl⟩
    · have hl' : (List.range n).getLast? = some l := by simpa [ctorTodo] using hl
      rw [getLast?_range_eq hl']; exact htrig
    · simp [ctorTodo] at hl

/-- Steady state: the derived variable already exists (all `n` callbacks registered, value up to
date), only writers. -/
theorem dv_quiescent_steady (n : Nat) (f : (Nat → Int) → Int) (trig : Nat → Bool)
    (hf : ∀ a b : Nat → Int, (∀ j, j < n → a j = b j) → f a = f b)
    (val0 : Nat → Int) (writers : List (List (Nat × Int))) (c : Cfg DVS DVT)
    (hr : Reach (dvSys n f trig)
      ({ val := val0, upd := fun _ => false, ex := fun _ => false, reg := fun i => decide (i < n), dUpd := false,
         d := f val0, seen := val0 }, writers.map DVT.idle) c)
    (hq : ∀ t ∈ c.2, t.finished = true) :
    c.1.d = f c.1.val := by
  refine quiescent_of_inv hf (inv_induction (Inv n f trig) ?_ Inv_step hr) hq
  apply Inv_init
  · intro u hu
    simp only [List.mem_map] at hu
    obtain ⟨sc, _, rfl⟩ := hu
    exact Or.inr ⟨sc, rfl⟩
  · intro j; rfl
  · intro j; rfl
  · rfl
  · intro j hj; simpa using hj
  · intro j _; rfl
  · exact Or.inl rfl
  · intro j hj
    exact Or.inl (by simpa using hj)
  · intro u hu l hl
    simp only [List.mem_map] at hu
    obtain ⟨sc, _, rfl⟩ := hu
    simp [ctorTodo] at hl

/-- The hypothesis `0 < n` of `dv_quiescent` is needed: without inputs no callback ever runs, so `d`
keeps its initial value whatever `f` is. -/
theorem dv_quiescent_needs_input :
    ¬ (∀ (f : (Nat → Int) → Int) (val0 : Nat → Int) (d0 : Int) (c : Cfg DVS DVT),
        Reach (dvSys 0 f (fun _ => true)) (DVS.fresh val0 d0, [DVT.cIdle (List.range 0)]) c →
        (∀ t ∈ c.2, t.finished = true) → c.1.d = f c.1.val) := by
  intro h
  have h' := h (fun _ => 0) (fun _ => 0) 1 _ (Reach.refl _) (by simp [DVT.finished])
  simp [DVS.fresh] at h'

/-- The schedule of the missing last flag: the constructor of a two-input variable computes the initial value from
`(1, 5)` (first subscription, paused in front of the commit), a writer clears input 1 (nobody is subscribed to it
yet), the constructor commits and subscribes to input 1, which holds the zero value. -/
def dvLastFlagSched : List (Nat × Nat) :=
  [(0, 0), (0, 0), (0, 0), (1, 0), (1, 0), (1, 0), (0, 0), (0, 0), (0, 0), (0, 0), (0, 0)]

def dvLastFlagInit : Cfg DVS DVT :=
  (DVS.fresh (fun i => if i == 0 then 1 else if i == 1 then 5 else 0) 0, [DVT.cIdle (List.range 2), DVT.idle [(1, 0)]])

/-- The hypothesis on the last subscription's flag is needed: with `triggerWithInitialZeroValue` only on the first
of two subscriptions the schedule above ends with every thread finished and `d = f (1, 5) = 15` although the inputs are
`(1, 0)`. -/
theorem dv_quiescent_needs_last_flag :
    let f : (Nat → Int) → Int := fun a => 10 * a 0 + a 1
    let c := runSched (dvSys 2 f (fun i => i == 0)) dvLastFlagInit dvLastFlagSched
    (c.2.all DVT.finished = true ∧ c.1.d = 15 ∧ f c.1.val = 10) := by
  decide

/-- A forced replay is a run of the system: every configuration `runThread` produces is reachable. -/
theorem runThread_reach {σ τ : Type} (S : Sys σ τ) (stop : τ → Bool) (i fuel : Nat) (c : Cfg σ τ) :
    Reach S c (runThread S stop i fuel c) := by
  induction fuel generalizing c with
  | zero => exact Reach.refl _
  | succ fuel ih =>
    obtain ⟨s, ts⟩ := c
    simp only [runThread]
    cases hi : ts[i]? with
    | none => exact Reach.refl _
    | some t =>
      simp only
      split
      · exact Reach.refl _
      · cases hj : (S.step s t)[0]? with
        | none => exact Reach.refl _
        | some st =>
          obtain ⟨s', t'⟩ := st
          simp only
          have h1 : runSched S (s, ts) [(i, 0)] = (s', ts.set i t') := by
            simp [runSched, hi, hj]
          have := runSched_reach S (s, ts) [(i, 0)]
          rw [h1] at this
          exact Reach.trans this (ih _)

theorem dvzPark_reach (S : Sys DVS DVT) (m : Nat) (c : Cfg DVS DVT) : Reach S c (dvzPark S m c) := by
  induction m generalizing c with
  | zero => exact Reach.refl _
  | succ m ih =>
    simp only [dvzPark]
    split
    · exact runThread_reach _ _ _ _ _
    · exact Reach.trans (Reach.trans (runThread_reach _ _ _ _ _) (runThread_reach _ _ _ _ _)) (ih _)

theorem dvwPark_reach (S : Sys DVS DVT) (k : Nat) (c : Cfg DVS DVT) : Reach S c (dvwPark S k c) := by
  induction k generalizing c with
  | zero => exact Reach.refl _
  | succ k ih =>
    simp only [dvwPark]
    split
    · exact Reach.trans (runThread_reach _ _ _ _ _) (runThread_reach _ _ _ _ _)
    · exact Reach.trans (Reach.trans (runThread_reach _ _ _ _ _) (runThread_reach _ _ _ _ _)) (ih _)

theorem dvwReplay_reach (n : Nat) (f : (Nat → Int) → Int) (trig : Nat → Bool) (inits : List Int) (k : Nat)
    (writes : List (Nat × Int)) :
    Reach (dvSys n f trig) (DVS.fresh (fun i => inits.getD i 0) 0, [DVT.cIdle (List.range n), DVT.idle writes])
      (dvwReplay n f trig inits k writes) := by
  unfold dvwReplay
  exact Reach.trans (Reach.trans (Reach.trans (dvwPark_reach _ _ _) (runThread_reach _ _ _ _ _)) (runThread_reach _ _ _ _ _))
    (runThread_reach _ _ _ _ _)

/-- The configuration the driver prints for a `dvz` line is a reachable configuration of `dvSys` from the initial one
(constructor + one writer), so whenever all threads are finished in it, `C14_derived_var` applies to it. -/
theorem dvzReplay_reach (n : Nat) (f : (Nat → Int) → Int) (trig : Nat → Bool) (inits : List Int) (m : Nat)
    (writes : List (Nat × Int)) :
    Reach (dvSys n f trig) (DVS.fresh (fun i => inits.getD i 0) 0, [DVT.cIdle (List.range n), DVT.idle writes])
      (dvzReplay n f trig inits m writes) := by
  unfold dvzReplay
  exact Reach.trans (Reach.trans (Reach.trans (dvzPark_reach _ _ _) (runThread_reach _ _ _ _ _)) (runThread_reach _ _ _ _ _))
    (runThread_reach _ _ _ _ _)

end Hive.Derived
