import Hive.Model.TypedValue
/-! Invariant and refinement lemmas for the `TypedValue` model. -/
namespace Hive.Typed

variable {V : Type}

/-- Whatever is cached equals what the store holds (under the codec). `both` is the structural
fact that makes the nil dereference in `Compute` unreachable. -/
structure Coherent (C : Codec V) (s : St V) : Prop where
  val : ∀ v, s.cv = some v → ∃ b, s.store = some b ∧ C.dec b = some v
  has : ∀ h, s.ch = some h → h = s.store.isSome
  both : s.cv.isSome = true → s.ch = some true

theorem coherent_fresh (C : Codec V) (raw : Option Bytes) : Coherent C (fresh raw : St V) := by
  constructor <;> simp [fresh]

/-- Error kind reported for a failed call. -/
def errOf : Call → Err
  | .kvGet | .kvHas | .kvSet | .kvDel => .kv
  | .dec => .dec
  | .enc => .enc
  | .fn => .fn

theorem decF_some {C : Codec V} {F : Faults} {b : Bytes} {v : V} (h : decF C F b = some v) :
    C.dec b = some v ∧ F.dec = false := by
  unfold decF at h; split at h <;> simp_all

theorem encF_some {C : Codec V} {F : Faults} {b : Bytes} {v : V} (h : encF C F v = some b) :
    C.enc v = some b ∧ F.enc = false := by
  unfold encF at h; split at h <;> simp_all

/-! ### coherence is preserved -/

theorem coherent_get {C : Codec V} {s : St V} (F : Faults) (h : Coherent C s) : Coherent C (get C s F).st := by
  unfold get
  split
  · exact h
  · split
    · exact h
    · split
      · exact h
      · split
        · rename_i hs
          constructor <;> simp_all
        · split
          · exact h
          · rename_i b hb v hv
            have := decF_some hv
            constructor <;> simp_all

theorem coherent_has {C : Codec V} {s : St V} (F : Faults) (h : Coherent C s) : Coherent C (has s F).st := by
  unfold has
  split
  · exact h
  · split
    · exact h
    · rename_i hch _
      constructor
      · exact h.val
      · simp
      · intro hv; have := h.both hv; simp_all

theorem coherent_set {C : Codec V} {s : St V} (v : V) (F : Faults) (hrt : C.RoundTrip) (h : Coherent C s) :
    Coherent C (set C s v F).st := by
  unfold set
  split
  · exact h
  · split
    · exact h
    · rename_i b hb _
      have := hrt v b (encF_some hb).1
      constructor <;> simp_all

theorem coherent_delete {C : Codec V} {s : St V} (F : Faults) (h : Coherent C s) : Coherent C (delete s F).st := by
  unfold delete
  split
  · exact h
  · constructor <;> simp

theorem coherent_computeWrite {C : Codec V} {s : St V} (f : V → Bool → FnRes V) (F : Faults) (k : Bool)
    (cur : V) (ex : Bool) (tr : List Ev) (hrt : C.RoundTrip) (h : Coherent C s) :
    Coherent C (computeWrite C s f F k cur ex tr).st := by
  unfold computeWrite
  split
  · exact h
  · exact h
  · split
    · exact h
    · split
      · exact h
      · rename_i _ nv _ _ b hb _
        have := hrt nv b (encF_some hb).1
        constructor <;> simp_all

theorem coherent_compute [Inhabited V] {C : Codec V} {s : St V} (f : V → Bool → FnRes V) (F : Faults)
    (hrt : C.RoundTrip) (h : Coherent C s) : Coherent C (compute C s f F).st := by
  unfold compute
  split
  · exact h
  · split
    · exact h
    · exact coherent_computeWrite f F _ _ _ _ hrt h

theorem coherent_step [Inhabited V] {C : Codec V} {s : St V} (op : Op V) (F : Faults)
    (hrt : C.RoundTrip) (h : Coherent C s) : Coherent C (step C s op F).st := by
  cases op with
  | get => exact coherent_get F h
  | has => exact coherent_has F h
  | set v => exact coherent_set v F hrt h
  | delete => exact coherent_delete F h
  | compute f => exact coherent_compute f F hrt h
  | reopen => constructor <;> simp [step]

theorem final_cons [Inhabited V] (C : Codec V) (s : St V) (x : Op V × Faults) (h : List (Op V × Faults)) :
    final C s (x :: h) = final C (step C s x.1 x.2).st h := rfl

theorem run_fst [Inhabited V] (C : Codec V) (s : St V) (h : List (Op V × Faults)) :
    (run C s h).1 = final C s h := by
  induction h generalizing s with
  | nil => rfl
  | cons x xs ih => obtain ⟨op, F⟩ := x; simp [run, final_cons, ih]

theorem run_length [Inhabited V] (C : Codec V) (s : St V) (h : List (Op V × Faults)) :
    (run C s h).2.length = h.length := by
  induction h generalizing s with
  | nil => rfl
  | cons x xs ih => obtain ⟨op, F⟩ := x; simp [run, ih]

theorem coherent_final [Inhabited V] {C : Codec V} (hrt : C.RoundTrip) (h : List (Op V × Faults)) :
    ∀ {s : St V}, Coherent C s → Coherent C (final C s h) := by
  induction h with
  | nil => intro s hs; exact hs
  | cons x xs ih => intro s hs; rw [final_cons]; exact ih (coherent_step x.1 x.2 hrt hs)

/-- In a coherent state `Compute` never dereferences a nil `hasCached`. -/
theorem no_panic_compute [Inhabited V] {C : Codec V} {s : St V} (f : V → Bool → FnRes V) (F : Faults)
    (h : Coherent C s) : (compute C s f F).out ≠ .panic := by
  unfold compute
  split
  · rename_i v hv hh
    have := h.both (by simp [hv]); simp_all
  · split
    · rename_i o tr hr
      unfold computeRead at hr
      repeat' split at hr
      all_goals simp_all
      all_goals (obtain ⟨rfl, _⟩ := hr; simp)
    · unfold computeWrite
      repeat' split
      all_goals simp

/-! ### failures: reported, and atomic -/

/-- Every failed call in the trace is the last thing the operation did: the state is unchanged
and the error of that call's kind is returned. -/
def FailAtomic (s : St V) (r : Res V) : Prop :=
  ∀ e ∈ r.tr, e.res = .fail → r.st = s ∧ r.out = .err (errOf e.call)

/-- Conversely an error is returned only when a call failed. -/
def ErrTraced (r : Res V) : Prop :=
  ∀ k, r.out = .err k → ∃ e ∈ r.tr, e.res = .fail ∧ errOf e.call = k

theorem failAtomic_get (C : Codec V) (s : St V) (F : Faults) : FailAtomic s (get C s F) := by
  unfold get FailAtomic
  repeat' split
  all_goals simp [errOf]

theorem failAtomic_has (s : St V) (F : Faults) : FailAtomic s (has s F) := by
  unfold has FailAtomic
  repeat' split
  all_goals simp [errOf]

theorem failAtomic_set (C : Codec V) (s : St V) (v : V) (F : Faults) : FailAtomic s (set C s v F) := by
  unfold set FailAtomic
  repeat' split
  all_goals simp [errOf]

theorem failAtomic_delete (s : St V) (F : Faults) : FailAtomic s (delete s F) := by
  unfold delete FailAtomic
  repeat' split
  all_goals simp [errOf]

/-- The read half never records a failure when it continues. -/
theorem computeRead_go [Inhabited V] {C : Codec V} {s : St V} {F : Faults} {cur : V} {ex : Bool} {tr : List Ev}
    (h : computeRead C s F = .go cur ex tr) : ∀ e ∈ tr, e.res ≠ .fail := by
  unfold computeRead at h
  repeat' split at h
  all_goals simp_all
  all_goals (obtain ⟨_, _, rfl⟩ := h; simp)

theorem computeRead_exit [Inhabited V] {C : Codec V} {s : St V} {F : Faults} {o : Out V} {tr : List Ev}
    (h : computeRead C s F = .exit o tr) :
    (∀ e ∈ tr, e.res = .fail → o = .err (errOf e.call)) ∧ (∃ e ∈ tr, e.res = .fail ∧ o = .err (errOf e.call)) := by
  unfold computeRead at h
  repeat' split at h
  all_goals simp_all
  all_goals (obtain ⟨rfl, rfl⟩ := h; simp [errOf])

theorem failAtomic_computeWrite (C : Codec V) (s : St V) (f : V → Bool → FnRes V) (F : Faults) (k : Bool)
    (cur : V) (ex : Bool) (tr : List Ev) (htr : ∀ e ∈ tr, e.res ≠ .fail) :
    FailAtomic s (computeWrite C s f F k cur ex tr) := by
  unfold computeWrite FailAtomic
  repeat' split
  all_goals
    intro e he hf
    simp only [List.mem_append, List.mem_cons, List.not_mem_nil, or_false] at he
    rcases he with he | he
    · exact absurd hf (htr e he)
    · rcases he with rfl | rfl | rfl <;> simp_all [errOf]

theorem failAtomic_compute [Inhabited V] (C : Codec V) (s : St V) (f : V → Bool → FnRes V) (F : Faults) :
    FailAtomic s (compute C s f F) := by
  unfold compute
  split
  · simp [FailAtomic]
  · split
    · rename_i o tr hr
      intro e he hf
      exact ⟨rfl, (computeRead_exit hr).1 e he hf⟩
    · rename_i cur ex tr hr
      exact failAtomic_computeWrite C s f F _ cur ex tr (computeRead_go hr)

theorem failAtomic_step [Inhabited V] (C : Codec V) (s : St V) (op : Op V) (F : Faults) :
    FailAtomic s (step C s op F) := by
  cases op with
  | get => exact failAtomic_get C s F
  | has => exact failAtomic_has s F
  | set v => exact failAtomic_set C s v F
  | delete => exact failAtomic_delete s F
  | compute f => exact failAtomic_compute C s f F
  | reopen => simp [step, FailAtomic]

theorem errTraced_computeWrite (C : Codec V) (s : St V) (f : V → Bool → FnRes V) (F : Faults) (k : Bool)
    (cur : V) (ex : Bool) (tr : List Ev) : ErrTraced (computeWrite C s f F k cur ex tr) := by
  unfold computeWrite ErrTraced
  repeat' split
  all_goals intro k hk
  all_goals simp at hk
  all_goals subst hk
  all_goals first
    | exact ⟨⟨.fn, .fail⟩, by simp, rfl, rfl⟩
    | exact ⟨⟨.enc, .fail⟩, by simp, rfl, rfl⟩
    | exact ⟨⟨.kvSet, .fail⟩, by simp, rfl, rfl⟩

theorem errTraced_step [Inhabited V] (C : Codec V) (s : St V) (op : Op V) (F : Faults) :
    ErrTraced (step C s op F) := by
  cases op with
  | get => show ErrTraced (get C s F)
           unfold get ErrTraced; repeat' split
           all_goals simp [errOf]
  | has => show ErrTraced (has s F)
           unfold has ErrTraced; repeat' split
           all_goals simp [errOf]
  | set v => show ErrTraced (set C s v F)
             unfold set ErrTraced; repeat' split
             all_goals simp [errOf]
  | delete => show ErrTraced (delete s F)
              unfold delete ErrTraced; repeat' split
              all_goals simp [errOf]
  | reopen => simp [step, ErrTraced]
  | compute f =>
    show ErrTraced (compute C s f F)
    unfold compute
    split
    · simp [ErrTraced]
    · split
      · rename_i o tr hr
        intro k hk
        obtain ⟨e, he, hf, ho⟩ := (computeRead_exit hr).2
        refine ⟨e, he, hf, ?_⟩
        simp only at hk; rw [ho] at hk; cases hk; rfl
      · exact errTraced_computeWrite C s f F _ _ _ _

/-! ### the store always holds the encoding of the last successful write -/

/-- What an operation that returned `out` wrote: `some (some v)` value `v`, `some none` a deletion,
`none` nothing. Read off the caller-visible result only. -/
def written : Op V → Out V → Option (Option V)
  | .set v, .ok => some (some v)
  | .delete, .ok => some none
  | .compute _, .computed v true => some (some v)
  | _, _ => none

/-- The raw bytes expected after a write / no write. -/
def expectRaw (C : Codec V) (before : Option Bytes) : Option (Option V) → Option Bytes
  | none => before
  | some none => none
  | some (some v) => C.enc v

theorem store_computeWrite (C : Codec V) (s : St V) (f : V → Bool → FnRes V) (F : Faults) (k : Bool)
    (cur : V) (ex : Bool) (tr : List Ev) :
    (computeWrite C s f F k cur ex tr).st.store =
      expectRaw C s.store (written (.compute f) (computeWrite C s f F k cur ex tr).out) := by
  unfold computeWrite
  split
  · simp [written, expectRaw]
  · simp [written, expectRaw]
  · split
    · simp [written, expectRaw]
    · split
      · simp [written, expectRaw]
      · rename_i b hb _; simp [written, expectRaw, (encF_some hb).1]

theorem store_step [Inhabited V] (C : Codec V) (s : St V) (op : Op V) (F : Faults) :
    (step C s op F).st.store = expectRaw C s.store (written op (step C s op F).out) := by
  cases op with
  | get => show (get C s F).st.store = expectRaw C s.store (written .get (get C s F).out)
           unfold get; repeat' split
           all_goals simp [written, expectRaw]
  | has => show (has s F).st.store = expectRaw C s.store (written .has (has s F).out)
           unfold has; repeat' split
           all_goals simp [written, expectRaw]
  | set v =>
    show (set C s v F).st.store = expectRaw C s.store (written (.set v) (set C s v F).out)
    unfold set
    split
    · simp [written, expectRaw]
    · split
      · simp [written, expectRaw]
      · rename_i b hb _; simp [written, expectRaw, (encF_some hb).1]
  | delete => show (delete s F).st.store = expectRaw C s.store (written .delete (delete s F).out)
              unfold delete; repeat' split
              all_goals simp [written, expectRaw]
  | reopen => simp [step, written, expectRaw]
  | compute f =>
    show (compute C s f F).st.store = expectRaw C s.store (written (.compute f) (compute C s f F).out)
    unfold compute
    split
    · simp [written, expectRaw]
    · split
      · rename_i o tr hr
        obtain ⟨e, _, _, ho⟩ := (computeRead_exit hr).2
        simp [ho, written, expectRaw]
      · exact store_computeWrite C s f F _ _ _ _

/-- The last successful write of a history, read off the operations and their results. -/
def lastWritten : List (Op V × Out V) → Option (Option V)
  | [] => none
  | (op, o) :: rest =>
    match lastWritten rest with
    | some w => some w
    | none => written op o

theorem expectRaw_last (C : Codec V) (raw : Option Bytes) (op : Op V) (o : Out V) (rest : List (Op V × Out V)) :
    expectRaw C (expectRaw C raw (written op o)) (lastWritten rest) =
      expectRaw C raw (lastWritten ((op, o) :: rest)) := by
  simp only [lastWritten]
  cases lastWritten rest with
  | none => simp [expectRaw]
  | some w => cases w <;> simp [expectRaw]

theorem store_run [Inhabited V] (C : Codec V) (s : St V) (h : List (Op V × Faults)) :
    (run C s h).1.store = expectRaw C s.store (lastWritten ((h.map (·.1)).zip (run C s h).2)) := by
  induction h generalizing s with
  | nil => simp [run, lastWritten, expectRaw]
  | cons x xs ih =>
    obtain ⟨op, F⟩ := x
    have h1 := ih (step C s op F).st
    simp only [run, List.map_cons, List.zip_cons_cons]
    rw [← expectRaw_last, ← store_step]
    exact h1

/-! ### transparency -/

@[simp] theorem decF_noFaults (C : Codec V) (b : Bytes) : decF C noFaults b = C.dec b := by
  simp [decF, noFaults]

@[simp] theorem encF_noFaults (C : Codec V) (v : V) : encF C noFaults v = C.enc v := by
  simp [encF, noFaults]

/-- Facts a coherent state gives about its three fields, in the shape the case analyses need. -/
theorem Coherent.store_none {C : Codec V} {s : St V} (h : Coherent C s) (hs : s.store = none) :
    s.cv = none ∧ s.ch ≠ some true := by
  constructor
  · cases hv : s.cv with
    | none => rfl
    | some v => obtain ⟨b, hb, _⟩ := h.val v hv; simp [hs] at hb
  · intro hc; have := h.has true hc; simp [hs] at this

theorem Coherent.store_some {C : Codec V} {s : St V} {b : Bytes} (h : Coherent C s) (hs : s.store = some b) :
    s.ch ≠ some false ∧ (∀ v, s.cv = some v → C.dec b = some v) := by
  constructor
  · intro hc; have := h.has false hc; simp [hs] at this
  · intro v hv; obtain ⟨b', hb', hd⟩ := h.val v hv; rw [hs] at hb'; cases hb'; exact hd

theorem computeRead_spec [Inhabited V] {C : Codec V} {s : St V} (h : Coherent C s) :
    match s.store with
    | none => ∃ tr, computeRead C s noFaults = .go default false tr
    | some b => match C.dec b with
      | none => ∃ tr, computeRead C s noFaults = .exit (.err .dec) tr
      | some v => ∃ tr, computeRead C s noFaults = .go v true tr := by
  cases hs : s.store with
  | none =>
    obtain ⟨hcv, hch⟩ := h.store_none hs
    simp only
    unfold computeRead
    split
    · simp [noFaults, hs, hcv]
    · simp [hcv]
  | some b =>
    obtain ⟨hch, hcv⟩ := h.store_some hs
    have hn : needsRead s = true := by
      unfold needsRead
      cases hc : s.ch with
      | none =>
        cases hv : s.cv with
        | none => simp
        | some v => have := h.both (by simp [hv]); simp [hc] at this
      | some x => cases x <;> simp_all
    simp only
    cases hd : C.dec b with
    | none => simp [computeRead, hn, noFaults, hs, decF, hd]
    | some v => simp [computeRead, hn, noFaults, hs, decF, hd]

/-- **No fault ⇒ the typed value behaves exactly like the raw key under the codec** (results and
resulting raw bytes). -/
theorem transparent_step [Inhabited V] {C : Codec V} {s : St V} (op : Op V) (h : Coherent C s) :
    (step C s op noFaults).out = (spec C s.store op).2 ∧
    (step C s op noFaults).st.store = (spec C s.store op).1 := by
  cases op with
  | get =>
    show (get C s noFaults).out = _ ∧ (get C s noFaults).st.store = _
    cases hs : s.store with
    | none =>
      obtain ⟨hcv, hch⟩ := h.store_none hs
      unfold get; simp only [spec]
      repeat' split
      all_goals simp_all [noFaults]
    | some b =>
      obtain ⟨hch, hcv⟩ := h.store_some hs
      unfold get; simp only [spec]
      cases hv : s.cv with
      | some v => simp [hch, hcv v hv, hs]
      | none =>
        cases hd : C.dec b <;> simp [hch, noFaults, hs, decF, hd]
  | has =>
    show (has s noFaults).out = _ ∧ (has s noFaults).st.store = _
    unfold has; simp only [spec]
    split
    · rename_i b hb; simp [h.has b hb]
    · simp [noFaults]
  | set v =>
    show (set C s v noFaults).out = _ ∧ (set C s v noFaults).st.store = _
    unfold set; simp only [spec, encF_noFaults]
    cases he : C.enc v <;> simp [noFaults]
  | delete => simp [step, delete, spec, noFaults]
  | reopen => simp [step, spec]
  | compute f =>
    show (compute C s f noFaults).out = _ ∧ (compute C s f noFaults).st.store = _
    have hr := computeRead_spec (C := C) h
    unfold compute
    split
    · rename_i v hv hh
      have := h.both (by simp [hv]); simp_all
    · simp only [spec]
      cases hs : s.store with
      | none =>
        simp only [hs] at hr
        obtain ⟨tr, hr⟩ := hr
        rw [hr]
        simp only [computeWrite, encF_noFaults]
        cases hf : f default false with
        | notChanged => simp [hs]
        | fail => simp [hs]
        | ok nv =>
          cases he : C.enc nv with
          | none => simp [hs, he]
          | some b => simp [noFaults, he]
      | some b =>
        simp only [hs] at hr
        cases hd : C.dec b with
        | none =>
          simp only [hd] at hr
          obtain ⟨tr, hr⟩ := hr
          rw [hr]; simp [hs, hd]
        | some v =>
          simp only [hd] at hr
          obtain ⟨tr, hr⟩ := hr
          rw [hr]
          simp only [computeWrite, encF_noFaults, hd, Option.map_some]
          cases hf : f v true with
          | notChanged => simp [hs]
          | fail => simp [hs]
          | ok nv =>
            cases he : C.enc nv with
            | none => simp [hs, he]
            | some b => simp [noFaults, he]

/-! ### a fault that is not hit is irrelevant -/

theorem unhit_get (C : Codec V) (s : St V) (F : Faults)
    (hnf : ∀ e ∈ (get C s F).tr, e.res ≠ .fail) :
    (get C s F).st = (get C s noFaults).st ∧ (get C s F).out = (get C s noFaults).out := by
  rcases F with ⟨k1, k2, d, e⟩
  unfold get decF at hnf ⊢
  simp only [noFaults] at hnf ⊢
  cases k1 <;> cases d <;> (repeat' split) <;> simp_all

theorem unhit_has (s : St V) (F : Faults)
    (hnf : ∀ e ∈ (has s F).tr, e.res ≠ .fail) :
    (has s F).st = (has s noFaults).st ∧ (has s F).out = (has s noFaults).out := by
  rcases F with ⟨k1, k2, d, e⟩
  unfold has at hnf ⊢
  simp only [noFaults] at hnf ⊢
  cases k1 <;> (repeat' split) <;> simp_all

theorem unhit_set (C : Codec V) (s : St V) (v : V) (F : Faults)
    (hnf : ∀ e ∈ (set C s v F).tr, e.res ≠ .fail) :
    (set C s v F).st = (set C s v noFaults).st ∧ (set C s v F).out = (set C s v noFaults).out := by
  rcases F with ⟨k1, k2, d, e⟩
  unfold set encF at hnf ⊢
  simp only [noFaults] at hnf ⊢
  cases k1 <;> cases e <;> (repeat' split) <;> simp_all

theorem unhit_delete (s : St V) (F : Faults)
    (hnf : ∀ e ∈ (delete s F).tr, e.res ≠ .fail) :
    (delete s F).st = (delete s noFaults).st ∧ (delete s F).out = (delete s noFaults).out := by
  rcases F with ⟨k1, k2, d, e⟩
  unfold delete at hnf ⊢
  simp only [noFaults] at hnf ⊢
  cases k1 <;> simp_all

theorem unhit_computeRead [Inhabited V] {C : Codec V} {s : St V} {F : Faults} {cur : V} {ex : Bool} {tr : List Ev}
    (h : computeRead C s F = .go cur ex tr) : computeRead C s noFaults = .go cur ex tr := by
  rcases F with ⟨k1, k2, d, e⟩
  unfold computeRead decF at h ⊢
  simp only [noFaults] at h ⊢
  cases k1 <;> cases d <;> (repeat' split at h) <;> simp_all

theorem unhit_computeWrite (C : Codec V) (s : St V) (f : V → Bool → FnRes V) (F : Faults) (k : Bool)
    (cur : V) (ex : Bool) (tr : List Ev)
    (hnf : ∀ e ∈ (computeWrite C s f F k cur ex tr).tr, e.res ≠ .fail) :
    (computeWrite C s f F k cur ex tr).st = (computeWrite C s f noFaults false cur ex tr).st ∧
    (computeWrite C s f F k cur ex tr).out = (computeWrite C s f noFaults false cur ex tr).out := by
  unfold computeWrite at hnf ⊢
  cases hf : f cur ex with
  | notChanged => simp
  | fail => simp
  | ok nv =>
    simp only [hf] at hnf ⊢
    cases he : encF C F nv with
    | none =>
      simp only [he] at hnf
      exact absurd rfl (hnf ⟨.enc, .fail⟩ (by simp))
    | some b =>
      have h2 := encF_some he
      simp only [he] at hnf
      cases k with
      | true => exact absurd rfl (hnf ⟨.kvSet, .fail⟩ (by simp))
      | false => simp [encF_noFaults, h2.1]

theorem compute_eq [Inhabited V] (C : Codec V) (s : St V) (f : V → Bool → FnRes V) (F : Faults)
    (h : s.cv.isSome = true → s.ch ≠ none) :
    compute C s f F = match computeRead C s F with
      | .exit o tr => ⟨s, o, tr⟩
      | .go cur ex tr => computeWrite C s f F (if needsRead s then F.kv2 else F.kv1) cur ex tr := by
  unfold compute
  split
  · rename_i v hv hh; simp [hv] at h; exact absurd hh h
  · rfl

theorem compute_panic [Inhabited V] (C : Codec V) (s : St V) (f : V → Bool → FnRes V) (F : Faults)
    (h1 : s.cv.isSome = true) (h2 : s.ch = none) : compute C s f F = ⟨s, .panic, []⟩ := by
  unfold compute
  split
  · rfl
  · rename_i hx
    cases hv : s.cv with
    | none => simp [hv] at h1
    | some v => exact absurd h2 (hx v hv)

theorem unhit_compute [Inhabited V] (C : Codec V) (s : St V) (f : V → Bool → FnRes V) (F : Faults)
    (hnf : ∀ e ∈ (compute C s f F).tr, e.res ≠ .fail) :
    (compute C s f F).st = (compute C s f noFaults).st ∧ (compute C s f F).out = (compute C s f noFaults).out := by
  by_cases hp : s.cv.isSome = true ∧ s.ch = none
  · rw [compute_panic C s f F hp.1 hp.2, compute_panic C s f noFaults hp.1 hp.2]; simp
  · have hp' : s.cv.isSome = true → s.ch ≠ none := fun a b => hp ⟨a, b⟩
    rw [compute_eq C s f F hp'] at hnf ⊢
    rw [compute_eq C s f noFaults hp']
    cases hr : computeRead C s F with
    | exit o tr =>
      obtain ⟨e, he, hf, _⟩ := (computeRead_exit hr).2
      simp only [hr] at hnf
      exact absurd hf (hnf e he)
    | go cur ex tr =>
      simp only [hr] at hnf ⊢
      rw [unhit_computeRead hr]
      have := unhit_computeWrite C s f F _ cur ex tr hnf
      simpa [noFaults] using this
/-- A fault that is not hit is irrelevant: if no call of the operation failed, the operation
behaved exactly as with the empty fault vector. -/
theorem unhit_step [Inhabited V] (C : Codec V) (s : St V) (op : Op V) (F : Faults)
    (hnf : ∀ e ∈ (step C s op F).tr, e.res ≠ .fail) :
    (step C s op F).st = (step C s op noFaults).st ∧ (step C s op F).out = (step C s op noFaults).out := by
  cases op with
  | get => exact unhit_get C s F hnf
  | has => exact unhit_has s F hnf
  | set v => exact unhit_set C s v F hnf
  | delete => exact unhit_delete s F hnf
  | compute f => exact unhit_compute C s f F hnf
  | reopen => simp [step]

/-! ### ErrTypedValueNotChanged, and which injected faults are hit -/

theorem notChanged_computeWrite (C : Codec V) (s : St V) (f : V → Bool → FnRes V) (F : Faults) (k : Bool)
    (cur : V) (ex : Bool) (tr : List Ev) (v : V)
    (h : (computeWrite C s f F k cur ex tr).out = .computed v false) :
    (computeWrite C s f F k cur ex tr).st = s ∧ v = cur ∧ f cur ex = .notChanged := by
  unfold computeWrite at h ⊢
  cases hf : f cur ex with
  | notChanged => simp only [hf] at h ⊢; simp at h; exact ⟨trivial, h.symm, trivial⟩
  | fail => simp [hf] at h
  | ok nv =>
    simp only [hf] at h
    cases he : encF C F nv with
    | none => simp [he] at h
    | some b => cases k <;> simp [he] at h

/-- `ErrTypedValueNotChanged`: no error, the current value is returned, store and cache are untouched. -/
theorem notChanged_compute [Inhabited V] (C : Codec V) (s : St V) (f : V → Bool → FnRes V) (F : Faults) (v : V)
    (h : (compute C s f F).out = .computed v false) : (compute C s f F).st = s := by
  by_cases hp : s.cv.isSome = true ∧ s.ch = none
  · rw [compute_panic C s f F hp.1 hp.2]
  · have hp' : s.cv.isSome = true → s.ch ≠ none := fun a b => hp ⟨a, b⟩
    rw [compute_eq C s f F hp'] at h ⊢
    cases hr : computeRead C s F with
    | exit o tr => rfl
    | go cur ex tr =>
      simp only [hr] at h ⊢
      exact (notChanged_computeWrite C s f F _ cur ex tr v h).1

/-- Injected faults at positions the operation reaches are reported (the cases that do not depend on
the cache state). -/
theorem fault_reported [Inhabited V] (C : Codec V) (s : St V) (F : Faults) :
    (∀ v, F.enc = true → (step C s (.set v) F).out = .err .enc) ∧
    (∀ v b, F.enc = false → C.enc v = some b → F.kv1 = true → (step C s (.set v) F).out = .err .kv) ∧
    (F.kv1 = true → (step C s .delete F).out = .err .kv) ∧
    (s.cv = none → s.ch ≠ some false → F.kv1 = true → (step C s .get F).out = .err .kv) ∧
    (∀ b, s.cv = none → s.ch ≠ some false → F.kv1 = false → s.store = some b → F.dec = true →
        (step C s .get F).out = .err .dec) ∧
    (s.ch = none → F.kv1 = true → (step C s .has F).out = .err .kv) ∧
    (∀ f, s.cv = none → s.ch = none → F.kv1 = true → (step C s (.compute f) F).out = .err .kv) := by
  refine ⟨?_, ?_, ?_, ?_, ?_, ?_, ?_⟩
  · intro v h; simp [step, set, encF, h]
  · intro v b h1 h2 h3; simp [step, set, encF, h1, h2, h3]
  · intro h; simp [step, delete, h]
  · intro h1 h2 h3; simp [step, get, h1, h2, h3]
  · intro b h1 h2 h3 h4 h5; simp [step, get, h1, h2, h3, h4, decF, h5]
  · intro h1 h2; simp [step, has, h1, h2]
  · intro f h1 h2 h3; simp [step, compute, computeRead, needsRead, h1, h2, h3]

/-! ### reference-typed values: the codec may change between operations

For a pointer-typed `V` the caller can mutate an object it handed to `Set` / received from `Get`; what
`enc` yields for that reference then changes between operations.  A history with a codec per step
models this. -/

/-- Histories in which every operation runs with the codec of its moment. -/
def runV [Inhabited V] (s : St V) : List (Codec V × Op V × Faults) → St V × List (Out V)
  | [] => (s, [])
  | (C, op, F) :: rest =>
    let r := step C s op F
    let (s', os) := runV r.st rest
    (s', r.out :: os)

/-- The raw bytes left by a sequence of (codec at that moment, operation, result): each successful
write leaves the encoding — at the time of that call — of what it was given. -/
def rawAfter (before : Option Bytes) : List (Codec V × Op V × Out V) → Option Bytes
  | [] => before
  | (C, op, o) :: rest => rawAfter (expectRaw C before (written op o)) rest

theorem store_runV [Inhabited V] (s : St V) (h : List (Codec V × Op V × Faults)) :
    (runV s h).1.store =
      rawAfter s.store ((h.zip (runV s h).2).map fun x => (x.1.1, x.1.2.1, x.2)) := by
  induction h generalizing s with
  | nil => simp [runV, rawAfter]
  | cons x xs ih =>
    obtain ⟨C, op, F⟩ := x
    have h1 := ih (step C s op F).st
    simp only [runV, List.zip_cons_cons, List.map_cons, rawAfter]
    rw [← store_step]
    exact h1

end Hive.Typed
