import Hive.Model.KVTrace
import Hive.Proofs.KVRefine
/-!
# Normal form of the wrappers' call traces, and agreement of the configured stacks with the model's (C04)
-/
namespace Hive.KV

/-- The callbacks of a request through a stack: the debug layers, outermost first. -/
def cbs (c : Option (Cmd × List Bytes)) : List TWrap → List Ev
  | [] => []
  | .flush :: ws => cbs c ws
  | .debug f cb :: ws => optCb f cb c ++ cbs c ws

/-- Number of `flushkv` layers of a stack. -/
def flushLayers : List TWrap → Nat
  | [] => 0
  | .flush :: ws => flushLayers ws + 1
  | .debug _ _ :: ws => flushLayers ws

theorem cbs_none (ws : List TWrap) : cbs none ws = [] := by
  induction ws with
  | nil => rfl
  | cons w t ih => cases w <;> simp [cbs, optCb, ih]

theorem trFwd_eq (c : Option (Cmd × List Bytes)) (call : Call) (ws : List TWrap) :
    trFwd c call ws = cbs c ws ++ [.call call] := by
  induction ws with
  | nil => rfl
  | cons w t ih => cases w <;> simp [trFwd, cbs, ih]

theorem trMut_eq (c : Option (Cmd × List Bytes)) (call : Call) (ok : Bool) (ws : List TWrap) :
    trMut false c call ok ws =
      (cbs c ws ++ .call call :: List.replicate (if ok then flushLayers ws else 0) (.call .flush), ok) := by
  induction ws with
  | nil => cases ok <;> rfl
  | cons w t ih =>
    cases w with
    | debug f cb => simp [trMut, cbs, flushLayers, ih]
    | flush =>
      cases ok
      · simp [trMut, cbs, ih]
      · simp [trMut, cbs, flushLayers, ih, trFwd_eq, cbs_none, List.replicate_succ']

/-- With the fault armed: the first (innermost) `flushkv` layer flushes once and fails, no layer above it flushes. -/
theorem trMut_fault (c : Option (Cmd × List Bytes)) (call : Call) (ws : List TWrap) :
    trMut true c call true ws =
      (cbs c ws ++ .call call :: (if flushLayers ws == 0 then [] else [.call .flush]), flushLayers ws == 0) := by
  induction ws with
  | nil => simp [trMut, cbs, flushLayers]
  | cons w t ih =>
    cases w with
    | debug f cb => simp only [trMut, cbs, flushLayers, ih, List.append_assoc]; rfl
    | flush =>
      cases h0 : flushLayers t == 0
      · simp [trMut, cbs, flushLayers, ih, h0]
      · simp [trMut, cbs, flushLayers, ih, h0, trFwd_eq, cbs_none]

/-- A mutation the store refuses is not followed by any `Flush`, armed or not. -/
theorem trMut_refused (fe : Bool) (c : Option (Cmd × List Bytes)) (call : Call) (ws : List TWrap) :
    trMut fe c call false ws = (cbs c ws ++ [.call call], false) := by
  induction ws with
  | nil => rfl
  | cons w t ih => cases w <;> simp [trMut, cbs, ih]

theorem mem_cbs (c : Cmd) (a : List Bytes) (ws : List TWrap) (e : Ev) :
    e ∈ cbs (some (c, a)) ws ↔ ∃ f, TWrap.debug f true ∈ ws ∧ (f &&& c.bit) ≠ 0 ∧ e = .cb f c a := by
  induction ws with
  | nil => simp [cbs]
  | cons w t ih =>
    cases w with
    | flush => simp [cbs, ih]
    | debug f cb =>
      simp only [cbs, optCb, dbgCb, List.mem_append, ih, List.mem_cons]
      constructor
      · rintro (h | ⟨g, hg, hb, he⟩)
        · by_cases hc : (cb && (f &&& c.bit != 0)) = true
          · simp only [hc, if_true, List.mem_singleton] at h
            simp only [Bool.and_eq_true, bne_iff_ne, ne_eq] at hc
            exact ⟨f, Or.inl (by rw [hc.1]), hc.2, h⟩
          · simp [hc] at h
        · exact ⟨g, Or.inr hg, hb, he⟩
      · rintro ⟨g, hg | hg, hb, he⟩
        · injection hg with h1 h2
          subst h1; subst h2
          left
          have : (true && (g &&& c.bit != 0)) = true := by simpa using hb
          simp [this, he]
        · exact Or.inr ⟨g, hg, hb, he⟩

/-! ## the configured stacks are the model's stacks -/

/-- Every handle of the model is in the table, with a stack that erases to the model's. -/
def Agree (t : TTab) (s : St) : Prop :=
  (∀ v vw, s.views.lookup v = some vw → ∃ ws, t.views.lookup v = some ws ∧ ws.map TWrap.erase = vw.wraps) ∧
  (∀ b bt, s.batches.lookup b = some bt → ∃ ws, t.batches.lookup b = some ws ∧ ws.map TWrap.erase = bt.wraps)

theorem agree_init : Agree TTab.init init := by
  constructor
  · intro v vw h
    simp only [init, List.lookup_cons, List.lookup_nil] at h
    by_cases hv : v = 0
    · subst hv; simp at h; subst h; exact ⟨[], by simp [TTab.init], rfl⟩
    · have : (v == 0) = false := by simpa using hv
      simp [this] at h
  · intro b bt h; simp [init] at h

theorem lookup_filter_ne' {α : Type} (l : List (Nat × α)) (b b' : Nat) (x : α)
    (h : (l.filter (fun e => e.1 != b)).lookup b' = some x) : l.lookup b' = some x := by
  induction l with
  | nil => simp at h
  | cons e t ih =>
    obtain ⟨i, y⟩ := e
    by_cases hi : i = b
    · subst hi
      have hf : ((i, y).1 != i) = false := by simp
      rw [List.filter_cons, hf] at h
      have h' := ih h
      by_cases hb : b' = i
      · subst hb
        -- the filtered list has no entry for `b'`
        exfalso
        clear ih h'
        induction t with
        | nil => simp at h
        | cons e2 t2 ih2 =>
          obtain ⟨j, z⟩ := e2
          by_cases hj : j = b'
          · subst hj; simp at h; exact ih2 h
          · have : ((j, z).1 != b') = true := by simpa using hj
            have hbj : (b' == j) = false := by simpa using (fun h => hj h.symm)
            simp only [Bool.false_eq_true, if_false] at h
            rw [List.filter_cons, this] at h
            simp only [if_true, List.lookup_cons, hbj] at h
            exact ih2 (by simpa using h)
      · have : (b' == i) = false := by simpa using hb
        simp [List.lookup_cons, this, h']
    · have hf : ((i, y).1 != b) = true := by simpa using hi
      rw [List.filter_cons, hf] at h
      simp only [if_true, List.lookup_cons] at h ⊢
      cases hb : (b' == i) with
      | true => simpa [hb] using h
      | false => rw [hb] at h; exact ih h

/-- A request keeps the tables in agreement (`cfg`: the configuration of the wrapper a `wrap` creates). -/
theorem agree_step (t : TTab) (s : St) (h : Agree t s) (op : Op) (cfg : TWrap)
    (hcfg : ∀ v p w, op = .wrap v p w → cfg.erase = w) :
    Agree (t.step cfg (step s op).2 op) (step s op).1 := by
  obtain ⟨hv, hb⟩ := h
  -- a new view handle `v` with stack `ws` / wraps `wr`
  have consView : ∀ (v : Nat) (ws : List TWrap) (vw : View), ws.map TWrap.erase = vw.wraps →
      ∀ v' vw', ((v, vw) :: s.views).lookup v' = some vw' →
        ∃ ws', ((v, ws) :: t.views).lookup v' = some ws' ∧ ws'.map TWrap.erase = vw'.wraps := by
    intro v ws vw hw v' vw' hl
    simp only [List.lookup_cons] at hl ⊢
    cases hvv : (v' == v) with
    | true => rw [hvv] at hl; simp only at hl; injection hl with hl; subst hl; exact ⟨ws, rfl, hw⟩
    | false => rw [hvv] at hl; exact hv v' vw' hl
  have consBatch : ∀ (b : Nat) (ws : List TWrap) (bt : Batch), ws.map TWrap.erase = bt.wraps →
      ∀ b' bt', ((b, bt) :: s.batches).lookup b' = some bt' →
        ∃ ws', ((b, ws) :: t.batches).lookup b' = some ws' ∧ ws'.map TWrap.erase = bt'.wraps := by
    intro b ws bt hw b' bt' hl
    simp only [List.lookup_cons] at hl ⊢
    cases hbb : (b' == b) with
    | true => rw [hbb] at hl; simp only at hl; injection hl with hl; subst hl; exact ⟨ws, rfl, hw⟩
    | false => rw [hbb] at hl; exact hb b' bt' hl
  -- an existing batch handle `b` is re-bound to a batch with the same wrappers
  have rebind : ∀ (b : Nat) (bt bt2 : Batch), s.batches.lookup b = some bt → bt2.wraps = bt.wraps →
      ∀ b' bt', ((b, bt2) :: s.batches).lookup b' = some bt' →
        ∃ ws', t.batches.lookup b' = some ws' ∧ ws'.map TWrap.erase = bt'.wraps := by
    intro b bt bt2 hl hw b' bt' hl'
    simp only [List.lookup_cons] at hl'
    cases hbb : (b' == b) with
    | true =>
      rw [hbb] at hl'; simp only at hl'; injection hl' with hl'; subst hl'
      have : b' = b := by simpa using hbb
      subst this
      obtain ⟨ws, h1, h2⟩ := hb b' bt hl
      exact ⟨ws, h1, by rw [h2, hw]⟩
    | false => rw [hbb] at hl'; exact hb b' bt' hl'
  cases op with
  | view v p realm mode =>
    simp only [step, onView, TTab.step]
    cases hp : s.views.lookup p with
    | none => exact ⟨hv, hb⟩
    | some pv =>
      obtain ⟨ws, h1, h2⟩ := hv p pv hp
      simp only [vRead_eq, dbCheck, h1]
      cases hc : s.db.closed with
      | true => exact ⟨hv, hb⟩
      | false => exact ⟨consView v ws _ h2, hb⟩
  | wrap v p w =>
    simp only [step, onView, TTab.step]
    cases hp : s.views.lookup p with
    | none => exact ⟨hv, hb⟩
    | some pv =>
      obtain ⟨ws, h1, h2⟩ := hv p pv hp
      simp only [h1]
      exact ⟨consView v (cfg :: ws) _ (by simp [h2, hcfg v p w rfl]), hb⟩
  | batch b v =>
    simp only [step, onView, TTab.step]
    cases hp : s.views.lookup v with
    | none => exact ⟨hv, hb⟩
    | some pv =>
      obtain ⟨ws, h1, h2⟩ := hv v pv hp
      simp only [vRead_eq, dbCheck, h1]
      cases hc : s.db.closed with
      | true => exact ⟨hv, hb⟩
      | false => exact ⟨hv, consBatch b ws _ h2⟩
  | bset b k x =>
    simp only [step, onBatch, TTab.step]
    cases hl : s.batches.lookup b with
    | none => exact ⟨hv, hb⟩
    | some bt => exact ⟨hv, rebind b bt _ hl rfl⟩
  | bdel b k =>
    simp only [step, onBatch, TTab.step]
    cases hl : s.batches.lookup b with
    | none => exact ⟨hv, hb⟩
    | some bt => exact ⟨hv, rebind b bt _ hl rfl⟩
  | cancel b =>
    simp only [step, onBatch, TTab.step]
    cases hl : s.batches.lookup b with
    | none => exact ⟨hv, hb⟩
    | some bt => exact ⟨hv, rebind b bt _ hl rfl⟩
  | commit b final =>
    simp only [step, onBatch, TTab.step]
    cases hl : s.batches.lookup b with
    | none => exact ⟨hv, hb⟩
    | some bt =>
      refine ⟨hv, ?_⟩
      cases final with
      | false => exact hb
      | true => intro b' bt' h'; exact hb b' bt' (lookup_filter_ne' _ _ _ _ h')
  | realm v => simp only [step, onView, TTab.step]; split <;> exact ⟨hv, hb⟩
  | get v k => simp only [step, onView, TTab.step]; split <;> exact ⟨hv, hb⟩
  | has v k => simp only [step, onView, TTab.step]; split <;> exact ⟨hv, hb⟩
  | flush v => simp only [step, onView, TTab.step]; split <;> exact ⟨hv, hb⟩
  | close v => simp only [step, onView, TTab.step]; split <;> exact ⟨hv, hb⟩
  | iter v p d n => simp only [step, onView, TTab.step]; split <;> exact ⟨hv, hb⟩
  | iterk v p d n => simp only [step, onView, TTab.step]; split <;> exact ⟨hv, hb⟩
  | set v k x => simp only [step, onView, mutate, TTab.step]; split <;> exact ⟨hv, hb⟩
  | del v k => simp only [step, onView, mutate, TTab.step]; split <;> exact ⟨hv, hb⟩
  | delp v p => simp only [step, onView, mutate, TTab.step]; split <;> exact ⟨hv, hb⟩
  | clear v => simp only [step, onView, mutate, TTab.step]; split <;> exact ⟨hv, hb⟩

/-- A history of requests, each with the configuration of the wrapper it creates if it is a `wrap`. -/
def tabRun (t : TTab) (s : St) : List (Op × TWrap) → TTab × St
  | [] => (t, s)
  | (op, cfg) :: rest => tabRun (t.step cfg (step s op).2 op) (step s op).1 rest

theorem tabRun_snd (t : TTab) (s : St) (ops : List (Op × TWrap)) :
    (tabRun t s ops).2 = (run s (ops.map (·.1))).1 := by
  induction ops generalizing t s with
  | nil => rfl
  | cons e rest ih => obtain ⟨op, cfg⟩ := e; simp [tabRun, run, ih]

theorem agree_run (t : TTab) (s : St) (h : Agree t s) (ops : List (Op × TWrap))
    (hc : ∀ e ∈ ops, ∀ v p w, e.1 = .wrap v p w → e.2.erase = w) :
    Agree (tabRun t s ops).1 (tabRun t s ops).2 := by
  induction ops generalizing t s with
  | nil => exact h
  | cons e rest ih =>
    obtain ⟨op, cfg⟩ := e
    simp only [tabRun]
    exact ih _ _ (agree_step t s h op cfg (hc (op, cfg) (by simp)))
      (fun e he => hc e (List.mem_cons_of_mem _ he))

/-- Backward iteration reports the reverse of forward iteration. -/
theorem iterAll_bwd (realm p : Bytes) {m : AList} (hn : NoDupKeys m) :
    iterAll realm p .bwd m = (iterAll realm p .fwd m).reverse := by
  rw [iterAll_eq realm p .bwd hn, iterAll_eq realm p .fwd hn]
  simp [Spec.range]

end Hive.KV
