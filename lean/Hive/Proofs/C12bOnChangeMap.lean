import Hive.Model.C12bOnChangeMap
import Hive.Proofs.C12bBase
/-! Keyed-store refinement and callback-mirroring lemmas for the OnChangeMap model. -/
namespace Hive.C12b.OC
open AMap

def abs (s : St) : Spec := fun k => s.m.get k

theorem abs_set (s : St) (k v : Nat) : abs { s with m := s.m.set k v } = upd (abs s) k (some v) := by
  funext x; simp [abs, upd, get_set]

theorem abs_del (s : St) (k : Nat) : abs { s with m := s.m.del k } = upd (abs s) k none := by
  funext x; simp [abs, upd, get_del]

theorem upd_same (f : Spec) (k : Nat) (v : Nat) (h : f k = some v) : upd f k (some v) = f := by
  funext x; by_cases e : x = k <;> simp [upd, e, h]

/-- The store-level behaviour does not depend on any callback setting or callback failure. -/
theorem step_store (s : St) (op : Op) :
    abs (step s op).1 = (specStep (abs s) op).1 ∧
    (step s op).2.item = (specStep (abs s) op).2.2 ∧
    (∀ r, (specStep (abs s) op).2.1 = some r → (step s op).2.res = r) := by
  cases op with
  | enable b => exact ⟨rfl, rfl, by simp [specStep]⟩
  | add k v fc fi =>
    cases hk : s.m.get k with
    | some old => simp [step, specStep, abs, AMap.has, hk]
    | none =>
      simp only [step, specStep, AMap.has, hk, Option.isSome_none, Bool.false_eq_true, if_false]
      have : (abs s k).isSome = false := by simp [abs, hk]
      simp only [this, Bool.false_eq_true, if_false]
      refine ⟨abs_set s k v, ?_, ?_⟩ <;> simp
  | modify k v mutate report fc fi =>
    cases hk : s.m.get k with
    | none => simp [step, specStep, abs, hk]
    | some old =>
      have ha : abs s k = some old := by simp [abs, hk]
      simp only [step, specStep, hk, ha]
      cases report <;> simp [abs_set]
  | delete k fc fi =>
    cases hk : s.m.get k with
    | none => simp [step, specStep, abs, hk]
    | some old =>
      have ha : abs s k = some old := by simp [abs, hk]
      simp only [step, specStep, hk, ha]
      refine ⟨abs_del s k, ?_, ?_⟩ <;> simp
  | get k =>
    cases hk : s.m.get k with
    | none => simp [step, specStep, abs, hk]
    | some v => simp [step, specStep, abs, hk]
  | all => simp [step, specStep]
  | exec fc => simp [step, specStep]

/-! ## the changed-callback always sees the contents as they are after the change -/

theorem execChanged_snapshot (s : St) (fc : Bool) (snap : AMap Nat)
    (h : Event.changed snap ∈ (execChanged s fc).2) : snap = s.m := by
  unfold execChanged at h
  split at h
  · simp at h
  · split at h
    · simpa using h
    · simp at h

theorem execItem_snapshot (s : St) (p : Bool) (ev : Event) (fc fi : Bool) (snap : AMap Nat)
    (hev : ∀ m, ev ≠ .changed m) (h : Event.changed snap ∈ (execItem s p ev fc fi).2) : snap = s.m := by
  unfold execItem at h
  split at h
  · simp at h
  · split at h
    · rename_i evs heq
      have hc : ∀ snap, Event.changed snap ∈ evs → snap = s.m := by
        intro sn hsn
        apply execChanged_snapshot s fc sn
        rw [heq]; exact hsn
      split at h
      · simp only [List.mem_append, List.mem_cons, List.not_mem_nil, or_false] at h
        rcases h with h | h
        · exact hc _ h
        · exact absurd h.symm (hev snap)
      · exact hc _ h
    · rename_i e evs _ heq
      apply execChanged_snapshot s fc snap
      rw [heq]; exact h

theorem step_snapshot (s : St) (op : Op) (snap : AMap Nat)
    (h : Event.changed snap ∈ (step s op).2.events) : snap = (step s op).1.m := by
  cases op with
  | enable b => simp [step] at h
  | add k v fc fi =>
    simp only [step] at h ⊢
    split at h
    · simp at h
    · split
      · simp_all
      · exact execItem_snapshot _ _ _ _ _ _ (by intro m; simp) h
  | modify k v mutate report fc fi =>
    simp only [step] at h ⊢
    split at h
    · simp at h
    · split at h
      · simp at h
      · rename_i old hk hr
        simp only [hr]
        exact execItem_snapshot _ _ _ _ _ _ (by intro m; simp) h
  | delete k fc fi =>
    simp only [step] at h ⊢
    split at h
    · simp at h
    · rename_i old hk
      simp only []
      exact execItem_snapshot _ _ _ _ _ _ (by intro m; simp) h
  | get k =>
    simp only [step] at h
    split at h <;> simp at h
  | all => simp [step] at h
  | exec fc =>
    simp only [step] at h ⊢
    exact execChanged_snapshot s fc snap h

/-! ## item callbacks mirror every change -/

/-- All item callbacks are installed and the callbacks are switched on. -/
def Reporting (s : St) : Prop := s.enabled = true ∧ s.hasA = true ∧ s.hasM = true ∧ s.hasD = true

/-- Requests under which a listener can be expected to stay in sync: callbacks are not switched
off, the changed-callback does not fail (a failing changed-callback suppresses the item callback),
and a modify callback that mutates the item reports it. -/
def Op.honest : Op → Prop
  | .enable b => b = true
  | .add _ _ fc _ => fc = false
  | .modify _ _ mutate report fc _ => fc = false ∧ (mutate = true → report = true)
  | .delete _ fc _ => fc = false
  | _ => True

theorem replay_append (f : Spec) (a b : List Event) : replay f (a ++ b) = replay (replay f a) b := by
  simp [replay, List.foldl_append]

theorem replay_execChanged (f : Spec) (s : St) (fc : Bool) : replay f (execChanged s fc).2 = f := by
  unfold execChanged
  split
  · rfl
  · split <;> rfl

theorem execItem_events_reporting (s : St) (ev : Event) (fi : Bool) (he : s.enabled = true) :
    (execItem s true ev false fi).2 = (execChanged s false).2 ++ [ev] := by
  unfold execItem execChanged
  simp only [he, Bool.not_true, Bool.false_eq_true, if_false]
  cases s.hasC <;> simp

theorem reporting_step {s : St} (h : Reporting s) (op : Op) (ho : op.honest) : Reporting (step s op).1 := by
  obtain ⟨h1, h2, h3, h4⟩ := h
  cases op with
  | enable b => simp only [Op.honest] at ho; subst ho; exact ⟨rfl, h2, h3, h4⟩
  | add k v fc fi =>
    simp only [step]; split
    · exact ⟨h1, h2, h3, h4⟩
    · exact ⟨h1, h2, h3, h4⟩
  | modify k v mutate report fc fi =>
    simp only [step]; split
    · exact ⟨h1, h2, h3, h4⟩
    · split <;> exact ⟨h1, h2, h3, h4⟩
  | delete k fc fi =>
    simp only [step]; split <;> exact ⟨h1, h2, h3, h4⟩
  | get k => simp only [step]; split <;> exact ⟨h1, h2, h3, h4⟩
  | all => exact ⟨h1, h2, h3, h4⟩
  | exec fc => exact ⟨h1, h2, h3, h4⟩

/-- One honest request: replaying its events on a replica that agrees with the map before the
request yields a replica that agrees with the map after it. -/
theorem mirror_step {s : St} (h : Reporting s) (op : Op) (ho : op.honest) :
    replay (abs s) (step s op).2.events = abs (step s op).1 := by
  obtain ⟨h1, h2, h3, h4⟩ := h
  cases op with
  | enable b => rfl
  | add k v fc fi =>
    simp only [Op.honest] at ho; subst ho
    simp only [step]
    split
    · simp [replay]
    · simp only [h2]
      rw [execItem_events_reporting _ _ _ (by exact h1), replay_append, replay_execChanged]
      simp only [replay, List.foldl_cons, List.foldl_nil, applyEvent]
      exact (abs_set s k v).symm
  | modify k v mutate report fc fi =>
    simp only [Op.honest] at ho
    obtain ⟨hfc, hmr⟩ := ho; subst hfc
    simp only [step]
    cases hk : s.m.get k with
    | none => simp [replay]
    | some old =>
      have ha : abs s k = some old := by simp [abs, hk]
      cases report with
      | false =>
        have hm : mutate = false := by cases mutate <;> simp_all
        subst hm
        simp only [Bool.not_false, if_true, Bool.false_eq_true, if_false, replay, List.foldl_nil]
        rw [abs_set, upd_same _ _ _ ha]
      | true =>
        simp only [Bool.not_true, Bool.false_eq_true, if_false, h3]
        rw [execItem_events_reporting _ _ _ (by exact h1), replay_append, replay_execChanged]
        simp only [replay, List.foldl_cons, List.foldl_nil, applyEvent]
        exact (abs_set s k _).symm
  | delete k fc fi =>
    simp only [Op.honest] at ho; subst ho
    simp only [step]
    cases hk : s.m.get k with
    | none => simp [replay]
    | some old =>
      simp only [h4]
      rw [execItem_events_reporting _ _ _ (by exact h1), replay_append, replay_execChanged]
      simp only [replay, List.foldl_cons, List.foldl_nil, applyEvent]
      exact (abs_del s k).symm
  | get k => simp only [step]; split <;> simp [replay]
  | all => simp [step, replay]
  | exec fc => simp only [step]; exact replay_execChanged _ _ _

/-- All events of a history, in emission order. -/
def allEvents (s : St) (ops : List Op) : List Event := ((run s ops).2.map (·.events)).flatten

theorem run_fst (s : St) (ops : List Op) : (run s ops).1 = final s ops := by
  induction ops generalizing s with
  | nil => rfl
  | cons op ops ih => simp [run, final, ih]

theorem mirror_run (s : St) (ops : List Op) (h : Reporting s) (ho : ∀ op ∈ ops, op.honest) :
    replay (abs s) (allEvents s ops) = abs (final s ops) := by
  induction ops generalizing s with
  | nil => simp [allEvents, run, replay, final]
  | cons op ops ih =>
    have h1 := mirror_step h op (ho op (by simp))
    have h2 := ih (step s op).1 (reporting_step h op (ho op (by simp))) (fun o hm => ho o (by simp [hm]))
    have e : allEvents s (op :: ops) = (step s op).2.events ++ allEvents (step s op).1 ops := by
      simp [allEvents, run]
    rw [e, replay_append, h1, h2]
    simp [final]

/-- A callback run never produces one of the store-level refusals. -/
theorem execItem_res (s : St) (present : Bool) (ev : Event) (fc fi : Bool) :
    (execItem s present ev fc fi).1 ≠ .errExists ∧ (execItem s present ev fc fi).1 ≠ .errMissing := by
  obtain ⟨m, en, hC, hA, hM, hD⟩ := s
  cases en <;> cases hC <;> cases fc <;> cases present <;> cases fi <;> simp [execItem, execChanged]

theorem execChanged_res (s : St) (fc : Bool) :
    (execChanged s fc).1 ≠ .errExists ∧ (execChanged s fc).1 ≠ .errMissing := by
  obtain ⟨m, en, hC, hA, hM, hD⟩ := s
  cases en <;> cases hC <;> cases fc <;> simp [execChanged]

end Hive.C12b.OC
