import Hive.Proofs.C12aHeapOrd
/-!
# The C12 heap / priority-queue model: invariant and outputs (levels 3 and 4)

* `C12aHeapBasic`: frame lemmas, `lessK` order facts;
* `C12aHeapIdx`: `IdxInv` ("handle index = position"), preserved by every operation;
* `C12aHeapPerm`: multiset facts (`List.Perm`) and idempotence of the `remove` closure;
* `C12aHeapOrd`: `HeapOrd` through `up`/`down` (heaps with a hole), `root_min`;
* this file: `Inv = IdxInv ∧ HeapOrd` over all histories, and what `Pop`, `Peek`, `PopAll`,
  `PopUntil` return.
-/
namespace Hive.C12a.Heap

/-- The queue invariant: index invariant and heap order. -/
def Inv (s : St) : Prop := IdxInv s ∧ HeapOrd s

instance (s : St) : Decidable (IdxInv s) := by unfold IdxInv; infer_instance
instance (s : St) : Decidable (HeapOrd s) :=
  decidable_of_iff (∀ i, i < s.arr.length → 0 < i → less s i ((i - 1) / 2) = false)
    ⟨fun h i h0 hi => h i hi h0, fun h i hi h0 => h i h0 hi⟩
instance (s : St) : Decidable (Inv s) := by unfold Inv; infer_instance

theorem inv_init (d : Cmp) : Inv (init d) := ⟨idxInv_init d, heapOrd_init d⟩

/-! ## heap order through the queue operations -/

/-- `Push` keeps the heap order. -/
theorem heapOrd_push (s : St) (v : Nat) (p : Int) (hs : HeapOrd s) : HeapOrd (push s v p).1 := by
  unfold push
  apply heapOrd_heapPush
  intro k hk0 hkn
  exact hs k hk0 hkn

/-- The `remove` closure keeps the invariant, for every handle (live, dead or never allocated). -/
theorem inv_removeHandle (s : St) (h : Nat) (hs : Inv s) : Inv (removeHandle s h) := by
  refine ⟨idxInv_removeHandle s h hs.1, ?_⟩
  unfold removeHandle
  split
  · next hh => exact heapOrd_heapRemove s _ (hs.1.lookup hh).1 hs.2
  · exact hs.2

theorem heapOrd_pop (s : St) (hs : HeapOrd s) : HeapOrd (pop s).1 := by
  unfold pop
  split
  · next hne => exact heapOrd_heapPop s hne hs
  · exact hs

theorem heapOrd_popUntilAux (p : Int) (fuel : Nat) (s : St) (acc : List Elem) (hs : HeapOrd s) :
    HeapOrd (popUntilAux p fuel s acc).1 := by
  induction fuel generalizing s acc with
  | zero => exact hs
  | succ n ih =>
    unfold popUntilAux
    split
    · next hc => exact ih _ _ (heapOrd_heapPop s hc.1 hs)
    · exact hs

theorem heapOrd_popAllAux (fuel : Nat) (s : St) (acc : List Elem) (hs : HeapOrd s) :
    HeapOrd (popAllAux fuel s acc).1 := by
  induction fuel generalizing s acc with
  | zero => exact hs
  | succ n ih =>
    unfold popAllAux
    split
    · next hc => exact ih _ _ (heapOrd_heapPop s hc hs)
    · exact hs

theorem inv_push (s : St) (v : Nat) (p : Int) (hs : Inv s) : Inv (push s v p).1 :=
  ⟨idxInv_push s v p hs.1, heapOrd_push s v p hs.2⟩

theorem inv_pop (s : St) (hs : Inv s) : Inv (pop s).1 :=
  ⟨idxInv_pop s hs.1, heapOrd_pop s hs.2⟩

theorem inv_popUntil (s : St) (p : Int) (hs : Inv s) : Inv (popUntil s p).1 :=
  ⟨idxInv_popUntil s p hs.1, heapOrd_popUntilAux p _ s [] hs.2⟩

theorem inv_popAll (s : St) (hs : Inv s) : Inv (popAll s).1 :=
  ⟨idxInv_popAll s hs.1, heapOrd_popAllAux _ s [] hs.2⟩

/-- Every request keeps the invariant. -/
theorem inv_step (s : St) (op : Op) (hs : Inv s) : Inv (step s op).1 := by
  cases op with
  | push v p => exact inv_push s v p hs
  | remove h => exact inv_removeHandle s h hs
  | peek => exact hs
  | pop => exact inv_pop s hs
  | popUntil p => exact inv_popUntil s p hs
  | popAll => exact inv_popAll s hs
  | size => exact hs
  | isEmpty => exact hs

theorem inv_final_of (s : St) (ops : List Op) (hs : Inv s) : Inv (final s ops) := by
  induction ops generalizing s with
  | nil => exact hs
  | cons op ops ih => exact ih _ (inv_step s op hs)

/-- The invariant holds after every history of requests on a fresh queue. -/
theorem inv_final (d : Cmp) (ops : List Op) : Inv (final (init d) ops) :=
  inv_final_of _ ops (inv_init d)

/-- … and so for the state `run` ends in. -/
theorem inv_run (d : Cmp) (ops : List Op) : Inv (run (init d) ops).1 := by
  rw [run_fst]; exact inv_final d ops

/-! ## outputs -/

/-- `Peek` answers `none` exactly on the empty queue. -/
theorem peek_none_iff (s : St) : peek s = none ↔ s.arr = [] := by
  unfold peek
  split <;> simp_all

/-- `Peek` on an ordered heap returns a best element of the array. -/
theorem peek_spec (s : St) (hs : HeapOrd s) (hne : s.arr ≠ []) :
    ∃ e, peek s = some e ∧ e ∈ s.arr ∧ ∀ x ∈ s.arr, lessK s.cmp x.key e.key = false := by
  have hl : s.arr.length ≠ 0 := by simpa using hne
  refine ⟨s.at 0, by simp [peek, hl], at_mem s 0 (by omega), root_min_mem s hs⟩

/-- `Pop` answers `none` exactly on the empty queue (and then leaves it alone). -/
theorem pop_none_iff (s : St) : (pop s).2 = none ↔ s.arr = [] := by
  unfold pop
  split <;> simp_all

theorem pop_empty (s : St) (h : s.arr = []) : pop s = (s, none) := by
  simp [pop, h]

@[simp] theorem pop_cmp (s : St) : (pop s).1.cmp = s.cmp := by
  unfold pop; split <;> simp

/-- `Pop` on an ordered non-empty heap returns a best element `e` of the array, and exactly `e`
leaves the array. -/
theorem pop_spec (s : St) (hs : HeapOrd s) (hne : s.arr ≠ []) :
    ∃ e, (pop s).2 = some e ∧ e ∈ s.arr ∧ (∀ x ∈ s.arr, lessK s.cmp x.key e.key = false) ∧
      s.arr.Perm (e :: (pop s).1.arr) := by
  have hl : s.arr.length ≠ 0 := by simpa using hne
  refine ⟨(heapPop s).2, by simp [pop, hl], ?_, ?_, ?_⟩
  · rw [heapPop_elem s hl]; exact at_mem s 0 (by omega)
  · rw [heapPop_elem s hl]; exact root_min_mem s hs
  · simpa [pop, hl] using heapPop_perm s hl

/-- `Pop` returns what `Peek` shows. -/
theorem pop_eq_peek (s : St) : (pop s).2 = peek s := by
  unfold pop peek
  split
  · next hl => simp [heapPop_elem s hl]
  · rfl

/-- Loop invariant of `PopAll`. -/
theorem popAllAux_spec (fuel : Nat) (s : St) (acc : List Elem) (hs : HeapOrd s)
    (hf : s.arr.length ≤ fuel) :
    ∃ l, (popAllAux fuel s acc).2 = acc ++ l ∧ l.Perm s.arr ∧ (popAllAux fuel s acc).1.arr = [] ∧
      l.Pairwise (fun a b => lessK s.cmp b.key a.key = false) := by
  induction fuel generalizing s acc with
  | zero =>
    exact ⟨[], by simp [popAllAux], by simp [List.length_eq_zero_iff.1 (Nat.le_zero.1 hf)],
      List.length_eq_zero_iff.1 (Nat.le_zero.1 hf), List.Pairwise.nil⟩
  | succ n ih =>
    unfold popAllAux
    split
    · next hne =>
      obtain ⟨l, h1, h2, h3, h4⟩ := ih (heapPop s).1 (acc ++ [(heapPop s).2])
        (heapOrd_heapPop s hne hs) (by simp; omega)
      have hperm := heapPop_perm s hne
      refine ⟨(heapPop s).2 :: l, by simp [h1], ?_, h3, ?_⟩
      · exact (List.Perm.cons _ h2).trans hperm.symm
      · rw [heapPop_cmp] at h4
        refine List.Pairwise.cons ?_ h4
        intro x hx
        rw [heapPop_elem s hne]
        apply root_min_mem s hs
        exact hperm.symm.subset (List.mem_cons_of_mem _ (h2.subset hx))
    · next he =>
      have : s.arr = [] := by simpa using he
      exact ⟨[], by simp, by simp [this], this, List.Pairwise.nil⟩

/-- `PopAll` on an ordered heap empties the array and returns all its elements, best first. -/
theorem popAll_spec (s : St) (hs : HeapOrd s) :
    (popAll s).2.Perm s.arr ∧ (popAll s).1.arr = [] ∧
      (popAll s).2.Pairwise (fun a b => lessK s.cmp b.key a.key = false) := by
  obtain ⟨l, h1, h2, h3, h4⟩ := popAllAux_spec s.arr.length s [] hs (Nat.le_refl _)
  simp only [List.nil_append] at h1
  unfold popAll
  rw [h1]
  exact ⟨h2, h3, h4⟩

/-- An element above the root of an ordered heap is above every element. -/
theorem lessK_of_root (d : Cmp) (p r x : Int) (h1 : lessK d p r = true)
    (h2 : lessK d x r = false) : lessK d p x = true := by
  cases h : lessK d p x
  · have := lessK_trans_false d p x r h h2
    rw [h1] at this; cases this
  · rfl

/-- Loop invariant of `PopUntil`. -/
theorem popUntilAux_spec (p : Int) (fuel : Nat) (s : St) (acc : List Elem) (hs : HeapOrd s)
    (hf : s.arr.length ≤ fuel) :
    ∃ l, (popUntilAux p fuel s acc).2 = acc ++ l ∧
      (l ++ (popUntilAux p fuel s acc).1.arr).Perm s.arr ∧
      l.Pairwise (fun a b => lessK s.cmp b.key a.key = false) ∧
      (∀ e ∈ l, leK s.cmp e.key p = true) ∧
      (∀ x ∈ (popUntilAux p fuel s acc).1.arr, leK s.cmp x.key p = false) := by
  induction fuel generalizing s acc with
  | zero =>
    have : s.arr = [] := List.length_eq_zero_iff.1 (Nat.le_zero.1 hf)
    exact ⟨[], by simp [popUntilAux], by simp [popUntilAux], List.Pairwise.nil, by simp,
      by simp [popUntilAux, this]⟩
  | succ n ih =>
    unfold popUntilAux
    split
    · next hc =>
      obtain ⟨hne, hle⟩ := hc
      obtain ⟨l, h1, h2, h3, h4, h5⟩ := ih (heapPop s).1 (acc ++ [(heapPop s).2])
        (heapOrd_heapPop s hne hs) (by simp; omega)
      have hperm := heapPop_perm s hne
      rw [heapPop_cmp] at h3 h4 h5
      refine ⟨(heapPop s).2 :: l, by simp [h1], ?_, ?_, ?_, h5⟩
      · exact (List.Perm.cons _ h2).trans hperm.symm
      · refine List.Pairwise.cons ?_ h3
        intro x hx
        rw [heapPop_elem s hne]
        apply root_min_mem s hs
        exact hperm.symm.subset (List.mem_cons_of_mem _ (h2.subset (List.mem_append_left _ hx)))
      · intro e he
        rcases List.mem_cons.1 he with rfl | he
        · rw [heapPop_elem s hne]; exact hle
        · exact h4 e he
    · next hc =>
      refine ⟨[], by simp, by simp, List.Pairwise.nil, by simp, ?_⟩
      intro x hx
      have hne : s.arr.length ≠ 0 := by
        intro h0; rw [List.length_eq_zero_iff.1 h0] at hx; cases hx
      have hroot : leK s.cmp (s.at 0).key p = false := by
        cases h : leK s.cmp (s.at 0).key p
        · rfl
        · exact absurd ⟨hne, h⟩ hc
      rw [leK_false_iff] at hroot ⊢
      exact lessK_of_root _ _ _ _ hroot (root_min_mem s hs x hx)

/-- `PopUntil(p)` on an ordered heap returns, best first, exactly the elements with key `≤ p`
(`CompareTo(p) <= 0`); every element left in the array has key `> p`. -/
theorem popUntil_spec (s : St) (p : Int) (hs : HeapOrd s) :
    ((popUntil s p).2 ++ (popUntil s p).1.arr).Perm s.arr ∧
      (popUntil s p).2.Pairwise (fun a b => lessK s.cmp b.key a.key = false) ∧
      (∀ e ∈ (popUntil s p).2, leK s.cmp e.key p = true) ∧
      (∀ x ∈ (popUntil s p).1.arr, leK s.cmp x.key p = false) := by
  obtain ⟨l, h1, h2, h3, h4, h5⟩ := popUntilAux_spec p s.arr.length s [] hs (Nat.le_refl _)
  simp only [List.nil_append] at h1
  unfold popUntil
  rw [h1]
  exact ⟨h2, h3, h4, h5⟩

/-! ## non-vacuity checks (tests on concrete instances, not general claims) -/

/-- A concrete three-element state. -/
def exampleState : St :=
  { cmp := Cmp.asc, arr := [⟨1, 3, 20⟩, ⟨0, 5, 10⟩, ⟨2, 4, 30⟩], idx := [1, 0, 2] }

-- The invariant is satisfiable by a non-trivial state …
example : Inv exampleState := by decide

-- … which is what three pushes produce, …
unseal up down in
example : final (init Cmp.asc) [.push 10 5, .push 20 3, .push 30 4] = exampleState := by rfl

-- … `Pop` then returns the element with the least key, and calling a handle twice, or the handle of
-- a popped element, changes nothing.
unseal up down in
example : (run (init Cmp.asc) [.push 10 5, .push 20 3, .push 30 4, .remove 0, .remove 0, .pop,
    .remove 1, .popAll]).2 =
    [.handle 0, .handle 1, .handle 2, .ok, .ok, .elem (some ⟨1, 3, 20⟩), .ok,
      .elems [⟨2, 4, 30⟩]] := by decide

instance (s : St) (n : Nat) : Decidable (HeapOn s n) :=
  decidable_of_iff (∀ k, k < n → 0 < k → less s k ((k - 1) / 2) = false)
    ⟨fun h k h0 hk => h k hk h0, fun h k hk h0 => h k h0 hk⟩
instance (s : St) (i n : Nat) : Decidable (HoleDown s i n) :=
  decidable_of_iff
    ((∀ k, k < n → 0 < k → k ≠ i → (k - 1) / 2 ≠ i → less s k ((k - 1) / 2) = false) ∧
     (∀ k, k < n → 0 < k → (k - 1) / 2 = i → 0 < i → less s k ((i - 1) / 2) = false))
    ⟨fun h => ⟨fun k h0 hk => h.1 k hk h0, fun k h0 hk => h.2 k hk h0⟩,
     fun h => ⟨fun k hk h0 => h.1 k h0 hk, fun k hk h0 => h.2 k h0 hk⟩⟩
instance (s : St) (j n : Nat) : Decidable (HoleUp s j n) :=
  decidable_of_iff
    ((∀ k, k < n → 0 < k → k ≠ j → less s k ((k - 1) / 2) = false) ∧
     (∀ k, k < n → 0 < k → (k - 1) / 2 = j → 0 < j → less s k ((j - 1) / 2) = false))
    ⟨fun h => ⟨fun k h0 hk => h.1 k hk h0, fun k h0 hk => h.2 k hk h0⟩,
     fun h => ⟨fun k hk h0 => h.1 k h0 hk, fun k hk h0 => h.2 k h0 hk⟩⟩

/-- The state `heap.Remove(1)` meets after its `Swap(1, 6)` on the heap with keys `1 … 7`. -/
def exampleHole : St :=
  { cmp := Cmp.asc,
    arr := [⟨0, 1, 0⟩, ⟨6, 7, 0⟩, ⟨2, 3, 0⟩, ⟨3, 4, 0⟩, ⟨4, 5, 0⟩, ⟨5, 6, 0⟩, ⟨1, 2, 0⟩],
    idx := [0, 6, 2, 3, 4, 5, 1] }

-- The hypotheses of `down_spec` / `up_spec` are satisfiable by a state that is not a heap:
-- a hole at slot 1 of the prefix of length 6 (with the grandparent property).
example : HoleDown exampleHole 1 6 ∧ ¬ HeapOn exampleHole 6 ∧ IdxInv exampleHole := by decide

-- `down` repairs it (the hole sinks to slot 3).
unseal down in
example : HeapOn (down exampleHole 1 6).1 6 ∧ (down exampleHole 1 6).2 = 3 := by decide

/-- A hole that `up` has to repair: key 0 appended to the heap with keys `1 … 6`. -/
def exampleHoleUp : St :=
  { cmp := Cmp.asc,
    arr := [⟨0, 1, 0⟩, ⟨1, 2, 0⟩, ⟨2, 3, 0⟩, ⟨3, 4, 0⟩, ⟨4, 5, 0⟩, ⟨5, 6, 0⟩, ⟨6, 0, 0⟩],
    idx := [0, 1, 2, 3, 4, 5, 6] }

unseal up in
example : HoleUp exampleHoleUp 6 7 ∧ ¬ HeapOrd exampleHoleUp ∧ Inv (up exampleHoleUp 6) ∧
    ((up exampleHoleUp 6).at 0).key = 0 := by decide

-- A state violating the heap order / the index invariant is rejected.
example : ¬ Inv { cmp := Cmp.dsc, arr := [⟨1, 3, 20⟩, ⟨0, 5, 10⟩], idx := [1, 0] } := by decide
example : ¬ Inv { cmp := Cmp.asc, arr := [⟨1, 3, 20⟩, ⟨0, 5, 10⟩], idx := [0, 1] } := by decide

end Hive.C12a.Heap
