import Hive.Proofs.C12aHeapIdx
