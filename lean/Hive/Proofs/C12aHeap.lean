import Hive.Proofs.C12aHeapOrd
