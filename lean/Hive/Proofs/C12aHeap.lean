import Hive.Proofs.C12aHeapPerm
