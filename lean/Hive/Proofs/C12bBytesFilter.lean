import Hive.Model.C12bBytesFilter
/-! Invariant and refinement lemmas for the BytesFilter model. -/
namespace Hive.C12b.BF

theorem mem_setInsert (s : List Nat) (x y : Nat) : y ∈ setInsert s x ↔ y = x ∨ y ∈ s := by
  unfold setInsert
  by_cases h : x ∈ s
  · simp only [h, if_true]
    constructor
    · exact Or.inr
    · rintro (h1 | h1)
      · exact h1 ▸ h
      · exact h1
  · simp only [h, if_false, List.mem_append, List.mem_singleton]
    constructor
    · rintro (h1 | h1)
      · exact Or.inr h1
      · exact Or.inl h1
    · rintro (h1 | h1)
      · exact Or.inr h1
      · exact Or.inl h1

theorem mem_setErase (s : List Nat) (x y : Nat) : y ∈ setErase s x ↔ y ∈ s ∧ y ≠ x := by
  simp [setErase]

theorem lastN_of_le (n : Nat) (l : List Nat) (h : l.length ≤ n) : lastN n l = l := by
  have : l.length - n = 0 := by omega
  simp [lastN, this]

theorem lastN_length (n : Nat) (l : List Nat) : (lastN n l).length = min n l.length := by
  simp [lastN]; omega

/-- Appending one element and keeping the last `n` only depends on the last `n` of the prefix. -/
theorem lastN_snoc (n : Nat) (l : List Nat) (x : Nat) (hn : 0 < n) :
    lastN n (l ++ [x]) = lastN n (lastN n l ++ [x]) := by
  by_cases h : l.length ≤ n
  · rw [lastN_of_le n l h]
  · have h' : n < l.length := by omega
    unfold lastN
    simp only [List.length_append, List.length_singleton, List.length_drop]
    have e1 : l.length + 1 - n ≤ l.length := by omega
    rw [List.drop_append_of_le_length e1]
    have e2 : l.length - (l.length - n) + 1 - n = 1 := by omega
    rw [e2]
    have e3 : 1 ≤ (List.drop (l.length - n) l).length := by simp; omega
    rw [List.drop_append_of_le_length e3, List.drop_drop]
    have e4 : l.length - n + 1 = l.length + 1 - n := by omega
    rw [e4]

structure Inv (s : St) : Prop where
  nodup : s.ids.Nodup
  bound : s.ids.length ≤ s.size
  known : ∀ x, x ∈ s.known ↔ x ∈ s.ids
  last : s.ids = lastN s.size s.accepted

theorem inv_init (n : Nat) : Inv (init n) := by
  constructor <;> simp [init, lastN]

theorem step_size (s : St) (op : Op) : (step s op).1.size = s.size := by
  cases op with
  | has x => rfl
  | add x =>
    simp only [step]
    split
    · rfl
    · split
      · split <;> rfl
      · rfl

theorem inv_step {s : St} (h : Inv s) (op : Op) : Inv (step s op).1 := by
  cases op with
  | has x => exact h
  | add x =>
    simp only [step]
    by_cases hk : x ∈ s.known
    · simp only [hk, if_true]; exact h
    · have hx : x ∉ s.ids := fun e => hk ((h.known x).2 e)
      simp only [hk, if_false]
      by_cases hl : s.ids.length = s.size
      · simp only [hl, if_true]
        cases hids : s.ids with
        | nil => simp only []; exact h
        | cons o rest =>
          simp only []
          have hnd := h.nodup
          rw [hids] at hnd hx hl
          simp only [List.nodup_cons] at hnd
          simp only [List.mem_cons, not_or] at hx
          have hpos : 0 < s.size := by rw [← hl]; simp
          constructor
          · show (rest ++ [x]).Nodup
            rw [List.nodup_append]
            refine ⟨hnd.2, by simp, ?_⟩
            intro a ha b hb
            simp only [List.mem_singleton] at hb
            subst hb
            intro e; subst e; exact hx.2 ha
          · show (rest ++ [x]).length ≤ s.size
            simp only [List.length_cons] at hl
            simp; omega
          · intro y
            show y ∈ setInsert (setErase s.known o) x ↔ y ∈ rest ++ [x]
            rw [mem_setInsert, mem_setErase, h.known y, hids]
            simp only [List.mem_cons, List.mem_append, List.not_mem_nil, or_false]
            constructor
            · rintro (h1 | ⟨h1 | h1, h2⟩)
              · exact Or.inr h1
              · exact absurd h1 h2
              · exact Or.inl h1
            · rintro (h1 | h1)
              · refine Or.inr ⟨Or.inr h1, ?_⟩
                intro e; subst e; exact hnd.1 h1
              · exact Or.inl h1
          · show rest ++ [x] = lastN s.size (s.accepted ++ [x])
            rw [lastN_snoc _ _ _ hpos, ← h.last, hids]
            unfold lastN
            have : (o :: rest ++ [x]).length - s.size = 1 := by
              simp only [List.length_cons] at hl
              simp; omega
            rw [this]; rfl
      · simp only [hl, if_false]
        have hb := h.bound
        have hlt : s.ids.length < s.size := by omega
        constructor
        · show (s.ids ++ [x]).Nodup
          rw [List.nodup_append]
          refine ⟨h.nodup, by simp, ?_⟩
          intro a ha b hb
          simp only [List.mem_singleton] at hb
          subst hb
          intro e; subst e; exact hx ha
        · show (s.ids ++ [x]).length ≤ s.size
          simp; omega
        · intro y
          show y ∈ setInsert s.known x ↔ y ∈ s.ids ++ [x]
          rw [mem_setInsert, h.known y]
          simp only [List.mem_append, List.mem_singleton]
          constructor
          · rintro (h1 | h1)
            · exact Or.inr h1
            · exact Or.inl h1
          · rintro (h1 | h1)
            · exact Or.inr h1
            · exact Or.inl h1
        · show s.ids ++ [x] = lastN s.size (s.accepted ++ [x])
          rw [lastN_snoc _ _ _ (by omega), ← h.last]
          rw [lastN_of_le]
          simp; omega

theorem inv_final (s : St) (ops : List Op) (h : Inv s) : Inv (final s ops) := by
  induction ops generalizing s with
  | nil => exact h
  | cons op ops ih => exact ih _ (inv_step h op)

/-- One implementation step is one specification step (answers and abstract state). -/
theorem step_refines {s : St} (h : Inv s) (op : Op) :
    (step s op).2 = (specStep (abs s) op).2 ∧ abs (step s op).1 = (specStep (abs s) op).1 := by
  cases op with
  | has x =>
    simp only [step, specStep, abs]
    have := h.known x
    by_cases hk : x ∈ s.known
    · simp [hk, this.1 hk]
    · have : x ∉ s.ids := fun e => hk (this.2 e)
      simp [hk, this]
  | add x =>
    simp only [step, specStep, abs]
    by_cases hk : x ∈ s.known
    · have := (h.known x).1 hk
      simp [hk, this]
    · have hx : x ∉ s.ids := fun e => hk ((h.known x).2 e)
      simp only [hk, hx, if_false]
      by_cases hl : s.ids.length = s.size
      · simp only [hl, if_true]
        cases hids : s.ids with
        | nil =>
          rw [hids] at hl
          have : s.size = 0 := by simpa using hl.symm
          simp [this, hids]
        | cons o rest =>
          rw [hids] at hl
          simp only [List.length_cons] at hl
          have hne : ¬ s.size = 0 := by omega
          simp only [hne, if_false, true_and]
          congr 1
          unfold lastN
          have : (o :: rest ++ [x]).length - s.size = 1 := by simp; omega
          rw [this]; rfl
      · simp only [hl, if_false]
        have hb := h.bound
        have hne : ¬ s.size = 0 := by omega
        simp only [hne, if_false, true_and]
        congr 1
        rw [lastN_of_le]
        simp; omega

def specRun (s : Spec) : List Op → Spec × List Out
  | [] => (s, [])
  | op :: ops =>
    let r := specStep s op
    let rs := specRun r.1 ops
    (rs.1, r.2 :: rs.2)

theorem run_refines (s : St) (ops : List Op) (h : Inv s) :
    (run s ops).2 = (specRun (abs s) ops).2 ∧ abs (run s ops).1 = (specRun (abs s) ops).1 := by
  induction ops generalizing s with
  | nil => simp [run, specRun]
  | cons op ops ih =>
    obtain ⟨h1, h2⟩ := step_refines h op
    obtain ⟨h3, h4⟩ := ih _ (inv_step h op)
    simp only [run, specRun]
    rw [← h2, h1]
    exact ⟨by rw [h3], h4⟩

theorem run_fst (s : St) (ops : List Op) : (run s ops).1 = final s ops := by
  induction ops generalizing s with
  | nil => rfl
  | cons op ops ih => simp [run, final, ih]

end Hive.C12b.BF
