import Hive.Proofs.TimedAll
/-!
# C18 — what the queue discards is marked as cancelled and is never handed out

The property excuses an element from "eventually delivered exactly once" when it is *dropped by a shutdown flag or
the size bound*.  `Drp` says that the excuse and the delivery exclude each other, in every reachable configuration
and in both orders: an element with a `dropSD` / `dropSize` event has a closed cancel channel (so `Cancel(id)`
reports false for it and the re-check in `Poll` can never return it) and no `deliver` event — neither before the
drop (a delivered element is in nobody's hands and not in the heap any more: counting invariant `a1`) nor after it
(channels are never re-opened and `Poll` re-checks the channel before every return of a value).
-/
namespace Hive.Timed
open Hive.Conc

/-- `x` was discarded by the queue: size bound, or `CancelPendingElements` (in `Shutdown` or in `Poll`). -/
def Ev.isDrop (x : Nat) : Ev → Bool
  | .dropSD y => y == x
  | .dropSize y => y == x
  | _ => false

/-- Whatever the queue has discarded is marked as cancelled and has not been delivered. -/
def Drp (s : Sh) : Prop := ∀ x, s.log.any (Ev.isDrop x) = true → x ∈ s.closed ∧ dc x s.log = 0

theorem drp_congr {s s' : Sh} (h : Drp s) (hl : s'.log = s.log) (hc : s'.closed = s.closed) : Drp s' := by
  intro x hx
  rw [hl] at hx
  rw [hl, hc]
  exact h x hx

/-- A step that puts `new` in front of the log, none of it a delivery, every drop among it of an element that is now
marked and was not delivered, and that keeps closed channels closed. -/
theorem drp_drops {s s' : Sh} (h : Drp s) (new : List Ev) (hl : s'.log = new ++ s.log)
    (hnd : ∀ ev ∈ new, ∀ x, Ev.isDeliver x ev = false)
    (hdrop : ∀ ev ∈ new, ∀ x, Ev.isDrop x ev = true → x ∈ s'.closed ∧ dc x s.log = 0)
    (hc : ∀ y ∈ s.closed, y ∈ s'.closed) : Drp s' := by
  intro x hx
  rw [hl, List.any_append, Bool.or_eq_true] at hx
  have hboth : x ∈ s'.closed ∧ dc x s.log = 0 := by
    rcases hx with hx | hx
    · rw [List.any_eq_true] at hx
      obtain ⟨ev, hev, hd⟩ := hx
      exact hdrop ev hev x hd
    · obtain ⟨h1, h2⟩ := h x hx
      exact ⟨hc x h1, h2⟩
  refine ⟨hboth.1, ?_⟩
  have h2 := hboth.2
  rw [hl]
  unfold dc at *
  rw [List.countP_append, h2, Nat.add_zero, List.countP_eq_zero]
  intro ev hev
  rw [hnd ev hev x]
  simp

/-- … in particular a step that logs neither drops nor deliveries. -/
theorem drp_keep {s s' : Sh} (h : Drp s) (new : List Ev) (hl : s'.log = new ++ s.log)
    (hn : ∀ ev ∈ new, ∀ x, Ev.isDrop x ev = false ∧ Ev.isDeliver x ev = false)
    (hc : ∀ y ∈ s.closed, y ∈ s'.closed) : Drp s' :=
  drp_drops h new hl (fun ev hev x => (hn ev hev x).2)
    (fun ev hev x hd => by rw [(hn ev hev x).1] at hd; cases hd) hc

theorem drp_same {s s' : Sh} (h : Drp s) (hl : s'.log = s.log) (hc : ∀ y ∈ s.closed, y ∈ s'.closed) : Drp s' :=
  drp_keep h [] (by simpa using hl) (by intro ev hev; cases hev) hc

theorem drp_one {s s' : Sh} (h : Drp s) (ev : Ev) (hl : s'.log = ev :: s.log)
    (hn : ∀ x, Ev.isDrop x ev = false ∧ Ev.isDeliver x ev = false)
    (hc : ∀ y ∈ s.closed, y ∈ s'.closed) : Drp s' :=
  drp_keep h [ev] (by simpa using hl) (by intro e he x; simp only [List.mem_singleton] at he; subst he; exact hn x) hc

/-! ## the API calls -/

theorem drp_cancelElem {s : Sh} (h : Drp s) (x : Nat) : Drp (cancelElem s x) :=
  drp_one h (.cancelled x) (cancelElem_log s x) (fun _ => ⟨rfl, rfl⟩)
    (fun y hy => (cancelElem_closed_mem s x y).mpr (Or.inr hy))

theorem drp_exec1 {s : Sh} (h : Drp s) (i : Nat) : Drp (exec1 s i) := by
  unfold exec1
  split
  · rename_i x _
    refine drp_one (drp_cancelElem h x) (.replaced i x) rfl (fun _ => ⟨rfl, rfl⟩) (fun y hy => hy)
  · exact drp_congr h rfl rfl

theorem drp_cancelId {s : Sh} (h : Drp s) (i : Nat) : Drp (cancelId s i) := by
  unfold cancelId
  split
  · exact drp_one h _ rfl (fun _ => ⟨rfl, rfl⟩) (fun y hy => hy)
  · rename_i x _
    exact drp_one (drp_cancelElem h x) _ rfl (fun _ => ⟨rfl, rfl⟩) (fun y hy => hy)

/-- An element that is in the heap has not been delivered. -/
theorem dc_zero_of_heap {s : Sh} {ts : List Th} (hI : Inv s ts) {e : Elem} (he : e ∈ s.heap) : dc e.serial s.log = 0 := by
  have a1 := hI.a1 e.serial
  have : 0 < hc e.serial s.heap := by
    unfold hc
    exact List.countP_pos_iff.mpr ⟨e, he, by simp⟩
  omega

/-- `Queue.Add`: the victim of the size bound is the new element (fresh serial) or an element of the heap — not
delivered either way — and its channel is closed by the drop. -/
theorem drp_add {s : Sh} {ts : List Th} (hI : Inv s ts) (h : Drp s) (due : Nat) (id : Option Nat) (kind : Kind)
    (tag : Nat) : Drp (add s due id kind tag).1 := by
  rcases add_cases s due id kind tag with ⟨_, h1, _⟩ | ⟨_, _, h2, new, cl, h1, hcase⟩
  · rw [h1]; exact h
  · rw [h1]
    rcases hcase with ⟨rfl, rfl, _⟩ | ⟨d, rfl, rfl, hperm, _⟩
    · refine drp_one h (.sched s.next id due) ?_ (fun _ => ⟨rfl, rfl⟩) ?_
      · simp
      · intro y hy; simpa using hy
    · refine drp_drops h [.dropSize d.serial, .sched s.next id due] ?_ ?_ ?_ ?_
      · simp
      · intro ev hev x
        simp only [List.mem_cons, List.not_mem_nil, or_false] at hev
        rcases hev with rfl | rfl <;> rfl
      · intro ev hev x hd
        simp only [List.mem_cons, List.not_mem_nil, or_false] at hev
        rcases hev with rfl | rfl
        · have hx : d.serial = x := by simpa [Ev.isDrop] using hd
          subst hx
          refine ⟨by simp, ?_⟩
          have hmem : d ∈ newElem s due id kind tag :: s.heap := hperm.symm.subset (by simp)
          rcases List.mem_cons.mp hmem with hd' | hd'
          · have : d.serial = s.next := by rw [hd']; rfl
            rw [this]
            exact (hI.fresh s.next (Nat.le_refl _)).1
          · exact dc_zero_of_heap hI hd'
        · simp [Ev.isDrop] at hd
      · intro y hy; simp [hy]

theorem exec2_log_closed (s : Sh) (i due : Nat) (kind : Kind) (tag : Nat) :
    (exec2 s i due kind tag).log = (add s due (some i) kind tag).1.log ∧
    (exec2 s i due kind tag).closed = (add s due (some i) kind tag).1.closed := by
  unfold exec2
  cases hadd : add s due (some i) kind tag with
  | mk s1 r1 => cases r1 <;> exact ⟨rfl, rfl⟩

theorem drp_exec2 {s : Sh} {ts : List Th} (hI : Inv s ts) (h : Drp s) (i due : Nat) (kind : Kind) (tag : Nat) :
    Drp (exec2 s i due kind tag) :=
  drp_congr (drp_add hI h due (some i) kind tag) (exec2_log_closed s i due kind tag).1
    (exec2_log_closed s i due kind tag).2

/-- `Queue.Shutdown` under the heap lock: with `CancelPendingElements` every element of the heap is discarded and
marked; none of them has been delivered. -/
theorem drp_sd3 {s : Sh} {ts : List Th} (hI : Inv s ts) (h : Drp s) : Drp (sd3 s) := by
  unfold sd3 broadcast
  split
  · refine drp_drops h (s.heap.map (fun e => Ev.dropSD e.serial)) rfl ?_ ?_ ?_
    · intro ev hev x
      obtain ⟨e, _, rfl⟩ := List.mem_map.mp hev
      rfl
    · intro ev hev x hd
      obtain ⟨e, he, rfl⟩ := List.mem_map.mp hev
      have hx : e.serial = x := by simpa [Ev.isDrop] using hd
      subst hx
      exact ⟨List.mem_append_left _ (List.mem_map.mpr ⟨e, he, rfl⟩), dc_zero_of_heap hI he⟩
    · intro y hy; exact List.mem_append_right _ hy
  · exact drp_congr h rfl rfl

/-! ## every transition -/

theorem drp_tr {s s' : Sh} {l r : List Th} {t t' : Th} (hI : Inv s (l ++ t :: r)) (h : Drp s) (tr : Tr s t s' t') :
    Drp s' := by
  cases tr with
  | idleExit _ _ => exact drp_congr h rfl rfl
  | idlePark _ _ => exact drp_congr h rfl rfl
  | idlePop _ => exact drp_congr h rfl rfl
  | wake _ => exact drp_congr h rfl rfl
  | hkGo _ => exact h
  | selSdCancel hctx hfl =>
    rename_i e
    -- the poller discards the element it holds: it holds it, so it has not been delivered
    refine drp_drops h [.dropSD e.serial] rfl ?_ ?_ ?_
    · intro ev hev x; simp only [List.mem_singleton] at hev; subst hev; rfl
    · intro ev hev x hd
      simp only [List.mem_singleton] at hev; subst hev
      have hx : e.serial = x := by simpa [Ev.isDrop] using hd
      subst hx
      refine ⟨List.mem_cons_self, ?_⟩
      have a1 := hI.a1 e.serial
      simp only [tsum_mid, pre, if_true] at a1
      omega
    · intro y hy; exact List.mem_cons_of_mem _ hy
  | selSdIgnore _ _ _ => exact h
  | selSd _ _ _ => exact h
  | selCancel _ => exact drp_one h _ rfl (fun _ => ⟨rfl, rfl⟩) (fun y hy => hy)
  | selTimer _ => exact h
  | selSDCancel _ => exact drp_one h _ rfl (fun _ => ⟨rfl, rfl⟩) (fun y hy => hy)
  | selSDTimer _ => exact h
  | chkSkip _ => exact drp_one h _ rfl (fun _ => ⟨rfl, rfl⟩) (fun y hy => hy)
  | chkDeliver hnc =>
    rename_i e
    -- the re-check found the channel open: the element was not discarded (a discarded one is marked)
    intro x hx
    have hx' : s.log.any (Ev.isDrop x) = true := by
      simpa [Ev.isDrop] using hx
    obtain ⟨h1, h2⟩ := h x hx'
    refine ⟨h1, ?_⟩
    have hne : e.serial ≠ x := fun he => hnc (he ▸ h1)
    show dc x (.deliver e.serial s.clock :: s.log) = 0
    unfold dc at *
    rw [List.countP_cons, h2]
    simp [Ev.isDeliver, hne]
  | wrapRaw _ => exact drp_one h _ rfl (fun _ => ⟨rfl, rfl⟩) (fun y hy => hy)
  | wrapRun _ _ _ => exact drp_one h _ rfl (fun _ => ⟨rfl, rfl⟩) (fun y hy => hy)
  | wrapSkip _ _ _ => exact drp_one h _ rfl (fun _ => ⟨rfl, rfl⟩) (fun y hy => hy)
  | cbDone _ => exact h
  | cbExec1 _ _ _ => exact drp_exec1 h _
  | cbExec2 _ _ => exact drp_exec2 hI h _ _ _ _
  | cbCancel _ _ _ => exact drp_cancelId h _
  | ctlExec2 => exact drp_exec2 hI h _ _ _ _
  | ctlSd2 => exact drp_congr h rfl rfl
  | ctlSd3 => exact drp_congr (drp_sd3 hI h) rfl rfl
  | ctlSdWait _ => exact drp_congr h rfl rfl
  | ctlWait _ => exact h
  | ctlAdd => exact drp_congr (drp_add hI h _ _ _ _) rfl rfl
  | ctlExec1 _ => exact drp_exec1 h _
  | ctlCancelElem _ => exact drp_congr (drp_cancelElem h _) rfl rfl
  | ctlCancelNone => exact drp_congr h rfl rfl
  | ctlCancelId _ => exact drp_cancelId h _
  | ctlSd1 h1 =>
    obtain ⟨_, rfl⟩ := sd1_some h1
    exact drp_one h _ rfl (fun _ => ⟨rfl, rfl⟩) (fun y hy => hy)
  | ctlSdAgain _ _ => exact drp_congr h rfl rfl
  | ctlRelease => exact drp_congr h rfl rfl
  | ctlArm => exact drp_congr h rfl rfl
  | tick => exact drp_congr h rfl rfl

structure AllD (c : Cfg Sh Th) : Prop where
  all : AllInv c
  d : Drp c.1

theorem allD_reach {maxSize : Nat} {ts : List Th} (hts : InitPool ts) {c : Cfg Sh Th}
    (hr : Reach sys (initCfg maxSize ts) c) : AllD c := by
  refine inv_induction AllD ⟨all_init maxSize ts hts, ?_⟩ ?_ hr
  · intro x hx; simp [initCfg] at hx
  · intro a b h st
    refine ⟨all_step h.all st, ?_⟩
    obtain ⟨s, l, t, r, s', t', rfl, rfl, tr⟩ := Step.tr st
    exact drp_tr h.all.i1 h.d tr

end Hive.Timed
