import Hive.Proofs.EventsOMap
import Hive.Model.EventsIter
/-!
# Simulation: the pointer-level ordered map as `event.Hook` / `Hook.Unhook` use it refines the abstract registry

Code level (`Code`): the map of `Hive.EventsOMap` plus the atomic hook counter; `Hook` = `hooksCounter.Add(1)` and
`Set(id, hook)`, `Unhook` = `Delete(id)`.  Abstract level: `Hive.EventsIter.Reg` (live ids, frozen next pointers of
removed ids) — the registry the weak-iteration and re-link theorems are about.  `Sim` relates the two (element at
address `a` ↔ id `a + 1`); it holds initially and is preserved by every operation, and under it every read an iterating
`Trigger` performs (`head`, `current.next` of a live *or removed* element) gives the same answer on both levels.
-/
namespace Hive.EventsRegSim
open Hive.EventsOMap
open Hive.EventsIter (Reg liveNext)

inductive ROp
  | attach (v : Nat)     -- `Hook` (v stands for the hook value stored in the map)
  | delete (x : Nat)     -- `Unhook` of the hook with id `x` (any number of times, also of ids never handed out)
deriving Repr, DecidableEq

structure Code where
  m : OM
  c : Nat     -- `hooksCounter`

def Code.init : Code := ⟨OM.empty, 0⟩

def codeStep (s : Code) : ROp → Code
  | .attach v => ⟨(set s.m (s.c + 1) v).1, s.c + 1⟩
  | .delete x => ⟨(EventsOMap.delete s.m x).1, s.c⟩

def regStep (r : Reg) : ROp → Reg
  | .attach _ => Hive.EventsIter.attach r
  | .delete x => Hive.EventsIter.delete r x

structure Sim (s : Code) (r : Reg) (as : List Nat) : Prop where
  wf : WF s.m as
  cnt : r.counter = s.c
  len : s.c = s.m.heap.length
  live : as.map (· + 1) = r.live
  sorted : r.live.Pairwise (· < ·)
  keys : ∀ a, a < s.m.heap.length → keyOf s.m a = some (a + 1)
  frozen : ∀ a, a < s.m.heap.length → a ∉ as → (∃ q ∈ r.frozen, q.1 = a + 1) →
    r.frozen.find? (fun p => p.1 == a + 1) = some (a + 1, (nextOf s.m a).map (· + 1))

/-- Every removed element has its frozen entry on the abstract level (true from the empty registry on; a registry
"that nobody iterates" may forget them, see `Sim.forget`). -/
def Full (s : Code) (r : Reg) (as : List Nat) : Prop :=
  ∀ a, a < s.m.heap.length → a ∉ as → ∃ q ∈ r.frozen, q.1 = a + 1

/-! ## list facts -/

theorem succ_sorted {l : List Nat} (h : l.Pairwise (· < ·)) {x : Nat} (hx : x ∈ l) :
    succ l x = l.find? (fun y => decide (x < y)) := by
  induction l with
  | nil => simp at hx
  | cons y r ih =>
    rw [succ_cons]
    have hp := List.pairwise_cons.mp h
    by_cases hy : y = x
    · subst hy
      simp only [if_true, List.find?_cons, Nat.lt_irrefl, decide_false]
      cases r with
      | nil => simp
      | cons z r' =>
        have : y < z := hp.1 z (by simp)
        simp [this]
    · have hxr : x ∈ r := by
        rcases List.mem_cons.mp hx with h' | h'
        · exact absurd h'.symm hy
        · exact h'
      have hlt : y < x := hp.1 x hxr
      have : ¬ x < y := by omega
      simp only [hy, if_false, List.find?_cons, this, decide_false]
      exact ih hp.2 hxr

theorem succ_map_succ (as : List Nat) (a : Nat) : succ (as.map (· + 1)) (a + 1) = (succ as a).map (· + 1) := by
  induction as with
  | nil => simp [succ]
  | cons x r ih =>
    rw [List.map_cons, succ_cons, succ_cons, ih]
    by_cases hx : x = a
    · subst hx
      cases r <;> simp
    · simp [hx]

theorem filter_map_succ (as : List Nat) (a : Nat) :
    (as.filter (· != a)).map (· + 1) = (as.map (· + 1)).filter (fun y => y != a + 1) := by
  induction as with
  | nil => simp
  | cons x r ih =>
    by_cases hx : x = a
    · subst hx; simp [ih]
    · simp [hx, ih]

theorem map_succ_inj : ∀ {l1 l2 : List Nat}, l1.map (· + 1) = l2.map (· + 1) → l1 = l2
  | [], [], _ => rfl
  | [], _ :: _, h => by simp at h
  | _ :: _, [], h => by simp at h
  | x :: l1, y :: l2, h => by
    simp only [List.map_cons, List.cons.injEq] at h
    have := map_succ_inj h.2
    have : x = y := by omega
    subst this; simp [*]

theorem mem_map_succ {as : List Nat} {a : Nat} : a + 1 ∈ as.map (· + 1) ↔ a ∈ as := by
  simp

/-! ## consequences of `Sim` -/

theorem Sim.liveNext_eq {s : Code} {r : Reg} {as : List Nat} (h : Sim s r as) {a : Nat} (ha : a ∈ as) :
    liveNext r (a + 1) = (succ as a).map (· + 1) := by
  unfold liveNext
  have hx : a + 1 ∈ r.live := by rw [← h.live]; exact mem_map_succ.mpr ha
  rw [← succ_sorted h.sorted hx, ← h.live, succ_map_succ]

theorem Sim.lookup_some {s : Code} {r : Reg} {as : List Nat} (h : Sim s r as) {x a : Nat} (hl : lookup s.m x = some a) :
    x = a + 1 ∧ a ∈ as := by
  obtain ⟨ha, hk⟩ := h.wf.dsound x a hl
  have := h.keys a (h.wf.bound a ha)
  rw [hk] at this
  exact ⟨Option.some.inj this, ha⟩

theorem Sim.lookup_live {s : Code} {r : Reg} {as : List Nat} (h : Sim s r as) {a : Nat} (ha : a ∈ as) :
    lookup s.m (a + 1) = some a := by
  obtain ⟨k, hk, hl⟩ := h.wf.dcompl a ha
  have := h.keys a (h.wf.bound a ha)
  rw [hk] at this
  rw [← Option.some.inj this]; exact hl

theorem Sim.lookup_fresh {s : Code} {r : Reg} {as : List Nat} (h : Sim s r as) : lookup s.m (s.c + 1) = none := by
  cases hl : lookup s.m (s.c + 1) with
  | none => rfl
  | some a =>
    obtain ⟨he, ha⟩ := h.lookup_some hl
    have := h.wf.bound a ha
    have := h.len
    omega

theorem Sim.contains_iff {s : Code} {r : Reg} {as : List Nat} (h : Sim s r as) (x : Nat) :
    r.live.contains x = has s.m x := by
  unfold has
  cases hl : lookup s.m x with
  | some a =>
    obtain ⟨he, ha⟩ := h.lookup_some hl
    subst he
    have : a + 1 ∈ r.live := by rw [← h.live]; exact mem_map_succ.mpr ha
    simpa using this
  | none =>
    have : x ∉ r.live := by
      intro hx
      rw [← h.live] at hx
      obtain ⟨a, ha, rfl⟩ := List.mem_map.mp hx
      rw [h.lookup_live ha] at hl
      cases hl
    simpa using this

/-- **Every pointer read of an iterator agrees with the abstract registry**: the element at address `a`
(live or removed) carries the id `a + 1`, and its `next` pointer is the abstract `next`. -/
theorem Sim.next_eq {s : Code} {r : Reg} {as : List Nat} (h : Sim s r as) {a : Nat} (hlt : a < s.m.heap.length)
    (hk : a + 1 ∈ r.live ∨ ∃ q ∈ r.frozen, q.1 = a + 1) :
    (nextOf s.m a).map (· + 1) = Hive.EventsIter.next r (a + 1) := by
  unfold Hive.EventsIter.next
  by_cases ha : a ∈ as
  · have hx : a + 1 ∈ r.live := by rw [← h.live]; exact mem_map_succ.mpr ha
    have hc : r.live.contains (a + 1) = true := by simpa using hx
    rw [if_pos hc, h.liveNext_eq ha, h.wf.next a ha]
  · have hx : a + 1 ∉ r.live := by rw [← h.live]; exact fun hm => ha (mem_map_succ.mp hm)
    have hc : ¬ r.live.contains (a + 1) = true := by simpa using hx
    have hq : ∃ q ∈ r.frozen, q.1 = a + 1 := hk.resolve_left hx
    rw [if_neg hc, h.frozen a hlt ha hq]

/-- A registry that nobody iterates may forget its frozen entries. -/
theorem Sim.forget {s : Code} {r : Reg} {as : List Nat} (h : Sim s r as) : Sim s { r with frozen := [] } as :=
  ⟨h.wf, h.cnt, h.len, h.live, h.sorted, h.keys, fun _ _ _ hq => by simp at hq⟩

theorem Sim.live_le {s : Code} {r : Reg} {as : List Nat} (h : Sim s r as) : ∀ x ∈ r.live, x ≤ r.counter := by
  intro x hx
  rw [← h.live] at hx
  obtain ⟨a, ha, rfl⟩ := List.mem_map.mp hx
  have := h.wf.bound a ha
  have := h.cnt; have := h.len
  omega

theorem Sim.head_eq {s : Code} {r : Reg} {as : List Nat} (h : Sim s r as) : s.m.head.map (· + 1) = r.live.head? := by
  rw [h.wf.head, ← h.live]
  cases as <;> simp

theorem Sim.walk_eq {s : Code} {r : Reg} {as : List Nat} (h : Sim s r as) (fuel : Nat) (hf : r.live.length < fuel) :
    (walk s.m fuel s.m.head).map (· + 1) = r.live := by
  have : as.length < fuel := by rw [← h.live, List.length_map] at hf; exact hf
  rw [walk_list h.wf fuel this, h.live]

/-! ## the operations preserve `Sim` -/

theorem sim_init : Sim Code.init Reg.empty [] := by
  refine ⟨WF_empty, rfl, rfl, rfl, by simp [Reg.empty], ?_, ?_⟩
  · intro a ha; simp [Code.init, OM.empty] at ha
  · intro a ha; simp [Code.init, OM.empty] at ha

theorem full_init : Full Code.init Reg.empty [] := by
  intro a ha; simp [Code.init, OM.empty] at ha

theorem set_new_dict {m : OM} {k : Nat} (v : Nat) (hl : lookup m k = none) :
    (set m k v).1.dict = m.dict ++ [(k, m.heap.length)] ∧ (set m k v).1.heap.length = m.heap.length + 1 := by
  unfold EventsOMap.set
  simp only [hl]
  split
  · simp
  · cases m.tail <;> simp [length_modify]

theorem sim_attach {s : Code} {r : Reg} {as : List Nat} (h : Sim s r as) (v : Nat) :
    Sim (codeStep s (.attach v)) (regStep r (.attach v)) (as ++ [s.m.heap.length]) := by
  have hl := h.lookup_fresh
  have hwf := WF_set_new h.wf v hl
  obtain ⟨hdict, hlen⟩ := set_new_dict v hl
  have hfresh : s.m.heap.length ∉ as := fun hm => Nat.lt_irrefl _ (h.wf.bound _ hm)
  have hlookup : ∀ k', lookup (set s.m (s.c + 1) v).1 k' = if k' = s.c + 1 then some s.m.heap.length else lookup s.m k' := by
    intro k'
    have := lookup_append s.m (s.c + 1) s.m.heap.length k' hl
    unfold lookup at this ⊢
    rw [hdict]; exact this
  have hfz := fun b (hb : b ∉ as) (hlt : b < s.m.heap.length) => frozen_apply h.wf (.set (s.c + 1) v) hb hlt
  simp only [apply] at hfz
  refine ⟨hwf, ?_, ?_, ?_, ?_, ?_, ?_⟩
  · simp [codeStep, regStep, Hive.EventsIter.attach, h.cnt]
  · simp only [codeStep]; rw [hlen, h.len]
  · simp only [regStep, Hive.EventsIter.attach, List.map_append, h.live, List.map_cons, List.map_nil, h.cnt, h.len]
  · simp only [regStep, Hive.EventsIter.attach]
    rw [List.pairwise_append]
    refine ⟨h.sorted, by simp, ?_⟩
    intro x hx y hy
    simp only [List.mem_singleton] at hy
    subst hy
    rw [← h.live] at hx
    obtain ⟨a, ha, rfl⟩ := List.mem_map.mp hx
    have := h.wf.bound a ha
    have := h.cnt; have := h.len
    omega
  · intro a ha
    simp only [codeStep] at ha ⊢
    rw [hlen] at ha
    -- the key of an element of the new list is determined by the dictionary
    have key_of_list : ∀ b, b ∈ as ++ [s.m.heap.length] → keyOf (set s.m (s.c + 1) v).1 b = some (b + 1) := by
      intro b hb
      obtain ⟨k, hk, hlk⟩ := hwf.dcompl b hb
      rw [hlookup] at hlk
      by_cases hkk : k = s.c + 1
      · rw [if_pos hkk] at hlk
        have hbn : s.m.heap.length = b := Option.some.inj hlk
        rw [hk, hkk, ← hbn, h.len]
      · rw [if_neg hkk] at hlk
        obtain ⟨he, _⟩ := h.lookup_some hlk
        rw [hk, he]
    by_cases hm : a ∈ as ++ [s.m.heap.length]
    · exact key_of_list a hm
    · have hna : a ∉ as := fun x => hm (List.mem_append_left _ x)
      have hne : a ≠ s.m.heap.length := fun x => hm (by simp [x])
      have hlt : a < s.m.heap.length := by omega
      rw [(hfz a hna hlt).2.2]
      exact h.keys a hlt
  · intro a ha hna hq
    simp only [codeStep] at ha ⊢
    rw [hlen] at ha
    have hna' : a ∉ as := fun x => hna (List.mem_append_left _ x)
    have hne : a ≠ s.m.heap.length := fun x => hna (by simp [x])
    have hlt : a < s.m.heap.length := by omega
    rw [(hfz a hna' hlt).1]
    simp only [regStep, Hive.EventsIter.attach] at hq ⊢
    exact h.frozen a hlt hna' hq

theorem full_attach {s : Code} {r : Reg} {as : List Nat} (h : Sim s r as) (hf : Full s r as) (v : Nat) :
    Full (codeStep s (.attach v)) (regStep r (.attach v)) (as ++ [s.m.heap.length]) := by
  obtain ⟨_, hlen⟩ := set_new_dict (m := s.m) v h.lookup_fresh
  intro a ha hna
  simp only [codeStep] at ha
  rw [hlen] at ha
  have hna' : a ∉ as := fun x => hna (List.mem_append_left _ x)
  have hne : a ≠ s.m.heap.length := fun x => hna (by simp [x])
  exact hf a (by omega) hna'

theorem sim_delete {s : Code} {r : Reg} {as : List Nat} (h : Sim s r as) (x : Nat) :
    ∃ as', Sim (codeStep s (.delete x)) (regStep r (.delete x)) as' := by
  cases hl : lookup s.m x with
  | none =>
    have hc : r.live.contains x = false := by rw [h.contains_iff, has, hl]; rfl
    refine ⟨as, ?_⟩
    have e1 : codeStep s (.delete x) = s := by simp [codeStep, delete_absent hl]
    have e2 : regStep r (.delete x) = r := by
      show Hive.EventsIter.delete r x = r
      unfold Hive.EventsIter.delete
      rw [if_neg (by rw [hc]; simp)]
    rw [e1, e2]; exact h
  | some a =>
    obtain ⟨he, ha⟩ := h.lookup_some hl
    subst he
    have hc : r.live.contains (a + 1) = true := by rw [h.contains_iff, has, hl]; rfl
    have hwf := WF_delete h.wf hl
    obtain ⟨e, hge⟩ := getElem_of_bound (h.wf.bound a ha)
    have hdel := delete_eq hl hge
    have hlen : (EventsOMap.delete s.m (a + 1)).1.heap.length = s.m.heap.length := by
      rw [hdel]; exact length_delHeap _ _
    have hkeys : ∀ b, keyOf (EventsOMap.delete s.m (a + 1)).1 b = keyOf s.m b := by
      intro b
      rw [hdel]
      simp only [keyOf, delHeap_get]
      cases s.m.heap[b]? <;> simp
    have hfz := fun b (hb : b ∉ as) (hlt : b < s.m.heap.length) => frozen_apply h.wf (.delete (a + 1)) hb hlt
    simp only [apply] at hfz
    have hreg : regStep r (.delete (a + 1)) =
        { r with live := r.live.filter (fun y => y != a + 1), frozen := (a + 1, liveNext r (a + 1)) :: r.frozen } := by
      show Hive.EventsIter.delete r (a + 1) = _
      unfold Hive.EventsIter.delete
      rw [if_pos hc]
    refine ⟨as.filter (· != a), ?_⟩
    rw [hreg]
    refine ⟨hwf, h.cnt, ?_, ?_, ?_, ?_, ?_⟩
    · simp only [codeStep]; rw [hlen]; exact h.len
    · simp only [filter_map_succ, h.live]
    · exact h.sorted.filter _
    · intro b hb
      simp only [codeStep] at hb ⊢
      rw [hlen] at hb
      rw [hkeys]; exact h.keys b hb
    · intro b hb hnb hq
      simp only [codeStep] at hb hnb ⊢
      rw [hlen] at hb
      by_cases hba : b = a
      · subst hba
        rw [(removed_keeps h.wf hl).1, h.liveNext_eq ha]
        simp
      · have hnb' : b ∉ as := by
          intro hm
          apply hnb
          rw [List.mem_filter]
          exact ⟨hm, by simpa using hba⟩
        have hne : ¬ (a + 1 == b + 1) = true := by simp; omega
        have hq' : ∃ q ∈ r.frozen, q.1 = b + 1 := by
          obtain ⟨q, hqm, hqe⟩ := hq
          rcases List.mem_cons.mp hqm with rfl | hqm
          · exact absurd hqe (by simp; omega)
          · exact ⟨q, hqm, hqe⟩
        rw [(hfz b hnb' hb).1, List.find?_cons]
        simp only [hne]
        exact h.frozen b hb hnb' hq'

/-- `Delete` never shrinks the heap; `Full` is preserved together with `Sim`. -/
theorem sim_full_step {s : Code} {r : Reg} {as : List Nat} (h : Sim s r as) (hf : Full s r as) (op : ROp) :
    ∃ as', Sim (codeStep s op) (regStep r op) as' ∧ Full (codeStep s op) (regStep r op) as' := by
  cases op with
  | attach v => exact ⟨_, sim_attach h v, full_attach h hf v⟩
  | delete x =>
    cases hl : lookup s.m x with
    | none =>
      have hc : r.live.contains x = false := by rw [h.contains_iff, has, hl]; rfl
      have e1 : codeStep s (.delete x) = s := by simp [codeStep, delete_absent hl]
      have e2 : regStep r (.delete x) = r := by
        show Hive.EventsIter.delete r x = r
        unfold Hive.EventsIter.delete
        rw [if_neg (by rw [hc]; simp)]
      rw [e1, e2]; exact ⟨as, h, hf⟩
    | some a =>
      obtain ⟨he, ha⟩ := h.lookup_some hl
      subst he
      have hc : r.live.contains (a + 1) = true := by rw [h.contains_iff, has, hl]; rfl
      obtain ⟨e, hge⟩ := getElem_of_bound (h.wf.bound a ha)
      have hlen : (EventsOMap.delete s.m (a + 1)).1.heap.length = s.m.heap.length := by
        rw [delete_eq hl hge]; exact length_delHeap _ _
      have hreg : regStep r (.delete (a + 1)) =
          { r with live := r.live.filter (fun y => y != a + 1), frozen := (a + 1, liveNext r (a + 1)) :: r.frozen } := by
        show Hive.EventsIter.delete r (a + 1) = _
        unfold Hive.EventsIter.delete
        rw [if_pos hc]
      obtain ⟨as', h'⟩ := sim_delete h (a + 1)
      have has' : as' = as.filter (· != a) := by
        have h1 := h'.live
        rw [hreg] at h1
        simp only at h1
        rw [← h.live, ← filter_map_succ] at h1
        exact map_succ_inj h1
      refine ⟨as', h', ?_⟩
      intro b hb hnb
      simp only [codeStep] at hb
      rw [hlen] at hb
      rw [hreg]
      by_cases hba : b = a
      · exact ⟨(a + 1, liveNext r (a + 1)), by simp, by simp [hba]⟩
      · have hnb' : b ∉ as := by
          intro hm
          apply hnb
          rw [has', List.mem_filter]
          exact ⟨hm, by simpa using hba⟩
        obtain ⟨q, hq, hqe⟩ := hf b hb hnb'
        exact ⟨q, List.mem_cons_of_mem _ hq, hqe⟩

def runCode (ops : List ROp) : Code := ops.foldl codeStep Code.init
def runReg (ops : List ROp) : Reg := ops.foldl regStep Reg.empty

theorem sim_run (ops : List ROp) : ∃ as, Sim (runCode ops) (runReg ops) as ∧ Full (runCode ops) (runReg ops) as := by
  unfold runCode runReg
  suffices ∀ (s : Code) (r : Reg) (as : List Nat), Sim s r as → Full s r as →
      ∃ as', Sim (ops.foldl codeStep s) (ops.foldl regStep r) as' ∧ Full (ops.foldl codeStep s) (ops.foldl regStep r) as'
    from this _ _ _ sim_init full_init
  induction ops with
  | nil => intro s r as h hf; exact ⟨as, h, hf⟩
  | cons op rest ih =>
    intro s r as h hf
    simp only [List.foldl_cons]
    obtain ⟨as', h', hf'⟩ := sim_full_step h hf op
    exact ih _ _ _ h' hf'

end Hive.EventsRegSim
