import Hive.Proofs.TypedConc
/-! Progress of the protocol model of a shared `TypedValue`: no reachable configuration is stuck while some goroutine
still has calls to make (no deadlock, in particular none in the `RUnlock` → `Lock` upgrade of `Get` / `Has`). -/
namespace Hive.Typed.Conc
open Hive.Conc

variable {V : Type} [Inhabited V]

/-- A goroutine that is not idle is in the middle of the call at the head of its script; all its calls are methods. -/
def ThreadWf (t : Thread V) : Prop :=
  (t.pc = .idle ∨ t.script ≠ []) ∧ ∀ x ∈ t.script, isMethod x.1 = true

theorem threadWf_step (C : Codec V) {s s' : Shared V} {t t' : Thread V} (h : (s', t') ∈ tstep C s t)
    (hw : ThreadWf t) : ThreadWf t' := by
  obtain ⟨script, pc⟩ := t
  obtain ⟨hb, hm⟩ := hw
  unfold tstep at h
  cases script with
  | nil => simp at h
  | cons x rest =>
    obtain ⟨op, F⟩ := x
    have hrest : ∀ y ∈ rest, isMethod y.1 = true := fun y hy => hm y (by simp [hy])
    cases pc <;> simp only at h
    all_goals (try split at h)
    all_goals (try split at h)
    all_goals simp at h
    all_goals (try (obtain ⟨_, rfl⟩ := h))
    all_goals (first
      | exact ⟨Or.inr (by simp), hm⟩
      | exact ⟨Or.inl rfl, hrest⟩)

theorem wf_reach (C : Codec V) (s0 : St V) (scripts : List (List (Op V × Faults)))
    (hm : ∀ sc ∈ scripts, ∀ x ∈ sc, isMethod x.1 = true) {c : Cfg (Shared V) (Thread V)}
    (hr : Reach (sys C) (init s0, scripts.map start) c) : ∀ t ∈ c.2, ThreadWf t := by
  refine inv_induction (S := sys C) (fun c => ∀ t ∈ c.2, ThreadWf t) ?_ ?_ hr
  · intro t ht
    simp only [List.mem_map] at ht
    obtain ⟨sc, hsc, rfl⟩ := ht
    exact ⟨Or.inl rfl, hm sc hsc⟩
  · intro a b ha hs
    cases hs with
    | mk s pre t post s' t' hmem =>
      intro u hu
      rcases mem_mid hu with rfl | hu
      · exact threadWf_step C hmem (ha t (by simp))
      · exact ha u (mem_mid' hu)

/-- Which threads can move. -/
theorem enabled_of (C : Codec V) (sh : Shared V) (t : Thread V) (hw : ThreadWf t) (hs : t.script ≠ [])
    (h : inW t.pc = true ∨ inR t.pc = true ∨ (sh.writer = false ∧ sh.readers = 0)) : tstep C sh t ≠ [] := by
  obtain ⟨script, pc⟩ := t
  cases script with
  | nil => exact absurd rfl hs
  | cons x rest =>
    obtain ⟨op, F⟩ := x
    have hop : isMethod op = true := hw.2 (op, F) (by simp)
    unfold tstep
    cases pc <;> simp only [inW, inR, Bool.false_eq_true, false_or] at h ⊢
    all_goals (try (obtain ⟨h1, h2⟩ := h))
    all_goals (try simp [hop, *])
    all_goals (try (split <;> simp))

/-- **No deadlock**: in every reachable configuration in which some goroutine still has a call to make or to finish,
some goroutine can take a step. -/
theorem no_deadlock (C : Codec V) (s0 : St V) (scripts : List (List (Op V × Faults)))
    (hm : ∀ sc ∈ scripts, ∀ x ∈ sc, isMethod x.1 = true) {c : Cfg (Shared V) (Thread V)}
    (hr : Reach (sys C) (init s0, scripts.map start) c) (hu : ∃ t ∈ c.2, t.script ≠ []) :
    ∃ t ∈ c.2, tstep C c.1 t ≠ [] := by
  have hi := inv_reach C s0 scripts hr
  have hwf := wf_reach C s0 scripts hm hr
  have hwc : c.2.countP pW = if c.1.writer then 1 else 0 := hi.wcount
  have hrc : c.2.countP pR = c.1.readers := hi.rcount
  have busy : ∀ t ∈ c.2, t.pc ≠ .idle → t.script ≠ [] := fun t ht hp => (hwf t ht).1.resolve_left hp
  cases hwr : c.1.writer with
  | true =>
    have hpos : 0 < c.2.countP pW := by rw [hwc, hwr]; simp
    obtain ⟨t, ht, hp⟩ := List.countP_pos_iff.mp hpos
    have hp' : inW t.pc = true := hp
    refine ⟨t, ht, enabled_of C c.1 t (hwf t ht) (busy t ht ?_) (.inl hp')⟩
    intro hidle; rw [hidle] at hp'; simp [inW] at hp'
  | false =>
    by_cases hrd : c.1.readers = 0
    · obtain ⟨t, ht, hs⟩ := hu
      exact ⟨t, ht, enabled_of C c.1 t (hwf t ht) hs (.inr (.inr ⟨hwr, hrd⟩))⟩
    · have hpos : 0 < c.2.countP pR := by rw [hrc]; omega
      obtain ⟨t, ht, hp⟩ := List.countP_pos_iff.mp hpos
      have hp' : inR t.pc = true := hp
      refine ⟨t, ht, enabled_of C c.1 t (hwf t ht) (busy t ht ?_) (.inr (.inl hp'))⟩
      intro hidle; rw [hidle] at hp'; simp [inR] at hp'

end Hive.Typed.Conc
