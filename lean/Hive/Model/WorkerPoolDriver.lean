import Hive.Model.WorkerPoolSched
import Hive.Base.Proto
/-!
# Line protocol of `drv_c16`

`cfg W CANCEL` starts a trace; every event line is answered `ok` / `reject …` by the monitor of
`Hive/Spec/WorkerPool.lean` (the predicate the C16 theorems are about); `quiet` evaluates the
quiescence predicate, `end` closes a trace; `sched NAME` replays a named schedule on the protocol
model and prints the outcome that the same forced schedule must produce on the real code.
-/
namespace Hive.WP

structure DrvSt where
  cancel : Bool := false
  mon : Option Mon := some Mon.init

def DrvSt.init : DrvSt := {}

def stepLine (s : DrvSt) (toks : List String) : DrvSt × String :=
  match toks with
  | ["cfg", _, c] => ({ cancel := c == "true", mon := some Mon.init }, "ok")
  | "run" :: _ => (s, "ok")
  | ["group", "stub"] => (s, "ok")
  | ["quiet"] =>
    match s.mon with
    | some m => (s, if quietOk s.cancel m then "accept" else "reject quiet")
    | none => (s, "reject trace")
  | ["end"] => (s, if s.mon.isSome then "accept" else "reject trace")
  | ["sched", name] =>
    match scenarios.find? (fun sc => sc.name == name) with
    | some sc => (s, outcome sc.final)
    | none => (s, "unknown-schedule")
  | _ =>
    match parseEv toks with
    | none => (s, "bad-op")
    | some e =>
      match s.mon with
      | none => (s, "reject trace")
      | some m =>
        match monStep s.cancel m e with
        | some m' => ({ s with mon := some m' }, "ok")
        | none => ({ s with mon := none }, "reject " ++ (toks.headD ""))

end Hive.WP
