import Hive.Model.WorkerPoolSched
import Hive.Model.WorkerPoolGroupSd
import Hive.Model.WorkerPoolSync
import Hive.Model.WorkerPoolDebounce
import Hive.Base.Proto
/-!
# Line protocol of `drv_c16`

`cfg W CANCEL` starts a trace; every event line is answered `ok` / `reject …` by the monitor of
`Hive/Spec/WorkerPool.lean` (the predicate the C16 theorems are about); `quiet` evaluates the
quiescence predicate, `end` closes a trace; `sched NAME` replays a named schedule on the protocol
model and prints the outcome that the same forced schedule must produce on the real code.
-/
namespace Hive.WP


structure DrvSt where
  cancel : Bool := false
  mon : Option Mon := some Mon.init
  gs : Hive.WPG.GS := {}
  subs : List Hive.WPG.Sub := []
  sync : Hive.WPS.SyncSt := {}
  dcalls : Nat := 0            -- debounce trace: calls made, last executed invocation, verdict so far
  dlast : Nat := 0
  dok : Bool := true

def DrvSt.init : DrvSt := {}

def stepLine (s : DrvSt) (toks : List String) : DrvSt × String :=
  match toks with
  | ["cfg", _, c] => ({ cancel := c == "true", mon := some Mon.init }, "ok")
  | "run" :: _ => (s, "ok")
  | "hammer" :: _ => (s, "ok")
  | "lockrace" :: _ => (s, "ok")
  | "config" :: _ => (s, "ok")
  | "debounce" :: _ => ({ s with dcalls := 0, dlast := 0, dok := true }, "ok")
  | ["dcall"] => ({ s with dcalls := s.dcalls + 1 }, "ok")
  | ["x", k] =>
    -- one more executed invocation: `Hive.WPD.execsOk` step by step (strictly increasing, a call that was made)
    match k.toNat? with
    | some n =>
      if s.dok && Hive.WPD.execsOk s.dcalls s.dlast [n] then ({ s with dlast := n }, "ok")
      else ({ s with dok := false }, "reject x")
    | none => (s, "bad-op")
  | ["dend"] =>
    -- all tasks have finished: the latest invocation must have been executed (C16_debounce, fourth clause)
    (s, if s.dok && s.dlast == s.dcalls then "accept" else "reject dend")
  | ["dburst", _, k] =>
    -- a burst of concurrent calls, all made before any of their tasks started: every task makes its checks when the
    -- burst's last call is the latest invocation, so exactly that one is executed (C16_debounce_exec_is_latest,
    -- C16_debounce: never dropped)
    (s, if k == "1" then "accept" else "reject dburst")
  | "sync" :: _ => ({ s with sync := {} }, "ok")
  | ["c", op, a] => let r := Hive.WPS.syncLine s.sync "c" op a; ({ s with sync := r.1 }, r.2)
  | ["q", op, a] => let r := Hive.WPS.syncLine s.sync "q" op a; ({ s with sync := r.1 }, r.2)
  | "group" :: _ => ({ s with gs := {}, subs := [] }, "ok")
  | ["g", op, a] =>
    let parsed : Option Hive.WPG.SOp :=
      match op, a.toNat? with
      | "newgroup", some n => some (.base (.newGroup (some n)))
      | "newpool", some n => some (.base (.newPool n))
      | "inc", some n => some (.base (.inc n))
      | "incw", some n => some (.base (.inc n))
      | "incdone", some n => some (.base (.inc n))
      | "dec", some n => some (.base (.dec n))
      | "newgroup", none => if a == "-" then some (.base (.newGroup none)) else none
      | "newpoolsub", some n => some (.base (.newPool n))
      | "newpoolpark", some n => some (.base (.newPool n))
      | "sdflag", some n => some (.flag n)
      | "sdstop", some n => some (.stop n)
      | "shutdown", some n => some (.shutdown n)
      | "restart", some n => some (.restart n)
      | _, _ => none
    let tree := s.gs.tree
    match parsed, op, a.toNat? with
    | some o, _, _ =>
      if o.ok s.gs then
        let gs' := Hive.WPG.stepS s.gs o
        let t' := gs'.tree
        -- `newpoolsub`: the pool is created with a user subscriber attached through an option (before the group's own)
        let subs := Hive.WPG.observe tree t' s.subs ++
          (if op == "newpoolsub" then [{ node := tree.length, active := true, stream := [] }] else [])
        -- `incw`: only the counters on the parent chain are readable (another pool is in the middle of an update)
        let shown := if op == "incw" then Hive.WPG.chainVals (t'.length + 1) t' (a.toNat?.getD 0) else t'.map (·.value)
        ({ s with gs := gs', subs := subs },
         if op == "sdflag" then "ok" else "ok " ++ Hive.Proto.showNatList shown)
      else (s, "skip")
    | none, "sdbegin", some _ => (s, "ok")
    | none, "isshut", some g => (s, if Hive.WPG.isShut s.gs g then "true" else "false")
    | none, "sub", some n =>
      if n < tree.length then
        ({ s with subs := s.subs ++ [{ node := n, active := true, stream := [] }] }, s!"ok {s.subs.length}")
      else (s, "skip")
    | none, "unsub", some k =>
      match s.subs[k]? with
      | some sb => if sb.active then ({ s with subs := s.subs.set k { sb with active := false } }, "ok") else (s, "skip")
      | none => (s, "skip")
    | none, "stream", some k =>
      match s.subs[k]? with
      | some sb => (s, Hive.WPG.showStream sb.stream)
      | none => (s, "skip")
    | none, "wait", some g => (s, if Hive.WPG.waitChildrenReturns tree g then "returns" else "blocks")
    | none, "waitp", some g =>
      if Hive.WPG.isGroup tree g then (s, if Hive.WPG.waitParentsReturns tree g then "returns" else "blocks") else (s, "skip")
    | none, "root", some g => if Hive.WPG.isGroup tree g then (s, s!"{Hive.WPG.rootOf tree.length tree g}") else (s, "skip")
    | none, "pools", some g => if Hive.WPG.isGroup tree g then (s, s!"{Hive.WPG.poolsBelow tree g}") else (s, "skip")
    | _, _, _ => (s, "bad-op")
  | ["quiet"] =>
    match s.mon with
    | some m => (s, if quietOk s.cancel m then "accept" else "reject quiet")
    | none => (s, "reject trace")
  | ["end"] => (s, if s.mon.isSome then "accept" else "reject trace")
  | ["taskpanic", _, _] => (s, taskPanicOutcome)
  | ["sched", name] =>
    match scenarios.find? (fun sc => sc.name == name) with
    | some sc => (s, outcome sc.final)
    | none => (s, "unknown-schedule")
  | _ =>
    match parseEv toks with
    | none => (s, "bad-op")
    | some e =>
      match s.mon with
      | none => (s, "reject trace")
      | some m =>
        match monStep s.cancel m e with
        | some m' => ({ s with mon := some m' }, "ok")
        | none => ({ s with mon := none }, "reject " ++ (toks.headD ""))

end Hive.WP
