import Hive.Model.WorkerPoolSched
import Hive.Model.WorkerPoolGroup
import Hive.Base.Proto
/-!
# Line protocol of `drv_c16`

`cfg W CANCEL` starts a trace; every event line is answered `ok` / `reject …` by the monitor of
`Hive/Spec/WorkerPool.lean` (the predicate the C16 theorems are about); `quiet` evaluates the
quiescence predicate, `end` closes a trace; `sched NAME` replays a named schedule on the protocol
model and prints the outcome that the same forced schedule must produce on the real code.
-/
namespace Hive.WP

structure DrvSt where
  cancel : Bool := false
  mon : Option Mon := some Mon.init
  tree : Hive.WPG.Tree := []
  subs : List Hive.WPG.Sub := []

def DrvSt.init : DrvSt := {}

def stepLine (s : DrvSt) (toks : List String) : DrvSt × String :=
  match toks with
  | ["cfg", _, c] => ({ cancel := c == "true", mon := some Mon.init }, "ok")
  | "run" :: _ => (s, "ok")
  | "hammer" :: _ => (s, "ok")
  | "group" :: _ => ({ s with tree := [], subs := [] }, "ok")
  | ["g", op, a] =>
    let parsed : Option Hive.WPG.Op :=
      match op, a.toNat? with
      | "newgroup", some n => some (.newGroup (some n))
      | "newpool", some n => some (.newPool n)
      | "inc", some n => some (.inc n)
      | "dec", some n => some (.dec n)
      | "newgroup", none => if a == "-" then some (.newGroup none) else none
      | "newpoolsub", some n => some (.newPool n)
      | _, _ => none
    match parsed, op, a.toNat? with
    | some o, _, _ =>
      if o.ok s.tree then
        let t' := Hive.WPG.step s.tree o
        -- `newpoolsub`: the pool is created with a user subscriber attached through an option (before the group's own)
        let subs := Hive.WPG.observe s.tree t' s.subs ++
          (if op == "newpoolsub" then [{ node := s.tree.length, active := true, stream := [] }] else [])
        ({ s with tree := t', subs := subs }, "ok " ++ Hive.Proto.showNatList (t'.map (·.value)))
      else (s, "skip")
    | none, "sub", some n =>
      if n < s.tree.length then
        ({ s with subs := s.subs ++ [{ node := n, active := true, stream := [] }] }, s!"ok {s.subs.length}")
      else (s, "skip")
    | none, "unsub", some k =>
      match s.subs[k]? with
      | some sb => if sb.active then ({ s with subs := s.subs.set k { sb with active := false } }, "ok") else (s, "skip")
      | none => (s, "skip")
    | none, "stream", some k =>
      match s.subs[k]? with
      | some sb => (s, Hive.WPG.showStream sb.stream)
      | none => (s, "skip")
    | none, "wait", some g => (s, if Hive.WPG.waitChildrenReturns s.tree g then "returns" else "blocks")
    | _, _, _ => (s, "bad-op")
  | ["quiet"] =>
    match s.mon with
    | some m => (s, if quietOk s.cancel m then "accept" else "reject quiet")
    | none => (s, "reject trace")
  | ["end"] => (s, if s.mon.isSome then "accept" else "reject trace")
  | ["sched", name] =>
    match scenarios.find? (fun sc => sc.name == name) with
    | some sc => (s, outcome sc.final)
    | none => (s, "unknown-schedule")
  | _ =>
    match parseEv toks with
    | none => (s, "bad-op")
    | some e =>
      match s.mon with
      | none => (s, "reject trace")
      | some m =>
        match monStep s.cancel m e with
        | some m' => ({ s with mon := some m' }, "ok")
        | none => ({ s with mon := none }, "reject " ++ (toks.headD ""))

end Hive.WP
