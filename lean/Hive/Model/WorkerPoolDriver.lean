import Hive.Model.WorkerPoolSched
import Hive.Model.WorkerPoolGroup
import Hive.Base.Proto
/-!
# Line protocol of `drv_c16`

`cfg W CANCEL` starts a trace; every event line is answered `ok` / `reject …` by the monitor of
`Hive/Spec/WorkerPool.lean` (the predicate the C16 theorems are about); `quiet` evaluates the
quiescence predicate, `end` closes a trace; `sched NAME` replays a named schedule on the protocol
model and prints the outcome that the same forced schedule must produce on the real code.
-/
namespace Hive.WP

structure DrvSt where
  cancel : Bool := false
  mon : Option Mon := some Mon.init
  tree : Hive.WPG.Tree := []

def DrvSt.init : DrvSt := {}

def stepLine (s : DrvSt) (toks : List String) : DrvSt × String :=
  match toks with
  | ["cfg", _, c] => ({ cancel := c == "true", mon := some Mon.init }, "ok")
  | "run" :: _ => (s, "ok")
  | "group" :: _ => ({ s with tree := [] }, "ok")
  | ["g", op, a] =>
    let parsed : Option Hive.WPG.Op :=
      match op, a.toNat? with
      | "newgroup", some n => some (.newGroup (some n))
      | "newpool", some n => some (.newPool n)
      | "inc", some n => some (.inc n)
      | "dec", some n => some (.dec n)
      | "newgroup", none => if a == "-" then some (.newGroup none) else none
      | _, _ => none
    match parsed, op, a.toNat? with
    | some o, _, _ =>
      if o.ok s.tree then ({ s with tree := Hive.WPG.step s.tree o }, "ok " ++ Hive.Proto.showNatList ((Hive.WPG.step s.tree o).map (·.value)))
      else (s, "skip")
    | none, "wait", some g => (s, if Hive.WPG.waitChildrenReturns s.tree g then "returns" else "blocks")
    | _, _, _ => (s, "bad-op")
  | ["quiet"] =>
    match s.mon with
    | some m => (s, if quietOk s.cancel m then "accept" else "reject quiet")
    | none => (s, "reject trace")
  | ["end"] => (s, if s.mon.isSome then "accept" else "reject trace")
  | ["sched", name] =>
    match scenarios.find? (fun sc => sc.name == name) with
    | some sc => (s, outcome sc.final)
    | none => (s, "unknown-schedule")
  | _ =>
    match parseEv toks with
    | none => (s, "bad-op")
    | some e =>
      match s.mon with
      | none => (s, "reject trace")
      | some m =>
        match monStep s.cancel m e with
        | some m' => ({ s with mon := some m' }, "ok")
        | none => ({ s with mon := none }, "reject " ++ (toks.headD ""))

end Hive.WP
