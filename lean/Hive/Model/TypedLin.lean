import Hive.Model.TypedConc
/-!
# A linearizability judge for free-running histories of one `TypedValue` (C06)

Every call of a concurrent history carries the logical time of its invocation and of its return.  The history is
linearizable iff some order of **all** calls (1) respects real time — a call that returned before another one was
invoked comes first —, (2) replays on the raw key (`replayG`: every `Compute` was handed the value of that moment, every
`Has` / `Get` / aborted `Compute` answered it) and (3) ends in the final raw value.  `linOk` searches for such an order
(Wing–Gong: only calls that are minimal in the real-time order among the pending ones may come next).
Call kinds are those of `GOp` (0 `Delete`, 1 `Set`, 2 `Compute`, 3 `Has`, 4 `Get`, 5 aborted `Compute`: answers like `Get`).
-/
namespace Hive.Typed.Conc

structure LOp where
  op : GOp
  inv : Nat
  ret : Nat
deriving Repr, DecidableEq

/-- `o` may be linearised next among the pending calls `ops`: none of them returned before `o` was invoked. -/
def minimalAt (ops : List LOp) (o : LOp) : Bool := ops.all fun p => !(decide (p.ret < o.inv))

def linSearch : Nat → Nat → List LOp → Nat → Bool
  | _, st, [], final => st == final
  | 0, _, _ :: _, _ => false
  | fuel + 1, st, ops, final =>
    (List.range ops.length).any fun i =>
      match ops[i]? with
      | some o =>
        minimalAt ops o &&
        (match applyG st o.op with
         | some st' => linSearch fuel st' (ops.eraseIdx i) final
         | none => false)
      | none => false

def linOk (init : Nat) (ops : List LOp) (final : Nat) : Bool := linSearch (ops.length + 1) init ops final

/-- An order respects real time: whoever comes later did not return before an earlier one was invoked. -/
def RealTime (l : List LOp) : Prop := l.Pairwise fun a b => ¬ b.ret < a.inv

def zipL : List Nat → List Nat → List Nat → List Nat → List Nat → List LOp
  | k :: ks, w :: ws, s :: ss, i :: is, r :: rs => ⟨⟨k, w, s⟩, i, r⟩ :: zipL ks ws ss is rs
  | _, _, _, _, _ => []


/-! ## The protocol model with a ghost clock: when was a call invoked, when was it logged

`tsys` is `sys` (the protocol model of `TypedConc.lean`, unchanged) with ghost time: a global clock that ticks at every
micro-step of any goroutine, per goroutine the time at which its call in progress was invoked (its step out of `idle`),
and per log entry the pair (invocation time of that call, time of the step that logged it).  The step that logs a call is
a step *of that call* (the fast-path hit under the read lock, or the release of the write lock), so it lies between the
call's invocation and its return: it is the linearization point. -/

open Hive.Conc

structure TShared (V : Type) where
  sh : Shared V
  clock : Nat
  stamps : List (Nat × Nat)      -- per log entry, in log order: (time its call was invoked, time it was logged)

structure TThread (V : Type) where
  t : Thread V
  inv : Nat                      -- time at which the call in progress was invoked (meaningful while not idle)

def isIdle {V : Type} : Pc V → Bool
  | .idle => true
  | _ => false

def ttstep {V : Type} [Inhabited V] (C : Codec V) (s : TShared V) (u : TThread V) : List (TShared V × TThread V) :=
  (tstep C s.sh u.t).map fun x =>
    let inv' := if isIdle u.t.pc then s.clock else u.inv
    ({ sh := x.1, clock := s.clock + 1,
       stamps := if s.sh.log.length < x.1.log.length then s.stamps ++ [(inv', s.clock)] else s.stamps },
     { t := x.2, inv := inv' })

def tsys {V : Type} [Inhabited V] (C : Codec V) : Sys (TShared V) (TThread V) := { step := ttstep C }

def tinit {V : Type} (s0 : St V) : TShared V := { sh := init s0, clock := 0, stamps := [] }

def tstart {V : Type} (script : List (Op V × Faults)) : TThread V := { t := start script, inv := 0 }

end Hive.Typed.Conc
