/-!
# Model of the binary serix codec (serializer/serix/{encode,decode}.go over serializer/serializer.go)

A *schema* `Ty` mirrors everything that decides the wire shape of a registered Go type after the
type settings of a position (struct tag / option) have been merged with the globally registered
settings of the type: length-prefix width, array rules, type-code prefix, struct field order and
field flags (optional / embedded), interface alternatives.  The harness derives the schema from the
`reflect.Type` plus the registered `TypeSettings` (harness/serixgen), it is not written twice.

`encode` follows `API.encode → encodeBasedOnType → encodeStruct/encodeSlice/encodeMap/…` and the
`Serializer` chain (`WriteNum`, `WriteString`, `WriteVariableByteSlice`, `WriteSliceOfByteSlices`
validating and sorting, `WritePayloadLength`); `decode` follows `decodeBasedOnType → …` and the
`Deserializer` (`ReadNum`, `ReadBool`, `ReadString`, `ReadVariableByteSlice`,
`ReadSequenceOfObjects` re-slicing per item, `ReadPayloadLength`, `CheckTypePrefix`,
`GetObjectType`).  Outcomes are `ok | err | panic` so that the places where the Go code panics
stay visible.  The model is the code *after* the `fix:` commits 8805e2e (arrays), 2f92ee4 (nil
embedded pointer), 0c80050 (GetByValue), 41a09a2 (uint64 length prefix), 262f59b (TimeToUint64),
224b785 (sliceFromArray), 3a2407b (lexical order without duplicates), eec6277 (byte-array bounds on
decode), a0f81e4 (must-occur on a nil element).

Not modelled: reflection itself, user supplied `Serializable`/`Deserializable` implementations and
syntactic validators (parameters of the API), the text of errors (all errors are `err`).  Because
every failure is the single outcome `err` and no decoder can panic (`C02_no_panic`), checks whose
relative order is unobservable are evaluated at the most convenient point (element validators and
the duplicate-key test after the item loop instead of inside it).
-/
namespace Hive.Serix

abbrev Bytes := List UInt8

/-- Outcome of a codec call. -/
inductive Res (α : Type) where
  | ok (a : α)
  | err
  | panic
deriving Repr, DecidableEq

namespace Res
@[inline] def bind {α β : Type} : Res α → (α → Res β) → Res β
  | .ok a, f => f a
  | .err, _ => .err
  | .panic, _ => .panic

instance : Monad Res where
  pure := .ok
  bind := Res.bind

@[simp] theorem ok_bind {α β : Type} (a : α) (f : α → Res β) : (Res.ok a >>= f) = f a := rfl
@[simp] theorem err_bind {α β : Type} (f : α → Res β) : ((Res.err : Res α) >>= f) = .err := rfl
@[simp] theorem panic_bind {α β : Type} (f : α → Res β) : ((Res.panic : Res α) >>= f) = .panic := rfl
@[simp] theorem pure_eq {α : Type} (a : α) : (pure a : Res α) = .ok a := rfl

/-- `guard`: continue iff the condition holds, else the error outcome. -/
@[inline] def require (c : Bool) : Res Unit := if c then .ok () else .err
end Res

open Res

/-! ## Bytes: little endian, lexical order, UTF-8 -/

/-- `w` bytes of `n`, least significant first (`binary.LittleEndian`), truncating like Go's conversions. -/
def leBytes : Nat → Nat → Bytes
  | 0, _ => []
  | w + 1, n => UInt8.ofNat (n % 256) :: leBytes w (n / 256)

def leNat : Bytes → Nat
  | [] => 0
  | b :: bs => b.toNat + 256 * leNat bs

/-- `bytes.Compare a b ≤ 0`. -/
def lexLe : Bytes → Bytes → Bool
  | [], _ => true
  | _ :: _, [] => false
  | a :: as, b :: bs => a < b || (a == b && lexLe as bs)

/-- `bytes.Compare a b < 0`. -/
def lexLt (a b : Bytes) : Bool := lexLe a b && !(a == b)

/-- Insertion of `a` in front of the first element whose key is not smaller. -/
def insertBy {α : Type} (key : α → Bytes) (a : α) : List α → List α
  | [] => [a]
  | b :: bs => if lexLe (key a) (key b) then a :: b :: bs else b :: insertBy key a bs

/-- Stable insertion sort by a byte-string key (structural, so that it evaluates inside `decide`). -/
def isortBy {α : Type} (key : α → Bytes) : List α → List α
  | [] => []
  | a :: as => insertBy key a (isortBy key as)

/-- The sort of `WriteSliceOfByteSlices` (`sort.Slice` by `bytes.Compare`; the order is total and
equal keys are equal byte strings, so the result does not depend on the sorting algorithm). -/
def sortBytes (l : List Bytes) : List Bytes := isortBy id l

def isCont (b : UInt8) : Bool := 0x80 ≤ b && b ≤ 0xBF

/-- `utf8.Valid` (RFC 3629: no overlong forms, no surrogates, nothing above U+10FFFF). -/
def utf8Valid : Bytes → Bool
  | [] => true
  | a :: rest =>
    if a < 0x80 then utf8Valid rest
    else if 0xC2 ≤ a && a ≤ 0xDF then
      match rest with
      | b :: r => isCont b && utf8Valid r
      | _ => false
    else if 0xE0 ≤ a && a ≤ 0xEF then
      match rest with
      | b :: c :: r =>
        (if a == 0xE0 then 0xA0 ≤ b && b ≤ 0xBF
         else if a == 0xED then 0x80 ≤ b && b ≤ 0x9F
         else isCont b) && isCont c && utf8Valid r
      | _ => false
    else if 0xF0 ≤ a && a ≤ 0xF4 then
      match rest with
      | b :: c :: d :: r =>
        (if a == 0xF0 then 0x90 ≤ b && b ≤ 0xBF
         else if a == 0xF4 then 0x80 ≤ b && b ≤ 0x8F
         else isCont b) && isCont c && isCont d && utf8Valid r
      | _ => false
    else false

/-! ## Settings that decide the wire shape -/

/-- Length prefix type of a position (`unset`: no `LengthPrefixType` was provided). -/
inductive LP where
  | u8 | u16 | u32 | u64 | unset
deriving Repr, DecidableEq

/-- Width in bytes; `u64` is accepted by the tag parser but rejected by Encode/Decode. -/
def LP.width : LP → Option Nat
  | .u8 => some 1
  | .u16 => some 2
  | .u32 => some 4
  | _ => Option.none

/-- `serializer.TypeDenotationType` of an object code. -/
inductive Den where
  | u8 | u32
deriving Repr, DecidableEq

def Den.width : Den → Nat
  | .u8 => 1
  | .u32 => 4

structure Code where
  den : Den
  n : Nat
deriving Repr, DecidableEq

def Code.bytes (c : Code) : Bytes := leBytes c.den.width c.n

def codeBytes : Option Code → Bytes
  | none => []
  | some c => c.bytes

/-- `serializer.ArrayRules` as the serix code uses them (+ the `lexicalOrdering` type setting). -/
structure Rules where
  min : Nat := 0
  max : Nat := 0
  noDups : Bool := false
  lex : Bool := false
  one8 : Bool := false
  one32 : Bool := false
  mustOccur : List Nat := []
  /-- `TypeSettings.lexicalOrdering` set and true (`DeSeriModePerformLexicalOrdering`). -/
  autoSort : Bool := false
deriving Repr, DecidableEq

/-- `ArrayRules.CheckBounds` / `TypeSettings.checkMinMaxBoundsLength` (0 = unbounded). -/
def boundsOk (min max n : Nat) : Bool := (min == 0 || min ≤ n) && (max == 0 || n ≤ max)

def Rules.boundsOk (r : Rules) (n : Nat) : Bool := Hive.Serix.boundsOk r.min r.max n

/-- `ensureOrdering` of encodeMap/decodeMap. -/
def Rules.ordered (r : Rules) : Rules := { r with lex := true, autoSort := true }

mutual
inductive Ty where
  | bool
  | uint (w : Nat)            -- width in bytes: 1, 2, 4, 8
  | int (w : Nat)
  | float (w : Nat)           -- values are the raw IEEE bit patterns
  | str (lp : LP) (min max : Nat)
  | bytes (lp : LP) (min max : Nat)
  | byteArr (n : Nat) (code : Option Code) (min max : Nat)
  | u256                      -- *big.Int
  | time
  | slice (lp : LP) (r : Rules) (e : Ty)
  | array (n : Nat) (lp : LP) (r : Rules) (e : Ty)
  | map (lp : LP) (r : Rules) (k v : Ty)
  | struct (code : Option Code) (fs : Fields)
  | ptr (t : Ty)
  | iface (den : Den) (alts : Alts)
  /-- A type with its own `Serializable.Encode` / `Deserializable.Decode` (the `if serializable, ok :=
  valueI.(Serializable)` branch of `API.encode` / `API.decode`): serix writes the object code, if one is
  registered, followed by whatever `Encode` returns.  The codec of the type is a parameter of the API;
  the harness's custom types use the self-delimiting form `n :: payload` with `payload.length = n`
  (`fixed`: the only payload length the type's `Decode` accepts), and the value *is* that encoding. -/
  | custom (code : Option Code) (fixed : Option Nat)
/-- Struct fields in serix order.  `cons opt t`: a field of type `t`, `opt`: tagged `optional` (a
uint32 length marker precedes it, 0 = nil).  `emb ptr fs`: an anonymous struct (`ptr`: pointer to
struct) without `inlined`, whose fields `fs` are flattened into the parent. -/
inductive Fields where
  | nil
  | cons (opt : Bool) (t : Ty) (rest : Fields)
  | emb (ptr : Bool) (fs : Fields) (rest : Fields)
inductive Alts where
  | nil
  | cons (code : Nat) (t : Ty) (rest : Alts)
end

/-- Mirror of Go values.  `n`: unsigned numbers, bools (0/1), float bit patterns; `i`: signed
numbers, `*big.Int`, time (nanoseconds since the Unix epoch, any integer); `x`: strings, byte
slices, byte arrays; `l`: slices, arrays, struct fields in serix order, maps (a list of `kv`);
`nil`/`some`: pointers; `nil`/`alt code v`: interfaces holding the alternative registered under
`code`. -/
inductive Val where
  | n (x : Nat)
  | i (x : Int)
  | x (bs : Bytes)
  | l (vs : List Val)
  | kv (k v : Val)
  | nil
  | some (v : Val)
  | alt (code : Nat) (v : Val)
deriving Repr, Inhabited

mutual
def Val.beq : Val → Val → Bool
  | .n a, .n b => a == b
  | .i a, .i b => a == b
  | .x a, .x b => a == b
  | .l a, .l b => Val.beqList a b
  | .kv a b, .kv c d => Val.beq a c && Val.beq b d
  | .nil, .nil => true
  | .some a, .some b => Val.beq a b
  | .alt c a, .alt d b => c == d && Val.beq a b
  | _, _ => false
def Val.beqList : List Val → List Val → Bool
  | [], [] => true
  | a :: as, b :: bs => Val.beq a b && Val.beqList as bs
  | _, _ => false
end

instance : BEq Val := ⟨Val.beq⟩

mutual
theorem Val.eq_of_beq : ∀ a b : Val, Val.beq a b = true → a = b
  | .n a, .n b, h => by simp [Val.beq] at h; rw [h]
  | .i a, .i b, h => by simp [Val.beq] at h; rw [h]
  | .x a, .x b, h => by simp [Val.beq] at h; rw [h]
  | .l a, .l b, h => by simp only [Val.beq] at h; rw [Val.eq_of_beqList a b h]
  | .kv a b, .kv c d, h => by
    simp only [Val.beq, Bool.and_eq_true] at h
    rw [Val.eq_of_beq a c h.1, Val.eq_of_beq b d h.2]
  | .nil, .nil, _ => rfl
  | .some a, .some b, h => by simp only [Val.beq] at h; rw [Val.eq_of_beq a b h]
  | .alt c a, .alt d b, h => by
    simp only [Val.beq, Bool.and_eq_true, beq_iff_eq] at h
    rw [h.1, Val.eq_of_beq a b h.2]
  | .n _, .i _, h | .n _, .x _, h | .n _, .l _, h | .n _, .kv _ _, h | .n _, .nil, h | .n _, .some _, h
  | .n _, .alt _ _, h => by simp [Val.beq] at h
  | .i _, .n _, h | .i _, .x _, h | .i _, .l _, h | .i _, .kv _ _, h | .i _, .nil, h | .i _, .some _, h
  | .i _, .alt _ _, h => by simp [Val.beq] at h
  | .x _, .n _, h | .x _, .i _, h | .x _, .l _, h | .x _, .kv _ _, h | .x _, .nil, h | .x _, .some _, h
  | .x _, .alt _ _, h => by simp [Val.beq] at h
  | .l _, .n _, h | .l _, .i _, h | .l _, .x _, h | .l _, .kv _ _, h | .l _, .nil, h | .l _, .some _, h
  | .l _, .alt _ _, h => by simp [Val.beq] at h
  | .kv _ _, .n _, h | .kv _ _, .i _, h | .kv _ _, .x _, h | .kv _ _, .l _, h | .kv _ _, .nil, h
  | .kv _ _, .some _, h | .kv _ _, .alt _ _, h => by simp [Val.beq] at h
  | .nil, .n _, h | .nil, .i _, h | .nil, .x _, h | .nil, .l _, h | .nil, .kv _ _, h | .nil, .some _, h
  | .nil, .alt _ _, h => by simp [Val.beq] at h
  | .some _, .n _, h | .some _, .i _, h | .some _, .x _, h | .some _, .l _, h | .some _, .kv _ _, h
  | .some _, .nil, h | .some _, .alt _ _, h => by simp [Val.beq] at h
  | .alt _ _, .n _, h | .alt _ _, .i _, h | .alt _ _, .x _, h | .alt _ _, .l _, h | .alt _ _, .kv _ _, h
  | .alt _ _, .nil, h | .alt _ _, .some _, h => by simp [Val.beq] at h
theorem Val.eq_of_beqList : ∀ a b : List Val, Val.beqList a b = true → a = b
  | [], [], _ => rfl
  | a :: as, b :: bs, h => by
    simp only [Val.beqList, Bool.and_eq_true] at h
    rw [Val.eq_of_beq a b h.1, Val.eq_of_beqList as bs h.2]
  | [], _ :: _, h => by simp [Val.beqList] at h
  | _ :: _, [], h => by simp [Val.beqList] at h
end

mutual
theorem Val.beq_refl : ∀ a : Val, Val.beq a a = true
  | .n _ | .i _ | .x _ => by simp [Val.beq]
  | .l a => by simp only [Val.beq]; exact Val.beqList_refl a
  | .kv a b => by simp only [Val.beq, Bool.and_eq_true]; exact ⟨Val.beq_refl a, Val.beq_refl b⟩
  | .nil => rfl
  | .some a => by simp only [Val.beq]; exact Val.beq_refl a
  | .alt _ a => by simp only [Val.beq, Bool.and_eq_true, beq_self_eq_true, true_and]; exact Val.beq_refl a
theorem Val.beqList_refl : ∀ a : List Val, Val.beqList a a = true
  | [] => rfl
  | a :: as => by
    simp only [Val.beqList, Bool.and_eq_true]; exact ⟨Val.beq_refl a, Val.beqList_refl as⟩
end

instance : LawfulBEq Val where
  eq_of_beq {a b} h := Val.eq_of_beq a b h
  rfl {a} := Val.beq_refl a

instance : DecidableEq Val := fun a b =>
  if h : Val.beq a b = true then isTrue (Val.eq_of_beq a b h)
  else isFalse (fun e => h (e ▸ Val.beq_refl a))

structure Opts where
  /-- `serix.WithValidation()`. -/
  validation : Bool
  /-- Specification device, `false` in the code: when set, the time decoder rejects stamps above
  `MaxInt64` instead of saturating them.  "`decode` with `strictTime` accepts `b`" is how C03 says
  "all timestamps of the input lie inside the int64-nanosecond range". -/
  strictTime : Bool := false
deriving Repr, DecidableEq

/-! ## Time -/

def maxInt64 : Nat := 2 ^ 63 - 1
/-- `serializer.MaxNanoTimestampInt64Seconds`. -/
def maxSec : Nat := maxInt64 / 1000000000

/-- `serializer.TimeToUint64` (after fix 262f59b) on a time given as integer nanoseconds since the
epoch: times before the epoch are written as 0, times whose nanoseconds do not fit an int64 as
`MaxInt64`.  (`unixSeconds > maxSec`, or `unixSeconds = maxSec` with a wrapped negative `UnixNano`,
is exactly `x > MaxInt64`.) -/
def timeToU64 (x : Int) : Nat :=
  if x < 0 then 0
  else if x.toNat > maxInt64 then maxInt64
  else x.toNat

/-- `ReadTime`: saturate by the seconds test, then `time.Unix(0, int64(ns))`. -/
def timeOfU64 (ns : Nat) : Int :=
  let ns' := if ns / 1000000000 > maxSec then maxInt64 else ns
  if ns' > maxInt64 then (ns' : Int) - (2 : Int) ^ 64 else ns'

/-! ## Serializer / Deserializer primitives -/

/-- `writeSliceLength` behind serix's `checkLengthPrefixTypeSupported`: missing or unsupported
prefix type and out-of-range lengths are errors. -/
def writeLen (lp : LP) (l : Nat) : Res Bytes :=
  match lp.width with
  | none => .err
  | some w => if l < 256 ^ w then .ok (leBytes w l) else .err

/-- `readSliceLength`: value and width. -/
def readLen (lp : LP) (b : Bytes) : Res (Nat × Nat) :=
  match lp.width with
  | none => .err
  | some w => if b.length < w then .err else .ok (leNat (b.take w), w)

/-- `CheckTypePrefix` (or nothing when the type has no object code): bytes consumed. -/
def readCode : Option Code → Bytes → Res Nat
  | none, _ => .ok 0
  | some c, b =>
    if b.length < c.den.width then .err
    else if leNat (b.take c.den.width) == c.n then .ok c.den.width else .err

def nodupB {α : Type} [BEq α] : List α → Bool
  | [] => true
  | a :: as => !as.contains a && nodupB as

/-- Adjacent-pair check, the shape of the stateful `LexicalOrder*Validator`s. -/
def adjOk (R : Bytes → Bytes → Bool) : List Bytes → Bool
  | [] => true
  | [_] => true
  | a :: b :: rest => R a b && adjOk R (b :: rest)

/-- `AtMostOneOfEachTypeValidator` with a type denotation of `w` bytes. -/
def typeUnique (w : Nat) (bs : List Bytes) : Bool :=
  bs.all (fun b => w ≤ b.length) && nodupB (bs.map (fun b => b.take w))

/-- `ArrayRules.ElementValidationFunc` applied to the elements in order — the same function on the
write side (`WriteSliceOfByteSlices`) and on the read side (`ReadSequenceOfObjects`) since fix 3a2407b
(`LexicalOrderWithoutDupsValidator` used to take an empty, i.e. nil, previous element on the write side
for "no previous element"). -/
def validSeq (r : Rules) (bs : List Bytes) : Bool :=
  (if r.noDups && !r.lex then nodupB bs else true) &&
  (if r.lex then (if r.noDups then adjOk lexLt bs else adjOk lexLe bs) else true) &&
  (if r.one8 then typeUnique 1 bs else true) &&
  (if r.one32 then typeUnique 4 bs else true)

/-- `encodeSliceOfBytes` → `WriteSliceOfByteSlices`. -/
def encSeq (lp : LP) (r : Rules) (o : Opts) (data : List Bytes) : Res Bytes := do
  if lp.width.isNone then .err else
  require (!o.validation || r.boundsOk data.length)
  let pre ← writeLen lp data.length
  let data' := if r.autoSort && r.lex then sortBytes data else data
  require (!o.validation || validSeq r data')
  pure (pre ++ data'.flatten)

def mapMRes {α β : Type} (f : α → Res β) : List α → Res (List β)
  | [] => .ok []
  | a :: as => do
    let b ← f a
    let bs ← mapMRes f as
    pure (b :: bs)

/-- The item loop of `ReadSequenceOfObjects`: every item is decoded from the remaining input and
the deserializer advances by what the item reports; the per-item slices `srcBefore[:bytesRead]`
are kept for the element validators. -/
def decLoop (item : Bytes → Res (Val × Nat)) : Nat → Bytes → Res (List (Val × Bytes) × Nat)
  | 0, _ => .ok ([], 0)
  | k + 1, b => do
    let (v, n) ← item b
    let (rest, m) ← decLoop item k (b.drop n)
    pure ((v, b.take n) :: rest, n + m)

/-! ## Must-occur rule -/

def Alts.find? : Alts → Nat → Option Ty
  | .nil, _ => none
  | .cons c t rest, code => if c == code then some t else rest.find? code

def Ty.ownCode : Ty → Option Nat
  | .struct (some c) _ => some c.n
  | .byteArr _ (some c) _ _ => some c.n
  | .custom (some c) _ => some c.n
  | _ => none

/-- The object code `checkArrayMustOccur` finds for an element (registered settings of the
dereferenced concrete type).  A nil pointer/interface element is an error (fix a0f81e4; it used to
panic). -/
def Ty.codeOf : Ty → Val → Res Nat
  | .ptr _, .nil => .err
  | .iface _ _, .nil => .err
  | .ptr t, _ => match t.ownCode with | some c => .ok c | none => .err
  | .iface _ alts, .alt c _ => if (alts.find? c).isSome then .ok c else .err
  | t, _ => match t.ownCode with | some c => .ok c | none => .err

def mustOccurOk (r : Rules) (e : Ty) (vs : List Val) : Res Unit :=
  if r.mustOccur.isEmpty then .ok () else do
    let codes ← mapMRes (e.codeOf ·) vs
    require (r.mustOccur.all (codes.contains ·))

/-- `checkArrayMustOccur` is only called with validation. -/
def mustOccurIf (validation : Bool) (r : Rules) (e : Ty) (vs : List Val) : Res Unit :=
  if validation then mustOccurOk r e vs else .ok ()

/-- Pointers can only be encoded when they point to a struct or an array
(`encodeBasedOnType`, `case reflect.Ptr`). -/
def Ty.ptrTarget : Ty → Bool
  | .struct _ _ | .array _ _ _ _ | .byteArr _ _ _ _ | .time | .custom _ _ => true
  | _ => false

/-- The encoding a custom type of the harness returns / accepts: a length byte and that many bytes. -/
def customOk (fixed : Option Nat) : Bytes → Bool
  | [] => false
  | n :: rest => rest.length == n.toNat && (match fixed with | none => true | some k => n.toNat == k)

def kvKey : Val → Option Val
  | .kv k _ => some k
  | _ => none

def optMapM {α β : Type} (f : α → Option β) : List α → Option (List β)
  | [] => some []
  | a :: as => match f a, optMapM f as with
    | some b, some bs => some (b :: bs)
    | _, _ => none

/-- The keys of a map value, provided it is a list of entries with pairwise different keys
(what a Go map is). -/
def mapKeysOk (kvs : List Val) : Bool :=
  match optMapM kvKey kvs with
  | some ks => nodupB ks
  | none => false

/-- `encodeMapKVPair`: key bytes followed by value bytes. -/
def encKV (ek ev : Val → Res Bytes) : Val → Res Bytes
  | .kv a b => do
    let x ← ek a
    let y ← ev b
    pure (x ++ y)
  | _ => .err

/-- `decodeMapKVPair`. -/
def decKV (dk dv : Bytes → Res (Val × Nat)) (b : Bytes) : Res (Val × Nat) := do
  let (kk, n1) ← dk b
  let (vv, n2) ← dv (b.drop n1)
  pure (.kv kk vv, n1 + n2)

/-! ## Encode -/

mutual
/-- `encodeBasedOnType`.  `pre`: the call came through `API.encode`, so with validation the bounds
of the type settings are checked against the value's length first (`checkMinMaxBounds`); a pointer
hands its target to `encodeStruct`/`encodeArray` directly (`pre = false`).  Not observable any more:
the same bounds are checked again further down (byte arrays: in `encodeArray`/`decodeArray` since fix
eec6277) and no failure between the two checks can be a panic. -/
def enc : Ty → Bool → Val → Opts → Res Bytes
  | .bool, _, .n x, _ => if x < 2 then .ok [UInt8.ofNat x] else .err
  | .uint w, _, .n x, _ => if x < 256 ^ w then .ok (leBytes w x) else .err
  | .float w, _, .n x, _ => if x < 256 ^ w then .ok (leBytes w x) else .err
  | .int w, _, .i x, _ =>
    if -((256 : Int) ^ w) ≤ 2 * x ∧ 2 * x < (256 : Int) ^ w then
      .ok (leBytes w (x % (256 : Int) ^ w).toNat) else .err
  | .str lp mn mx, _, .x bs, o => do
    if lp.width.isNone then .err else
    require (!o.validation || (boundsOk mn mx bs.length && utf8Valid bs))
    let pre ← writeLen lp bs.length
    pure (pre ++ bs)
  | .bytes lp mn mx, _, .x bs, _ => do
    if lp.width.isNone then .err else
    require (boundsOk mn mx bs.length)
    let pre ← writeLen lp bs.length
    pure (pre ++ bs)
  | .byteArr n code mn mx, _, .x bs, o =>
    if bs.length ≠ n then .err
    else if o.validation && !boundsOk mn mx n then .err
    else .ok (codeBytes code ++ bs)
  | .u256, _, .i x, _ => if 0 ≤ x ∧ x < (2 : Int) ^ 256 then .ok (leBytes 32 x.toNat) else .err
  | .time, _, .i x, _ => .ok (leBytes 8 (timeToU64 x))
  | .slice lp r e, pre, .l vs, o => do
    require (!(pre && o.validation) || r.boundsOk vs.length)
    mustOccurIf o.validation r e vs
    let data ← mapMRes (fun v => enc e true v o) vs
    encSeq lp r o data
  | .array n lp r e, pre, .l vs, o => do
    if vs.length ≠ n then .err else
    require (!(pre && o.validation) || r.boundsOk vs.length)
    mustOccurIf o.validation r e vs
    let data ← mapMRes (fun v => enc e true v o) vs
    encSeq lp r o data
  | .map lp r k v, _, .l kvs, o => do
    if !mapKeysOk kvs then .err else
    require (!o.validation || r.boundsOk kvs.length)
    let data ← mapMRes (encKV (fun a => enc k true a o) (fun b => enc v true b o)) kvs
    encSeq lp r.ordered o data
  | .struct code fs, _, .l vs, o => do
    let body ← encFields fs vs o
    pure (codeBytes code ++ body)
  | .ptr _, _, .nil, _ => .err
  | .ptr t, _, .some v, o => if t.ptrTarget then enc t false v o else .err
  | .iface _ _, _, .nil, _ => .err
  | .iface _ alts, _, .alt c v, o => encAlts alts c v o
  | .custom code fixed, _, .x bs, _ => if customOk fixed bs then .ok (codeBytes code ++ bs) else .err
  | _, _, _, _ => .err

/-- `encodeStructFields`. -/
def encFields : Fields → List Val → Opts → Res Bytes
  | .nil, [], _ => .ok []
  | .cons false t rest, v :: vs, o => do
    let b ← enc t true v o
    let bs ← encFields rest vs o
    pure (b ++ bs)
  | .cons true t rest, v :: vs, o => do
    let b ← (match v with
      | .nil => Res.ok (leBytes 4 0)
      | _ => do
        let fb ← enc t true v o
        -- WritePayloadLength: uint32(len(fieldBytes))
        pure (leBytes 4 fb.length ++ fb))
    let bs ← encFields rest vs o
    pure (b ++ bs)
  | .emb false fs rest, .l ws :: vs, o => do
    -- the fields of the embedded struct are written in place, without its own code
    let b ← encFields fs ws o
    let bs ← encFields rest vs o
    pure (b ++ bs)
  | .emb true fs rest, .some (.l ws) :: vs, o => do
    -- a nil embedded pointer is refused (fix 2f92ee4)
    let b ← encFields fs ws o
    let bs ← encFields rest vs o
    pure (b ++ bs)
  | _, _, _ => .err

/-- `encodeInterface`: the dynamic type must be registered for the interface. -/
def encAlts : Alts → Nat → Val → Opts → Res Bytes
  | .nil, _, _, _ => .err
  | .cons c t rest, code, v, o => if c == code then enc t true v o else encAlts rest code v o
end

/-- `API.Encode`. -/
def encode (t : Ty) (v : Val) (o : Opts) : Res Bytes := enc t true v o

/-! ## Decode -/

def toSigned (w : Nat) (n : Nat) : Int :=
  if 2 * n < 256 ^ w then (n : Int) else (n : Int) - (256 : Int) ^ w

def valKeys (items : List (Val × Bytes)) : List Val :=
  items.filterMap (fun p => kvKey p.1)

/-- What follows `readSliceLength` in `ReadSequenceOfObjects`, plus the must-occur test of
decodeSlice. -/
def decSeqBody (item : Bytes → Res (Val × Nat)) (r : Rules) (o : Opts) (count w : Nat) (b : Bytes) :
    Res (List (Val × Bytes) × Nat) := do
  require (!o.validation || r.boundsOk count)
  let (items, m) ← decLoop item count (b.drop w)
  require (!o.validation || validSeq r (items.map (·.2)))
  pure (items, w + m)

mutual
/-- `decodeBasedOnType`: value and number of bytes consumed. -/
def dec : Ty → Bytes → Opts → Res (Val × Nat)
  | .bool, b, _ =>
    match b with
    | [] => .err
    | x :: _ => if x == 0 then .ok (.n 0, 1) else if x == 1 then .ok (.n 1, 1) else .err
  | .uint w, b, _ => if b.length < w then .err else .ok (.n (leNat (b.take w)), w)
  | .float w, b, _ => if b.length < w then .err else .ok (.n (leNat (b.take w)), w)
  | .int w, b, _ => if b.length < w then .err else .ok (.i (toSigned w (leNat (b.take w))), w)
  | .str lp mn mx, b, o => do
    let (l, w) ← readLen lp b
    require (!o.validation || boundsOk mn mx l)
    if (b.drop w).length < l then .err else
    let s := (b.drop w).take l
    require (!o.validation || utf8Valid s)
    pure (.x s, w + l)
  | .bytes lp mn mx, b, _ => do
    let (l, w) ← readLen lp b
    require (boundsOk mn mx l)
    if (b.drop w).length < l then .err else
    pure (.x ((b.drop w).take l), w + l)
  | .byteArr n code mn mx, b, o => do
    require (!o.validation || boundsOk mn mx n)
    let cw ← readCode code b
    if (b.drop cw).length < n then .err else
    pure (.x ((b.drop cw).take n), cw + n)
  | .u256, b, _ => if b.length < 32 then .err else .ok (.i (leNat (b.take 32)), 32)
  | .time, b, o =>
    if b.length < 8 then .err
    else if o.strictTime && leNat (b.take 8) > maxInt64 then .err
    else .ok (.i (timeOfU64 (leNat (b.take 8))), 8)
  | .slice lp r e, b, o => do
    let (count, w) ← readLen lp b
    let (items, n) ← decSeqBody (fun b => dec e b o) r o count w b
    let vs := items.map (·.1)
    mustOccurIf o.validation r e vs
    pure (.l vs, n)
  | .array len lp r e, b, o => do
    let (count, w) ← readLen lp b
    require (!o.validation || r.boundsOk count)
    if count ≠ len then .err else
    let (items, n) ← decSeqBody (fun b => dec e b o) r o count w b
    let vs := items.map (·.1)
    mustOccurIf o.validation r e vs
    pure (.l vs, n)
  | .map lp r k v, b, o => do
    let (count, w) ← readLen lp b
    let (items, n) ← decSeqBody (decKV (fun b => dec k b o) (fun b => dec v b o)) r.ordered o count w b
    -- "map entry with key already exists"
    require (nodupB (valKeys items))
    pure (.l (items.map (·.1)), n)
  | .struct code fs, b, o => do
    let cw ← readCode code b
    let (vs, n) ← decFields fs (b.drop cw) o
    pure (.l vs, cw + n)
  | .ptr t, b, o => do
    let (v, n) ← dec t b o
    pure (.some v, n)
  | .iface den alts, b, o =>
    -- GetObjectType peeks at the code; the alternative re-reads it as its own prefix
    if b.length < den.width then .err else decAlts alts (leNat (b.take den.width)) b o
  | .custom code fixed, b, _ => do
    let cw ← readCode code b
    match b.drop cw with
    | [] => .err
    | n :: rest =>
      if rest.length < n.toNat then .err
      else if customOk fixed (n :: rest.take n.toNat) then .ok (.x (n :: rest.take n.toNat), cw + (1 + n.toNat))
      else .err

/-- `decodeStructFields`. -/
def decFields : Fields → Bytes → Opts → Res (List Val × Nat)
  | .nil, _, _ => .ok ([], 0)
  | .cons false t rest, b, o => do
    let (v, n) ← dec t b o
    let (vs, m) ← decFields rest (b.drop n) o
    pure (v :: vs, n + m)
  | .cons true t rest, b, o => do
    if b.length < 4 then .err else
    let len := leNat (b.take 4)
    if len == 0 then do
      let (vs, m) ← decFields rest (b.drop 4) o
      pure (.nil :: vs, 4 + m)
    else do
      let (v, n) ← dec t (b.drop 4) o
      if n ≠ len then .err else
      let (vs, m) ← decFields rest (b.drop (4 + n)) o
      pure (v :: vs, 4 + n + m)
  | .emb ptr fs rest, b, o => do
    let (ws, n) ← decFields fs b o
    let (vs, m) ← decFields rest (b.drop n) o
    pure ((if ptr then .some (.l ws) else .l ws) :: vs, n + m)

def decAlts : Alts → Nat → Bytes → Opts → Res (Val × Nat)
  | .nil, _, _, _ => .err
  | .cons c t rest, code, b, o =>
    if c == code then do
      let (v, n) ← dec t b o
      pure (.alt c v, n)
    else decAlts rest code b o
end

/-- `API.Decode`. -/
def decode (t : Ty) (b : Bytes) (o : Opts) : Res (Val × Nat) := dec t b o

end Hive.Serix
