import Hive.Model.TypedValue
/-!
# `TypedValue[*T]`: reference-typed values and aliasing (C06)

With a pointer-typed `V` the cache holds the *caller's object*: `Set(p)` caches `p`, `Get` hands the
cached pointer out.  A caller that mutates such an object changes what the cached reference denotes
without any store call.  This is mirrored by instantiating the generic model at `V := Ref`
(references into a heap kept by the driver) with a codec that depends on the *current* heap:
`enc r` encodes the object `r` points to now, `dec b` allocates a fresh object.  The op "mutate the
caller's object" only changes the heap.  `step` itself is unchanged — the same control flow is
compared — so a `Set` that consults the cached object instead of writing (and therefore skips the
write after `Set(p); p.x++; Set(p)`) disagrees with the model on the raw bytes.

Objects are referred to by role, not by name: `a` = the object last given to `Set`, `g` = the object
last returned by `Get`/`Compute`.  Answers print contents and the aliasing facts (`ra`: returned
object is `a`, `ca`/`cg`: the cached object is `a`/`g`).
-/
namespace Hive.Typed
open Hive.Proto

abbrev Ref := Nat     -- 0 is the nil pointer (the zero value of `*T`)

structure RState where
  st : St Ref
  heap : List (Ref × UInt64)     -- newest binding first
  next : Ref
  a : Ref
  g : Ref

def rinit : RState := { st := fresh none, heap := [], next := 1, a := 0, g := 0 }

def hget (h : List (Ref × UInt64)) (r : Ref) : Option UInt64 :=
  match h with
  | [] => none
  | (r', v) :: rest => if r = r' then some v else hget rest r

/-- The codec of `*T` at one moment: encoding reads the object through the heap `henc`; decoding
allocates the fresh object `f`. -/
def refCodec (henc : List (Ref × UInt64)) (f : Ref) : Codec Ref where
  enc r := (hget henc r).bind codec64.enc
  dec b := (codec64.dec b).map fun _ => f

def showContent (h : List (Ref × UInt64)) (r : Ref) : String :=
  if r = 0 then "nil" else match hget h r with
    | some v => toString v.toNat
    | none => "?"

def showROut (h : List (Ref × UInt64)) : Out Ref → String
  | .ok => "ok"
  | .val v => s!"val {showContent h v}"
  | .has b => s!"has {showBool b}"
  | .computed v c => s!"computed {showContent h v} {if c then "chg" else "nc"}"
  | .notfound => "notfound"
  | .err e => showErr e
  | .panic => "panic"

/-- `arg`: the object the compute function was handed (0: none / nil); `pre`: the state before the operation.  `fa`/`fg`/`fc`:
the function was handed the caller's object `a` / `g` / the object the cache held — by `C06_compute_ownership` never the
case: the argument is the object this call's own decode allocated. -/
def showAlias (pre s : RState) (ret arg : Ref) : String :=
  let fl := (if ret ≠ 0 ∧ ret = s.a then ["ra"] else []) ++
    (match s.st.cv with
     | some c => (if c ≠ 0 ∧ c = s.a then ["ca"] else []) ++ (if c ≠ 0 ∧ c = s.g then ["cg"] else [])
     | none => []) ++
    (if arg ≠ 0 ∧ arg = pre.a then ["fa"] else []) ++ (if arg ≠ 0 ∧ arg = pre.g then ["fg"] else []) ++
    (if arg ≠ 0 ∧ pre.st.cv = some arg then ["fc"] else [])
  if fl.isEmpty then "-" else ",".intercalate fl

def showRCache (s : RState) : String :=
  (match s.st.cv with | none => "nil" | some c => showContent s.heap c) ++ "/" ++
  (match s.st.ch with | none => "nil" | some b => showBool b)

def showRLine (pre s : RState) (out : String) (tr : List Ev) (ret arg : Ref) : String :=
  s!"{out} calls={showTrace tr} raw={showRaw s.st.store} cache={showRCache s} alias={showAlias pre s ret arg}"

/-- One operation through the generic `step` with the codec of the moment. `hpost` is the heap after
the compute function ran (it may have allocated / mutated objects), used for encoding. -/
def rApply (s : RState) (hpost : List (Ref × UInt64)) (op : Op Ref) (F : Faults) (setsA : Option Ref) : RState × String :=
  let f := s.next
  let r := step (refCodec hpost f) s.st op F
  let ret : Ref := match r.out with
    | .val v => v
    | .computed v _ => v
    | _ => 0
  let s' : RState := { s with st := r.st, heap := hpost, next := s.next + 2,
                              a := setsA.getD s.a, g := if ret ≠ 0 then ret else s.g }
  -- what the compute function is handed (if it is called at all)
  let arg : Ref := match op with
    | .compute _ => (match s.st.cv, s.st.ch with
      | some _, none => 0
      | _, _ => match computeRead (refCodec hpost f) s.st F with
        | .go cur _ _ => cur
        | .exit _ _ => 0)
    | _ => 0
  (s', showRLine s s' (showROut hpost r.out) r.tr ret arg)

def rstepLine (s : RState) (toks : List String) : RState × String :=
  let f := s.next
  let n1 := s.next + 1
  -- the object a decode of the current raw bytes would allocate
  let hdec : List (Ref × UInt64) := match s.st.store.bind codec64.dec with
    | some v => (f, v) :: s.heap
    | none => s.heap
  match toks with
  | ["init", "none"] => ({ rinit with heap := s.heap, next := s.next }, "ok")
  | ["init", h] =>
    match unhex h with
    | some b => ({ rinit with st := fresh (some b), heap := s.heap, next := s.next }, "ok")
    | none => (s, "bad-op")
  | ["reopen"] => rApply s s.heap .reopen {} none
  | ["mut", role, n] =>
    let r := if role == "a" then s.a else if role == "g" then s.g else 0
    match u64? n with
    | some v =>
      if r = 0 then (s, "noobj")
      else let s' := { s with heap := (r, v) :: s.heap }; (s', showRLine s s' "ok" [] 0 0)
    | none => (s, "bad-op")
  | ["get", ft] => match parseFaults ft with
    | some F => rApply s hdec .get F none
    | none => (s, "bad-op")
  | ["has", ft] => match parseFaults ft with
    | some F => rApply s hdec .has F none
    | none => (s, "bad-op")
  | ["del", ft] => match parseFaults ft with
    | some F => rApply s hdec .delete F none
    | none => (s, "bad-op")
  | ["set", "new", n, ft] => match u64? n, parseFaults ft with
    | some v, some F => rApply s ((n1, v) :: hdec) (.set n1) F (some n1)
    | _, _ => (s, "bad-op")
  | ["set", role, ft] =>
    let r := if role == "a" then s.a else if role == "g" then s.g else 0
    match parseFaults ft with
    | some F => if r = 0 then (s, "noobj") else rApply s hdec (.set r) F (some r)
    | none => (s, "bad-op")
  | ["compute", "new", n, ft] => match u64? n, parseFaults ft with
    | some v, some F => rApply s ((n1, v) :: hdec) (.compute fun _ _ => .ok n1) F none
    | _, _ => (s, "bad-op")
  | ["compute", "inc", n, ft] => match u64? n, parseFaults ft with
    | some v, some F =>
      -- `if exists { cur.X++; return cur }; return &T{n}`: the current object is the freshly decoded one
      let hinc : List (Ref × UInt64) := match s.st.store.bind codec64.dec with
        | some d => (f, d + 1) :: s.heap
        | none => s.heap
      rApply s ((n1, v) :: hinc) (.compute fun cur ex => if ex then .ok cur else .ok n1) F none
    | _, _ => (s, "bad-op")
  | ["compute", "mutnc", n, ft] => match u64? n, parseFaults ft with
    | some v, some F =>
      -- `if exists { cur.X = n }; return nil, ErrTypedValueNotChanged`: the function scribbles over what it was handed, then aborts
      let hmut : List (Ref × UInt64) := match s.st.store.bind codec64.dec with
        | some _ => (f, v) :: s.heap
        | none => s.heap
      rApply s hmut (.compute fun _ _ => .notChanged) F none
    | _, _ => (s, "bad-op")
  | ["compute", "mutfail", n, ft] => match u64? n, parseFaults ft with
    | some v, some F =>
      let hmut : List (Ref × UInt64) := match s.st.store.bind codec64.dec with
        | some _ => (f, v) :: s.heap
        | none => s.heap
      rApply s hmut (.compute fun _ _ => .fail) F none
    | _, _ => (s, "bad-op")
  | ["compute", "nc", ft] => match parseFaults ft with
    | some F => rApply s hdec (.compute fun _ _ => .notChanged) F none
    | none => (s, "bad-op")
  | ["compute", "fail", ft] => match parseFaults ft with
    | some F => rApply s hdec (.compute fun _ _ => .fail) F none
    | none => (s, "bad-op")
  | ["compute", role, ft] =>
    let r := if role == "a" then s.a else if role == "g" then s.g else 0
    match parseFaults ft with
    | some F => if r = 0 then (s, "noobj") else rApply s hdec (.compute fun _ _ => .ok r) F none
    | none => (s, "bad-op")
  | _ => (s, "bad-op")

end Hive.Typed
