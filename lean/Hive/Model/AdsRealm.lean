import Hive.Model.Ads
import Hive.Model.AdsId
import Hive.Model.AdsTyped
import Hive.Model.AdsFault
/-!
# Several authenticated maps / sets in one database (C09)

`newAuthenticatedMap(store, …)` derives four key spaces from the store view it is given, all
*relative to the view's realm* `r`:

* realm `r ++ [0]` — `store.WithExtendedRealm({prefixRawKeysStorage})`: the raw keys;
* realm `r ++ [1]` — `store.WithExtendedRealm({prefixTreeStorage})`: the trie's node store;
* key   `r ++ [2]` — the root cell;   key `r ++ [3]` — the size cell.

`Layout` says how the four region ids are derived from the realm; `layout` is the code.  The
database is modelled at the granularity of these regions (`DB`: region id ↦ what is stored below
it); that this is a faithful view of the flat key-value store is `C09_key_spaces_disjoint`: for
compatible realms no store key lies in regions of two instances.  An instance is its realm plus
the contents of its in-memory trie; every call loads the persistent part of the sequential state
`St` from the regions, runs the sequential `step`, and stores the regions back.
-/
namespace Hive.Ads

abbrev Realm := List UInt8

/-- What is stored below one region id. -/
inductive Slot (R : Type)
  | empty
  | raw (ks : List Key)     -- the keys below a raw-key realm, in the store's order
  | tree (kv : KV)          -- the contents of the trie flushed into a node-store realm
  | size (n : Int)
  | root (x : R)

abbrev DB (R : Type) := List UInt8 → Slot R

def DB.empty {R : Type} : DB R := fun _ => .empty

def DB.set {R : Type} (db : DB R) (id : List UInt8) (v : Slot R) : DB R := fun x => if x = id then v else db x

/-- How the constructor derives its four key spaces from the realm of the store view. -/
structure Layout where
  raw : Realm → List UInt8
  tree : Realm → List UInt8
  root : Realm → List UInt8
  size : Realm → List UInt8

/-- ads/map_impl.go: everything is relative to the realm (`WithExtendedRealm`, keys of the view). -/
def layout : Layout :=
  { raw := fun r => r ++ [0], tree := fun r => r ++ [1], root := fun r => r ++ [2], size := fun r => r ++ [3] }

/-- The variant that opens the node store with the *absolute* realm `{1}` (`store.WithRealm`): on a
bare database it coincides with `layout`, below a realm every instance shares one node store.
Only used by `C09_shared_tree_realm_witness`. -/
def sharedTreeLayout : Layout := { layout with tree := fun _ => [1] }

variable {R : Type}

/-- The sequential state of the instance with realm `r` and in-memory trie contents `mem`. -/
def load (L : Layout) (db : DB R) (r : Realm) (mem : KV) : St R :=
  { trie := { mem := mem, disk := match db (L.tree r) with | .tree kv => some kv | _ => none }
    rawKeys := match db (L.raw r) with | .raw ks => ks | _ => []
    size := match db (L.size r) with | .size n => some n | _ => none
    rootKey := match db (L.root r) with | .root x => some x | _ => none }

/-- Write the persistent part of `s` into the regions of realm `r`. -/
def store (L : Layout) (db : DB R) (r : Realm) (s : St R) : DB R :=
  let db := db.set (L.raw r) (.raw s.rawKeys)
  let db := db.set (L.tree r) (match s.trie.disk with | some kv => .tree kv | none => .empty)
  let db := db.set (L.root r) (match s.rootKey with | some x => .root x | none => .empty)
  db.set (L.size r) (match s.size with | some n => .size n | none => .empty)

/-- One call on the instance with realm `r`: the database afterwards, the in-memory trie contents
afterwards, the answer. -/
def stepAt (c : Cfg R) (L : Layout) (db : DB R) (r : Realm) (mem : KV) (op : Op) : DB R × KV × Out R :=
  let (s', o) := step c (load L db r mem) op
  (store L db r s', s'.trie.mem, o)

/-- The region ids of two realms are pairwise prefix-incomparable: neither instance's regions contain
keys of the other's.  (Equal realms are the same instance; a realm that continues another one with a
byte `0..3` would live inside the other's regions.) -/
def compatible (r₁ r₂ : Realm) : Bool :=
  [0, 1, 2, 3].all fun (a : UInt8) => [0, 1, 2, 3].all fun (b : UInt8) =>
    !(r₁ ++ [a]).isPrefixOf (r₂ ++ [b]) && !(r₂ ++ [b]).isPrefixOf (r₁ ++ [a])

/-- A key of the flat store belongs to the instance with realm `r`. -/
def owned (r : Realm) (key : List UInt8) : Prop := ∃ a ∈ ([0, 1, 2, 3] : List UInt8), (r ++ [a]) <+: key

/-! ## line protocol: sessions of several instances, possibly in one database -/
open Hive.Proto

/-! ### the serializers an instance of the harness is constructed with

One letter each for the identifier, the key and the value serializer: `i` the bytes themselves, `p` one
leading tag byte, `r` the bytes in reverse order, `l` two leading length bytes.  All of them round-trip.  The
sequential model works on the *stored* (encoded) keys and values — `Op.set (k : Option Key)` is the result of
`keyToBytes` — so the serializers live in the line protocol: requests are encoded, answers decoded; `peek`
shows the raw keys as stored (their order is the byte order of the stored form).  The identifier serializer
never shows in an answer of the round-tripping serializers (`Hive/Model/AdsId.lean` models where the code goes
through it and where it uses the raw root). -/
structure Codec where
  id : Char := 'i'
  key : Char := 'i'
  val : Char := 'i'

def tagKey : UInt8 := 0x4B
def tagVal : UInt8 := 0x56

def encWith (c : Char) (tag : UInt8) (b : List UInt8) : List UInt8 :=
  if c == 'p' then tag :: b
  else if c == 'r' then b.reverse
  else if c == 'l' then UInt8.ofNat (b.length / 256) :: UInt8.ofNat (b.length % 256) :: b
  else b

def decWith (c : Char) (b : List UInt8) : List UInt8 :=
  if c == 'p' then b.drop 1 else if c == 'l' then b.drop 2 else if c == 'r' then b.reverse else b

/-- `map`, `mapa`, `set`, optionally followed by `:<id><key><val>` (the set flavour's values are `types.Empty`). -/
def parseFlavour (tok : String) : Option Codec :=
  let ok (c : Char) : Bool := c == 'i' || c == 'p' || c == 'r' || c == 'l'
  match tok.splitOn ":" with
  | [fl] => if fl == "map" || fl == "mapa" || fl == "set" then some {} else none
  | [fl, cs] =>
    match cs.toList with
    | [a, b, c] =>
      if (fl == "map" || fl == "mapa" || (fl == "set" && c == 'i')) && ok a && ok b && ok c
      then some { id := a, key := b, val := c } else none
    | _ => none
  | _ => none

/-- The key / value serializers of the harness as a `KVCodec` of the typed surface (`Hive/Model/AdsTyped.lean`;
keys and values of the harness are byte strings): an object whose first byte is `0xEE` does not encode; a key whose
first byte is `0xBD` does not decode from its stored form; a value whose
payload starts with `0xDD` does not decode, with `0xCC` it decodes consuming all but one byte; the tag / length byte is
missing in the nil slice that `Stream` gets for a raw key without a leaf (an instance reopened with un-committed
changes): the serializers `p` and `l` refuse it. -/
def codecOf (cd : Codec) : KVCodec (List UInt8) (List UInt8) :=
  { kenc := fun kb => (encArg kb).map (encWith cd.key tagKey)
    kdec := fun raw =>
      -- a key whose first byte is `0xBD` encodes, but its stored form does not decode (`Stream` ends there)
      let p := decWith cd.key raw
      match p with
      | x :: _ => if x.toNat = 0xBD then none else some p
      | [] => some p
    venc := fun vb => (encArg vb).map (encWith cd.val tagVal)
    vdec := fun b =>
      if (cd.val == 'p' || cd.val == 'l') && b.isEmpty then none else
      let p := decWith cd.val b
      match harnessDec p with
      | .fail => none
      | .short => some (p, b.length - 1)
      | .ok => some (p, b.length) }

/-- The configuration of an instance: `Get`'s view of the value decoder. -/
def cfgC (cd : Codec) : Cfg R0 := { rootOf := id, dec := (codecOf cd).dec }

abbrev TyOp0 := TyOp (List UInt8) (List UInt8)

/-- Requests on the typed surface (`add k` of the set flavour is `Set(k, types.Void)`). -/
def parseTyOp : List String → Option TyOp0
  | ["set", k, v] => do
      let kb ← unhex k
      let vb ← parseVal v
      pure (.set kb vb)
  | ["add", k] => (unhex k).map (fun kb => .set kb [])
  | ["get", k] => (unhex k).map .get
  | ["has", k] => (unhex k).map .has
  | ["del", k] => (unhex k).map .del
  | ["size"] => some .size
  | ["stream", n] => n.toNat?.map .stream
  | ["commit"] => some .commit
  | ["root"] => some .root
  | ["restored"] => some .restored
  | ["reopen"] => some .reopen
  | _ => none

def showTyEnd : TyStreamEnd → String
  | .ok => "ok"
  | .errCb => "err-cb"
  | .errDec => "err-dec"
  | .errKeyDec => "err-keydec"
  | .errKeyEnc => "err-keyenc"

def showTyOut : TyOut (List UInt8) (List UInt8) R0 → String
  | .out o => showOut o
  | .found v => "found " ++ hex v
  | .streamed ps e => "stream " ++ showKV ps ++ " " ++ showTyEnd e

structure RInst where
  db : Nat
  realm : Realm
  mem : KV
  cd : Codec := {}
  /-- `idfail`: bit 0 — the identifier encoder fails, bit 1 — the identifier decoder fails -/
  idmode : Nat := 0
  /-- a constructor whose identifier decoder failed started a new trie over the old records: what lies in the
  node store is then no longer a function of the last `Commit` (`peek` answers `nodes=?`) -/
  garbage : Bool := false
  /-- `fault`: the write fault of the store below the instance -/
  fault : Fault := .none

structure Sess where
  dbs : List (Nat × DB R0)
  insts : List (Nat × RInst)
  /-- the contents at every root request of the session so far, oldest first -/
  points : List KV

def Sess.init : Sess := { dbs := [], insts := [], points := [] }

def Sess.db (ss : Sess) (d : Nat) : Option (DB R0) := (ss.dbs.find? (·.1 == d)).map (·.2)
def Sess.putDb (ss : Sess) (d : Nat) (db : DB R0) : Sess := { ss with dbs := (d, db) :: ss.dbs.filter (·.1 != d) }
def Sess.inst (ss : Sess) (i : Nat) : Option RInst := (ss.insts.find? (·.1 == i)).map (·.2)
def Sess.putInst (ss : Sess) (i : Nat) (x : RInst) : Sess := { ss with insts := (i, x) :: ss.insts.filter (·.1 != i) }

/-- `61/6263` — the realm segments of a store view (`WithRealm(seg₁)` then `WithExtendedRealm(segₖ)`);
the view's realm is their concatenation. -/
def parseRealm (s : String) : Option Realm :=
  ((s.splitOn "/").mapM unhex).map List.flatten

/-- The constructor over a store view: nothing is in memory, the trie is imported if a root is stored. -/
def openAt (ss : Sess) (i d : Nat) (r : Realm) (cd : Codec := {}) : Sess × String :=
  match ss.db d with
  | none => (ss, "nodb")
  | some db =>
    let (db', mem', _) := stepAt (cfgC cd) layout db r [] .reopen
    ((ss.putDb d db').putInst i { db := d, realm := r, mem := mem', cd := cd }, "ok")

/-- The identifier serializers of the driver: the cell stores the identifier itself; `idfail` makes the encoder /
the decoder fail.  (The driver's identifiers are the contents as functions — their equality is not executable.  In
`stepAtI` the cell and the digest the node store was flushed under are loaded from ONE slot of the region-granular
database — write faults of the node store, the only way to make them differ, are not modelled — and the driver's
serializers are the identity or fail, so `same` is only ever asked about a value and itself: the constant `true` is the
lawful answer on every argument pair that occurs.) -/
def idCodecOf (mode : Nat) : IdCodec R0 R0 :=
  { enc := fun r => if mode % 2 == 1 then none else some r
    dec := fun b => if mode / 2 % 2 == 1 then none else some b }

/-- One call on the instance with realm `r` through `istep` (root cell, failing identifier serializers). -/
def stepAtI (c : Cfg R0) (mode : Nat) (f : Fault) (db : DB R0) (r : Realm) (mem : KV) (op : Op) : DB R0 × KV × FOut R0 :=
  let s := load layout db r mem
  let (st', o) := fstep c (idCodecOf mode) (fun _ _ => true) f { s := s, cell := s.rootKey, dangling := none } op
  (store layout db r { st'.s with rootKey := st'.cell }, st'.s.trie.mem, o)

/-- One call on the typed surface of instance `x`: the typed request is encoded (`encOp`), run on the instance with its
root cell (`stepAtI`), and the answer is read back through the serializers (`tout`, from the state before the call).
An error of the root cell / the size cell / the raw-key store is answered as such. -/
def tstepAtI (x : RInst) (db : DB R0) (top : TyOp0) : DB R0 × KV × Except String (TyOut (List UInt8) (List UInt8) R0) :=
  let kc := codecOf x.cd
  let pre := load layout db x.realm x.mem
  let (db', mem', o) := stepAtI (cfgC x.cd) x.idmode x.fault db x.realm x.mem (encOp kc top)
  (db', mem', match o with
    | .out .errSetRoot => .error "err-root"
    | .errSize => .error "err-size"
    | .errRaw => .error "err-raw"
    | .errIter => .error "err-iter"
    | .out (.out o) => .ok (tout kc pre top o))

def showTy? : Except String (TyOut (List UInt8) (List UInt8) R0) → String
  | .error e => e
  | .ok o => showTyOut o

/-- `rmw <i> <key> <byte>` — read-modify-write-back: `v := Get(key)`; the first byte of `v` is replaced;
`Set(key, v)`.  A failed or empty `Get` ends it with `Get`'s answer (`empty` for the empty value). -/
def rmwLine (ss : Sess) (i : Nat) (x : RInst) (args : List String) : Sess × String :=
  match ss.db x.db, args with
  | none, _ => (ss, "nodb")
  | some db, [k, b] =>
    match unhex k, unhex b with
    | some kb, some [nb] =>
      if nb.toNat ≥ 0x80 then (ss, "bad-op") else
      let (db₁, mem₁, o₁) := tstepAtI x db (.get kb)
      match o₁ with
      | .ok (.found []) => ((ss.putDb x.db db₁).putInst i { x with mem := mem₁ }, "empty")
      | .ok (.found (_ :: rest)) =>
        let (db₂, mem₂, o₂) := tstepAtI { x with mem := mem₁ } db₁ (.set kb (nb :: rest))
        ((ss.putDb x.db db₂).putInst i { x with mem := mem₂ }, showTy? o₂)
      | o => ((ss.putDb x.db db₁).putInst i { x with mem := mem₁ }, showTy? o)
    | _, _ => (ss, "bad-op")
  | _, _ => (ss, "bad-op")

/-- `peek <i>` — the persistent layout read from the database below the view: the raw keys of region
`realm ++ [0]` in the store's order, the size cell `realm ++ [3]`, whether the root cell `realm ++ [2]`
exists, whether trie records exist in region `realm ++ [1]` (the last `Commit` flushed a non-empty trie). -/
def peekLine (ss : Sess) (x : RInst) (args : List String) : String :=
  match ss.db x.db, args with
  | some db, [] =>
    let raw := match db (layout.raw x.realm) with | .raw ks => ks | _ => []
    let size := match db (layout.size x.realm) with | .size n => toString n | _ => "-"
    let root := match db (layout.root x.realm) with | .root _ => "yes" | _ => "no"
    let nodes := if x.garbage then "?" else match db (layout.tree x.realm) with | .tree (_ :: _) => "+" | _ => "0"
    "peek raw=[" ++ " ".intercalate (raw.map hex) ++ "] size=" ++ size ++ " root=" ++ root ++ " nodes=" ++ nodes
  | none, _ => "nodb"
  | _, _ => "bad-op"

/-- Request lines: `opendb <d>` creates a database; `openr <i> <flavour> <d> <realm>` opens instance
`i` over a realm view of database `d`; `open <i> <flavour>` opens it over a database of its own;
then `<verb> <i> <args…>` (the flavour only selects the Go type: `add k` is `set k ""`). -/
def stepLine (ss : Sess) (toks : List String) : Sess × String :=
  match toks with
  | ["opendb", d] =>
    match d.toNat? with
    | some d => (ss.putDb d DB.empty, "ok")
    | none => (ss, "bad-op")
  | ["openr", i, fl, d, realm] =>
    match i.toNat?, d.toNat?, parseRealm realm, parseFlavour fl with
    | some i, some d, some r, some cd =>
      match ss.db d with
      | none => (ss, "nodb")
      | some _ =>
        -- the property speaks about instances whose key spaces do not overlap
        if (ss.insts.filter (·.2.db == d)).all (fun x => compatible x.2.realm r) then openAt ss i d r cd
        else (ss, "bad-op")
    | _, _, _, _ => (ss, "bad-op")
  | ["open", i, fl] =>
    match i.toNat?, parseFlavour fl with
    | some i, some cd => openAt (ss.putDb (1000000 + i) DB.empty) i (1000000 + i) [] cd
    | _, _ => (ss, "bad-op")
  | verb :: i :: args =>
    match i.toNat? with
    | none => (ss, "bad-op")
    | some i =>
      match ss.inst i with
      | none => (ss, "noinst")
      | some x =>
        if verb == "rmw" then rmwLine ss i x args else
        if verb == "peek" then (ss, peekLine ss x args) else
        if verb == "fault" then
          match args with
          | ["off"] => (ss.putInst i { x with fault := .none }, "ok")
          | ["root-w"] => (ss.putInst i { x with fault := .rootW }, "ok")
          | ["size-w"] => (ss.putInst i { x with fault := .sizeW }, "ok")
          | ["raw-w"] => (ss.putInst i { x with fault := .rawW }, "ok")
          | ["raw-r"] => (ss.putInst i { x with fault := .rawR }, "ok")
          | _ => (ss, "bad-op")
        else
        if verb == "idfail" then
          match args with
          | ["off"] => (ss.putInst i { x with idmode := 0 }, "ok")
          | ["enc"] => (ss.putInst i { x with idmode := 1 }, "ok")
          | ["dec"] => (ss.putInst i { x with idmode := 2 }, "ok")
          | ["both"] => (ss.putInst i { x with idmode := 3 }, "ok")
          | _ => (ss, "bad-op")
        else
        match ss.db x.db, parseTyOp (verb :: args) with
        | none, _ => (ss, "nodb")
        | _, none => (ss, "bad-op")
        | some db, some top =>
          let (db', mem', o) := tstepAtI x db top
          let hadCell := match db (layout.root x.realm) with | .root _ => true | _ => false
          let garbage := x.garbage || (verb == "reopen" && x.idmode / 2 % 2 == 1 && hadCell)
          let ss' := (ss.putDb x.db db').putInst i { x with mem := mem', garbage := garbage }
          match o with
          | .ok (.out (.root _)) =>
            -- roots are compared as equality classes: the first point of the session with these contents
            let pts := ss.points ++ [x.mem]
            ({ ss' with points := pts }, s!"class {classOf x.mem pts}")
          | o => (ss', showTy? o)
  | _ => (ss, "bad-op")

end Hive.Ads
