import Hive.Model.C12bBase
/-!
# Model of `walker.Walker` (ds/walker/walker.go, with the repaired `PushFront`)

Data layout: `stack` (a `container/list`, front first — it is used as a queue), `pushedElements`
(an OrderedMap used as an insertion-ordered set: a duplicate-free list of keys), `walkStopped`,
`revisitElements`.

```
Push(x):       if pushed.Set(x) reports "was present" && !revisit { return }; stack.PushBack(x)
PushFront(xs): for x in xs { if pushed.Set(x) "was present" && !revisit { continue }; stack.PushFront(x) }
Next():        e := stack.Front(); stack.Remove(e); return e.Value      -- panics on an empty stack, nothing mutated
HasNext():     stack.Len() > 0 && !walkStopped
Reset():       stack.Init(); pushed.Clear(); walkStopped = false
```
`pushed.Set` records the element in every case (also when revisiting is enabled).  `Next` does not
look at `walkStopped`.  The unrepaired `PushFront` had `return` in place of `continue`
(`pushFrontOld`, kept for the witness theorem).
-/
namespace Hive.C12b.WK

structure St where
  revisit : Bool
  queue : List Nat
  pushed : List Nat
  stopped : Bool
  yielded : List Nat   -- ghost: results of Next since the last Reset, oldest first
  offered : List Nat   -- ghost: every element offered to Push/PushAll/PushFront since the last Reset
deriving Repr

def init (revisit : Bool) : St :=
  { revisit := revisit, queue := [], pushed := [], stopped := false, yielded := [], offered := [] }

inductive Op
  | push (x : Nat)
  | pushAll (xs : List Nat)
  | pushFront (xs : List Nat)
  | next
  | hasNext
  | pushed (x : Nat)
  | stop
  | stopped
  | reset
deriving Repr, DecidableEq

inductive Out
  | ok
  | bool (b : Bool)
  | elem (x : Nat)
  | panic
deriving Repr, DecidableEq

/-- `OrderedMap.Set` used as a set insert: appends a new key, keeps the position of an old one. -/
def mark (p : List Nat) (x : Nat) : List Nat := if x ∈ p then p else p ++ [x]

def push1 (s : St) (x : Nat) : St :=
  if x ∈ s.pushed ∧ s.revisit = false then { s with offered := s.offered ++ [x] }
  else { s with pushed := mark s.pushed x, queue := s.queue ++ [x], offered := s.offered ++ [x] }

def pushFront1 (s : St) (x : Nat) : St :=
  if x ∈ s.pushed ∧ s.revisit = false then { s with offered := s.offered ++ [x] }
  else { s with pushed := mark s.pushed x, queue := x :: s.queue, offered := s.offered ++ [x] }

def step (s : St) : Op → St × Out
  | .push x => (push1 s x, .ok)
  | .pushAll xs => (xs.foldl push1 s, .ok)
  | .pushFront xs => (xs.foldl pushFront1 s, .ok)
  | .next =>
    match s.queue with
    | [] => (s, .panic)
    | x :: q => ({ s with queue := q, yielded := s.yielded ++ [x] }, .elem x)
  | .hasNext => (s, .bool (!s.queue.isEmpty && !s.stopped))
  | .pushed x => (s, .bool (decide (x ∈ s.pushed)))
  | .stop => ({ s with stopped := true }, .ok)
  | .stopped => (s, .bool s.stopped)
  | .reset => ({ s with queue := [], pushed := [], stopped := false, yielded := [], offered := [] }, .ok)

def run (s : St) : List Op → St × List Out
  | [] => (s, [])
  | op :: ops =>
    let r := step s op
    let rs := run r.1 ops
    (rs.1, r.2 :: rs.2)

def final (s : St) (ops : List Op) : St := ops.foldl (fun s op => (step s op).1) s

/-- The unrepaired `PushFront`: returns on the first repeat, dropping the remaining arguments. -/
def pushFrontOld (s : St) : List Nat → St
  | [] => s
  | x :: xs =>
    if x ∈ s.pushed ∧ s.revisit = false then s
    else pushFrontOld { s with pushed := mark s.pushed x, queue := x :: s.queue } xs

/-! ## abstract specification

A deque of pending elements plus the *set* of elements seen so far (a predicate). -/

structure Spec where
  revisit : Bool
  pending : List Nat
  seen : Nat → Bool
  stopped : Bool

def specOffer (front : Bool) (s : Spec) (x : Nat) : Spec :=
  if s.seen x = true ∧ s.revisit = false then s
  else { s with seen := fun y => decide (y = x) || s.seen y,
                pending := if front then x :: s.pending else s.pending ++ [x] }

def specStep (s : Spec) : Op → Spec × Out
  | .push x => (specOffer false s x, .ok)
  | .pushAll xs => (xs.foldl (specOffer false) s, .ok)
  | .pushFront xs => (xs.foldl (specOffer true) s, .ok)
  | .next =>
    match s.pending with
    | [] => (s, .panic)
    | x :: q => ({ s with pending := q }, .elem x)
  | .hasNext => (s, .bool (!s.pending.isEmpty && !s.stopped))
  | .pushed x => (s, .bool (s.seen x))
  | .stop => ({ s with stopped := true }, .ok)
  | .stopped => (s, .bool s.stopped)
  | .reset => ({ s with pending := [], seen := fun _ => false, stopped := false }, .ok)

/-! ## line protocol -/
open Hive.Proto

def showOut : Out → String
  | .ok => "ok"
  | .bool b => showBool b
  | .elem x => toString x
  | .panic => "panic"

def parseOp : List String → Option Op
  | ["push", x] => x.toNat?.map .push
  | "pushall" :: xs => (natsOf xs).map .pushAll
  | "pushfront" :: xs => (natsOf xs).map .pushFront
  | ["next"] => some .next
  | ["hasnext"] => some .hasNext
  | ["pushed", x] => x.toNat?.map .pushed
  | ["stop"] => some .stop
  | ["stopped"] => some .stopped
  | ["reset"] => some .reset
  | _ => none

/-- `for w.HasNext() { w.Next() }` -/
def drain (s : St) : St × List Nat :=
  if s.stopped then (s, []) else ({ s with queue := [], yielded := s.yielded ++ s.queue }, s.queue)

def stepLine (s : St) (toks : List String) : St × String :=
  match toks with
  | "new" :: r :: _ => match boolOf r with
    | some r => (init r, "ok")
    | none => (s, "bad-op")
  | ["drain"] => let r := drain s; (r.1, showNats r.2)
  | ["state"] =>
    (s, s!"q={showNats s.queue} pushed={showNats s.pushed} stopped={if s.stopped then 1 else 0} revisit={if s.revisit then 1 else 0}")
  | _ => match parseOp toks with
    | some op => let r := step s op; (r.1, showOut r.2)
    | none => (s, "bad-op")

end Hive.C12b.WK
