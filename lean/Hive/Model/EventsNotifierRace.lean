import Hive.Base.Proto
import Hive.Conc.Sys
/-!
# Protocol model of `Listener.Wait` racing `Deregister`, `Notify` and context cancellation (C15)

One listener `L` of one notifier entry (one generation of listeners of one value); `others` further
live listeners share the entry.  Critical sections under the notifier mutex (`Notify`,
`removeListener`) are single steps; `Listener.Deregister` is three steps (atomic `Swap`, closing the
deregistered channel, `removeListener`); `Wait` loads the flag, then `select`s among the channels
that are ready (nondeterministically when several are), and — in the repaired code
(`fixed = true`) — re-checks the flag when the notify channel was chosen.  Any number of concurrent
`Wait` / `Deregister` callers for `L`, deregistrations of the other listeners, `Notify` callers and
a context cancellation may run.

Ghost: `inWindow` is set when a `Notify` closes the channel while `L`'s deregistered flag is still
false, i.e. Notify happened after the listener was created and before it was deregistered.
-/
namespace Hive.NotifierRace
open Hive.Conc

inductive Res
  | ok | dereg | ctx
deriving DecidableEq, Repr

structure Sh where
  flag : Bool        -- L.deregistered
  dchan : Bool       -- L.deregisteredChan is closed
  nchan : Bool       -- the entry's notify channel is closed
  entry : Bool       -- the entry of this generation is still in the notifier's map
  lcounted : Bool    -- L is still counted in entry.count
  others : Nat       -- other live listeners counted in entry.count
  ctxDone : Bool
  inWindow : Bool    -- ghost
deriving DecidableEq, Repr

/-- Program counter inside `Listener.Deregister`. -/
inductive DPc
  | swap | close | remove | fin
deriving DecidableEq, Repr

inductive Th
  | w0                               -- Wait: about to load `deregistered`
  | w1                               -- Wait: at the `select`
  | w2                               -- Wait: notify channel chosen, about to re-check the flag (repaired code)
  | dr (r : Option Res) (pc : DPc)   -- Deregister at `pc`; `some r`: it is the deferred call of a Wait that returns `r`
  | od (done : Bool)                 -- `removeListener` of one of the other listeners
  | nt (done : Bool)                 -- `Notify(value)`
  | cx (done : Bool)                 -- cancellation of the waiter's context
deriving DecidableEq, Repr

/-- `removeListener` for `L` (repaired code: it only ever touches the entry of its own channel). -/
def removeL (s : Sh) : Sh :=
  if s.entry && s.lcounted then
    if s.others == 0 then { s with lcounted := false, entry := false, nchan := true }
    else { s with lcounted := false }
  else s

/-- `removeListener` for one of the other listeners. -/
def removeO (s : Sh) : Sh :=
  if s.entry && decide (0 < s.others) then
    if s.others == 1 && !s.lcounted then { s with others := 0, entry := false, nchan := true }
    else { s with others := s.others - 1 }
  else s

def notify (s : Sh) : Sh :=
  if s.entry then { s with entry := false, nchan := true, inWindow := s.inWindow || !s.flag } else s

def dstep (s : Sh) : DPc → List (Sh × DPc)
  | .swap => if s.flag then [(s, .fin)] else [({ s with flag := true }, .close)]
  | .close => [({ s with dchan := true }, .remove)]
  | .remove => [(removeL s, .fin)]
  | .fin => []

def step (fixed : Bool) (s : Sh) : Th → List (Sh × Th)
  | .w0 => if s.flag then [(s, .dr (some .dereg) .fin)] else [(s, .w1)]
  | .w1 =>
    (if s.nchan then [(s, if fixed then .w2 else .dr (some .ok) .swap)] else []) ++
    (if s.dchan then [(s, .dr (some .dereg) .swap)] else []) ++
    (if s.ctxDone then [(s, .dr (some .ctx) .swap)] else [])
  | .w2 => if s.flag then [(s, .dr (some .dereg) .swap)] else [(s, .dr (some .ok) .swap)]
  | .dr r pc => (dstep s pc).map (fun (s', pc') => (s', .dr r pc'))
  | .od false => [(removeO s, .od true)]
  | .nt false => [(notify s, .nt true)]
  | .cx false => [({ s with ctxDone := true }, .cx true)]
  | .od true => []
  | .nt true => []
  | .cx true => []

def sys (fixed : Bool) : Sys Sh Th := { step := step fixed }

def init (others : Nat) : Sh :=
  { flag := false, dchan := false, nchan := false, entry := true, lcounted := true, others := others,
    ctxDone := false, inWindow := false }

/-- Threads as they are when they are started. -/
def Th.initial : Th → Bool
  | .w0 => true
  | .dr none .swap => true
  | .od false => true
  | .nt false => true
  | .cx false => true
  | _ => false

/-! ## executable schedule evaluation used by the driver on recorded forced schedules -/

/-- Run a thread that has exactly one successor at every step to completion. -/
def runToEnd (fixed : Bool) : Nat → Sh → Th → Sh
  | 0, s, _ => s
  | fuel + 1, s, t =>
    match step fixed s t with
    | (s', t') :: _ => runToEnd fixed fuel s' t'
    | [] => s

inductive Ev
  | dereg | notify | cancel | odereg
deriving DecidableEq, Repr

def Ev.thread : Ev → Th
  | .dereg => .dr none .swap
  | .notify => .nt false
  | .cancel => .cx false
  | .odereg => .od false

/-- The results the model admits for a waiter that is at its `select` in shared state `s`. -/
def results (fixed : Bool) (s : Sh) : List Res :=
  (step fixed s .w1).flatMap fun (s1, t1) =>
    match t1 with
    | .dr (some r) _ => [r]
    | .w2 => (step fixed s1 .w2).filterMap fun (_, t2) =>
        match t2 with
        | .dr (some r) _ => some r
        | _ => none
    | _ => []

/-- The waiter passes its flag check in the initial state, is parked before the `select`, the events
run one after the other, then the waiter is released. -/
def admitted (fixed : Bool) (others : Nat) (evs : List Ev) : List Res :=
  results fixed (evs.foldl (fun s e => runToEnd fixed 4 s e.thread) (init others))

open Hive.Proto

def parseEv : String → Option Ev
  | "dereg" => some .dereg
  | "notify" => some .notify
  | "cancel" => some .cancel
  | "odereg" => some .odereg
  | _ => none

def parseRes : String → Option Res
  | "ok" => some .ok
  | "dereg" => some .dereg
  | "canceled" => some .ctx
  | _ => none

def parseEvs : List String → Option (List Ev × List String)
  | "=>" :: rest => some ([], rest)
  | t :: rest => do
    let e ← parseEv t
    let (es, r) ← parseEvs rest
    pure (e :: es, r)
  | [] => none

/-- `vr o<k> <event>… => <result>` -/
def checkLine (toks : List String) : String :=
  match toks with
  | o :: rest =>
    match (o.drop 1).toNat?, o.startsWith "o", parseEvs rest with
    | some k, true, some (evs, [r]) =>
      match parseRes r with
      | some res => if (admitted true k evs).contains res then "accept" else s!"reject result-not-admitted-by-model"
      | none => "reject unknown-result"
    | _, _, _ => "bad-op"
  | _ => "bad-op"

end Hive.NotifierRace
