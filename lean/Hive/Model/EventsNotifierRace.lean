import Hive.Base.Proto
import Hive.Conc.Sys
/-!
# Protocol model of `Listener.Wait` racing `Deregister`, `Notify` and context cancellation (C15)

One listener `L` of one notifier entry (one generation of listeners of one value) and any number of
other live listeners that share the entry.  The entry carries the code's reference count `count`
(`listener.count`); **every** listener has its own `deregistered` flag.  Critical sections under the
notifier mutex (`Notify`, `removeListener`) are single steps.  `Listener.Deregister` — of `L` and of
every other listener alike — is three steps: the atomic `Swap(true)` (test-and-set: the caller that
finds `false` goes on, everybody else returns), closing the deregistered channel, and
`removeListener`, which decrements the count *unconditionally* (it has no idea who calls it) and
closes the notify channel when the count reaches 0.  That two overlapping `Deregister` calls of one
listener decrement only once is therefore a *consequence* of the atomic swap (counting invariant in
`Proofs/EventsNotifierRace.lean`), not an assumption of the model: the program counters
`sload … sclose` are the variant "check with `Load`, remove, then `Swap`" whose check and removal are
separate steps — `C15_notifier_double_deregister_witness` shows that it breaks the property.

`Wait` loads the flag, then `select`s among the channels that are ready (nondeterministically when
several are), and — in the repaired code (`fixed = true`) — re-checks the flag when the notify
channel was chosen.  Any number of concurrent `Wait` / `Deregister` callers for `L`, `Deregister`
callers of the other listeners, `Notify` callers and a context cancellation may run.

Ghost: `inWindow` is set when a `Notify` closes the channel while `L`'s deregistered flag is still
false, i.e. Notify happened after the listener was created and before it was deregistered.
-/
namespace Hive.NotifierRace
open Hive.Conc

inductive Res
  | ok | dereg | ctx
deriving DecidableEq, Repr

structure Sh where
  flag : Bool          -- L.deregistered
  dchan : Bool         -- L.deregisteredChan is closed
  nchan : Bool         -- the entry's notify channel is closed
  entry : Bool         -- the entry of this generation is still in the notifier's map
  count : Nat          -- entry.count, the code's reference count (meaningful while `entry`)
  oflags : List Bool   -- `deregistered` flags of the other listeners sharing the entry
  ctxDone : Bool
  inWindow : Bool      -- ghost
deriving DecidableEq, Repr

/-- Program counter inside `Listener.Deregister`.  `swap → close → remove → fin` is the code
(`if !l.deregistered.Swap(true) { close(l.deregisteredChan); l.deregister() }`);
`sload → sremove → sswap → sclose → fin` is the variant that checks with a plain `Load`, removes, and
only then swaps (never started by `Th.initial` threads; used by the witness). -/
inductive DPc
  | swap | close | remove | fin
  | sload | sremove | sswap | sclose
deriving DecidableEq, Repr

inductive Th
  | w0                               -- Wait: about to load `deregistered`
  | w1                               -- Wait: at the `select`
  | w2                               -- Wait: notify channel chosen, about to re-check the flag (repaired code)
  | dr (who : Option Nat) (r : Option Res) (pc : DPc)
      -- Deregister of `L` (`who = none`) or of the other listener `j` (`who = some j`) at `pc`;
      -- `r = some x`: it is the deferred call of a Wait (of `L`) that returns `x`
  | nt (done : Bool)                 -- `Notify(value)`
  | cx (done : Bool)                 -- cancellation of the waiter's context
deriving DecidableEq, Repr

/-- The `deregistered` flag of a listener (a listener that does not exist counts as deregistered, so
that a thread for it does nothing). -/
def getFlag (s : Sh) : Option Nat → Bool
  | none => s.flag
  | some j => s.oflags.getD j true

def setFlag (s : Sh) : Option Nat → Sh
  | none => { s with flag := true }
  | some j => { s with oflags := s.oflags.set j true }

/-- `Notifier.removeListener` for a channel of this generation — the same code whoever calls it:
`count--`, and when it reaches 0 the notify channel is closed and the entry deleted. -/
def remove (s : Sh) : Sh :=
  if s.entry then
    if s.count == 1 then { s with count := 0, entry := false, nchan := true }
    else { s with count := s.count - 1 }
  else s

def notify (s : Sh) : Sh :=
  if s.entry then { s with entry := false, nchan := true, inWindow := s.inWindow || !s.flag } else s

/-- closing the listener's own deregistered channel (only `L`'s is observed) -/
def closeD (s : Sh) : Option Nat → Sh
  | none => { s with dchan := true }
  | some _ => s

def dstep (s : Sh) (who : Option Nat) : DPc → List (Sh × DPc)
  | .swap => if getFlag s who then [(s, .fin)] else [(setFlag s who, .close)]
  | .close => [(closeD s who, .remove)]
  | .remove => [(remove s, .fin)]
  | .fin => []
  | .sload => if getFlag s who then [(s, .fin)] else [(s, .sremove)]
  | .sremove => [(remove s, .sswap)]
  | .sswap => if getFlag s who then [(s, .fin)] else [(setFlag s who, .sclose)]
  | .sclose => [(closeD s who, .fin)]

def step (fixed : Bool) (s : Sh) : Th → List (Sh × Th)
  | .w0 => if s.flag then [(s, .dr none (some .dereg) .fin)] else [(s, .w1)]
  | .w1 =>
    (if s.nchan then [(s, if fixed then .w2 else .dr none (some .ok) .swap)] else []) ++
    (if s.dchan then [(s, .dr none (some .dereg) .swap)] else []) ++
    (if s.ctxDone then [(s, .dr none (some .ctx) .swap)] else [])
  | .w2 => if s.flag then [(s, .dr none (some .dereg) .swap)] else [(s, .dr none (some .ok) .swap)]
  | .dr who r pc => (dstep s who pc).map (fun (s', pc') => (s', .dr who r pc'))
  | .nt false => [(notify s, .nt true)]
  | .cx false => [({ s with ctxDone := true }, .cx true)]
  | .nt true => []
  | .cx true => []

def sys (fixed : Bool) : Sys Sh Th := { step := step fixed }

def init (others : Nat) : Sh :=
  { flag := false, dchan := false, nchan := false, entry := true, count := others + 1,
    oflags := List.replicate others false, ctxDone := false, inWindow := false }

/-- Threads as they are when they are started. -/
def Th.initial : Th → Bool
  | .w0 => true
  | .dr _ none .swap => true
  | .nt false => true
  | .cx false => true
  | _ => false

/-! ## executable schedule evaluation used by the driver on recorded forced schedules -/

/-- Run a thread that has exactly one successor at every step to completion. -/
def runToEnd (fixed : Bool) : Nat → Sh → Th → Sh
  | 0, s, _ => s
  | fuel + 1, s, t =>
    match step fixed s t with
    | (s', t') :: _ => runToEnd fixed fuel s' t'
    | [] => s

inductive Ev
  | dereg | notify | cancel | odereg
deriving DecidableEq, Repr

/-- The thread an event starts; `k` = number of `odereg` events so far (the other listeners
deregister in creation order, each once). -/
def Ev.thread (k : Nat) : Ev → Th
  | .dereg => .dr none none .swap
  | .notify => .nt false
  | .cancel => .cx false
  | .odereg => .dr (some k) none .swap

/-- The results the model admits for a waiter that is at its `select` in shared state `s`. -/
def results (fixed : Bool) (s : Sh) : List Res :=
  (step fixed s .w1).flatMap fun (s1, t1) =>
    match t1 with
    | .dr none (some r) _ => [r]
    | .w2 => (step fixed s1 .w2).filterMap fun (_, t2) =>
        match t2 with
        | .dr none (some r) _ => some r
        | _ => none
    | _ => []

/-- The waiter passes its flag check in the initial state, is parked before the `select`, the events
run one after the other, then the waiter is released. -/
def admitted (fixed : Bool) (others : Nat) (evs : List Ev) : List Res :=
  results fixed (evs.foldl (fun (s, k) e => (runToEnd fixed 4 s (e.thread k), if e = .odereg then k + 1 else k))
    (init others, 0)).1

open Hive.Proto

def parseEv : String → Option Ev
  | "dereg" => some .dereg
  | "notify" => some .notify
  | "cancel" => some .cancel
  | "odereg" => some .odereg
  | _ => none

def parseRes : String → Option Res
  | "ok" => some .ok
  | "dereg" => some .dereg
  | "canceled" => some .ctx
  | _ => none

def parseEvs : List String → Option (List Ev × List String)
  | "=>" :: rest => some ([], rest)
  | t :: rest => do
    let e ← parseEv t
    let (es, r) ← parseEvs rest
    pure (e :: es, r)
  | [] => none

/-- `vr o<k> <event>… => <result>` -/
def checkLine (toks : List String) : String :=
  match toks with
  | o :: rest =>
    match (o.drop 1).toNat?, o.startsWith "o", parseEvs rest with
    | some k, true, some (evs, [r]) =>
      match parseRes r with
      | some res => if (admitted true k evs).contains res then "accept" else s!"reject result-not-admitted-by-model"
      | none => "reject unknown-result"
    | _, _, _ => "bad-op"
  | _ => "bad-op"

end Hive.NotifierRace
