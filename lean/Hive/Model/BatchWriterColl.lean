import Hive.Model.BatchWriter
/-!
# A small imperative language for kvstore/batch_collector.go and its interpreter (C08)

`harness/c08/collgen` translates `newBatchCollector`, `BatchCollector.Add` and `BatchCollector.Commit` (go/ast) into
terms of `S` on every run (`Hive/Gen/C08_Coll.lean`), together with the list of all methods declared on
`BatchCollector`.  This file gives those terms their meaning; `Hive/Props/BatchWriterColl.lean` proves that the
interpreted functions do exactly what the hand-written protocol model's collector steps do (`stepWriter` at
`.addReset`, `.addDec`, `.addWrite`, `.commit`, `.doneLoop`) — so this part of the model is *derived* from the source
text the check runs on, including what the protocol model abstracts: the collector keeps a slice **and** a counter
(`writtenValues`, `writtenValuesCounter`); the model keeps one list (`batch`).  They agree because every method
preserves `writtenValuesCounter = len(writtenValues)` (`Coll.Inv`), which is a theorem about the translated code.

Effects are what the collector does to the outside, in order: calls on the object (`reset`, `write`, `done`), on the
writer's counter (`count n` = `scheduledCount.Add(n)`), on the batched mutations (`cancel`, `commit` / `commitFail`),
`panic`, and `oob` (an index outside `writtenValues`: a run-time panic).  Core Lean only.
-/
namespace Hive.BatchWriter.Coll

inductive E
  | counter | batchSize | len
  | param                                   -- the `batchSize` parameter of `newBatchCollector`
  | lit (n : Int)
  | max (a b : E)
  | unsupported (text : String)
deriving Repr

inductive C
  | committed | errNotNil
  | not (c : C)
  | ge (a b : E) | gt (a b : E) | le (a b : E) | lt (a b : E) | eq (a b : E) | ne (a b : E)
  | unsupported (text : String)
deriving Repr

inductive S
  | panic
  | reset                                   -- objectToPersist.ResetBatchWriteScheduled()
  | countAdd (e : E)                        -- br.scheduledCount.Add(e)
  | write                                   -- objectToPersist.BatchWrite(br.batchedMuts)
  | append                                  -- br.writtenValues = append(br.writtenValues, objectToPersist)
  | truncate                                -- br.writtenValues = br.writtenValues[:0]
  | incCounter                              -- br.writtenValuesCounter++
  | setCounter (e : E)
  | setBatchSize (e : E)
  | setCommitted (b : Bool)
  | makeVals (len cap : E)                  -- writtenValues: make([]BatchWriteObject, len, cap)
  | cancel                                  -- br.batchedMuts.Cancel()
  | commit                                  -- err := br.batchedMuts.Commit()
  | doneRange (bound : E)                   -- for i := range bound { br.writtenValues[i].BatchWriteDone() }
  | ite (pre : List S) (c : C) (thn els : List S)
  | retB (c : C) | retNil | retErr
  | unsupported (text : String)

inductive Eff
  | reset (o : Nat) | count (n : Int) | write (o : Nat) | done (o : Nat)
  | cancel | commit | commitFail | panic | oob | stuck
deriving DecidableEq, Repr

inductive Ret
  | none | bool (b : Bool) | nilErr | err | panicked
deriving DecidableEq, Repr

/-- the collector: `writtenValues` (`none` = a slot of a `make` with positive length: a nil interface),
`writtenValuesCounter`, `batchSize`, `committed`, and the error of the last store call -/
structure Coll where
  vals : List (Option Nat) := []
  counter : Int := 0
  bsize : Int := 0
  committed : Bool := false
  err : Bool := false
deriving DecidableEq, Repr

def evalE (c : Coll) (param : Int) : E → Option Int
  | .counter => some c.counter
  | .batchSize => some c.bsize
  | .param => some param
  | .len => some c.vals.length
  | .lit n => some n
  | .max a b => do pure (Max.max (← evalE c param a) (← evalE c param b))
  | .unsupported _ => none

def evalC (c : Coll) (param : Int) : C → Option Bool
  | .committed => some c.committed
  | .errNotNil => some c.err
  | .not x => do pure (!(← evalC c param x))
  | .ge a b => do pure (decide ((← evalE c param a) ≥ (← evalE c param b)))
  | .gt a b => do pure (decide ((← evalE c param a) > (← evalE c param b)))
  | .le a b => do pure (decide ((← evalE c param a) ≤ (← evalE c param b)))
  | .lt a b => do pure (decide ((← evalE c param a) < (← evalE c param b)))
  | .eq a b => do pure (decide ((← evalE c param a) = (← evalE c param b)))
  | .ne a b => do pure (decide ((← evalE c param a) ≠ (← evalE c param b)))
  | .unsupported _ => none

/-- machine: collector, effects so far (oldest first), result once the function has returned -/
structure M where
  c : Coll
  eff : List Eff := []
  ret : Ret := .none
deriving DecidableEq, Repr

def M.stuck (m : M) : M := { m with eff := m.eff ++ [.stuck], ret := .panicked }

/-- the Dones of `for i := range n { br.writtenValues[i].BatchWriteDone() }` -/
def doneEffs (vals : List (Option Nat)) : Nat → Nat → List Eff × Bool
  | _, 0 => ([], true)
  | i, k + 1 =>
    match vals[i]? with
    | some (some o) => let r := doneEffs vals (i + 1) k; (.done o :: r.1, r.2)
    | _ => ([.oob], false)      -- index out of range, or a nil interface: a run-time panic

mutual
/-- `obj`: the object parameter of `Add`; `param`: the `batchSize` parameter of `newBatchCollector`; `fails`: the
store's `Commit()` returns an error. -/
def exec (obj : Nat) (param : Int) (fails : Bool) (m : M) : S → M
  | .panic => { m with eff := m.eff ++ [.panic], ret := .panicked }
  | .reset => { m with eff := m.eff ++ [.reset obj] }
  | .countAdd e =>
    match evalE m.c param e with
    | some n => { m with eff := m.eff ++ [.count n] }
    | none => m.stuck
  | .write => { m with eff := m.eff ++ [.write obj] }
  | .append => { m with c := { m.c with vals := m.c.vals ++ [some obj] } }
  | .truncate => { m with c := { m.c with vals := [] } }
  | .incCounter => { m with c := { m.c with counter := m.c.counter + 1 } }
  | .setCounter e =>
    match evalE m.c param e with
    | some n => { m with c := { m.c with counter := n } }
    | none => m.stuck
  | .setBatchSize e =>
    match evalE m.c param e with
    | some n => { m with c := { m.c with bsize := n } }
    | none => m.stuck
  | .setCommitted b => { m with c := { m.c with committed := b } }
  | .makeVals l cp =>
    match evalE m.c param l, evalE m.c param cp with
    | some n, some k =>
      if 0 ≤ n ∧ n ≤ k then { m with c := { m.c with vals := List.replicate n.toNat none } }
      else { m with eff := m.eff ++ [.panic], ret := .panicked }   -- makeslice: len / cap out of range
    | _, _ => m.stuck
  | .cancel => { m with eff := m.eff ++ [.cancel] }
  | .commit =>
    if fails then { m with eff := m.eff ++ [.commitFail], c := { m.c with err := true } }
    else { m with eff := m.eff ++ [.commit], c := { m.c with err := false } }
  | .doneRange e =>
    match evalE m.c param e with
    | some n =>
      let r := doneEffs m.c.vals 0 n.toNat
      if r.2 then { m with eff := m.eff ++ r.1 } else { m with eff := m.eff ++ r.1, ret := .panicked }
    | none => m.stuck
  | .ite pre c thn els =>
    let m1 := execL obj param fails m pre
    if m1.ret ≠ .none then m1
    else
      match evalC m1.c param c with
      | some true => execL obj param fails m1 thn
      | some false => execL obj param fails m1 els
      | none => m1.stuck
  | .retB c =>
    match evalC m.c param c with
    | some b => { m with ret := .bool b }
    | none => m.stuck
  | .retNil => { m with ret := .nilErr }
  | .retErr => { m with ret := .err }
  | .unsupported _ => m.stuck

def execL (obj : Nat) (param : Int) (fails : Bool) (m : M) : List S → M
  | [] => m
  | s :: rest =>
    let m1 := exec obj param fails m s
    if m1.ret ≠ .none then m1 else execL obj param fails m1 rest
end

/-- run a translated function on a collector -/
def run (fn : List S) (c : Coll) (obj : Nat := 0) (param : Int := 0) (fails : Bool := false) : M :=
  execL obj param fails { c := c } fn

/-- the representation invariant every method has to preserve: the counter is the length of the slice, and every slot
holds an object -/
def Inv (c : Coll) : Prop := c.counter = c.vals.length ∧ ∀ v ∈ c.vals, v ≠ none

end Hive.BatchWriter.Coll
