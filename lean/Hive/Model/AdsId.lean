import Hive.Model.Ads
/-!
# The identifier serializers of `ads.Map` / `ads.Set` (C09): where the code goes through them, where it uses the raw root

`newAuthenticatedMap(store, identifierToBytes, bytesToIdentifier, …)` uses the identifier serializer pair in
exactly one component: the root cell `root : *kvstore.TypedValue[IdentifierType]` (key `{prefixRootKey}`).

* `Commit`: `m.root.Set(IdentifierType(m.tree.Root()))` — `TypedValue.Set` **encodes** (`identifierToBytes`); when
  that fails it returns before anything is written or cached, and `Commit` returns "failed to set root" **before**
  `tree.Commit()`: a failed `Commit` changes nothing.
* the constructor: `root, err := newMap.root.Get()` — `TypedValue.Get` reads the cell and **decodes**
  (`bytesToIdentifier`).  `err == nil` ⇒ `smt.ImportSparseMerkleTrie(adapter, sha256.New(), root[:], …)`: the trie
  is imported from the **raw 32 bytes of the decoded identifier** (`root[:]`), *not* from its stored form.
  Otherwise (cell absent **or** the decoder fails) a new empty trie is created over the same node store.
* `WasRestoredFromStorage`: `_, err := m.root.Get(); !Is(err, ErrKeyNotFound)` — true whenever the cell is
  present, also when it does not decode.

`B` is the type of what the cell stores (bytes in the code); `R` the identifier (the digest: `IdentifierType(x)` and
`x[:]` are casts).  The node store answers for the digest under which it was flushed; importing from any other
digest gives a trie whose root node cannot be resolved (`dangling`): `Root()` reports that digest (the root is
lazy), every access below it fails ("key not found" from the node store).  What such a trie does further is not
modelled (answer `errTree`, state unchanged): `C09_id_*` show it is unreachable for serializer pairs that
round-trip — whatever their stored form is — and `C09_id_import_through_codec_witness` that it is reached at
once when the stored form is handed to the import instead of the raw root.
-/
namespace Hive.Ads

/-- The identifier serializer pair handed to the constructor. -/
structure IdCodec (R B : Type) where
  /-- `identifierToBytes` (`none`: it returns an error) -/
  enc : R → Option B
  /-- `bytesToIdentifier` (`none`: it returns an error) -/
  dec : B → Option R

/-- An instance together with its root cell as stored. -/
structure ISt (R B : Type) where
  /-- the sequential state; `s.rootKey` is here the digest under which the node store was flushed last
  (`none`: never) — in the code this is not a variable, it is what the records in the node store hang below -/
  s : St R
  /-- key 2: what the last successful `root.Set` wrote -/
  cell : Option B
  /-- the trie was imported from this digest, under which the node store holds nothing -/
  dangling : Option R

def ISt.init {R B : Type} : ISt R B := { s := Hive.Ads.init, cell := none, dangling := none }

inductive IOut (R : Type)
  | out (o : Out R)
  /-- `Commit`: "failed to set root" -/
  | errSetRoot

/-- One call.  `same` decides equality of digests (`bytes.Equal`); `dg` is the digest the constructor hands
to `ImportSparseMerkleTrie` for the decoded identifier `x` — in the code `root[:]`, i.e. `id`. -/
def istepG {R B : Type} (c : Cfg R) (ic : IdCodec R B) (same : R → R → Bool) (dg : R → R)
    (st : ISt R B) (op : Op) : ISt R B × IOut R :=
  match op with
  | .reopen =>
    match st.cell.bind ic.dec with
    | none =>
      -- `root.Get()` failed (cell absent, or present and not decodable): `smt.NewSparseMerkleTrie`
      ({ st with s := { st.s with trie := Trie.fresh st.s.trie.disk }, dangling := none }, .out .ok)
    | some x =>
      match st.s.rootKey with
      | some r =>
        if same (dg x) r then
          ({ st with s := { st.s with trie := Trie.imported st.s.trie.disk }, dangling := none }, .out .ok)
        else ({ st with s := { st.s with trie := Trie.fresh st.s.trie.disk }, dangling := some (dg x) }, .out .ok)
      | none => ({ st with s := { st.s with trie := Trie.fresh st.s.trie.disk }, dangling := some (dg x) }, .out .ok)
  | .restored => (st, .out (.restored st.cell.isSome))
  | .size => (st, .out (.size (sizeOf st.s)))
  | op =>
    match st.dangling with
    | some x =>
      match op with
      | .root => (st, .out (.root x))
      | _ => (st, .out .errTree)
    | none =>
      match op with
      | .commit =>
        match ic.enc (c.rootOf st.s.trie.fn) with
        | none => (st, .errSetRoot)
        | some b => ({ st with s := (step c st.s .commit).1, cell := some b }, .out .ok)
      | op =>
        let (s', o) := step c st.s op
        ({ st with s := s' }, .out o)

/-- The code: the import receives the raw decoded identifier. -/
def istep {R B : Type} (c : Cfg R) (ic : IdCodec R B) (same : R → R → Bool) : ISt R B → Op → ISt R B × IOut R :=
  istepG c ic same id

def irunG {R B : Type} (c : Cfg R) (ic : IdCodec R B) (same : R → R → Bool) (dg : R → R)
    (st : ISt R B) : List Op → ISt R B × List (IOut R)
  | [] => (st, [])
  | op :: ops =>
    let (st', o) := istepG c ic same dg st op
    let (st'', os) := irunG c ic same dg st' ops
    (st'', o :: os)

/-- Did this call write the root cell (a `Commit` whose `root.Set` succeeded)? -/
def commitsOk {R B : Type} (c : Cfg R) (ic : IdCodec R B) (st : ISt R B) (op : Op) : Bool :=
  match op with
  | .commit => st.dangling.isNone && (ic.enc (c.rootOf st.s.trie.fn)).isSome
  | _ => false

/-- Some call of the history wrote the root cell. -/
def anyCommitOk {R B : Type} (c : Cfg R) (ic : IdCodec R B) (same : R → R → Bool) (dg : R → R)
    (st : ISt R B) : List Op → Bool
  | [] => false
  | op :: ops => commitsOk c ic st op || anyCommitOk c ic same dg (istepG c ic same dg st op).1 ops

/-- The history without the `Commit`s whose `root.Set` failed. -/
def dropFailed {R B : Type} (c : Cfg R) (ic : IdCodec R B) (same : R → R → Bool)
    (st : ISt R B) : List Op → List Op
  | [] => []
  | op :: ops =>
    let rest := dropFailed c ic same (istep c ic same st op).1 ops
    match op with
    | .commit => if commitsOk c ic st op then op :: rest else rest
    | op => op :: rest

end Hive.Ads
