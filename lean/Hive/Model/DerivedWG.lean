import Hive.Model.DerivedCounter
import Hive.Conc.Sys
/-!
# Protocol model of `reactive.WaitGroup` under concurrency (ds/reactive/wait_group_impl.go)

Any number of goroutines call `Add(elements…)` and `Done(elements…)`.  The pending set is a reactive
set whose `Add`/`Delete` are atomic (its own mutex); the counter is an atomic integer; `Trigger` is a
separate step after the decrement that saw 0.

`fixed = true` is the repaired `Add` (the correction of a duplicate also triggers when it brings the
counter to 0); `fixed = false` is the code as it was, kept for the witness.
-/
namespace Hive.Derived
open Hive.Conc

structure WGS where
  pending : List Nat
  counter : Int
  trig : Bool
  decs : Nat        -- ghost: decrements of the counter
  dones : Nat       -- ghost: successful deletions by `Done`
  early : Bool      -- ghost: some decrement produced 0 while elements were still pending
deriving Repr, DecidableEq

inductive WGT
  | addStart (els : List Nat)     -- `Add(els…)` called, counter not yet pre-incremented
  | addLoop (els : List Nat)      -- about to insert the head of `els`
  | addFix (els : List Nat)       -- the insertion found a duplicate; about to correct the counter
  | addTrig (els : List Nat)      -- the correction produced 0; about to `Trigger`
  | doneLoop (els : List Nat)     -- about to delete the head of `els`
  | doneDec (els : List Nat)      -- the deletion succeeded; about to decrement
  | doneTrig (els : List Nat)     -- the decrement produced 0; about to `Trigger`
  | fin
deriving Repr, DecidableEq

def wgStep (fixed : Bool) (s : WGS) : WGT → List (WGS × WGT)
  | .addStart els => [({ s with counter := s.counter + els.length }, .addLoop els)]
  | .addLoop [] => [(s, .fin)]
  | .addLoop (x :: els) =>
    if s.pending.contains x then [(s, .addFix els)]
    else [({ s with pending := s.pending ++ [x] }, .addLoop els)]
  | .addFix els =>
    let s' := { s with counter := s.counter - 1, decs := s.decs + 1,
                       early := s.early || (s.counter - 1 == 0 && !s.pending.isEmpty) }
    if fixed && s'.counter == 0 then [(s', .addTrig els)] else [(s', .addLoop els)]
  | .addTrig els => [({ s with trig := true }, .addLoop els)]
  | .doneLoop [] => [(s, .fin)]
  | .doneLoop (x :: els) =>
    if s.pending.contains x then [({ s with pending := s.pending.erase x, dones := s.dones + 1 }, .doneDec els)]
    else [(s, .doneLoop els)]
  | .doneDec els =>
    let s' := { s with counter := s.counter - 1, decs := s.decs + 1,
                       early := s.early || (s.counter - 1 == 0 && !s.pending.isEmpty) }
    if s'.counter == 0 then [(s', .doneTrig els)] else [(s', .doneLoop els)]
  | .doneTrig els => [({ s with trig := true }, .doneLoop els)]
  | .fin => []

def wgSys (fixed : Bool) : Sys WGS WGT := { step := wgStep fixed }

def WGS.init : WGS := { pending := [], counter := 0, trig := false, decs := 0, dones := 0, early := false }

/-- Initial thread states: calls not yet started. -/
def WGT.isStart : WGT → Bool
  | .addStart _ => true
  | .doneLoop _ => true
  | .fin => true
  | _ => false

/-- The schedule of the duplicate-`Add` / `Done` race (thread 0: `Add(x)` of a pending `x`, thread 1:
`Done(x)`): pre-increment, find the duplicate, *then* the other goroutine deletes and decrements
(sees 1), then the correction (sees 0). -/
def wgRaceSched : List (Nat × Nat) := [(0, 0), (0, 0), (1, 0), (1, 0), (1, 0), (0, 0), (0, 0), (0, 0), (0, 0)]

def wgRaceInit (x : Nat) : Cfg WGS WGT :=
  ({ pending := [x], counter := 1, trig := false, decs := 0, dones := 0, early := false },
    [.addStart [x], .doneLoop [x]])

end Hive.Derived
