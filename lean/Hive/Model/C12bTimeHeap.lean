import Hive.Model.C12bBase
/-!
# Model of `timeheap.TimeHeap` (ds/timeheap/timeheap.go, with the repaired `Clear`)

Data layout: `heap` — a slice used through `container/heap` (binary min-heap on the timestamp,
`up`/`down` exactly as in the Go standard library) — and the running `total`.

Time is an explicit abstract clock: `now` counts whole units, `tick d` advances it, `Add` stamps
the entry with `now`.  A window is given in *half units* `h`: `AveragePerSecond(h half-units)`
keeps an entry iff `time.Since(ts) < window`, i.e. iff `2 * (now - ts) < h` (the real time that
passes inside a call is far below half a unit — the harness uses a unit of 4096 s).

```
Add(c):    heap.Push(entry{now, c}); total += c
Clear():   for len > 0 { raw Pop }; total = 0           -- `total = 0` is the repair
Avg(h):    n := len; repeat n times { o := heap.Pop(); if since(o) < h { heap.Push(o); break }; total -= o.count }
           return float32(total) / float32(h.Seconds())
```
The float result is `total / seconds`; the harness recovers `total` from it exactly (window lengths
are small multiples of 2048 s, totals far below 2^24); a zero window yields `NaN` for total 0 and
`+Inf` otherwise; for totals of 2^22 and more (not recoverable from the float32 quotient with certainty) the harness reads the field
`total` itself and checks the float against its own oracle.  `total` is a `uint64`: `+=` and `-=`
wrap around modulo 2^64 (`wadd` / `wsub`), counts are `uint64` values (an `add c` request stores
`c mod 2^64`).  A negative window (`avg -k`) holds nothing: it behaves as the empty window except
that the quotient is `-0` instead of `NaN` (`stepLine`).
-/
namespace Hive.C12b.TH

structure Entry where
  ts : Nat
  count : Nat
deriving Repr, DecidableEq

/-! ## `container/heap` over a slice -/

def less (a : List Entry) (i j : Nat) : Bool :=
  match a[i]?, a[j]? with
  | some x, some y => decide (x.ts < y.ts)
  | _, _ => false

def swap (a : List Entry) (i j : Nat) : List Entry :=
  match a[i]?, a[j]? with
  | some x, some y => (a.set i y).set j x
  | _, _ => a

/-- `heap.up`: `for { i := (j-1)/2; if i == j || !Less(j,i) { break }; Swap(i,j); j = i }` -/
def up (a : List Entry) (j : Nat) : List Entry :=
  if (j - 1) / 2 = j ∨ less a j ((j - 1) / 2) = false then a
  else up (swap a ((j - 1) / 2) j) ((j - 1) / 2)
termination_by j
decreasing_by omega

/-- The smaller child of `i` among the first `n` slots (`j` in `heap.down`). -/
def child (a : List Entry) (i n : Nat) : Nat :=
  if 2 * i + 2 < n ∧ less a (2 * i + 2) (2 * i + 1) = true then 2 * i + 2 else 2 * i + 1

theorem child_gt (a : List Entry) (i n : Nat) : i < child a i n := by
  unfold child; split <;> omega

theorem child_lt (a : List Entry) (i n : Nat) (h : 2 * i + 1 < n) : child a i n < n := by
  unfold child; split <;> omega

/-- `heap.down(i, n)`:
`for { j1 := 2i+1; if j1 >= n { break }; j := smaller child; if !Less(j,i) { break }; Swap(i,j); i = j }` -/
def down (a : List Entry) (i n : Nat) : List Entry :=
  if _h : n ≤ 2 * i + 1 then a
  else if less a (child a i n) i = false then a
  else down (swap a i (child a i n)) (child a i n) n
termination_by n - i
decreasing_by
  have h1 := child_gt a i n
  have h2 := child_lt a i n (by omega)
  omega

/-- `heap.Push` -/
def heapPush (a : List Entry) (e : Entry) : List Entry := up (a ++ [e]) a.length

/-- `heap.Pop` (`none` stands for the panic on an empty heap, unreachable from the methods). -/
def heapPop (a : List Entry) : Option (Entry × List Entry) :=
  match a with
  | [] => none
  | _ :: _ =>
    let n := a.length - 1
    let b := down (swap a 0 n) 0 n
    match b[n]? with
    | some e => some (e, b.take n)
    | none => none

/-! ## the container -/

structure St where
  now : Nat
  heap : List Entry
  total : Nat
deriving Repr

def init : St := { now := 0, heap := [], total := 0 }

inductive Op
  | tick (d : Nat)
  | add (c : Nat)
  | clear
  | avg (h : Nat)
deriving Repr, DecidableEq

inductive Out
  | ok
  | total (n : Nat) (h : Nat)
deriving Repr, DecidableEq

def inWindow (now h : Nat) (e : Entry) : Bool := decide (2 * (now - e.ts) < h)

/-- 2^64: `total` and `count` are `uint64`. -/
def W : Nat := 18446744073709551616

/-- `uint64` addition. -/
def wadd (a b : Nat) : Nat := (a + b) % W

/-- `uint64` subtraction. -/
def wsub (a b : Nat) : Nat := (a + W - b % W) % W

/-- The loop of `AveragePerSecond` (`fuel` = the heap length at entry). -/
def expire (now h : Nat) : Nat → List Entry → Nat → List Entry × Nat
  | 0, a, total => (a, total)
  | k + 1, a, total =>
    match heapPop a with
    | none => (a, total)
    | some (e, a') =>
      if inWindow now h e then (heapPush a' e, total)
      else expire now h k a' (wsub total e.count)

def step (s : St) : Op → St × Out
  | .tick d => ({ s with now := s.now + d }, .ok)
  | .add c => ({ s with heap := heapPush s.heap { ts := s.now, count := c % W }, total := wadd s.total (c % W) }, .ok)
  | .clear => ({ s with heap := [], total := 0 }, .ok)
  | .avg h =>
    let r := expire s.now h s.heap.length s.heap s.total
    ({ s with heap := r.1, total := r.2 }, .total r.2 h)

def run (s : St) : List Op → St × List Out
  | [] => (s, [])
  | op :: ops =>
    let r := step s op
    let rs := run r.1 ops
    (rs.1, r.2 :: rs.2)

def final (s : St) (ops : List Op) : St := ops.foldl (fun s op => (step s op).1) s

/-- The unrepaired `Clear` left `total` untouched. -/
def clearOld (s : St) : St := { s with heap := [] }

/-! ## abstract specification: the entries added, not cleared and not yet outside a queried window -/

structure Spec where
  now : Nat
  live : List Entry     -- oldest first
deriving Repr

def counts (l : List Entry) : Nat := (l.map (·.count)).sum

def specStep (s : Spec) : Op → Spec × Out
  | .tick d => ({ s with now := s.now + d }, .ok)
  | .add c => ({ s with live := s.live ++ [{ ts := s.now, count := c % W }] }, .ok)
  | .clear => ({ s with live := [] }, .ok)
  | .avg h =>
    let l := s.live.filter (inWindow s.now h)
    ({ s with live := l }, .total (counts l % W) h)

def specRun (s : Spec) : List Op → Spec × List Out
  | [] => (s, [])
  | op :: ops =>
    let r := specStep s op
    let rs := specRun r.1 ops
    (rs.1, r.2 :: rs.2)

def specInit : Spec := { now := 0, live := [] }

/-! ## the returned `float32`

`AveragePerSecond` returns `float32(total) / float32(timeBefore.Seconds())`.  For the shift-clock windows of
the tie the divisor is the exact integer `2048·h`, so the result is determined by two IEEE-754 binary32
roundings (round to nearest, ties to even): of the `uint64` total, and of the quotient. -/

/-- Round-half-even of `N / D` (IEEE "round to nearest, ties to even" at a fixed exponent). -/
def roundDiv (N D : Nat) : Nat :=
  let q := N / D
  let r := N % D
  if 2 * r > D ∨ (2 * r = D ∧ q % 2 = 1) then q + 1 else q

/-- `n / d` scaled by `2^-e`, as a fraction of naturals. -/
def f32Scale (n d : Nat) (e : Int) : Nat × Nat :=
  if e ≥ 0 then (n, d * 2 ^ e.toNat) else (n * 2 ^ (-e).toNat, d)

/-- The integer part of `(n / d) / 2^e`. -/
def f32Q (n d : Nat) (e : Int) : Nat := (f32Scale n d e).1 / (f32Scale n d e).2

/-- binary32 image of the positive rational `n / d` (normal range): `(m, e)` with value `m · 2^e` and
`2^23 ≤ m < 2^24`; `(0, 0)` for zero.  The exponent is chosen from the bit lengths of `n` and `d` and corrected
by one if needed; the mantissa is the round-half-even quotient at that exponent. -/
def f32OfRat (n d : Nat) : Nat × Int :=
  if n = 0 ∨ d = 0 then (0, 0) else
  let e0 : Int := (Nat.log2 n : Int) - (Nat.log2 d : Int) - 23
  let e1 : Int := if f32Q n d e0 ≥ 2 ^ 24 then e0 + 1 else if f32Q n d e0 < 2 ^ 23 then e0 - 1 else e0
  let p := f32Scale n d e1
  let q' := roundDiv p.1 p.2
  if q' = 2 ^ 24 then (2 ^ 23, e1 + 1) else (q', e1)

/-- `float32(total) / float32(secs)` for an integer `secs` that is exact in binary32. -/
def f32Avg (total secs : Nat) : Nat × Int :=
  let t := f32OfRat total 1
  if t.2 ≥ 0 then f32OfRat (t.1 * 2 ^ t.2.toNat) secs else f32OfRat t.1 (secs * 2 ^ (-t.2).toNat)

def showF32 (x : Nat × Int) : String := s!"f{x.1}e{x.2}"

-- 1/3 = 0x3eaaaaab, 0.1 = 0x3dcccccd, 5/2048 exact, 2^64-1 rounds up to 2^64, a tie rounds to even
example : f32OfRat 1 3 = (11184811, -25) ∧ f32OfRat 1 10 = (13421773, -27) ∧ f32Avg 5 2048 = (10485760, -32) ∧
    f32OfRat 18446744073709551615 1 = (8388608, 41) ∧ f32OfRat 16777217 1 = (8388608, 1) ∧
    f32OfRat 16777219 1 = (8388610, 1) := by decide

/-! ## line protocol -/

def showOut : Out → String
  | .ok => "ok"
  | .total n h => if h = 0 then (if n = 0 then "nan" else "inf") else toString n

def parseOp : List String → Option Op
  | ["tick", d] => d.toNat?.map .tick
  | ["add", c] => c.toNat?.map .add
  | ["clear"] => some .clear
  | ["avg", h] => h.toNat?.map .avg
  | _ => none

/-- The whole state in canonical form: the running total and the heap as `age:count` pairs sorted
by age, then count (the array order depends on ties between timestamps of one tick, which the real
clock breaks; the multiset does not). -/
def showState (s : St) : String :=
  let l := sortBy (fun p => p.1 * W + p.2) (s.heap.map (fun e => (s.now - e.ts, e.count)))
  s!"total={s.total} heap=[" ++ " ".intercalate (l.map (fun p => s!"{p.1}:{p.2}")) ++ "]"

def stepLine (s : St) (toks : List String) : St × String :=
  match toks with
  | "new" :: _ => (init, "ok")
  | ["state"] => (s, showState s)
  | ["avg", h] =>
    if h.startsWith "-" then
      -- a negative window: everything expires as for the empty window; the answer is the running total
      match (h.drop 1).toNat? with
      | some _ => let r := step s (.avg 0); (r.1, match r.2 with | .total n _ => toString n | .ok => "ok")
      | none => (s, "bad-op")
    else match h.toNat? with
      | some h => let r := step s (.avg h); (r.1, showOut r.2)
      | none => (s, "bad-op")
  | ["avgf", h] =>   -- a positive shift-clock window of `h` half-units = `2048·h` s: the total and the returned float32
    match h.toNat? with
    | some h =>
      let r := step s (.avg h)
      (r.1, match r.2 with | .total n _ => s!"{n} {showF32 (f32Avg n (2048 * h))}" | .ok => "ok")
    | none => (s, "bad-op")
  | _ => match parseOp toks with
    | some op => let r := step s op; (r.1, showOut r.2)
    | none => (s, "bad-op")

end Hive.C12b.TH
