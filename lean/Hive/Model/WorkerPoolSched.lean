import Hive.Model.WorkerPool
import Hive.Gen.C16_Skel
/-!
# Named schedules of the WorkerPool model (C16)

Schedules are written as readable moves (`cl i` = client thread `i`, `disp` = the dispatcher,
`wk k j` = worker `k`'s `j`-th enabled alternative) and translated to the `(thread, successor)` index
pairs that `Hive.Conc.runSched` executes.  The driver replays them for the `sched` requests; the
`_witness` theorems of `Hive/Props/C16.lean` are about the resulting literal index lists.
-/
namespace Hive.WP
open Hive.Conc

inductive Mv
  | cl (i : Nat) | disp (j : Nat := 0) | wk (k : Nat) (j : Nat := 0)
deriving Repr

/-- Index of the move among the successors of its thread (the runner is the last thread). -/
def mvIndex (p : Params) (c : Cfg St Thr) : Mv → Nat × Nat
  | .cl i => (i, 0)
  | .disp j => (c.2.length - 1, j)
  | .wk k j =>
    (c.2.length - 1,
     (dispStep p c.1).length +
       ((List.range k).map (fun i => match c.1.workers[i]? with
          | some w => (wStep p c.1 w).length
          | none => 0)).sum + j)

def schedOf (p : Params) : Cfg St Thr → List Mv → List (Nat × Nat)
  | _, [] => []
  | c, m :: ms => mvIndex p c m :: schedOf p (runSched (sys p) c [mvIndex p c m]) ms

def stuckB (p : Params) (c : Cfg St Thr) : Bool := c.2.all (fun t => ((sys p).step c.1 t).isEmpty)

def countPhase (s : St) (f : Phase → Bool) : Nat := s.tasks.countP (fun x => f x.phase)

/-- Canonical outcome of a finished scenario, printed identically by the Go harness. -/
def outcome (c : Cfg St Thr) : String :=
  let s := c.1
  s!"running={s.running} pending={s.pending} queued={(queuedIds s).length} " ++
  s!"accepted={s.tasks.countP (fun x => x.returned && x.phase != .rejected)} " ++
  s!"rejected={countPhase s (· == .rejected)} runs={countPhase s (· == .done)} " ++
  s!"complete={if wg s = 0 then "yes" else "hang"} zero={if s.pending = 0 then "yes" else "hang"}"

def leaf : Body := .node []

structure Scenario where
  name : String
  p : Params
  scripts : List (List Op)
  moves : List Mv

def Scenario.init (sc : Scenario) : Cfg St Thr := (St.init, mkClients sc.scripts)
def Scenario.sched (sc : Scenario) : List (Nat × Nat) := schedOf sc.p sc.init sc.moves
def Scenario.final (sc : Scenario) : Cfg St Thr := runSched (sys sc.p) sc.init sc.sched

/-- start on a stopped, completed pool: startcall, stTry (spawn). -/
def startMoves (i : Nat) : List Mv := [.cl i, .cl i]
/-- shutdown with `W` workers: sdcall, sd1, `W` × send, leave the loop, unlock, signal the queue. -/
def shutdownMoves (i W : Nat) : List Mv := List.replicate (5 + W) (.cl i)
/-- dispatcher from `loop` into the registered wait on an empty queue: loop, pop(empty), cond, gap. -/
def dispPark : List Mv := [.disp, .disp, .disp, .disp]
/-- dispatcher woken on an empty queue of a stopped idle pool: wake, cond, cond2, loop, chk, close. -/
def dispExit : List Mv := [.disp, .disp, .disp, .disp, .disp, .disp]

/-- client 0 submits a task that is dispatched and run to its end on a running idle pool (dispatcher at `loop`):
call, check+count, push, return ; loop, pop, send ; sel→sel2, take, end, mark, signal ; dispatcher back to loop. -/
def runOne : List Mv :=
  [.cl 0, .cl 0, .cl 0, .cl 0, .disp, .disp, .disp, .wk 0, .wk 0, .wk 0, .wk 0, .wk 0]

/-- **Submit window**: a `Submit` is between its counted running-check and its push while the pool is
shut down; the dispatcher keeps serving the queue, the task is dispatched and run by the draining
worker, then everything completes. -/
def scWindow : Scenario where
  name := "window"
  p := { W := 1, cancel := false }
  scripts := [[.start], [.submit leaf], [.shutdown, .waitComplete]]
  moves := startMoves 0 ++ dispPark ++ [.cl 1, .cl 1] ++ shutdownMoves 2 1 ++
    -- dispatcher: woken, cond, cond2 (pending > 0: sleeps again) ; worker: sel (signal) → drain
    [.disp, .disp, .disp, .disp, .wk 0] ++
    -- the submitter pushes and returns; dispatcher: wake, pop, send ; worker: take, run end, mark, signal
    [.cl 1, .cl 1, .disp, .disp, .wk 0, .wk 0, .wk 0, .wk 0] ++
    -- dispatcher: loop, chk, close ; worker exits ; waitComplete
    [.disp, .disp, .disp, .wk 0, .cl 2, .cl 2]

/-- The same while another task is still running (the old dispatcher sat in `WaitIsZero` here). -/
def scWindowBusy : Scenario where
  name := "window-busy"
  p := { W := 1, cancel := false }
  scripts := [[.start], [.submit leaf], [.submit leaf], [.shutdown, .waitComplete]]
  moves := startMoves 0 ++
    -- task 0: call, check+count, push, return ; dispatcher: loop, pop, send ; worker: sel→sel2, take (stays inside)
    [.cl 1, .cl 1, .cl 1, .cl 1, .disp, .disp, .disp, .wk 0, .wk 0] ++
    -- task 1: call, check+count ; dispatcher parks ; shutdown ; dispatcher: woken, cond, cond2, gap (sleeps again)
    [.cl 2, .cl 2] ++ dispPark ++ shutdownMoves 3 1 ++ [.disp, .disp, .disp, .disp] ++
    -- task 1 is pushed, Submit returns ; dispatcher: wake+pop, send
    [.cl 2, .cl 2, .disp, .disp] ++
    -- worker: task 0 ends, marked ; sel takes the signal ; drain takes task 1 ; it ends, marked (zero), signal
    [.wk 0, .wk 0, .wk 0, .wk 0, .wk 0, .wk 0, .wk 0] ++
    -- dispatcher: loop, chk, close ; worker exits ; waitComplete
    [.disp, .disp, .disp, .wk 0, .cl 3, .cl 3]

/-- **PopOrWait gap**: the dispatcher evaluated `hasWork` and has not yet started to wait when
`Shutdown` is called; the signal needs the stack mutex, is sent after the dispatcher registered, and
wakes it. -/
def scGap : Scenario where
  name := "gap"
  p := { W := 1, cancel := false }
  scripts := [[.start], [.shutdown, .waitComplete]]
  moves := startMoves 0 ++ [.disp, .disp, .disp] ++ List.replicate 5 (.cl 1) ++ [.disp, .cl 1] ++
    dispExit ++ [.wk 0, .wk 0, .cl 1, .cl 1]

/-- `Shutdown(); Start()` back to back, then a task and a second shutdown. -/
def scRestart : Scenario where
  name := "restart"
  p := { W := 1, cancel := false }
  scripts := [[.start, .shutdown, .start, .submit leaf, .waitZero, .shutdown, .waitComplete]]
  moves := startMoves 0 ++ dispPark ++ shutdownMoves 0 1 ++
    -- second Start: startcall, stTry finds the worker alive → stWait
    [.cl 0, .cl 0] ++ dispExit ++ [.wk 0, .wk 0] ++ [.cl 0, .cl 0] ++
    -- submit: call, check+count, push, return ; dispatch and run
    [.cl 0, .cl 0, .cl 0, .cl 0, .disp, .disp, .disp, .wk 0, .wk 0, .wk 0, .wk 0, .wk 0, .cl 0, .cl 0] ++
    dispPark ++ shutdownMoves 0 1 ++ dispExit ++ [.wk 0, .wk 0, .cl 0, .cl 0]

/-- **Start window**: a `Start` (client 1) found the workers of the previous run alive; while it is between
its unlock and its wait, client 0 restarts the pool and stops it again.  Client 1 waits for that shutdown
without the lock and then starts the pool. -/
def scStartRace : Scenario where
  name := "start-race"
  p := { W := 1, cancel := false }
  scripts := [[.start, .submit leaf, .shutdown, .waitComplete, .start, .submit leaf, .shutdown], [.start],
    [.shutdown, .waitComplete]]
  moves := startMoves 0 ++ runOne ++ dispPark ++ shutdownMoves 0 1 ++
    -- client 1: startcall, stTry → stWait (parked in the window)
    [.cl 1, .cl 1] ++ dispExit ++ [.wk 0, .wk 0] ++ [.cl 0, .cl 0] ++
    -- client 0: Start, a task, Shutdown again
    startMoves 0 ++ runOne ++ dispPark ++ shutdownMoves 0 1 ++ dispExit ++ [.wk 0, .wk 0] ++
    -- client 1: wait passes, stTry spawns ; client 2 shuts the pool down for good
    [.cl 1, .cl 1] ++ dispPark ++ shutdownMoves 2 1 ++ dispExit ++ [.wk 0, .wk 0, .cl 2, .cl 2]

/-- **hasWork order**: the life cycle on which a dispatcher that read the counter before `isRunning` would lose a
task (see `C16_haswork_order_witness`); the real dispatcher reads `isRunning` first and serves the task. -/
def scHasWork : Scenario where
  name := "haswork"
  p := { W := 1, cancel := false }
  scripts := [[.start], [.submit leaf], [.shutdown, .waitComplete]]
  moves := startMoves 0 ++ dispPark ++ [.cl 1, .cl 1, .cl 1, .cl 1, .disp, .disp] ++
    [.wk 0, .wk 0, .wk 0, .wk 0, .wk 0] ++ dispPark ++ shutdownMoves 2 1 ++ dispExit ++ [.wk 0, .wk 0, .cl 2, .cl 2]

/-- two foreign goroutines wait on the exported queue (`Queue.WaitSizeIsAbove(5)`): woken by every broadcast, they go
back to sleep, and stay asleep at the end; everything else terminates. -/
def foreignNap : List Mv := [.cl 1, .cl 1, .cl 2, .cl 2]

def scForeign : Scenario where
  name := "foreign"
  p := { W := 1, cancel := false }
  scripts := [[.start, .submit leaf, .waitZero, .shutdown, .waitComplete], [.waitAbove 5], [.waitAbove 5]]
  moves := startMoves 0 ++ dispPark ++ foreignNap ++
    [.cl 0, .cl 0, .cl 0, .cl 0] ++ foreignNap ++ [.disp, .disp, .wk 0, .wk 0, .wk 0, .wk 0, .wk 0] ++ foreignNap ++
    [.cl 0, .cl 0] ++ dispPark ++ shutdownMoves 0 1 ++ foreignNap ++ dispExit ++ [.wk 0, .wk 0, .cl 0, .cl 0]

/-- **Worker count 0** (`WithWorkerCount(0)`, outside the theorems' hypothesis `0 < W`): `Start` spawns the dispatcher
and no worker; a `Submit` is accepted and counted, the dispatcher pops the task and blocks for ever in its send on the
unbuffered dispatch channel; `Shutdown` has nobody to signal, `ShutdownComplete.Wait` returns at once (no worker was
added) and `WaitIsZero` never does. -/
def scZeroWorkers : Scenario where
  name := "zero-workers"
  p := { W := 0, cancel := false }
  scripts := [[.start, .submit leaf, .shutdown, .waitComplete, .waitZero]]
  moves := startMoves 0 ++ [.cl 0, .cl 0, .cl 0, .cl 0, .disp, .disp] ++ shutdownMoves 0 0 ++ [.cl 0, .cl 0, .cl 0]

/-- **Rejected Submit, then restart** (`WithPanicOnSubmitAfterShutdown(true)`: the rejected call panics, the caller
recovers): the pool is started, shut down and complete; a `Submit` is rejected — the running check is one step under
the read lock, the panic is raised by `Submit` itself *after* `increasePendingTasksIfRunning` has returned and released
the lock, so in the model the call simply returns `rej` —; then the pool is started again, a task is accepted and run,
and the second shutdown completes.  A rejection that kept the read lock would block this `Start` for ever. -/
def scRejectRestart : Scenario where
  name := "reject-restart"
  p := { W := 1, cancel := false }
  scripts := [[.start, .shutdown, .waitComplete, .submit leaf, .start, .submit leaf, .waitZero, .shutdown, .waitComplete]]
  moves := startMoves 0 ++ dispPark ++ shutdownMoves 0 1 ++ dispExit ++ [.wk 0, .wk 0, .cl 0, .cl 0] ++
    -- the rejected Submit: call, check (not running), return ; Start: startcall, spawn
    [.cl 0, .cl 0, .cl 0] ++ startMoves 0 ++
    -- the accepted Submit, dispatched and run ; WaitIsZero
    runOne ++ [.cl 0, .cl 0] ++
    dispPark ++ shutdownMoves 0 1 ++ dispExit ++ [.wk 0, .wk 0, .cl 0, .cl 0]

/-- The same life cycle without the option: the rejected `Submit` returns silently.  Same model (the option only decides
how the rejected call returns to its caller), same outcome. -/
def scRejectRestartSilent : Scenario := { scRejectRestart with name := "reject-restart-silent" }

def scenarios : List Scenario :=
  [scWindow, scWindowBusy, scGap, scRestart, scStartRace, scHasWork, scForeign, scZeroWorkers, scRejectRestart,
   scRejectRestartSilent]

/-- What happens when a task's `workerFunc` panics, read off the regenerated skeletons: `Task.run` calls `workerFunc`
and then `markDone` with no deferred function in between, and neither `workerReadLoop`, `handleShutdown` nor `worker`
defers a function literal (the only place a `recover()` could sit; `worker`'s deferred `liveWorkers.Add` /
`ShutdownComplete.Done` calls run while the panic unwinds and do not stop it).  The panic therefore leaves the worker
goroutine and ends the process: `died`.  (A pool that recovered would have to mark the task done — otherwise the pending
counter never returns to zero; the harness checks that on a tree that survives.) -/
def taskPanicOutcome : String :=
  if (Hive.Gen.C16Skel.skel_Task_run ++ Hive.Gen.C16Skel.skel_WorkerPool_workerReadLoop ++
      Hive.Gen.C16Skel.skel_WorkerPool_handleShutdown ++ Hive.Gen.C16Skel.skel_WorkerPool_worker).any
        (fun t => t == "defer func{") then "survived" else "died"

end Hive.WP
