import Hive.Conc.Sys
/-!
# Protocol model of `WorkerPool.DebounceFunc` (workerpool.go) for C16

```go
var lastInvocation atomic.Uint64; var execMutex sync.Mutex
return func(workerFunc func(), ...) {
    currentInvocation := lastInvocation.Add(1)
    w.Submit(func() {
        if currentInvocation != lastInvocation.Load() { return }      // check 1
        execMutex.Lock(); defer execMutex.Unlock()
        if currentInvocation != lastInvocation.Load() { return }      // check 2 (under the mutex)
        workerFunc()
    }, ...)
}
```

Call number `k` (its `currentInvocation`) is the entry at index `k - 1` of `calls`, so `lastInvocation = calls.length`.
Every entry is the program counter of the task submitted by that call; a task that is rejected, cancelled or not yet
dispatched simply stays `submitted` (C16_conservation / C16_shutdown_terminates are about those tasks like about any
other).  Any number of caller goroutines (`Thr.caller n`: `n` more calls) and the pool's workers (`Thr.runner`: any task
takes its next step) interleave freely.  `execs` logs the invocation numbers whose `workerFunc` was executed, in order.
-/
namespace Hive.WPD
open Hive.Conc

inductive Pc
  | submitted   -- `lastInvocation.Add(1)` done, task submitted, not yet started
  | wantLock    -- check 1 passed, about to lock `execMutex`
  | locked      -- holds `execMutex`, before check 2
  | ran         -- check 2 passed, `workerFunc` executed, still holding the mutex
  | skip        -- check 2 failed, still holding the mutex
  | doneRan | doneSkip
deriving DecidableEq, Repr

def Pc.ranlike : Pc → Bool
  | .ran | .doneRan => true
  | _ => false

def Pc.skiplike : Pc → Bool
  | .skip | .doneSkip => true
  | _ => false

def Pc.holds : Pc → Bool
  | .locked | .ran | .skip => true
  | _ => false

def Pc.finished : Pc → Bool
  | .doneRan | .doneSkip => true
  | _ => false

structure St where
  calls : List Pc := []
  held : Bool := false        -- execMutex
  execs : List Nat := []      -- executed invocation numbers, in execution order
deriving Repr

def setPc (s : St) (i : Nat) (pc : Pc) : St := { s with calls := s.calls.set i pc }

/-- The next step of the task of call `i + 1`. -/
def callStep (s : St) (i : Nat) : List St :=
  match s.calls[i]? with
  | some .submitted => [if i + 1 = s.calls.length then setPc s i .wantLock else setPc s i .doneSkip]
  | some .wantLock => if s.held then [] else [{ setPc s i .locked with held := true }]
  | some .locked =>
    [if i + 1 = s.calls.length then { setPc s i .ran with execs := s.execs ++ [i + 1] } else setPc s i .skip]
  | some .ran => [{ setPc s i .doneRan with held := false }]
  | some .skip => [{ setPc s i .doneSkip with held := false }]
  | _ => []

inductive Thr
  | caller (n : Nat)
  | runner

def sys : Sys St Thr where
  step s
    | .caller 0 => []
    | .caller (n + 1) => [({ s with calls := s.calls ++ [.submitted] }, .caller n)]
    | .runner => (List.range s.calls.length).flatMap (fun i => (callStep s i).map (fun s' => (s', .runner)))

/-- Trace predicate for the harness: `x k` events (workerFunc of call `k` executed) must come in strictly increasing
order and name calls that were made. -/
def execsOk (ncalls : Nat) : Nat → List Nat → Bool
  | _, [] => true
  | lastX, k :: rest => decide (lastX < k) && decide (k ≤ ncalls) && execsOk ncalls k rest

end Hive.WPD
