/-!
# Text forms used by the JSON/map form of serix (serializer/serix/numbers.go, map_encode.go)

* 64-bit integers and timestamps travel as base-10 strings (`strconv.FormatUint/FormatInt`,
  `strconv.ParseUint/ParseInt(s, 10, 64)`),
* byte strings as `0x`-prefixed lower-case hex, the empty byte string as `""`
  (`EncodeHex`/`DecodeHex` = go-ethereum `hexutil.Encode/Decode`),
* `*big.Int` as a `0x`-prefixed hex *quantity* without leading zeros (`hexutil.EncodeBig/DecodeBig`,
  at most 64 digits = 256 bits, no sign on the decoding side).

Everything works on `List Char`; `String` only appears at the boundary.  Core Lean only.
-/
namespace Hive.SerixJson

/-! ## base 10 -/

/-- `strconv.FormatUint(n, 10)`. -/
def decChars (n : Nat) : List Char := Nat.toDigits 10 n

/-- `strconv.ParseUint(s, 10, _)` without the range check: a non-empty run of ASCII digits (leading
zeros are accepted, signs and underscores are not). -/
def parseDecChars (cs : List Char) : Option Nat :=
  if cs.isEmpty then none
  else if cs.all Char.isDigit then some (Nat.ofDigitChars 10 cs 0) else none

/-- `strconv.FormatInt(n, 10)`. -/
def intChars (n : Int) : List Char :=
  if n < 0 then '-' :: decChars n.natAbs else decChars n.natAbs

/-- `strconv.ParseInt(s, 10, _)` without the range check: optional `+`/`-`, then digits. -/
def parseIntChars : List Char → Option Int
  | '-' :: cs => (parseDecChars cs).map (fun (n : Nat) => - Int.ofNat n)
  | '+' :: cs => (parseDecChars cs).map (fun (n : Nat) => Int.ofNat n)
  | cs => (parseDecChars cs).map (fun (n : Nat) => Int.ofNat n)

/-! ## hex -/

def hexDigit (n : Nat) : Char := Nat.digitChar n

/-- value of one hex digit, both cases accepted (`encoding/hex`, `hexutil.decodeNibble`). -/
def hexVal (c : Char) : Option Nat :=
  if '0' ≤ c ∧ c ≤ '9' then some (c.toNat - 48)
  else if 'a' ≤ c ∧ c ≤ 'f' then some (c.toNat - 87)
  else if 'A' ≤ c ∧ c ≤ 'F' then some (c.toNat - 55)
  else none

def hexOfBytes : List UInt8 → List Char
  | [] => []
  | b :: bs => hexDigit (b.toNat / 16) :: hexDigit (b.toNat % 16) :: hexOfBytes bs

/-- `hex.DecodeString`: pairs of digits, odd length and foreign characters are errors. -/
def bytesOfHex : List Char → Option (List UInt8)
  | [] => some []
  | [_] => none
  | a :: b :: rest =>
    match hexVal a, hexVal b, bytesOfHex rest with
    | some x, some y, some tl => some (UInt8.ofNat (x * 16 + y) :: tl)
    | _, _, _ => none

/-- `serix.EncodeHex`: `""` for the empty byte string, otherwise `0x` + lower-case hex. -/
def encodeHexChars (bs : List UInt8) : List Char :=
  if bs.isEmpty then [] else '0' :: 'x' :: hexOfBytes bs

/-- `serix.DecodeHex`: the empty string is the empty byte string, otherwise the `0x`/`0X` prefix is
required. -/
def decodeHexChars : List Char → Option (List UInt8)
  | [] => some []
  | '0' :: 'x' :: rest => bytesOfHex rest
  | '0' :: 'X' :: rest => bytesOfHex rest
  | _ => none

/-! ## big.Int as a hex quantity -/

def hexNatChars (n : Nat) : List Char := Nat.toDigits 16 n

/-- `hexutil.EncodeBig` (what `serix.EncodeUint256` calls): no range check, negative numbers get a
leading `-`. -/
def encodeBigChars (n : Int) : List Char :=
  if n < 0 then '-' :: '0' :: 'x' :: hexNatChars n.natAbs else '0' :: 'x' :: hexNatChars n.natAbs

def ofHexChars : List Char → Nat → Option Nat
  | [], acc => some acc
  | c :: cs, acc =>
    match hexVal c with
    | some d => ofHexChars cs (16 * acc + d)
    | none => none

/-- digits of a quantity: non-empty, no leading zero unless the number is `0`, at most 64 digits. -/
def parseQuantity (raw : List Char) : Option Nat :=
  if raw.isEmpty then none
  else if raw.length > 1 ∧ raw.head? = some '0' then none
  else if raw.length > 64 then none
  else ofHexChars raw 0

/-- `hexutil.DecodeBig`: `0x` prefix, then a quantity of at most 256 bits; no sign. -/
def decodeBigChars : List Char → Option Nat
  | '0' :: 'x' :: raw => parseQuantity raw
  | '0' :: 'X' :: raw => parseQuantity raw
  | _ => none

/-! ## String boundary -/

def decStr (n : Nat) : String := String.ofList (decChars n)
def parseDec (s : String) : Option Nat := parseDecChars s.toList
def intStr (n : Int) : String := String.ofList (intChars n)
def parseInt (s : String) : Option Int := parseIntChars s.toList
def encodeHex (bs : List UInt8) : String := String.ofList (encodeHexChars bs)
def decodeHex (s : String) : Option (List UInt8) := decodeHexChars s.toList
def encodeBig (n : Int) : String := String.ofList (encodeBigChars n)
def decodeBig (s : String) : Option Nat := decodeBigChars s.toList

end Hive.SerixJson
