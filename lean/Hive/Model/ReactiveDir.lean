import Hive.Base.Proto
import Hive.Model.ReactiveInst
/-!
# Directed schedules: the protocol model of `Hive/Model/Reactive.lean`, run by a director

The third part of the C13 tie.  `harness/c13/dir.go` runs real goroutines on one reactive Variable /
Event / Set under a *director*: every goroutine performs one call (`Set`/`Compute`/`Apply`/`Replace`/
`Trigger`, `OnUpdate`, an unsubscribe function); chosen callback invocations are *gated* (the k-th
invocation of subscription c blocks inside the callback until the director releases it); after every
director action the harness waits until every goroutine has finished, stands at a gate, or is parked
in a mutex (read off the runtime's goroutine dump — a consistent snapshot), and prints the status of
every goroutine.  At the end it prints the event log of every subscription.

This file does the same with the **protocol model itself**: the threads are `Th`s of `sys o`, moved only
by `step o` (the transition function the invariants of `Hive/Proofs/Reactive*.lean` are about); a
gated invocation is a thread that is kept at `wRun`/`sRun` (between the `enter` and the `exit` event
of a callback — callback bodies are opaque in the model, so staying there is just not being
scheduled); "wait until nothing moves" is `settle`: run every thread that can move and is not
gated.  The driver prints the same status lines and the same logs, and the two are compared line by
line.  Every configuration the director visits is reachable (`dir_reach` in
`Hive/Proofs/ReactiveDir.lean`), so the C13 theorems hold for every log printed here.

The generator (`dir.go`) keeps the runs deterministic: it never lets two goroutines wait for the
same mutex (at most one parked goroutine when it starts a call that can park).
-/
namespace Hive.Reactive.Dir
open Hive.Proto Hive.Reactive Hive.Conc

variable {S N : Type}

/-- The callback a thread is inside of (between `enter` and `exit`). -/
def inside {W : Type} : Pc W N → Option Nat
  | .wRun _ _ c _ => some c
  | .sRun c => some c
  | _ => none

def enters (evs : List (Ev N)) : Nat := evs.countP Ev.isEnter

/-- Director state over the protocol model. -/
structure D (o : Obj S N) where
  sh : Sh S N
  ths : List (Th o.WOp N) := []
  /-- pending gates: (callback, number of the invocation, counted from 0) -/
  gates : List (Nat × Nat) := []
  /-- callbacks whose running invocation is held at its gate -/
  held : List Nat := []
  /-- (callback, thread that registers it) -/
  owner : List (Nat × Nat) := []

def D.init (o : Obj S N) : D o := { sh := sh0 o }

def isIdle {W : Type} : Pc W N → Bool
  | .idle => true
  | _ => false

def finished {W : Type} (t : Th W N) : Bool := isIdle t.pc && t.script.isEmpty

def runnable (o : Obj S N) (d : D o) (t : Th o.WOp N) : Bool :=
  (match inside t.pc with
   | some c => !d.held.contains c
   | none => true) && !(step o d.sh t).isEmpty

/-- Thread `i` takes its (only) successor; an invocation that starts at a pending gate is held. -/
def stepAt (o : Obj S N) (d : D o) (i : Nat) : D o :=
  match d.ths[i]? with
  | none => d
  | some t =>
    match step o d.sh t with
    | [] => d
    | (sh', t') :: _ =>
      let d' := { d with sh := sh', ths := d.ths.set i t' }
      match inside t.pc, inside t'.pc with
      | none, some c =>
        let k := enters (sh'.cbs c).evs - 1
        if d.gates.contains (c, k) then { d' with gates := d.gates.erase (c, k), held := c :: d.held } else d'
      | _, _ => d'

def firstRunnable (o : Obj S N) (d : D o) : Option Nat :=
  (List.range d.ths.length).find? fun i =>
    match d.ths[i]? with
    | some t => runnable o d t
    | none => false

/-- Run until nothing can move (fuel bounds the number of steps; a directed case has < 100). -/
def settle (o : Obj S N) : Nat → D o → D o
  | 0, d => d
  | fuel + 1, d =>
    match firstRunnable o d with
    | none => d
    | some i => settle o fuel (stepAt o d i)

def fuel : Nat := 4000

/-- `d` finished, `g<c>` held at the gate of callback `c`, `b` parked in a mutex, `r` could still run. -/
def status (o : Obj S N) (d : D o) (t : Th o.WOp N) : String :=
  if finished t then "d"
  else match inside t.pc with
    | some c => if d.held.contains c then s!"g{c}" else "r"
    | none => if (step o d.sh t).isEmpty then "b" else "r"

def statuses (o : Obj S N) (d : D o) : String :=
  if d.ths.isEmpty then "-" else " ".intercalate (d.ths.map (status o d))

def spawn (o : Obj S N) (d : D o) (op : Op o.WOp) : D o :=
  settle o fuel { d with ths := d.ths ++ [{ pc := .idle, script := [op] }] }

/-- The thread that registers callback `c` has returned from `OnUpdate` (only then does the caller
hold the unsubscribe function). -/
def ownerDone (o : Obj S N) (d : D o) (c : Nat) : Bool :=
  match d.owner.find? (·.1 == c) with
  | some (_, i) =>
    match d.ths[i]? with
    | some t => finished t
    | none => false
  | none => false

/-- Printing / parsing of one object kind. -/
structure Fmt (o : Obj S N) where
  parseW : List String → Option o.WOp
  showN : N → String
  showS : S → String

def showEv (o : Obj S N) (f : Fmt o) : Ev N → String
  | .enter n => "e:" ++ f.showN n
  | .exit => "x"
  | .unsubRet => "u"

def showLogs (o : Obj S N) (f : Fmt o) (d : D o) : String :=
  String.join ((List.range d.sh.ncb).map fun c =>
    s!"c{c}=[" ++ " ".intercalate ((d.sh.cbs c).evs.map (showEv o f)) ++ "] ") ++ "| " ++ f.showS d.sh.st

def parseGates (s : String) : Option (List Nat) :=
  if s == "-" then some [] else (s.splitOn ",").mapM (·.toNat?)

def stepLine (o : Obj S N) (f : Fmt o) (d : D o) : List String → D o × String
  | "go" :: "write" :: w =>
    match f.parseW w with
    | some w => let d' := spawn o d (.write w); (d', statuses o d')
    | none => (d, "bad-op")
  | ["go", "sub", flag, gs] =>
    match parseGates gs with
    | some ks =>
      let c := d.sh.ncb
      let d' := spawn o { d with gates := d.gates ++ ks.map (fun k => (c, k)), owner := d.owner ++ [(c, d.ths.length)] }
        (.sub (flag == "1"))
      (d', statuses o d')
    | none => (d, "bad-op")
  | ["go", "unsub", c] =>
    match c.toNat? with
    | some c =>
      if c < d.sh.ncb && ownerDone o d c then let d' := spawn o d (.unsub c); (d', statuses o d') else (d, "bad-op")
    | none => (d, "bad-op")
  | ["release", c] =>
    match c.toNat? with
    | some c =>
      if d.held.contains c then let d' := settle o fuel { d with held := d.held.erase c }; (d', statuses o d')
      else (d, "bad-op")
    | none => (d, "bad-op")
  | ["finish"] => let d' := settle o fuel { d with held := [], gates := [] }; (d', statuses o d')
  | ["get"] => (d, f.showS d.sh.st)
  | ["logs"] => (d, showLogs o f d)
  | _ => (d, "bad-op")

/-! ## the three object kinds, with the op syntax of the sequential part -/

def canon (l : List Nat) : List Nat := (List.range (l.foldl max 0 + 1)).filter (l.contains ·)

def showSet (l : List Nat) : String :=
  if l.isEmpty then "-" else ",".intercalate ((canon l).map toString)

def parseSet (s : String) : Option (List Nat) :=
  if s == "-" then some [] else (s.splitOn ",").mapM (·.toNat?)

def evOr (new : Nat) : Nat → Nat := fun cur => if cur != 0 || new != 0 then 1 else 0

def parseVarW : List String → Option (Nat → Nat)
  | ["set", v] => v.toNat?.map fun v => fun _ => v
  | ["same"] => some id
  | ["compute", k] => k.toNat?.map fun k => fun v => (2 * v + k) % 5
  | ["defaultto", v] => v.toNat?.map fun v => fun c => if c == 0 then v else c
  | _ => none

def parseEventW : List String → Option (Nat → Nat)
  | ["trigger"] => some (evOr 1)
  | ["set", v] => v.toNat?.map evOr
  | _ => none

def parseSetW : List String → Option SetOp
  | ["add", x] => x.toNat?.map fun x => .apply ([x], [])
  | ["del", x] => x.toNat?.map fun x => .apply ([], [x])
  | ["addall", xs] => (parseSet xs).map fun xs => .apply (xs, [])
  | ["delall", xs] => (parseSet xs).map fun xs => .apply ([], xs)
  | ["apply", a, d] => do let a ← parseSet a; let d ← parseSet d; pure (.apply (a, d))
  | ["compute", a, d] => do let a ← parseSet a; let d ← parseSet d; pure (.compute fun _ => (a, d))
  | ["toggle", x] => x.toNat?.map fun x => .compute fun s => if s.contains x then ([], [x]) else ([x], [])
  | ["replace", xs] => (parseSet xs).map .replace
  | ["replace-self"] => some (.replaceView id)
  | _ => none

abbrev varO : Obj Nat (Nat × Nat) := varObj Nat 0 0

def varFmt (event : Bool) : Fmt varO where
  parseW := if event then parseEventW else parseVarW
  showN n := s!"{n.1}:{n.2}"
  showS := toString

def setFmt (init : List Nat) : Fmt (setObj init) where
  parseW := parseSetW
  showN m := showSet m.1 ++ ":" ++ showSet m.2
  showS := showSet

inductive St
  | var (event : Bool) (d : D varO)
  | set (init : List Nat) (d : D (setObj init))

def St.new : List String → Option St
  | ["var"] => some (.var false (D.init varO))
  | ["event"] => some (.var true (D.init varO))
  | ["set", els] => (parseSet els).map fun l => .set l (D.init (setObj l))
  | _ => none

def St.stepLine : St → List String → St × String
  | .var ev d, toks => let r := Dir.stepLine varO (varFmt ev) d toks; (.var ev r.1, r.2)
  | .set init d, toks => let r := Dir.stepLine (setObj init) (setFmt init) d toks; (.set init r.1, r.2)

end Hive.Reactive.Dir
