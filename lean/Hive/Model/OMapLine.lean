import Hive.Model.OMapPtr
import Hive.Model.OMapDict
import Hive.Model.OMapConc
/-!
# Line protocol of the C11 driver

One ordered-map object (run on the pointer-level model *and* on the abstract model; the answer is
taken from the pointer-level model and `MODELS-DISAGREE` is answered if the two ever differ), four
set registers, one `SetArithmetic` object, and the history / lock-script requests of the concurrent
part (`Hive/Model/OMapConc.lean`).
-/
namespace Hive.OMap
open Hive.Proto

structure World where
  pm : PMap
  dk : Nat                   -- `dictionary.deletedKeys` of the ordered-map object (Hive/Model/OMapDict.lean)
  am : AMap
  sets : List ASet
  counts : Counts
  tmaps : List AMap          -- maps with pointer / slice / map values (values = table indices)
  tables : List (List Bytes) -- their value codecs
  tlast : List Bytes         -- the last encoding produced per typed map
  arcAdded : ASet            -- one `SetMutations` object fed by the collector functions
  arcDeleted : ASet
  arcThr : Int

def World.init : World :=
  { pm := PMap.empty, dk := 0, am := [], sets := [[], [], [], []], counts := fun _ => 0,
    tmaps := [[], [], []], tables := [[], [], []], tlast := [[], [], []],
    arcAdded := [], arcDeleted := [], arcThr := 1 }

def parseList (s : String) : Option (List Nat) :=
  if s == "-" then some [] else (s.splitOn ",").mapM (·.toNat?)

def showKV (p : Nat × Nat) : String := s!"{p.1}:{p.2}"
def showKVs (l : List (Nat × Nat)) : String := "[" ++ " ".intercalate (l.map showKV) ++ "]"
def showOptKV : Option (Nat × Nat) → String
  | none => "none"
  | some p => showKV p

def showSet (s : ASet) : String := showNatList (elems s)

def World.getSet (w : World) (r : Nat) : ASet := w.sets.getD r []
def World.putSet (w : World) (r : Nat) (s : ASet) : World := { w with sets := w.sets.set r s }

/-- an argument of type `ReadableSet`: `@j` = register `j`, otherwise a literal list (`NewSet(lit...)`) -/
def World.arg (w : World) (a : String) : Option ASet :=
  if a.startsWith "@" then (a.drop 1).toNat?.map w.getSet
  else if a.startsWith "~" then (a.drop 1).toNat?.map w.getSet          -- `ReadOnly()` view of a register: the same contents
  else if a.startsWith "ro:" then (parseList (a.drop 3).toString).map newSet  -- `NewReadableSet(lit...)`
  else (parseList a).map newSet

/-- the threshold argument of `SetArithmetic`: `_` = omitted (`lo.First(threshold, 1)` = 1), `a,b,..` = variadic list
of which only the first counts -/
def parseThr (t : String) : Option Int :=
  if t == "_" then some 1 else ((t.splitOn ",").head?).bind (·.toInt?)

/-- `readableSet.String()` for `uint16` elements -/
def showStr (s : ASet) : String := "uint16s(" ++ ", ".intercalate ((elems s).map toString) ++ ")"

def dumpM (w : World) : String :=
  let fe := w.pm.forEach
  if fe == w.am ∧ w.pm.size == w.am.length ∧ w.pm.forEachReverse == w.am.reverse
      ∧ w.pm.headKV == AMap.head w.am ∧ w.pm.tailKV == AMap.tail w.am then
    s!"{showKVs fe} n={w.pm.size} dk={w.dk}"
  else "MODELS-DISAGREE"

def showMut (m : ASet × ASet) : String := s!"+{showSet m.1} -{showSet m.2}"

def parseMOp (s : String) : Option PMap.MOp :=
  if s == "c" then some .clear
  else if s.startsWith "d" then (s.drop 1).toNat?.map .del
  else if s.startsWith "s" then
    match (s.drop 1).toString.splitOn "." with
    | [k, v] => do some (.set (← k.toNat?) (← v.toNat?))
    | _ => none
  else none

/-- `i:op,op,x` — at visit number `i` run the ops; `x` = the consumer returns false -/
def parseVisit (s : String) : Option (Nat × List PMap.MOp × Bool) :=
  match s.splitOn ":" with
  | [i, body] => do
    let i ← i.toNat?
    let toks := body.splitOn ","
    let stop := toks.contains "x"
    let ops ← (toks.filter (fun t => t != "x" && t != "")).mapM parseMOp
    some (i, ops, stop)
  | _ => none

def buildScript (vs : List (Nat × List PMap.MOp × Bool)) : List (List PMap.MOp × Bool) :=
  let n := vs.foldl (fun a v => max a (v.1 + 1)) 0
  (List.range n).map (fun i =>
    match vs.find? (fun v => v.1 == i) with
    | some v => v.2
    | none => ([], false))

def applyOpA (m : AMap) : PMap.MOp → AMap
  | .set k v => (AMap.set m k v).1
  | .del k => (AMap.delete m k).1
  | .clear => []

def stepLine1 (w : World) (toks : List String) : World × String :=
  match toks with
  -- ordered map object
  | ["mset", k, v] =>
    match k.toNat?, v.toNat? with
    | some k, some v =>
      let r := w.pm.set k v
      let ra := AMap.set w.am k v
      let w' := { w with pm := r.1, am := ra.1, dk := dkAfter w.dk w.pm [.set k v] }
      if r.2 == ra.2 then (w', s!"prev={showOptNat r.2} | {dumpM w'}") else (w', "MODELS-DISAGREE")
    | _, _ => (w, "bad-op")
  | ["mdel", k] =>
    match k.toNat? with
    | some k =>
      let r := w.pm.delete k
      let ra := AMap.delete w.am k
      let w' := { w with pm := r.1, am := ra.1, dk := dkAfter w.dk w.pm [.del k] }
      if r.2 == ra.2 then (w', s!"{showBool r.2} | {dumpM w'}") else (w', "MODELS-DISAGREE")
    | _ => (w, "bad-op")
  | ["mget", k] =>
    match k.toNat? with
    | some k => if w.pm.get k == AMap.get w.am k then (w, showOptNat (w.pm.get k)) else (w, "MODELS-DISAGREE")
    | _ => (w, "bad-op")
  | ["mhas", k] =>
    match k.toNat? with
    | some k => if w.pm.has k == AMap.has w.am k then (w, showBool (w.pm.has k)) else (w, "MODELS-DISAGREE")
    | _ => (w, "bad-op")
  | ["mhead"] => (w, showOptKV w.pm.headKV)
  | ["mtail"] => (w, showOptKV w.pm.tailKV)
  | ["msize"] => (w, s!"{w.pm.size} {showBool (w.pm.size == 0)}")
  | ["mclear"] => let w' := { w with pm := w.pm.clear, am := [], dk := dkAfter w.dk w.pm [.clear] }; (w', dumpM w')
  | ["mfe"] => (w, showKVs w.pm.forEach)
  | ["mfer"] => (w, showKVs w.pm.forEachReverse)
  | ["mdump"] => (w, dumpM w)
  | ["mfestop", dir, n] =>
    match n.toNat? with
    | some n =>
      let all := if dir == "fwd" then w.pm.forEach else w.pm.forEachReverse
      (w, s!"{showKVs (all.take n)} ret={showBool (if n == 0 then all.isEmpty else all.length < n)}")
    | none => (w, "bad-op")
  | ["mclone"] =>
    let c := w.pm.clone
    if c.forEach == AMap.clone w.am then (w, s!"{showKVs c.forEach} n={c.size}") else (w, "MODELS-DISAGREE")
  | "mwalk" :: dir :: visits =>
    match visits.mapM parseVisit with
    | some vs =>
      let script := buildScript vs
      let fwd := dir == "fwd"
      let r := PMap.weakWalk fwd 100000 w.pm (if fwd then w.pm.head else w.pm.tail) script
      let allOps := (script.take r.2.1.length).flatMap (·.1)
      let w' := { w with pm := r.1, am := allOps.foldl applyOpA w.am, dk := dkAfter w.dk w.pm allOps }
      (w', s!"{showKVs (r.2.1.map (·.2))} ret={showBool r.2.2} | {dumpM w'}")
    | none => (w, "bad-op")
  | ["menc"] => (w, hex (encode encU16 encU8 w.pm.forEach))
  | ["mdec", h] =>
    match unhex h with
    | some b =>
      let ra := decode decU16 decU8 w.am b
      -- replay the same Sets on the pointer-level model
      let added := ra.1
      let pm' := added.foldl (fun p kv => (p.set kv.1 kv.2).1) w.pm
      let w' := { w with pm := pm', am := ra.1 }
      (w', s!"{match ra.2 with | some n => s!"ok {n}" | none => "err 0"} | {dumpM w'}")
    | none => (w, "bad-op")
  -- methods with a nil-receiver guard called on `(*OrderedMap)(nil)`
  | ["mnil", "foreach"] => (w, "true")
  | ["mnil", "foreachrev"] => (w, "true")
  | ["mnil", "size"] => (w, "0")
  | ["mnil", "isempty"] => (w, "true")
  | ["mnil", "clear"] => (w, "ok")
  | ["mnil", "clone"] => (w, "nil")
  -- the options of a fresh OrderedMap's dictionary, read from the real object
  | ["dictopts"] => (w, s!"ratio={SOpts.default.ratio} count={SOpts.default.count}")
  -- set registers
  | ["str", r] =>
    match r.toNat? with
    | some r => (w, showStr (w.getSet r))
    | _ => (w, "bad-op")
  | ["new", r, l] =>
    match r.toNat?, parseList l with
    | some r, some l => let s := newSet l; (w.putSet r s, showSet s)
    | _, _ => (w, "bad-op")
  | ["add", r, e] =>
    match r.toNat?, e.toNat? with
    | some r, some e => let x := sAdd (w.getSet r) e; (w.putSet r x.1, s!"{showBool x.2} | {showSet x.1}")
    | _, _ => (w, "bad-op")
  | ["del", r, e] =>
    match r.toNat?, e.toNat? with
    | some r, some e => let x := sDelete (w.getSet r) e; (w.putSet r x.1, s!"{showBool x.2} | {showSet x.1}")
    | _, _ => (w, "bad-op")
  | ["has", r, e] =>
    match r.toNat?, e.toNat? with
    | some r, some e => (w, showBool (AMap.has (w.getSet r) e))
    | _, _ => (w, "bad-op")
  | ["size", r] =>
    match r.toNat? with
    | some r => (w, s!"{AMap.size (w.getSet r)} {showBool (AMap.size (w.getSet r) == 0)}")
    | _ => (w, "bad-op")
  | ["clear", r] =>
    match r.toNat? with
    | some r => (w.putSet r [], "[]")
    | _ => (w, "bad-op")
  | ["slice", r] =>
    match r.toNat? with
    | some r => (w, showSet (w.getSet r))
    | _ => (w, "bad-op")
  | ["iter", r] =>
    match r.toNat? with
    | some r => (w, showSet (w.getSet r))
    | _ => (w, "bad-op")
  | ["any", r] =>
    match r.toNat? with
    | some r => (w, showOptNat (any (w.getSet r)))
    | _ => (w, "bad-op")
  | ["is", r, e] =>
    match r.toNat?, e.toNat? with
    | some r, some e => (w, showBool (is (w.getSet r) e))
    | _, _ => (w, "bad-op")
  | ["addall", r, a] =>
    match r.toNat?, w.arg a with
    | some r, some o => let x := addAll (w.getSet r) (elems o); (w.putSet r x.1, s!"{showSet x.2} | {showSet x.1}")
    | _, _ => (w, "bad-op")
  | ["delall", r, a] =>
    match r.toNat?, w.arg a with
    | some r, some o => let x := deleteAll (w.getSet r) (elems o); (w.putSet r x.1, s!"{showSet x.2} | {showSet x.1}")
    | _, _ => (w, "bad-op")
  | ["replace", r, a] =>
    match r.toNat?, w.arg a with
    | some r, some o => let x := replace (w.getSet r) (elems o); (w.putSet r x.1, s!"{showSet x.2} | {showSet x.1}")
    | _, _ => (w, "bad-op")
  | ["apply", r, a, d] =>
    match r.toNat?, w.arg a, w.arg d with
    | some r, some a, some d =>
      let x := apply (w.getSet r) (elems a) (elems d); (w.putSet r x.1, s!"{showMut x.2} | {showSet x.1}")
    | _, _, _ => (w, "bad-op")
  | ["compute", r, a, d] =>
    -- factory: added = the literal `a`, deleted = the current elements that are in `d`
    match r.toNat?, parseList a, parseList d with
    | some r, some a, some d =>
      let x := compute (w.getSet r) (fun cur => (elems (newSet a), elems (filter (newSet cur) (fun e => d.contains e))))
      (w.putSet r x.1, s!"{showMut x.2} | {showSet x.1}")
    | _, _, _ => (w, "bad-op")
  | ["hasall", r, a] =>
    match r.toNat?, w.arg a with
    | some r, some o => (w, showBool (hasAll (w.getSet r) (elems o)))
    | _, _ => (w, "bad-op")
  | ["equals", r, a] =>
    match r.toNat?, w.arg a with
    | some r, some o => (w, showBool (equals (w.getSet r) o))
    | _, _ => (w, "bad-op")
  | ["intersect", r, a] =>
    match r.toNat?, w.arg a with
    | some r, some o => (w, showSet (intersect (w.getSet r) o))
    | _, _ => (w, "bad-op")
  | ["filter", r, l] =>
    match r.toNat?, parseList l with
    | some r, some l => (w, showSet (filter (w.getSet r) (fun e => l.contains e)))
    | _, _ => (w, "bad-op")
  | ["clone", r, r2] =>
    match r.toNat?, r2.toNat? with
    | some r, some r2 => let c := sClone (w.getSet r); (w.putSet r2 c, showSet c)
    | _, _ => (w, "bad-op")
  | ["enc", r] =>
    match r.toNat? with
    | some r => (w, hex (encode encU16 encVoid (w.getSet r)))
    | _ => (w, "bad-op")
  | ["dec", r, h] =>
    match r.toNat?, unhex h with
    | some r, some b =>
      let x := decode decU16 decVoid (w.getSet r) b
      (w.putSet r x.1, s!"{match x.2 with | some n => s!"ok {n}" | none => "err 0"} | {showSet x.1}")
    | _, _ => (w, "bad-op")
  -- a set of another element width (`u8`, `i8`, `bool` = one byte per entry … `u64`): Encode, then Decode into a fresh set
  | ["wenc", t, l] =>
    let width : Option Nat := match t with
      | "u8" => some 1 | "i8" => some 1 | "bool" => some 1 | "u16" => some 2 | "u32" => some 4 | "u64" => some 8 | _ => none
    match width, parseList l with
    | some wd, some l =>
      let b := encode (encLE wd) encVoid (newSet l)
      let r := decode (decLE wd) decVoid [] b
      (w, s!"{hex b} | {match r.2 with | some n => s!"ok {n}" | none => "err 0"} {showSet r.1}")
    | _, _ => (w, "bad-op")
  -- a set `0 … n-1` of four- or eight-byte elements with `n` around 2^16; the answer summarises the encoding: its length,
  -- the count prefix and the sum of its bytes (that decoding gives the set back is `C11_codec_widths`, `n < 2^32`)
  | ["wbig", t, n] =>
    let width : Option Nat := match t with | "u32" => some 4 | "u64" => some 8 | _ => none
    match width, n.toNat? with
    | some wd, some n =>
      let b := encode (encLE wd) encVoid ((List.range n).map fun i => (i, 0))
      (w, s!"{b.length} {hex (b.take 4)} {(b.foldl (fun a x => (a + x.toNat) % 4294967296) 0)}")
    | _, _ => (w, "bad-op")
  -- ordered maps with pointer / slice / map values
  | "codec" :: t :: hs =>
    match t.toNat?, hs.mapM unhex with
    | some t, some tbl => ({ w with tables := w.tables.set t tbl }, "ok")
    | _, _ => (w, "bad-op")
  | ["tnew", t] =>
    match t.toNat? with
    | some t => ({ w with tmaps := w.tmaps.set t [] }, "[]")
    | none => (w, "bad-op")
  | ["tset", t, k, v] =>
    match t.toNat?, k.toNat?, v.toNat? with
    | some t, some k, some v =>
      let m := (AMap.set (w.tmaps.getD t []) k v).1
      ({ w with tmaps := w.tmaps.set t m }, showKVs m)
    | _, _, _ => (w, "bad-op")
  | ["tdel", t, k] =>
    match t.toNat?, k.toNat? with
    | some t, some k =>
      let m := (AMap.delete (w.tmaps.getD t []) k).1
      ({ w with tmaps := w.tmaps.set t m }, showKVs m)
    | _, _ => (w, "bad-op")
  | ["tenc", t] =>
    match t.toNat? with
    | some t =>
      let b := encode encU16 (encTable (w.tables.getD t [])) (w.tmaps.getD t [])
      ({ w with tlast := w.tlast.set t b }, hex b)
    | none => (w, "bad-op")
  | ["tdec", t] =>
    match t.toNat? with
    | some t =>
      let x := decode decU16 (decTable (w.tables.getD t [])) (w.tmaps.getD t []) (w.tlast.getD t [])
      ({ w with tmaps := w.tmaps.set t x.1 },
        s!"{match x.2 with | some n => s!"ok {n}" | none => "err 0"} | {showKVs x.1}")
    | none => (w, "bad-op")
  -- SetArithmetic
  | ["arnew"] => ({ w with counts := fun _ => 0 }, "ok")
  -- the collector functions themselves: `arcnew thr` = fresh SetMutations m with AddedElementsCollector(m, thr) and
  -- SubtractedElementsCollector(m, thr); `arc + e` / `arc - e` = one call; the answer is m after the call
  | ["arcnew", t] =>
    match parseThr t with
    | some t => ({ w with arcAdded := [], arcDeleted := [], arcThr := t }, "ok")
    | none => (w, "bad-op")
  | ["arc", sign, e] =>
    match e.toNat? with
    | some e =>
      let a : ArSt := { counts := w.counts, added := w.arcAdded, deleted := w.arcDeleted }
      let a' := if sign == "+" then a.inc w.arcThr e else a.dec w.arcThr e
      ({ w with counts := a'.counts, arcAdded := a'.added, arcDeleted := a'.deleted }, showMut (a'.added, a'.deleted))
    | none => (w, "bad-op")
  | ["aradd", a, d, t] =>
    match parseList a, parseList d, parseThr t with
    | some a, some d, some t =>
      let x := arAdd w.counts (elems (newSet a)) (elems (newSet d)) t
      ({ w with counts := x.counts }, showMut (x.added, x.deleted))
    | _, _, _ => (w, "bad-op")
  | ["arsub", a, d, t] =>
    match parseList a, parseList d, parseThr t with
    | some a, some d, some t =>
      let x := arSub w.counts (elems (newSet a)) (elems (newSet d)) t
      ({ w with counts := x.counts }, showMut (x.added, x.deleted))
    | _, _, _ => (w, "bad-op")
  -- concurrent scenarios executed by the harness: after the fixes every call returns (C11_deadlock_free)
  | "forced" :: _ => (w, "done")
  | "overlap" :: _ => (w, "done")
  | "inside" :: _ => (w, "done")
  | "race" :: _ => (w, "done")
  | "pairs" :: _ => (w, "done")
  | "mforced" :: _ => (w, "done")
  | "alias" :: _ => (w, "done")
  | "cross" :: _ => (w, "done")
  | "stress" :: _ => (w, "done")
  | "lin" :: rest => (w, linLine rest)
  | "quiesce" :: rest => (w, quiesceLine rest)
  | "lockscript" :: rest => (w, lockScriptLine rest)
  | _ => (w, "bad-op")

/-- `ro.<read method> r …` = the method called on `set[r].ReadOnly()`: the view shares the set's state -/
def stepLine (w : World) (toks : List String) : World × String :=
  match toks with
  | t :: rest => if t.startsWith "ro." then stepLine1 w ((t.drop 3).toString :: rest) else stepLine1 w toks
  | [] => stepLine1 w toks

end Hive.OMap
