import Hive.Model.SyncMutexWait
/-!
# The Counter/Stack monitor with its data: stack contents, return values, subscriber notifications

`Hive/Model/SyncMutexWait.lean` abstracts `syncutils.Stack` to its size and `syncutils.Counter` to its value.  This
layer puts back what the code additionally does inside the same critical sections:

| code | here |
|---|---|
| `Stack.Push(x)`: `elements.PushBack(x)` | `q := q ++ [id]` — the element is identified by its push sequence number `pushed` |
| `Stack.Pop` / `PopOrWait`: `elements.Remove(elements.Front())` | the **front** of `q` is removed, recorded in the caller's `vals` and in the ghost `popped` |
| `Counter.Set(v)` returns the old value, `Counter.Update(d)` returns the new value | `rets` of the calling goroutine |
| `Counter.set`/`update`: `if newValue != oldValue { c.value = newValue; notifySubscribers(oldValue, newValue) }` (inside `valueMutex`) | `log := (old, new) :: log` exactly when the value changes |

The transition function is **the one of the wait monitor** (`Wait.step`) with a data update attached to each of its
successors (`dataStep`), so the control/synchronisation behaviour is the wait monitor's by construction
(`C17_waitv_refines_wait`), and the `C17_wait_iff_*` theorems carry over.  The driver runs this model; the harness
reports popped elements, return values and the notifications a subscriber received.
-/
namespace Hive.SyncMutex.WaitV
open Hive.SyncMutex.Wait

structure MonV where
  base : Mon
  /-- stack contents, front first -/
  q : List Nat
  /-- number of `Push`es so far = sequence number of the next pushed element -/
  pushed : Nat
  /-- ghost: elements taken so far, oldest first -/
  popped : List Nat
  /-- notifications `(oldValue, newValue)` delivered to subscribers, newest first -/
  log : List (Int × Int)
  deriving DecidableEq, Repr, Hashable

structure WThV where
  base : WTh
  /-- elements returned by `Pop`/`PopOrWait` to this goroutine, newest first -/
  vals : List Nat
  /-- return values of `Set` (old value) / `Update` (new value), newest first -/
  rets : List Int
  deriving DecidableEq, Repr, Hashable

def WThV.new (script : List WOp) : WThV := ⟨WTh.new script, [], []⟩

/-- a stack holding the elements `0 … n-1` (pushed in that order) / a counter with value `v` and no notification yet -/
def MonV.initStack (n : Nat) : MonV := ⟨Mon.init n, List.range n, n, [], []⟩
def MonV.initCounter (v : Int) : MonV := ⟨Mon.init v, [], 0, [], []⟩

def notify (log : List (Int × Int)) (old new : Int) : List (Int × Int) :=
  if new = old then log else (old, new) :: log

/-- The data part of one successor `p` of the wait monitor's step. -/
def dataStep (s : MonV) (t : WThV) (p : Mon × WTh) : MonV × WThV :=
  match t.base.pc with
  | .crit (.add d) =>
    ({ s with base := p.1, q := s.q ++ [s.pushed], pushed := s.pushed + 1,
              log := notify s.log s.base.value (s.base.value + d) },
     { t with base := p.2, rets := (s.base.value + d) :: t.rets })
  | .crit (.set v) =>
    ({ s with base := p.1, log := notify s.log s.base.value v },
     { t with base := p.2, rets := s.base.value :: t.rets })
  | .crit .tryPop | .crit .popOrWait =>
    if p.2.pc = .bcD then
      match s.q with
      | x :: r =>
        ({ s with base := p.1, q := r, popped := s.popped ++ [x], log := notify s.log s.base.value p.1.value },
         { t with base := p.2, vals := x :: t.vals })
      | [] => ({ s with base := p.1, log := notify s.log s.base.value p.1.value }, { t with base := p.2 })
    else ({ s with base := p.1 }, { t with base := p.2 })
  | _ => ({ s with base := p.1 }, { t with base := p.2 })

def step (s : MonV) (t : WThV) : List (MonV × WThV) := (Wait.step s.base t.base).map (dataStep s t)

def sys : Conc.Sys MonV WThV := ⟨step⟩

/-- forget the data -/
def proj (c : Conc.Cfg MonV WThV) : Conc.Cfg Mon WTh := (c.1.base, c.2.map (·.base))

def initStack (n : Nat) (scripts : List (List WOp)) : Conc.Cfg MonV WThV := (MonV.initStack n, scripts.map WThV.new)
def initCounter (v : Int) (scripts : List (List WOp)) : Conc.Cfg MonV WThV := (MonV.initCounter v, scripts.map WThV.new)

/-- The operations `syncutils.Stack` has: `Push` is `add 1`, there is no `set`. -/
def stackOp : WOp → Prop
  | .add d => d = 1
  | .set _ => False
  | _ => True

instance (op : WOp) : Decidable (stackOp op) := by
  cases op <;> simp only [stackOp] <;> exact inferInstance

def pcOp : WPc → Option WOp
  | .acq op | .crit op | .parkI op _ | .parkD op _ => some op
  | .critW => some .popOrWait
  | _ => none

/-- a goroutine that only ever calls Stack methods -/
def stackTh (t : WTh) : Prop := (∀ op ∈ t.script, stackOp op) ∧ ∀ op, pcOp t.pc = some op → stackOp op

/-- The notifications form a chain from the initial value to the current one, and every one is a real change. -/
def Chain (v0 : Int) : List (Int × Int) → Int → Prop
  | [], cur => cur = v0
  | (o, n) :: rest, cur => n = cur ∧ o ≠ n ∧ Chain v0 rest o

end Hive.SyncMutex.WaitV
