import Hive.Model.KVHeap
/-!
# mapdb with memory, second level: KEY, PREFIX and REALM buffers are references too (C04)

`Hive/Model/KVHeap.lean` has references for the values and treats keys and realms as values.  Here every byte slice
that crosses the API is a reference into the memory: the key / prefix / realm arguments of the caller, the realm a
view keeps (`mapDB.realm`), the key and value slices an iteration hands to its consumer, the result of `Realm()`.
What the code does with them (kvstore/mapdb/mapdb.go, synced_map.go; the calls are pinned by `C04_calls_mapdb`):

* `WithRealm(realm)` builds `&mapDB{…, realm: realm}` — the view **keeps the caller's slice** (no copy);
  `WithExtendedRealm(realm)` = `s.WithRealm(byteutils.ConcatBytes(s.Realm(), realm))` — a **new** buffer nobody else
  holds; `Realm()` = `byteutils.ConcatBytes(s.realm)` — a new buffer for the caller;
* every keyed method builds `byteutils.ConcatBytes(s.realm, key)` (the realm **as its buffer reads at that moment**) and
  the map converts it with `string(key)`: Go strings are immutable, so the map's keys are values;
* `batchedMutations.Set/Delete` convert the key with `byteutils.ConcatBytesToString(key)` **at call time** (a private copy
  of the key), keep the caller's *value* slice, and `Commit` prepends the realm of the view the batch was made from — read
  when `Commit` runs;
* `iterate` / `iterateKeys` hand `[]byte(key)[len(realm):]` to the consumer: a **new** buffer per call; `iterate` hands
  out the value copies of its snapshot.

The caller: `alloc b` (make a buffer) and `write r b` (overwrite a buffer it holds: one it made, or one that `Get`,
`Realm`, `Iterate`, `IterateKeys` gave it).  Every slice argument must be a buffer the caller holds (`known`).
Core Lean only.  The model is driven line by line (`m …` requests of `drv_c04`, see `mline`).
-/
namespace Hive.KV.Mem
open Hive.KV.Heap

structure MBatch where
  realm : Ref            -- `b.kvStore.realm`: the slice of the view the batch was made from
  sets : RMap            -- setOperations: copy of the key ↦ the slice the caller passed
  dels : List Bytes      -- deleteOperations
deriving Repr

structure MSt where
  mem : Mem
  m : RMap                          -- syncedKVMap.m: full key (a string) ↦ stored slice
  views : List (Nat × Ref)          -- view handle ↦ `mapDB.realm`
  batches : List (Nat × MBatch)
  known : List Ref                  -- ghost: the buffers the caller holds
deriving Repr

/-- `NewMapDB()`: the root view 0 has the nil realm — buffer 0, empty, not held by the caller. -/
def minit : MSt := { mem := { cells := [(0, [])], next := 1 }, m := [], views := [(0, 0)], batches := [], known := [] }

inductive MOp
  | alloc (b : Bytes)
  | write (r : Ref) (b : Bytes)
  | withRealm (v p : Nat) (r : Ref)
  | withExtendedRealm (v p : Nat) (r : Ref)
  | realm (v : Nat)
  | set (v : Nat) (k x : Ref)
  | get (v : Nat) (k : Ref)
  | has (v : Nat) (k : Ref)
  | del (v : Nat) (k : Ref)
  | delp (v : Nat) (p : Ref)
  | iter (v : Nat) (p : Ref) (d : Dir)
  | iterk (v : Nat) (p : Ref) (d : Dir)
  | batch (b v : Nat)
  | bset (b : Nat) (k x : Ref)
  | bdel (b : Nat) (k : Ref)
  | commit (b : Nat)
  | cancel (b : Nat)
deriving Repr

inductive MOut
  | ok
  | notfound
  | bad                               -- unknown handle / a reference the caller does not hold
  | bool (b : Bool)
  | ref (r : Ref)
  | kvs (l : List (Ref × Ref))        -- consumer calls of Iterate: key slice, value slice
  | keys (l : List Ref)               -- consumer calls of IterateKeys
deriving Repr

/-- One new buffer `[]byte(key)[n:]` per reported key, in call order. -/
def allocKeys (n : Nat) : List Bytes → Mem → Mem × List Ref
  | [], mem => (mem, [])
  | k :: ks, mem =>
    let a := mem.alloc (k.drop n)
    let y := allocKeys n ks a.1
    (y.1, a.2 :: y.2)

/-- The full key of a keyed call: `byteutils.ConcatBytes(s.realm, key)` with both buffers as they read now. -/
def fullKey (s : MSt) (realm k : Ref) : Bytes := s.mem.read realm ++ s.mem.read k

def mstep (s : MSt) : MOp → MSt × MOut
  | .alloc b => let a := s.mem.alloc b; ({ s with mem := a.1, known := a.2 :: s.known }, .ref a.2)
  | .write r b => if r ∈ s.known then ({ s with mem := s.mem.write r b }, .ok) else (s, .bad)
  | .withRealm v p r =>
    match s.views.lookup p with
    | none => (s, .bad)
    | some _ => if r ∈ s.known then ({ s with views := (v, r) :: s.views }, .ok) else (s, .bad)
  | .withExtendedRealm v p r =>
    match s.views.lookup p with
    | none => (s, .bad)
    | some rp =>
      if r ∈ s.known then
        let a := s.mem.alloc (s.mem.read rp ++ s.mem.read r)
        ({ s with mem := a.1, views := (v, a.2) :: s.views }, .ok)
      else (s, .bad)
  | .realm v =>
    match s.views.lookup v with
    | none => (s, .bad)
    | some rv => let a := s.mem.alloc (s.mem.read rv); ({ s with mem := a.1, known := a.2 :: s.known }, .ref a.2)
  | .set v k x =>
    match s.views.lookup v with
    | none => (s, .bad)
    | some rv =>
      if k ∈ s.known ∧ x ∈ s.known then
        let y := mapSet s.mem s.m (fullKey s rv k) x
        ({ s with mem := y.1, m := y.2 }, .ok)
      else (s, .bad)
  | .get v k =>
    match s.views.lookup v with
    | none => (s, .bad)
    | some rv =>
      if k ∈ s.known then
        match rget (fullKey s rv k) s.m with
        | none => (s, .notfound)
        | some r => let a := s.mem.alloc (s.mem.read r); ({ s with mem := a.1, known := a.2 :: s.known }, .ref a.2)
      else (s, .bad)
  | .has v k =>
    match s.views.lookup v with
    | none => (s, .bad)
    | some rv => if k ∈ s.known then (s, .bool (rget (fullKey s rv k) s.m).isSome) else (s, .bad)
  | .del v k =>
    match s.views.lookup v with
    | none => (s, .bad)
    | some rv => if k ∈ s.known then ({ s with m := rdel (fullKey s rv k) s.m }, .ok) else (s, .bad)
  | .delp v p =>
    match s.views.lookup v with
    | none => (s, .bad)
    | some rv => if p ∈ s.known then ({ s with m := rdelPfx (fullKey s rv p) s.m }, .ok) else (s, .bad)
  | .iter v p d =>
    match s.views.lookup v with
    | none => (s, .bad)
    | some rv =>
      if p ∈ s.known then
        let y := copyAll (s.m.filter (fun e => hasPfx (fullKey s rv p) e.1)) s.mem
        let ks := sortBy (dirLt d) (y.2.map (·.1))
        let z := allocKeys (s.mem.read rv).length ks y.1
        ({ s with mem := z.1, known := z.2 ++ (y.2.map (·.2) ++ s.known) },
          .kvs (z.2.zip (ks.map (fun k => (rget k y.2).getD 0))))
      else (s, .bad)
  | .iterk v p d =>
    match s.views.lookup v with
    | none => (s, .bad)
    | some rv =>
      if p ∈ s.known then
        let ks := sortBy (dirLt d) ((s.m.filter (fun e => hasPfx (fullKey s rv p) e.1)).map (·.1))
        let z := allocKeys (s.mem.read rv).length ks s.mem
        ({ s with mem := z.1, known := z.2 ++ s.known }, .keys z.2)
      else (s, .bad)
  | .batch b v =>
    match s.views.lookup v with
    | none => (s, .bad)
    | some rv => ({ s with batches := (b, { realm := rv, sets := [], dels := [] }) :: s.batches }, .ok)
  | .bset b k x =>
    match s.batches.lookup b with
    | none => (s, .bad)
    | some bt =>
      if k ∈ s.known ∧ x ∈ s.known then
        let key := s.mem.read k      -- ConcatBytesToString(key): the bytes the buffer holds NOW
        ({ s with batches := (b, { bt with sets := rset key x bt.sets, dels := bt.dels.filter (· != key) }) :: s.batches }, .ok)
      else (s, .bad)
  | .bdel b k =>
    match s.batches.lookup b with
    | none => (s, .bad)
    | some bt =>
      if k ∈ s.known then
        let key := s.mem.read k
        ({ s with batches := (b, { bt with sets := rdel key bt.sets, dels := key :: bt.dels.filter (· != key) }) :: s.batches }, .ok)
      else (s, .bad)
  | .commit b =>
    match s.batches.lookup b with
    | none => (s, .bad)
    | some bt =>
      let realm := s.mem.read bt.realm     -- the realm buffer as it reads when Commit runs
      let x := commitSets realm bt.sets (s.mem, s.m)
      ({ s with mem := x.1, m := bt.dels.foldr (fun k m => rdel (realm ++ k) m) x.2 }, .ok)
  | .cancel b =>
    match s.batches.lookup b with
    | none => (s, .bad)
    | some bt => ({ s with batches := (b, { bt with sets := [], dels := [] }) :: s.batches }, .ok)

def mrun (s : MSt) : List MOp → MSt
  | [] => s
  | op :: ops => mrun (mstep s op).1 ops

/-- The stored data, by value. -/
def storeView (s : MSt) : AList := deref s.mem s.m

/-- What a batch is going to write, by value, if it were committed now: realm, sets, deletes. -/
def batchView (s : MSt) (bt : MBatch) : Bytes × AList × List Bytes := (s.mem.read bt.realm, deref s.mem bt.sets, bt.dels)

/-- The caller only: requests that make or overwrite buffers. -/
def MOp.isCaller : MOp → Bool
  | .alloc _ => true
  | .write _ _ => true
  | _ => false

/-! ## line protocol (`m …` requests of `drv_c04`)

The harness names the buffers it holds `0, 1, 2, …` in the order it got them (`alloc`, then every buffer a read returned, in
the order key, value per consumer call); `names` maps these numbers to the model's references. -/
open Hive.Proto

structure MDrv where
  s : MSt
  names : List Ref      -- reversed: newest first
deriving Repr

def mdinit : MDrv := { s := minit, names := [] }

def MDrv.ref? (d : MDrv) (n : Nat) : Option Ref :=
  if n < d.names.length then d.names[d.names.length - 1 - n]? else none

def MDrv.add (d : MDrv) (s : MSt) (rs : List Ref) : MDrv := { s := s, names := rs.reverse ++ d.names }

def insertEntry (e : Entry) : List Entry → List Entry
  | [] => [e]
  | x :: xs => if blt e.1 x.1 then e :: x :: xs else x :: insertEntry e xs

def showEntries (l : List Entry) : String := String.join (l.map (fun e => " " ++ hex e.1 ++ ":" ++ hex e.2))

def parseMDir (t : String) : Option Dir := if t == "fwd" then some .fwd else if t == "bwd" then some .bwd else none

def showMOut (d : MDrv) (o : MOut) (s' : MSt) : MDrv × String :=
  match o with
  | .ok => (d.add s' [], "ok")
  | .notfound => (d.add s' [], "notfound")
  | .bad => (d.add s' [], "bad")
  | .bool b => (d.add s' [], showBool b)
  | .ref r => (d.add s' [r], "buf " ++ toString d.names.length ++ " " ++ hex (s'.mem.read r))
  | .kvs l =>
    (d.add s' (l.foldr (fun e acc => e.1 :: e.2 :: acc) []),
      "kvs@" ++ toString d.names.length ++ showEntries (l.map (fun e => (s'.mem.read e.1, s'.mem.read e.2))))
  | .keys l => (d.add s' l, "keys@" ++ toString d.names.length ++ String.join (l.map (fun r => " " ++ hex (s'.mem.read r))))

def mparse (d : MDrv) : List String → Option MOp
  | ["alloc", b] => do pure (.alloc (← unhex b))
  | ["write", n, b] => do pure (.write (← d.ref? (← n.toNat?)) (← unhex b))
  | ["view", v, p, n, "abs"] => do pure (.withRealm (← v.toNat?) (← p.toNat?) (← d.ref? (← n.toNat?)))
  | ["view", v, p, n, "ext"] => do pure (.withExtendedRealm (← v.toNat?) (← p.toNat?) (← d.ref? (← n.toNat?)))
  | ["realm", v] => do pure (.realm (← v.toNat?))
  | ["set", v, k, x] => do pure (.set (← v.toNat?) (← d.ref? (← k.toNat?)) (← d.ref? (← x.toNat?)))
  | ["get", v, k] => do pure (.get (← v.toNat?) (← d.ref? (← k.toNat?)))
  | ["has", v, k] => do pure (.has (← v.toNat?) (← d.ref? (← k.toNat?)))
  | ["del", v, k] => do pure (.del (← v.toNat?) (← d.ref? (← k.toNat?)))
  | ["delp", v, p] => do pure (.delp (← v.toNat?) (← d.ref? (← p.toNat?)))
  | ["iter", v, p, dir] => do pure (.iter (← v.toNat?) (← d.ref? (← p.toNat?)) (← parseMDir dir))
  | ["iterk", v, p, dir] => do pure (.iterk (← v.toNat?) (← d.ref? (← p.toNat?)) (← parseMDir dir))
  | ["batch", b, v] => do pure (.batch (← b.toNat?) (← v.toNat?))
  | ["bset", b, k, x] => do pure (.bset (← b.toNat?) (← d.ref? (← k.toNat?)) (← d.ref? (← x.toNat?)))
  | ["bdel", b, k] => do pure (.bdel (← b.toNat?) (← d.ref? (← k.toNat?)))
  | ["commit", b] => do pure (.commit (← b.toNat?))
  | ["cancel", b] => do pure (.cancel (← b.toNat?))
  | _ => none

/-- `peek N`: what the caller's buffer `N` reads now; `dump`: the stored data in key order (no model request: the harness
reads it through the root view and forgets the buffers); everything else is a request of the model. -/
def mline (d : MDrv) (toks : List String) : MDrv × String :=
  match toks with
  | ["peek", n] =>
    match n.toNat?.bind d.ref? with
    | some r => (d, "bytes " ++ hex (d.s.mem.read r))
    | none => (d, "bad-op")
  | ["dump"] => (d, "dump" ++ showEntries ((storeView d.s).foldr insertEntry []))
  | ["stack", _] => (d, "ok")       -- the wrapper stack over the root: the wrappers forward the very same slices
  | _ =>
    match mparse d toks with
    | none => (d, "bad-op")
    | some op => let r := mstep d.s op; showMOut d r.2 r.1

end Hive.KV.Mem
