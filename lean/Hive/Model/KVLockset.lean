/-!
# C05 — lockset analysis of the lock / field-access skeletons of `kvstore/mapdb` (+ wrappers)

A small static analysis in the style of a lockset ("Eraser") discipline, executable and total, so that the kernel can
evaluate it by `decide` on the token lists that `harness/c05/lockset` regenerates from the Go source
(`Hive/Gen/C05_Lockset.lean`; the analysis reads the `_w` forms, i.e. tokens already split into words, because taking
strings apart is slow in the kernel — only string *comparisons* happen here):

* the flat token list of a function is parsed into a structured skeleton `Prog` (sequence / if-else / loop / closure /
  return / break / continue / lock operations / field accesses) — `parseToks`;
* `an` walks the skeleton once with the abstract set of held locks (`Held`: lock name = owner expression as written,
  mode, "its unlock is deferred") and fails (`Res.err`) on
  - an access to a *guarded* field `T.f` of owner `X` while lock `X` is not held (a write needs write mode), an
    `escape` of a guarded field, an `unresolved` selector with the name of a guarded field;
  - acquiring a lock that is already held, releasing a lock that is not held in that mode (or whose release is deferred);
  - an `if` branch / loop body that does not leave the held set as it found it (unless it ends in return/break/continue);
  - `break` / `continue` with a held set different from the one at loop entry;
  - `return` / end of function while a lock whose unlock is not deferred is held (lock leak);
  - tokens after a `return`/`break`/`continue` in the same block (dead code is not analysed, so it is refused);
  - a closure body (`func{ … }func`, also `go` / `defer func{`) is analysed like a function of its own, from the
    EMPTY held set: it may run at any later time.
* anything the parser does not know (switch / select / labels / goto / unknown tokens) is refused.

The path semantics `Exec` and the trace runner `runTr` at the end of the file are what the soundness theorem
(`Hive/Proofs/KVLockset.lean`) is about.  Core Lean only.
-/

namespace Hive.KV.Lockset

/-! ## Lock state -/

/-- Mode in which a lock is held: `r` = `RLock`, `w` = `Lock`. -/
inductive Mode
  | r | w
  deriving DecidableEq, Repr

/-- One held lock: the owner expression as written (`s`, `b`, `b.kvStore`), its mode, and whether its release has
been registered with `defer` (then it stays held until the function returns, and is released there). -/
structure Entry where
  name : String
  mode : Mode
  deferred : Bool
  deriving DecidableEq, Repr

abbrev Held := List Entry

/-- Events of a skeleton: lock operations and field accesses. -/
inductive Atom
  | lock (x : String)
  | rlock (x : String)
  | unlock (x : String)
  | runlock (x : String)
  | deferUnlock (x : String)
  | deferRUnlock (x : String)
  | read (ty f owner : String)
  | write (ty f owner : String)
  | escape (ty f owner : String)
  | unresolved (f owner : String)
  deriving DecidableEq, Repr

/-- Guard table: pairs (struct type, field).  Field `T.f` of the object denoted by owner expression `X` is guarded
by the mutex embedded in that object, i.e. by the lock named `X`. -/
abbrev Guards := List (String × String)

/-- Is field `f` of struct type `ty` guarded? -/
def guardedQ (g : Guards) (ty f : String) : Bool := g.any fun p => p.1 == ty && p.2 == f

/-- Is `f` the (bare) name of some guarded field? -/
def guardedBare (g : Guards) (f : String) : Bool := g.any fun p => p.2 == f

def heldAny (h : Held) (x : String) : Bool := h.any fun e => e.name == x
def heldW (h : Held) (x : String) : Bool := h.any fun e => e.name == x && e.mode == .w
/-- held in mode `m` and not yet scheduled for release by a `defer` -/
def hasLive (h : Held) (x : String) (m : Mode) : Bool := h.any fun e => e.name == x && e.mode == m && !e.deferred
def release (h : Held) (x : String) (m : Mode) : Held := h.filter fun e => !(e.name == x && e.mode == m && !e.deferred)
def markDeferred (h : Held) (x : String) (m : Mode) : Held :=
  h.map fun e => if e.name == x && e.mode == m && !e.deferred then { e with deferred := true } else e
/-- no lock is held whose release is not deferred (what must hold at a `return`) -/
def allDeferred (h : Held) : Bool := h.all fun e => e.deferred

/-- The locks that are still held after the deferred unlocks have run, i.e. once the function has returned. -/
def heldAtExit (h : Held) : Held := h.filter fun e => !e.deferred

/-- Is event `a` allowed in lock state `h`?  (The safety condition of the discipline.) -/
def okA (g : Guards) (h : Held) : Atom → Bool
  | .lock x => !heldAny h x
  | .rlock x => !heldAny h x
  | .unlock x => hasLive h x .w
  | .runlock x => hasLive h x .r
  | .deferUnlock x => hasLive h x .w
  | .deferRUnlock x => hasLive h x .r
  | .read ty f x => !guardedQ g ty f || heldAny h x
  | .write ty f x => !guardedQ g ty f || heldW h x
  | .escape ty f _ => !guardedQ g ty f
  | .unresolved f _ => !guardedBare g f

/-- Effect of event `a` on the lock state. -/
def stepA (h : Held) : Atom → Held
  | .lock x => ⟨x, .w, false⟩ :: h
  | .rlock x => ⟨x, .r, false⟩ :: h
  | .unlock x => release h x .w
  | .runlock x => release h x .r
  | .deferUnlock x => markDeferred h x .w
  | .deferRUnlock x => markDeferred h x .r
  | _ => h

/-! ## Structured skeleton -/

inductive Prog
  | skip
  | atom (a : Atom)
  | ret
  | brk
  | cont
  | seq (p q : Prog)
  | ite (t e : Prog)
  | loop (b : Prog)
  | closure (b : Prog)
  deriving DecidableEq, Repr

/-- Result of the analysis of a (sub)program from a given held set: failure, "every path through it jumps away"
(return / break / continue), or the held set with which it falls through. -/
inductive Res
  | err
  | jump
  | fall (h : Held)
  deriving DecidableEq, Repr

/-- Verdict on a complete function / closure body. -/
def bodyVerdict : Res → Bool
  | .err => false
  | .jump => true
  | .fall h => allDeferred h

/-- The analysis.  `lc` = held set at the entry of the innermost enclosing loop (`none` outside of loops). -/
def an (g : Guards) : Prog → Option Held → Held → Res
  | .skip, _, h => .fall h
  | .atom a, _, h => if okA g h a then .fall (stepA h a) else .err
  | .ret, _, h => if allDeferred h then .jump else .err
  | .brk, lc, h => if lc = some h then .jump else .err
  | .cont, lc, h => if lc = some h then .jump else .err
  | .seq p q, lc, h =>
    match an g p lc h with
    | .err => .err
    | .jump => if q = .skip then .jump else .err
    | .fall h' => an g q lc h'
  | .ite t e, lc, h =>
    match an g t lc h, an g e lc h with
    | .err, _ => .err
    | _, .err => .err
    | .jump, .jump => .jump
    | .fall h1, .jump => if h1 = h then .fall h else .err
    | .jump, .fall h2 => if h2 = h then .fall h else .err
    | .fall h1, .fall h2 => if h1 = h ∧ h2 = h then .fall h else .err
  | .loop b, _, h =>
    match an g b (some h) h with
    | .err => .err
    | .jump => .fall h
    | .fall h' => if h' = h then .fall h else .err
  | .closure b, _, h => if bodyVerdict (an g b none []) then .fall h else .err

/-- A function body is accepted: analysed from the empty held set, outside of any loop. -/
def fnOk (g : Guards) (p : Prog) : Bool := bodyVerdict (an g p none [])

/-! ## Tokens → skeleton -/

inductive Tok
  | atom (a : Atom)
  | ifOpen | elseMid | ifClose | forOpen | forClose | funcOpen | funcClose
  | ret | brk | cont
  | ignore
  | bad
  deriving DecidableEq, Repr

/-- One token, given as its words (`Hive/Gen/C05_Lockset.lean`, the `_w` forms). -/
def classify (ws : List String) : Tok :=
  match ws with
  | ["lock", x] => .atom (.lock x)
  | ["rlock", x] => .atom (.rlock x)
  | ["unlock", x] => .atom (.unlock x)
  | ["runlock", x] => .atom (.runlock x)
  | ["defer", "unlock", x] => .atom (.deferUnlock x)
  | ["defer", "runlock", x] => .atom (.deferRUnlock x)
  | ["read", ty, f, x] => .atom (.read ty f x)
  | ["write", ty, f, x] => .atom (.write ty f x)
  | ["escape", ty, f, x] => .atom (.escape ty f x)
  | ["unresolved", f, x] => .atom (.unresolved f x)
  | ["if{"] => .ifOpen
  | ["}else{"] => .elseMid
  | ["}if"] => .ifClose
  | ["for{"] => .forOpen
  | ["}for"] => .forClose
  | ["func{"] => .funcOpen
  | ["defer", "func{"] => .funcOpen
  | ["}func"] => .funcClose
  | ["return"] => .ret
  | ["break"] => .brk
  | ["continue"] => .cont
  | ["go"] => .ignore          -- always followed by a func{ … }func group
  | ["new", _] => .ignore
  | _ => .bad

inductive Frame
  | ifThen
  | ifElse (t : Prog)
  | loop
  | func
  deriving Repr

/-- statements collected in reverse order → right-nested sequence ending in `skip` -/
def seqOf (rev : List Prog) : Prog := rev.foldl (fun acc s => .seq s acc) .skip

def parseGo : List Tok → List Prog → List (Frame × List Prog) → Option Prog
  | [], cur, [] => some (seqOf cur)
  | [], _, _ :: _ => none
  | t :: ts, cur, st =>
    match t with
    | .atom a => parseGo ts (.atom a :: cur) st
    | .ret => parseGo ts (.ret :: cur) st
    | .brk => parseGo ts (.brk :: cur) st
    | .cont => parseGo ts (.cont :: cur) st
    | .ignore => parseGo ts cur st
    | .bad => none
    | .ifOpen => parseGo ts [] ((.ifThen, cur) :: st)
    | .forOpen => parseGo ts [] ((.loop, cur) :: st)
    | .funcOpen => parseGo ts [] ((.func, cur) :: st)
    | .elseMid =>
      match st with
      | (.ifThen, outer) :: st' => parseGo ts [] ((.ifElse (seqOf cur), outer) :: st')
      | _ => none
    | .ifClose =>
      match st with
      | (.ifThen, outer) :: st' => parseGo ts (.ite (seqOf cur) .skip :: outer) st'
      | (.ifElse t, outer) :: st' => parseGo ts (.ite t (seqOf cur) :: outer) st'
      | _ => none
    | .forClose =>
      match st with
      | (.loop, outer) :: st' => parseGo ts (.loop (seqOf cur) :: outer) st'
      | _ => none
    | .funcClose =>
      match st with
      | (.func, outer) :: st' => parseGo ts (.closure (seqOf cur) :: outer) st'
      | _ => none

def parseToks (toks : List (List String)) : Option Prog := parseGo (toks.map classify) [] []

/-- The analysis of one function given by its token list (unparsable = refused). -/
def checkToks (g : Guards) (toks : List (List String)) : Bool :=
  match parseToks toks with
  | some p => fnOk g p
  | none => false

/-- Names of the functions the analysis refuses. -/
def failing (g : Guards) (funcs : List (String × List (List String))) : List String :=
  (funcs.filter fun f => !checkToks g f.2).map (·.1)

/-! ## Facts read off the token lists / struct facts -/

def isMutexType (ty : String) : Bool :=
  ty == "sync.RWMutex" || ty == "sync.Mutex" || ty == "*sync.RWMutex" || ty == "*sync.Mutex"

/-- Does the struct (fields as words `[name | "embedded", type, kind]`) embed a `sync` mutex? -/
def embedsMutex (fields : List (List String)) : Bool :=
  fields.any fun f =>
    match f with
    | ["embedded", ty, _] => isMutexType ty
    | _ => false

/-- Guard table derived from the struct facts: every map-typed field of a struct that embeds a `sync` mutex. -/
def deriveGuards (structs : List (String × List (List String))) : Guards :=
  structs.flatMap fun s =>
    if embedsMutex s.2 then
      s.2.filterMap fun f =>
        match f with
        | [name, _, "map"] => some (s.1, name)
        | _ => none
    else []

/-- Does the token touch a guarded field (or, unresolved, the name of one)? -/
def touchesGuarded (g : Guards) (tok : List String) : Bool :=
  match classify tok with
  | .atom (.read ty f _) => guardedQ g ty f
  | .atom (.write ty f _) => guardedQ g ty f
  | .atom (.escape ty f _) => guardedQ g ty f
  | .atom (.unresolved f _) => guardedBare g f
  | _ => false

/-- Names of the functions that contain an access to a guarded field. -/
def accessSites (g : Guards) (funcs : List (String × List (List String))) : List String :=
  (funcs.filter fun f => f.2.any (touchesGuarded g)).map (·.1)

def dedup : List (List String) → List (List String) → List (List String)
  | [], _ => []
  | x :: xs, seen => if seen.contains x then dedup xs seen else x :: dedup xs (x :: seen)

/-- The distinct tokens with one of the given first words, over all functions, in order of first occurrence. -/
def tokensOfKind (kinds : List String) (funcs : List (String × List (List String))) : List (List String) :=
  dedup ((funcs.flatMap (·.2)).filter fun t => kinds.contains (t.headD "")) []

/-- Write / escape tokens: every place where a struct field is assigned, has its address taken, or leaves as a whole. -/
def writeEscapes (funcs : List (String × List (List String))) : List (List String) :=
  tokensOfKind ["write", "escape"] funcs

/-- Tokens that would give a wrapper state or synchronisation of its own. -/
def statefulTokens (funcs : List (String × List (List String))) : List (List String) :=
  tokensOfKind ["lock", "unlock", "rlock", "runlock", "defer", "go", "write", "escape", "unresolved"] funcs

/-- Field kinds (third word of a field fact) over all structs, deduplicated. -/
def fieldKinds (structs : List (String × List (List String))) : List String :=
  (dedup ((structs.flatMap (·.2)).map fun f => [f.getD 2 ""]) []).map fun k => k.headD ""

/-! ## Path semantics (for the soundness theorem) -/

/-- How a path through a skeleton ends. -/
inductive Out
  | norm | ret | brk | cont
  deriving DecidableEq, Repr

/-- `Exec p tr o`: `tr` is the sequence of events of ONE path through `p` — either branch at every `if`, any number of
iterations of every loop, early `return` / `break` / `continue` — ending as `o`.  A closure body is not part of the
path of its function: it is a path of its own (see `bodies`). -/
inductive Exec : Prog → List Atom → Out → Prop
  | skip : Exec .skip [] .norm
  | atom (a : Atom) : Exec (.atom a) [a] .norm
  | ret : Exec .ret [] .ret
  | brk : Exec .brk [] .brk
  | cont : Exec .cont [] .cont
  | seqN {p q t1 t2 o} : Exec p t1 .norm → Exec q t2 o → Exec (.seq p q) (t1 ++ t2) o
  | seqJ {p q t1 o} : Exec p t1 o → o ≠ .norm → Exec (.seq p q) t1 o
  | iteT {t e tr o} : Exec t tr o → Exec (.ite t e) tr o
  | iteE {t e tr o} : Exec e tr o → Exec (.ite t e) tr o
  | loopDone {b} : Exec (.loop b) [] .norm
  | loopIter {b t1 t2 o1 o2} : Exec b t1 o1 → (o1 = .norm ∨ o1 = .cont) → Exec (.loop b) t2 o2 → Exec (.loop b) (t1 ++ t2) o2
  | loopBrk {b t1} : Exec b t1 .brk → Exec (.loop b) t1 .norm
  | loopRet {b t1} : Exec b t1 .ret → Exec (.loop b) t1 .ret
  | closure {b} : Exec (.closure b) [] .norm

/-- The function body itself and the bodies of all closures in it (nested ones included): each of them is executed
as a unit of its own, starting without any lock of its own. -/
def bodies : Prog → List Prog
  | .seq p q => bodies p ++ bodies q
  | .ite t e => bodies t ++ bodies e
  | .loop b => bodies b
  | .closure b => b :: bodies b
  | _ => []

/-- Runs a trace of events from lock state `h`: `none` as soon as an event violates the discipline (`okA`). -/
def runTr (g : Guards) : Held → List Atom → Option Held
  | h, [] => some h
  | h, a :: tr => if okA g h a then runTr g (stepA h a) tr else none

/-- Lock state after a trace, without any check. -/
def stateAfter : Held → List Atom → Held
  | h, [] => h
  | h, a :: tr => stateAfter (stepA h a) tr

end Hive.KV.Lockset
