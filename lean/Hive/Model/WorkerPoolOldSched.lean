import Hive.Model.WorkerPoolOld
/-!
# Named schedules of the WorkerPool model (C16)

Schedules are written as readable moves (`cl i` = client thread `i`, `disp` = the dispatcher,
`wk k j` = worker `k`'s `j`-th enabled alternative) and translated to the `(thread, successor)` index
pairs that `Hive.Conc.runSched` executes.  The driver replays them for the `sched` requests; the
`_witness` theorems of `Hive/Props/C16.lean` are about the resulting literal index lists.
-/
namespace Hive.WPOld
open Hive.Conc
open Hive.WP

inductive Mv
  | cl (i : Nat) | disp (j : Nat := 0) | wk (k : Nat) (j : Nat := 0)
deriving Repr

/-- Index of the move among the successors of its thread (the runner is the last thread). -/
def mvIndex (p : Params) (c : Cfg St Thr) : Mv → Nat × Nat
  | .cl i => (i, 0)
  | .disp j => (c.2.length - 1, j)
  | .wk k j =>
    (c.2.length - 1,
     (dispStep p c.1).length +
       ((List.range k).map (fun i => match c.1.workers[i]? with
          | some w => (wStep p c.1 w).length
          | none => 0)).sum + j)

def schedOf (p : Params) : Cfg St Thr → List Mv → List (Nat × Nat)
  | _, [] => []
  | c, m :: ms => mvIndex p c m :: schedOf p (runSched (sys p) c [mvIndex p c m]) ms

def stuckB (p : Params) (c : Cfg St Thr) : Bool := c.2.all (fun t => ((sys p).step c.1 t).isEmpty)

def countPhase (s : St) (f : Phase → Bool) : Nat := s.tasks.countP (fun x => f x.phase)

/-- Canonical outcome of a finished scenario, printed identically by the Go harness. -/
def outcome (c : Cfg St Thr) : String :=
  let s := c.1
  s!"running={s.running} pending={s.pending} queued={(queuedIds s).length} " ++
  s!"accepted={s.tasks.countP (fun x => x.returned && x.phase != .rejected)} " ++
  s!"rejected={countPhase s (· == .rejected)} runs={countPhase s (· == .done)} " ++
  s!"complete={if wg s = 0 then "yes" else "hang"} zero={if s.pending = 0 then "yes" else "hang"}"

def leaf : Body := .node []

structure Scenario where
  name : String
  p : Params
  scripts : List (List Op)
  moves : List Mv

def Scenario.init (sc : Scenario) : Cfg St Thr := (St.init, mkClients sc.scripts)
def Scenario.sched (sc : Scenario) : List (Nat × Nat) := schedOf sc.p sc.init sc.moves
def Scenario.final (sc : Scenario) : Cfg St Thr := runSched (sys sc.p) sc.init sc.sched

/-- start: st0, stWait1, stLock, stWait2(spawn), stUnlock preceded by the `startcall` step. -/
def startMoves (i : Nat) : List Mv := List.replicate 6 (.cl i)
/-- shutdown with one worker: sdcall, sd1, send, (j = W) → bcast, bcast, unlock. -/
def shutdownMoves (i W : Nat) : List Mv := List.replicate (5 + W) (.cl i)
/-- dispatcher from `loop` into the registered wait on an empty queue. -/
def dispPark : List Mv := [.disp, .disp, .disp, .disp]

/-- **Submit window, variant "lost task"**: the submitter passes the running check, the pool is shut
down *completely*, then the submitter increases the counter and pushes. -/
def scWindowLost : Scenario where
  name := "window-lost"
  p := { W := 1, cancel := false }
  scripts := [[.start], [.submit leaf], [.shutdown, .waitComplete]]
  moves := startMoves 0 ++ dispPark ++ [.cl 1, .cl 1] ++ shutdownMoves 2 1 ++
    -- dispatcher: woken → cond → loop → size → waitZero → close → none ; worker: sel (signal) → drain → exited
    [.disp, .disp, .disp, .disp, .disp, .disp, .wk 0, .wk 0] ++
    -- waitComplete: enter, pass ; submitter: counter++, push, return
    [.cl 2, .cl 2, .cl 1, .cl 1, .cl 1]

/-- **Submit window, variant "shutdown hangs"**: a running task keeps the dispatcher in `WaitIsZero`
while the late push arrives; the pushed task is never dispatched and the counter never reaches zero. -/
def scWindowHang : Scenario where
  name := "window-hang"
  p := { W := 1, cancel := false }
  scripts := [[.start], [.submit leaf], [.submit leaf], [.shutdown, .waitComplete]]
  moves := startMoves 0 ++
    -- task 0 is submitted, dispatched and started (and stays in its worker function for now)
    [.cl 1, .cl 1, .cl 1, .cl 1, .cl 1, .disp, .disp, .disp, .wk 0, .wk 0] ++
    -- task 1's Submit passes the check
    [.cl 2, .cl 2] ++
    -- dispatcher parks on the empty queue; shutdown; dispatcher leaves its loop and waits for zero
    [.disp, .disp, .disp, .disp, .disp] ++ shutdownMoves 3 1 ++ [.disp, .disp, .disp, .disp] ++
    -- task 1: counter++ and push; task 0 ends and is marked done; worker takes the signal and drains
    [.cl 2, .cl 2, .cl 2, .wk 0, .wk 0, .cl 3]

/-- **Lost wake-up**: the dispatcher evaluated the wait condition (running) and has not yet started
to wait when `Shutdown` broadcasts. -/
def scGapLost : Scenario where
  name := "gap-lost"
  p := { W := 1, cancel := false }
  scripts := [[.start], [.shutdown, .waitComplete]]
  moves := startMoves 0 ++ [.disp, .disp, .disp] ++ shutdownMoves 1 1 ++ [.disp, .wk 0, .cl 1]

/-- `Shutdown(); Start()` back to back with the repaired `Start`, then a task. -/
def scRestart : Scenario where
  name := "restart"
  p := { W := 1, cancel := false }
  scripts := [[.start, .shutdown, .start, .submit leaf, .waitZero, .shutdown, .waitComplete]]
  moves := startMoves 0 ++ dispPark ++ shutdownMoves 0 1 ++
    -- second Start: startcall, st0 → stWait1 (blocked until the old goroutines are gone)
    [.cl 0, .cl 0] ++ [.disp, .disp, .disp, .disp, .disp, .disp, .wk 0, .wk 0] ++
    [.cl 0, .cl 0, .cl 0, .cl 0] ++
    -- submit: call, check, counter, push, return ; dispatch and run
    [.cl 0, .cl 0, .cl 0, .cl 0, .cl 0, .disp, .disp, .disp, .wk 0, .wk 0, .wk 0, .wk 0, .cl 0, .cl 0] ++
    dispPark ++ shutdownMoves 0 1 ++ [.disp, .disp, .disp, .disp, .disp, .disp, .wk 0, .wk 0, .cl 0, .cl 0]

/-- The same life cycle with `Start` as it was before the fix: the second `Start` holds the pool
lock while it waits, the dispatcher cannot read `isRunning`. -/
def scOldStart : Scenario where
  name := "old-start"
  p := { W := 1, cancel := false, oldStart := true }
  scripts := [[.start, .shutdown, .start]]
  moves := List.replicate 5 (.cl 0) ++ dispPark ++ shutdownMoves 0 1 ++ [.cl 0, .cl 0, .cl 0, .disp, .wk 0]

/-- The `Start` of b9bfa1a (wait outside the lock, then lock and wait again): client 0 has passed its first
wait when client 1 restarts the pool and stops it again; client 0 then takes the lock of a stopped pool whose
shutdown is not complete and waits while holding it. -/
def scStartRace : Scenario where
  name := "start-race"
  p := { W := 1, cancel := false }
  scripts := [[.start], [.start, .shutdown]]
  moves := [.cl 0, .cl 0, .cl 0] ++ startMoves 1 ++ dispPark ++ shutdownMoves 1 1 ++ [.cl 0, .disp, .wk 0]

def scenarios : List Scenario := [scWindowLost, scWindowHang, scGapLost, scRestart, scOldStart, scStartRace]

end Hive.WPOld
