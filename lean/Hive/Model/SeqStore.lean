import Hive.Model.Seq
/-!
# `kvstore.Sequence` over an arbitrary store layer (C07)

`Hive/Model/Seq.lean` treats the store as one cell that a store call either updates or (ops `failNext` / `failRelease`)
leaves alone while reporting an error.  Here the store is a parameter: a *layer* `L` — whatever stack of views and
wrappers (`mapdb` views, `flushkv`, `debug`, …) the Sequence was given, over a database that can be shut down and opened
again while the object is in use — with its own state, its `Get` / `Set` for the sequence key, environment events
(`close`, `reopen`) and `disk`: what the database holds, i.e. what a process started later will read.

`lstep` is the code of `NewSequence` / `Next` / `update` / `Release` (kvstore/sequence.go) written against `L.get` /
`L.set`, with the crash points of the sequential model and with an optional environment event between the store read and
the store write of `update` (the database is shut down while `Next` is running).

What the Sequence needs from the layer is `Faithful L` — most importantly `set_ack`: **a `Set` that answered nil is in the
database**.  `Hive/Props/C07c.lean` proves that over every faithful layer the machine refines the sequential machine
(so all C07 theorems hold), that the layers of the repository are faithful, and that a layer which acknowledges a write
it did not make (seeded change C07-r5-3 in `flushkv`) lets numbers be handed out twice.
-/
namespace Hive.Seq.Layered
open Hive.Seq

/-- Events on the database below the store stack while the Sequence object lives. -/
inductive Env
  | close     -- the database is shut down: every access answers `ErrStoreClosed`
  | reopen    -- the database is opened again (same content)
  | other (n : Nat)   -- another user of the store does its `n`-th operation (other keys, other realms: Hive/Model/SeqKV.lean)
deriving Repr, DecidableEq

/-- A store layer as the Sequence sees it, for the one key it uses. -/
structure Layer (σ : Type) where
  /-- `store.Get(key)`: `none` = an I/O error; `some none` = `ErrKeyNotFound`; `some (some v)` = 8 bytes decoding to `v`. -/
  get : σ → σ × Option (Option Nat)
  /-- `store.Set(key, be8 v)`: `true` = answered nil. -/
  set : σ → Nat → σ × Bool
  env : Env → σ → σ
  /-- What the database holds under the key: what survives a restart. -/
  disk : σ → Option Nat

/-- **The obligation on the store layer.** -/
structure Faithful {σ : Type} (L : Layer σ) : Prop where
  /-- a write that answered nil is in the database -/
  set_ack : ∀ s v, (L.set s v).2 = true → L.disk (L.set s v).1 = some v
  /-- a write that answered an error changed nothing -/
  set_nak : ∀ s v, (L.set s v).2 = false → L.disk (L.set s v).1 = L.disk s
  /-- a read that answers, answers what the database holds -/
  get_sound : ∀ s v, (L.get s).2 = some v → v = L.disk s
  get_disk : ∀ s, L.disk (L.get s).1 = L.disk s
  /-- shutting the database down and opening it again keeps the content -/
  env_disk : ∀ e s, L.disk (L.env e s) = L.disk s

structure LSt (σ : Type) where
  lay : σ
  obj : Option Obj
  returned : List Nat
  budget : Nat

inductive LOp
  | new (interval : Nat)            -- restart: NewSequence over the same layer and key (abandons a live object)
  | next (between : Option Env)     -- Next; `between`: what happens to the database between update's Get and Set
  | release
  | crash (pt : CrashAt)            -- the process stops at that store-operation boundary (the layer lives on)
  | env (e : Env)                   -- between two calls
deriving Repr, DecidableEq

def LOp.wf : LOp → Prop
  | .new i => 0 < i
  | _ => True

def labandon {σ : Type} (s : LSt σ) : LSt σ :=
  match s.obj with
  | none => s
  | some o => { s with obj := none, budget := s.budget + o.interval }

def applyEnv {σ : Type} (L : Layer σ) : Option Env → σ → σ
  | none, l => l
  | some e, l => L.env e l

/-- `val := seq.next; seq.next++`. -/
def lserve {σ : Type} (s : LSt σ) (o : Obj) : LSt σ :=
  { s with obj := some { o with next := o.next + 1 }, returned := o.next :: s.returned }

def lstep {σ : Type} (L : Layer σ) (s : LSt σ) : LOp → LSt σ × Out
  | .new i => ({ labandon s with obj := some { interval := i, next := 0, reserved := 0 } }, .ok)
  | .env e => ({ s with lay := L.env e s.lay }, .ok)
  | .next b =>
    match s.obj with
    | none => (s, .noobj)
    | some o =>
      if hasLease o then (lserve s o, .num o.next)
      else
        match L.get s.lay with
        | (l1, none) => ({ s with lay := l1 }, .err)                    -- `case err != nil: return err`
        | (l1, some v) =>
          let m := v.getD 0                                             -- `seq.next = 0` / `seq.next = num`
          let l1' := applyEnv L b l1
          if lease m o.interval = 0 then ({ s with lay := l1', obj := some { o with next := m } }, .err)
          else
            match L.set l1' (m + lease m o.interval) with
            | (l2, true) =>
              ({ s with lay := l2, obj := some { o with next := m + 1, reserved := m + lease m o.interval },
                        returned := m :: s.returned }, .num m)
            | (l2, false) => ({ s with lay := l2, obj := some { o with next := m } }, .err)
  | .release =>
    match s.obj with
    | none => (s, .noobj)
    | some o =>
      if hasLease o then
        match L.set s.lay o.next with
        | (l1, true) => ({ s with lay := l1, obj := some { o with reserved := o.next } }, .ok)
        | (l1, false) => ({ s with lay := l1 }, .err)
      else (s, .ok)
  | .crash pt =>
    match s.obj with
    | none => (s, .noobj)
    | some o =>
      match pt with
      | .idle => (labandon s, .crashed)
      | .nextRead =>
        if hasLease o then (labandon { s with returned := o.next :: s.returned }, .num o.next)
        else
          match L.get s.lay with
          | (l1, none) => ({ s with lay := l1 }, .err)                  -- the call returned its error: nothing to crash in
          | (l1, some _) => (labandon { s with lay := l1 }, .crashed)
      | .nextWrite =>
        if hasLease o then (labandon { s with returned := o.next :: s.returned }, .num o.next)
        else
          match L.get s.lay with
          | (l1, none) => ({ s with lay := l1 }, .err)
          | (l1, some v) =>
            let m := v.getD 0
            if lease m o.interval = 0 then ({ s with lay := l1, obj := some { o with next := m } }, .err)
            else
              match L.set l1 (m + lease m o.interval) with
              | (l2, true) => (labandon { s with lay := l2 }, .crashed)
              | (l2, false) => ({ s with lay := l2, obj := some { o with next := m } }, .err)
      | .relWrite =>
        if hasLease o then
          match L.set s.lay o.next with
          | (l1, true) => (labandon { s with lay := l1 }, .crashed)
          | (l1, false) => ({ s with lay := l1 }, .err)
        else (labandon s, .ok)

def lrun {σ : Type} (L : Layer σ) (s : LSt σ) : List LOp → LSt σ × List Out
  | [] => (s, [])
  | op :: ops =>
    let (s', o) := lstep L s op
    let (s'', os) := lrun L s' ops
    (s'', o :: os)

def linit {σ : Type} (l : σ) : LSt σ := { lay := l, obj := none, returned := [], budget := 0 }

/-- The sequential state a layered state stands for: the store cell is what the database holds. -/
def abs {σ : Type} (L : Layer σ) (s : LSt σ) : St :=
  { store := L.disk s.lay, obj := s.obj, returned := s.returned, budget := s.budget }

/-- The operation of the sequential machine a layered step amounts to (`none`: an environment event, no operation). -/
def seqOp {σ : Type} (L : Layer σ) (s : LSt σ) : LOp → Option Op
  | .new i => some (.new i)
  | .env _ => none
  | .next b =>
    match s.obj with
    | none => some .next
    | some o =>
      if hasLease o then some .next
      else
        match L.get s.lay with
        | (_, none) => some (.failNext .get)
        | (l1, some v) =>
          if lease (v.getD 0) o.interval = 0 then some .next
          else if (L.set (applyEnv L b l1) (v.getD 0 + lease (v.getD 0) o.interval)).2 then some .next
          else some (.failNext .set)
  | .release =>
    match s.obj with
    | none => some .release
    | some o => if hasLease o && !(L.set s.lay o.next).2 then some .failRelease else some .release
  | .crash pt =>
    match s.obj with
    | none => some (.crash pt)
    | some o =>
      match pt with
      | .idle => some (.crash .idle)
      | .nextRead =>
        if hasLease o then some (.crash .nextRead)
        else match L.get s.lay with
          | (_, none) => some (.failNext .get)
          | (_, some _) => some (.crash .nextRead)
      | .nextWrite =>
        if hasLease o then some (.crash .nextWrite)
        else match L.get s.lay with
          | (_, none) => some (.failNext .get)
          | (l1, some v) =>
            if lease (v.getD 0) o.interval = 0 then some (.crash .nextWrite)
            else if (L.set l1 (v.getD 0 + lease (v.getD 0) o.interval)).2 then some (.crash .nextWrite)
            else some (.failNext .set)
      | .relWrite =>
        if hasLease o && !(L.set s.lay o.next).2 then some .failRelease else some (.crash .relWrite)

/-! ## The layers of the repository (for the sequence key), over a database that can be shut down -/

structure Disk where
  content : Option Nat
  closed : Bool
deriving Repr, DecidableEq

def denv : Env → Disk → Disk
  | .close, d => { d with closed := true }
  | .reopen, d => { d with closed := false }
  | .other _, d => d        -- seen through the one key of the sequence, the others' operations change nothing

/-- A plain view (`mapdb`, any realm): a closed store answers `ErrStoreClosed` and does nothing. -/
def plainLayer : Layer Disk :=
  { get := fun d => (d, if d.closed then none else some d.content)
    set := fun d v => if d.closed then (d, false) else ({ d with content := some v }, true)
    env := denv
    disk := fun d => d.content }

/-- `flushkv.New(view)`: `Set` = the view's `Set`, its error returned; then `Flush`, whose `ErrStoreClosed` (and only that)
is not an error of the mutation.  `swallow = true` is the seeded change C07-r5-3: the same rule applied to the error of
the mutation itself. -/
def flushLayer (swallow : Bool) : Layer Disk :=
  { get := plainLayer.get
    set := fun d v =>
      match plainLayer.set d v with
      | (d', true) => (d', true)              -- Flush on an open store: nil (on a closed one: ErrStoreClosed, not reported)
      | (d', false) => (d', swallow)          -- the mutation failed with ErrStoreClosed
    env := denv
    disk := fun d => d.content }

/-! ## Wrappers as layer transformers: every stack the module can build

`debug.New(store, callback, filter…)`, `flushkv.New(store)` and the realm views (`WithRealm` / `WithExtendedRealm` of a
wrapper: the same wrapper over the realm view of what it wraps) wrap ANY store.  For the one key the Sequence uses they
are forwarders: -/

/-- The configuration of a debug store: is there a callback, and does the command filter contain `SetCommand` /
`GetCommand`. -/
structure DebugCfg where
  hasCallback : Bool
  reportsSet : Bool
  reportsGet : Bool
deriving Repr, DecidableEq

/-- `debug.New(store, callback, filter…)` (kvstore/debug/debug.go: `if s.accessCallback != nil && filter.HasBits(SetCommand)
{ s.accessCallback(SetCommand, key, value) }; return s.underlying.Set(key, value)`): in EVERY configuration the call is
forwarded; the callback sees it but cannot change it.  `forwardUnreported = false` is the seeded change C07-r6-3: a `Set`
that is not reported is not forwarded either and answers nil. -/
def debugLayer {σ : Type} (forwardUnreported : Bool) (c : DebugCfg) (L : Layer σ) : Layer σ :=
  { get := L.get
    set := fun s v => if (c.hasCallback && c.reportsSet) || forwardUnreported then L.set s v else (s, true)
    env := L.env
    disk := L.disk }

/-- `flushkv.New(store)` over any store: the error of the mutation is returned; `Flush` after a mutation that took effect
reports nothing the Sequence could act on (its `ErrStoreClosed` is not an error of the mutation).  `swallow = true`: seeded
change C07-r5-3. -/
def flushWrap {σ : Type} (swallow : Bool) (L : Layer σ) : Layer σ :=
  { get := L.get
    set := fun s v =>
      match L.set s v with
      | (s', true) => (s', true)
      | (s', false) => (s', swallow)
    env := L.env
    disk := L.disk }

inductive Wrapper
  | debug (c : DebugCfg)
  | flush
  | realm          -- a realm view made through the wrappers below: for the one key another prefix of the same database
deriving Repr, DecidableEq

def wrap {σ : Type} : Wrapper → Layer σ → Layer σ
  | .debug c, L => debugLayer true c L
  | .flush, L => flushWrap false L
  | .realm, L => L

/-- The stack `ws` (outermost first) over the store `L`. -/
def stackLayer {σ : Type} (ws : List Wrapper) (L : Layer σ) : Layer σ := ws.foldr wrap L

end Hive.Seq.Layered
