import Hive.Spec.WorkerPool
import Hive.Conc.Sys
/-!
# VARIANTS of the WorkerPool protocol model (copy of `Hive/Model/WorkerPool.lean` with two switches)

Only for the witnesses of `Hive/Props/C16Old.lean`: two small changes of the code that the real model must
distinguish.
* `swapHasWork`: `hasWork()` reads the pending counter BEFORE `isRunning` (`pending > 0 || IsRunning()`); the real
  code and the real model read `isRunning` first, as two separate steps.
* `signalOne`: `Stack.SignalShutdown` uses `elementAdded.Signal()` (wakes ONE waiter: the dispatcher or a foreign
  `Queue.WaitSizeIsAbove` caller) instead of `Broadcast()`.
With both switches off this is the real model.
-/
namespace Hive.WPVar
open Hive.Conc
open Hive.WP

structure Params where
  W : Nat                   -- workerCount
  cancel : Bool             -- optCancelPendingTasksOnShutdown
  swapHasWork : Bool := false
  signalOne : Bool := false

/-- A task's body: the tasks it submits (to the same pool) while it runs. -/
inductive Body
  | node : List Body → Body

def Body.kids : Body → List Body
  | .node cs => cs

inductive Phase
  | fresh       -- Submit called, running-check not yet made
  | counted     -- found running and counted (one step under the read lock), not yet pushed  [verif hook sits here]
  | queued      -- in the queue
  | popped      -- taken by the dispatcher, not yet sent
  | inchan      -- in the dispatch channel
  | running     -- worker function entered
  | ran         -- worker function returned, markDone not yet executed
  | done        -- markDone executed after a run
  | cancelling  -- received by a draining worker with cancel-on-shutdown, markDone not yet executed
  | cancelled   -- markDone executed without a run
  | rejected    -- check said "not running"
deriving DecidableEq, Repr

/-- Phases in which the task is counted in the pending counter. -/
def Phase.pending : Phase → Bool
  | .counted | .queued | .popped | .inchan | .running | .ran | .cancelling => true
  | _ => false

structure Task where
  phase : Phase
  returned : Bool       -- its Submit call has returned (or panicked) to the caller
  kids : List Body

inductive DPc
  | none | loop | chk | pop | cond | cond2 | gap | waiting | send (t : Nat) | close
deriving DecidableEq, Repr

inductive WPc
  | sel                 -- workerReadLoop: non-blocking look at the shutdown signal
  | sel2                -- workerReadLoop: blocking select (signal | task | closed)
  | drain               -- handleShutdown: receive until closed
  | run (t : Nat) (todo : List Body) (sub : Option Nat) (dr : Bool)
  | mark (t : Nat) (dr : Bool)
  | signal (dr : Bool)  -- decreasePendingTasks reached zero: Queue.SignalShutdown is due
  | exited              -- deferred liveWorkers.Add(-1) / ShutdownComplete.Done executed

def WPc.isExited : WPc → Bool
  | .exited => true
  | _ => false

structure St where
  running : Bool := false
  writer : Bool := false      -- pool mutex write-held
  pending : Nat := 0          -- PendingTasksCounter
  stackHeld : Bool := false   -- Queue.mutex held (only the dispatcher keeps it across steps)
  dwait : Bool := false       -- dispatcher registered on Queue.elementAdded and not yet woken
  fwait : Nat := 0            -- foreign goroutines registered on Queue.elementAdded (Queue.WaitSizeIsAbove callers)
  fwoken : Nat := 0           -- of those: woken by a broadcast and not yet resumed
  sig : Nat := 0              -- buffered shutdown signals
  closed : Bool := false      -- dispatcherChan closed
  tasks : List Task := []
  disp : DPc := .none
  workers : List WPc := []
  -- ghosts
  due : Nat := 0              -- `Queue.SignalShutdown` calls that are owed (by a Shutdown, or by a decrease to zero)
  broken : Bool := false      -- Start spawned although an old dispatcher / channel content existed
  starts : Nat := 0
  sdcalls : Nat := 0
  sent : Nat := 0             -- shutdown signals sent by the current generation's Shutdown
  log : List Ev := []
  mon : Option Mon := some Mon.init

def St.init : St := {}

def emit (p : Params) (e : Ev) (s : St) : St :=
  { s with log := s.log ++ [e], mon := s.mon.bind (fun m => monStep p.cancel m e) }

/-- `elementAdded.Broadcast()`: the dispatcher (if registered) and every foreign waiter are woken. -/
def bcast (s : St) : St := { s with dwait := false, fwoken := s.fwoken + s.fwait, fwait := 0 }

/-- `Queue.SignalShutdown()`: a broadcast, or (variant) a signal to one waiter — the alternatives. -/
def signalShutdown (p : Params) (s : St) : List St :=
  if p.signalOne then
    (if s.dwait then [{ s with dwait := false }] else []) ++
    (if 0 < s.fwait then [{ s with fwait := s.fwait - 1, fwoken := s.fwoken + 1 }] else []) ++
    (if s.dwait = false ∧ s.fwait = 0 then [s] else [])
  else [bcast s]

def phaseOf (s : St) (t : Nat) : Option Phase := (s.tasks[t]?).map (·.phase)

def setPhase (s : St) (t : Nat) (ph : Phase) : St :=
  match s.tasks[t]? with
  | some x => { s with tasks := s.tasks.set t { x with phase := ph } }
  | none => s

def setReturned (s : St) (t : Nat) : St :=
  match s.tasks[t]? with
  | some x => { s with tasks := s.tasks.set t { x with returned := true } }
  | none => s

def kidsOf (s : St) (t : Nat) : List Body :=
  match s.tasks[t]? with
  | some x => x.kids
  | none => []

/-- Indices of the tasks in a given phase. -/
def idsIn (ph : Phase) : List Task → Nat → List Nat
  | [], _ => []
  | x :: xs, i => if x.phase = ph then i :: idsIn ph xs (i + 1) else idsIn ph xs (i + 1)

def queuedIds (s : St) : List Nat := idsIn .queued s.tasks 0
def chanIds (s : St) : List Nat := idsIn .inchan s.tasks 0

/-- `ShutdownComplete`'s counter: workers that have not executed their deferred `Done`. -/
def wg (s : St) : Nat := s.workers.countP (fun w => !w.isExited)

/-- `Submit` is called: the task gets its id. -/
def newTask (p : Params) (s : St) (kids : List Body) : St × Nat :=
  (emit p (.call s.tasks.length) { s with tasks := s.tasks ++ [{ phase := .fresh, returned := false, kids := kids }] },
   s.tasks.length)

/-- One step of `Submit` for task `t`; the flag says that the call has returned. -/
def submitStep (p : Params) (s : St) (t : Nat) : List (St × Bool) :=
  match s.tasks[t]? with
  | none => []
  | some x =>
    if x.returned then [] else
    match x.phase with
    | .fresh =>
      if s.writer then []
      else if s.running then
        [(emit p (.up (s.pending + 1)) { setPhase s t .counted with pending := s.pending + 1 }, false)]
      else [(setPhase s t .rejected, false)]
    | .rejected => [(emit p (.rej t) (setReturned s t), true)]
    | .counted =>
      if s.stackHeld then []
      else [(bcast (setPhase s t .queued), false)]
    | _ => [(emit p (.acc t) (setReturned s t), true)]

/-- `PopOrWait` with the stack mutex in hand: pop some queued task, or go on to the condition callback. -/
def popOrCond (s : St) : List St :=
  if queuedIds s = [] then [{ s with stackHeld := true, disp := .cond }]
  else (queuedIds s).map (fun t => { setPhase s t .popped with stackHeld := false, disp := .send t })

def dispStep (p : Params) (s : St) : List St :=
  match s.disp with
  | .none => []
  | .loop =>
    if p.swapHasWork then [{ s with disp := if 0 < s.pending then .pop else .chk }]
    else if s.writer then [] else [{ s with disp := if s.running then .pop else .chk }]
  | .chk =>
    if p.swapHasWork then (if s.writer then [] else [{ s with disp := if s.running then .pop else .close }])
    else [{ s with disp := if 0 < s.pending then .pop else .close }]
  | .pop => if s.stackHeld then [] else popOrCond s
  | .cond =>
    if p.swapHasWork then [{ s with disp := if 0 < s.pending then .gap else .cond2 }]
    else if s.writer then [] else [{ s with disp := if s.running then .gap else .cond2 }]
  | .cond2 =>
    if p.swapHasWork then
      (if s.writer then [] else if s.running then [{ s with disp := .gap }] else [{ s with stackHeld := false, disp := .loop }])
    else if 0 < s.pending then [{ s with disp := .gap }]
    else [{ s with stackHeld := false, disp := .loop }]
  | .gap => [{ s with stackHeld := false, dwait := true, disp := .waiting }]
  | .waiting => if s.dwait || s.stackHeld then [] else popOrCond s
  | .send t =>
    if (chanIds s).length < p.W ∧ s.closed = false ∧ phaseOf s t = some .popped
    then [{ setPhase s t .inchan with disp := .loop }] else []
  | .close => [{ s with closed := true, disp := .none }]

def takeRun (p : Params) (s : St) (dr : Bool) (t : Nat) : St × WPc :=
  (emit p (.rs t) (setPhase s t .running), .run t (kidsOf s t) none dr)

/-- `markDone`: close `doneChan`, `decreasePendingTasks`; a decrease to zero owes a signal to the queue. -/
def markDone (p : Params) (s : St) (t : Nat) (ph : Phase) (dr : Bool) : St × WPc :=
  if s.pending = 1 then
    (emit p (.dn 0) { setPhase s t ph with pending := 0, due := s.due + 1 }, .signal dr)
  else
    (emit p (.dn (s.pending - 1)) { setPhase s t ph with pending := s.pending - 1 }, if dr then .drain else .sel)

def wStep (p : Params) (s : St) : WPc → List (St × WPc)
  | .sel => if 0 < s.sig then [({ s with sig := s.sig - 1 }, .drain)] else [(s, .sel2)]
  | .sel2 =>
    (if 0 < s.sig then [({ s with sig := s.sig - 1 }, .drain)] else []) ++
    (chanIds s).map (takeRun p s false) ++
    (if s.closed ∧ chanIds s = [] then [(s, .drain)] else [])
  | .drain =>
    (chanIds s).map (fun t => if p.cancel then (setPhase s t .cancelling, .mark t true) else takeRun p s true t) ++
    (if s.closed ∧ chanIds s = [] then [(s, .exited)] else [])
  | .run t todo sub dr =>
    match sub with
    | some c => (submitStep p s c).map (fun r => (r.1, .run t todo (if r.2 then none else some c) dr))
    | none =>
      match todo with
      | b :: rest => [((newTask p s b.kids).1, .run t rest (some (newTask p s b.kids).2) dr)]
      | [] => if phaseOf s t = some .running then [(emit p (.re t) (setPhase s t .ran), .mark t dr)] else []
  | .mark t dr =>
    match phaseOf s t with
    | some .ran => [markDone p s t .done dr]
    | some .cancelling => [markDone p s t .cancelled true]
    | _ => []
  | .signal dr =>
    if s.stackHeld then []
    else (signalShutdown p s).map (fun s1 => ({ s1 with due := s.due - 1 }, if dr then .drain else .sel))
  | .exited => []

/-- The pool's goroutines: the dispatcher or any worker takes a step. -/
def runnerStep (p : Params) (s : St) : List St :=
  dispStep p s ++
  (List.range s.workers.length).flatMap (fun i =>
    match s.workers[i]? with
    | some w => (wStep p s w).map (fun r => { r.1 with workers := r.1.workers.set i r.2 })
    | none => [])

inductive Op
  | submit (b : Body) | shutdown | start | waitComplete | waitZero
  | waitAbove (n : Nat)   -- `Queue.WaitSizeIsAbove(n)` on the pool's exported queue (a foreign waiter on `elementAdded`)

inductive CPc
  | idle | sub (t : Nat)
  | sd1 | sdSend (j : Nat) | sdUnlockS | sdUnlockN | sdBcast
  | stTry | stWait
  | wc | wz
  | wa (n : Nat) | waSleep (n : Nat)
deriving DecidableEq, Repr

structure Client where
  pc : CPc
  script : List Op

/-- `startIfStopped`'s spawn under the pool write lock. -/
def spawn (p : Params) (s : St) : St :=
  { s with running := true, closed := false, disp := .loop, workers := List.replicate p.W .sel,
           starts := s.starts + 1, sent := 0,
           broken := s.broken || s.disp != .none || !(chanIds s).isEmpty }

def clientStep (p : Params) (s : St) (c : Client) : List (St × Client) :=
  match c.pc with
  | .idle =>
    match c.script with
    | [] => []
    | .submit b :: rest => [((newTask p s b.kids).1, ⟨.sub (newTask p s b.kids).2, rest⟩)]
    | .shutdown :: rest => [(emit p .sdcall { s with sdcalls := s.sdcalls + 1 }, ⟨.sd1, rest⟩)]
    | .start :: rest => [(emit p .startcall s, ⟨.stTry, rest⟩)]
    | .waitComplete :: rest => [(s, ⟨.wc, rest⟩)]
    | .waitZero :: rest => [(s, ⟨.wz, rest⟩)]
    | .waitAbove n :: rest => [(s, ⟨.wa n, rest⟩)]
  | .sub t => (submitStep p s t).map (fun r => (r.1, ⟨if r.2 then .idle else .sub t, c.script⟩))
  -- Shutdown: `stop()` under the write lock ...
  | .sd1 =>
    if s.writer then []
    else if s.running then
      [({ s with writer := true, running := false, due := s.due + 1 }, ⟨.sdSend 0, c.script⟩)]
    else [({ s with writer := true }, ⟨.sdUnlockN, c.script⟩)]
  | .sdSend j =>
    if j < p.W then
      (if s.sig < p.W then [({ s with sig := s.sig + 1, sent := s.sent + 1 }, ⟨.sdSend (j + 1), c.script⟩)] else [])
    else [(s, ⟨.sdUnlockS, c.script⟩)]
  | .sdUnlockS => [({ s with writer := false }, ⟨.sdBcast, c.script⟩)]
  | .sdUnlockN => [(emit p .sdret { s with writer := false }, ⟨.idle, c.script⟩)]
  -- ... then `Queue.SignalShutdown()` (under the stack mutex) outside the pool lock
  | .sdBcast =>
    if s.stackHeld then []
    else (signalShutdown p s).map (fun s1 => (emit p .sdret { s1 with due := s.due - 1 }, ⟨.idle, c.script⟩))
  -- Start: `for !startIfStopped() { [hook] ShutdownComplete.Wait() }`
  | .stTry =>
    if s.writer then []
    else if s.running then [(emit p .startret s, ⟨.idle, c.script⟩)]
    else if wg s = 0 then [(emit p .startret (spawn p s), ⟨.idle, c.script⟩)]
    else [(s, ⟨.stWait, c.script⟩)]
  | .stWait => if wg s = 0 then [(s, ⟨.stTry, c.script⟩)] else []
  | .wc => if wg s = 0 then [(emit p .complete s, ⟨.idle, c.script⟩)] else []
  | .wz => if s.pending = 0 then [(s, ⟨.idle, c.script⟩)] else []
  -- Queue.WaitSizeIsAbove(n): lock; while len <= n { elementAdded.Wait() }; unlock
  | .wa n =>
    if s.stackHeld then []
    else if n < (queuedIds s).length then [(s, ⟨.idle, c.script⟩)]
    else [({ s with fwait := s.fwait + 1 }, ⟨.waSleep n, c.script⟩)]
  | .waSleep n => if 0 < s.fwoken then [({ s with fwoken := s.fwoken - 1 }, ⟨.wa n, c.script⟩)] else []

inductive Thr
  | client (c : Client)
  | runner

def sys (p : Params) : Sys St Thr where
  step s
    | .client c => (clientStep p s c).map (fun r => (r.1, .client r.2))
    | .runner => (runnerStep p s).map (fun s' => (s', .runner))

/-- A client thread that has executed its whole script. -/
def Thr.finished : Thr → Bool
  | .client ⟨.idle, []⟩ => true
  | .runner => true
  | _ => false

/-- A client blocked in `ShutdownComplete.Wait()` — directly, or in `Start`'s wait for the previous
shutdown (legitimately so while the pool is running again). -/
def Thr.atWaitComplete : Thr → Bool
  | .client ⟨.wc, _⟩ => true
  | .client ⟨.stWait, _⟩ => true
  | _ => false

/-- A client asleep in `Queue.WaitSizeIsAbove` (legitimately so while the queue is not that long). -/
def Thr.atQueueWait : Thr → Bool
  | .client ⟨.waSleep _, _⟩ => true
  | _ => false

def mkClients (scripts : List (List Op)) : List Thr :=
  scripts.map (fun sc => .client ⟨.idle, sc⟩) ++ [.runner]

end Hive.WPVar
