import Hive.Base.Proto
import Hive.Conc.Sys
/-!
# Model of the one-shot `promise.Event1` (runtime/promise/event.go) for C15

`callbacks` is the collection that `Trigger` swaps for nil under the mutex (here: `value = some v`
means triggered); `OnTrigger` registers under the mutex while the collection is non-nil and calls
the callback inline otherwise; the returned unsubscribe function deletes the callback while the
collection is non-nil.

Two models: a sequential machine for the line-by-line differential run (section `pr`), and a
protocol model (`sys`) with any number of concurrent registrars, triggerers and unsubscribers in
which every critical section is one step and every callback invocation is one step.
-/
namespace Hive.Promise

/-! ## sequential machine -/

/-- One invocation: callback `cb` (or, with `child`, the callback that `cb` registered from inside
its own invocation) was called with `arg`. -/
structure Call where
  cb : Nat
  child : Bool
  arg : Nat
deriving Repr, DecidableEq

structure St where
  value : Option Nat           -- `some v` once triggered with v (callbacks == nil)
  cbs : List (Nat × Bool)      -- registered callbacks (handle, registers-a-child-when-called)
  next : Nat
deriving Repr

def init : St := { value := none, cbs := [], next := 0 }

inductive Op
  | on (nest : Bool)
  | unsub (c : Nat)
  | trigger (v : Nat)
  | was
deriving Repr, DecidableEq

inductive Out
  | reg (c : Nat) (calls : List Call)
  | done
  | trig (first : Bool) (calls : List Call)
  | was (b : Bool)
deriving Repr, DecidableEq

/-- Invoking callback `c` with `v` after the event was triggered: a nesting callback registers a
child from inside, which is called inline at once. -/
def invoke (c : Nat) (nest : Bool) (v : Nat) : List Call :=
  if nest then [⟨c, false, v⟩, ⟨c, true, v⟩] else [⟨c, false, v⟩]

def step (s : St) : Op → St × Out
  | .on nest =>
    match s.value with
    | some v => ({ s with next := s.next + 1 }, .reg s.next (invoke s.next nest v))
    | none => ({ s with cbs := s.cbs ++ [(s.next, nest)], next := s.next + 1 }, .reg s.next [])
  | .unsub c =>
    match s.value with
    | some _ => (s, .done)
    | none => ({ s with cbs := s.cbs.filter (fun x => x.1 != c) }, .done)
  | .trigger v =>
    match s.value with
    | some _ => (s, .trig false [])
    | none => ({ s with value := some v, cbs := [] }, .trig true (s.cbs.flatMap (fun x => invoke x.1 x.2 v)))
  | .was => (s, .was s.value.isSome)

def final (s : St) (ops : List Op) : St := ops.foldl (fun s op => (step s op).1) s

def outs : St → List Op → List Out
  | _, [] => []
  | s, op :: ops => (step s op).2 :: outs (step s op).1 ops

def Out.calls : Out → List Call
  | .reg _ cs => cs
  | .trig _ cs => cs
  | _ => []

/-! ## protocol model -/
open Hive.Conc

structure Sh where
  cbs : Option (List Nat)       -- `none` = nil = triggered
  value : Option Nat
  log : List (Nat × Nat)        -- invocations (callback id, argument), newest first
  removed : List Nat            -- ghost: callbacks deleted by an unsubscribe that found them
deriving Repr, DecidableEq

inductive Th
  | reg (c : Nat)                    -- OnTrigger(c): before its critical section
  | regCall (c : Nat)                -- OnTrigger(c): found nil, about to call c inline
  | regDone (c : Nat)
  | trig (v : Nat)                   -- Trigger(v): before its critical section
  | trigCall (v : Nat) (rest : List Nat)   -- Trigger(v): swapped, calling the collected callbacks
  | trigDone (first : Bool)
  | unsub (c : Nat)
  | unsubDone
deriving Repr, DecidableEq

def step' (s : Sh) : Th → List (Sh × Th)
  | .reg c =>
    match s.cbs with
    | none => [(s, .regCall c)]
    | some l => [({ s with cbs := some (c :: l) }, .regDone c)]
  | .regCall c =>
    match s.value with
    | some v => [({ s with log := (c, v) :: s.log }, .regDone c)]
    | none => []    -- unreachable: `callbacks == nil` implies the value was stored
  | .trig v =>
    match s.cbs with
    | none => [(s, .trigDone false)]
    | some l => [({ s with cbs := none, value := some v }, .trigCall v l)]
  | .trigCall v (c :: rest) => [({ s with log := (c, v) :: s.log }, .trigCall v rest)]
  | .trigCall _ [] => [(s, .trigDone true)]
  | .unsub c =>
    match s.cbs with
    | none => [(s, .unsubDone)]
    | some l => [({ s with cbs := some (l.erase c), removed := if l.contains c then c :: s.removed else s.removed }, .unsubDone)]
  | .regDone _ => []
  | .trigDone _ => []
  | .unsubDone => []

def sys : Sys Sh Th := { step := step' }

def init' : Sh := { cbs := some [], value := none, log := [], removed := [] }

def Th.initial : Th → Bool
  | .reg _ => true
  | .trig _ => true
  | .unsub _ => true
  | _ => false

def Th.finished : Th → Bool
  | .regDone _ => true
  | .trigDone _ => true
  | .unsubDone => true
  | _ => false

/-- The callback id a registrar thread is responsible for. -/
def Th.regId : Th → Option Nat
  | .reg c => some c
  | .regCall c => some c
  | .regDone c => some c
  | _ => none

/-! ## line protocol (`pr …` sequential, `pt …` stress traces) -/
open Hive.Proto

def parseOp : List String → Option Op
  | ["on"] => some (.on false)
  | ["on", "nest"] => some (.on true)
  | ["unsub", c] => c.toNat?.map .unsub
  | ["trigger", v] => v.toNat?.map .trigger
  | ["was"] => some .was
  | _ => none

def showCall (c : Call) : String :=
  (if c.child then "n" else "") ++ toString c.cb ++ ":" ++ toString c.arg

def showCalls (cs : List Call) : String := "[" ++ " ".intercalate (cs.map showCall) ++ "]"

def showOut : Out → String
  | .reg c cs => s!"c{c} {showCalls cs}"
  | .done => "done"
  | .trig b cs => s!"{showBool b} {showCalls cs}"
  | .was b => showBool b

def stepLine (s : St) (toks : List String) : St × String :=
  match parseOp toks with
  | some op => let (s', o) := step s op; (s', showOut o)
  | none => (s, "bad-op")

end Hive.Promise
