import Hive.Model.C12aMap
/-!
# Model of `stack.Stack` (ds/stack/simple_stack.go, threadsafe_stack.go) for C12

Both flavours are the same slice (the thread-safe one wraps the simple one in a mutex; sequentially
it is the same machine): `Push` appends, `Pop`/`Peek` use the last element, `Clear` re-slices to
length 0.  The abstract model is the LIFO list with the top at the head.
-/
namespace Hive.C12a.Stack

abbrev St := List Nat

def init : St := []

inductive Op
  | push (x : Nat) | pop | peek | clear | size | isEmpty
deriving Repr, DecidableEq

inductive Out
  | ok | val (v : Option Nat) | nat (n : Nat) | bool (b : Bool)
deriving Repr, DecidableEq

def step (s : St) : Op → St × Out
  | .push x => (s ++ [x], .ok)
  | .pop =>
    if s.length == 0 then (s, .val none)
    else (s.take (s.length - 1), .val (some (s.getD (s.length - 1) 0)))
  | .peek =>
    if s.length == 0 then (s, .val none) else (s, .val (some (s.getD (s.length - 1) 0)))
  | .clear => (s.take 0, .ok)
  | .size => (s, .nat s.length)
  | .isEmpty => (s, .bool (s.length == 0))

def run (s : St) : List Op → St × List Out
  | [] => (s, [])
  | op :: ops =>
    let r := step s op
    let r' := run r.1 ops
    (r'.1, r.2 :: r'.2)

/-! ## abstract model: LIFO, top first -/

def specStep (a : List Nat) : Op → List Nat × Out
  | .push x => (x :: a, .ok)
  | .pop => (a.tail, .val a.head?)
  | .peek => (a, .val a.head?)
  | .clear => ([], .ok)
  | .size => (a, .nat a.length)
  | .isEmpty => (a, .bool a.isEmpty)

def specRun (a : List Nat) : List Op → List Nat × List Out
  | [] => (a, [])
  | op :: ops =>
    let r := specStep a op
    let r' := specRun r.1 ops
    (r'.1, r.2 :: r'.2)

/-! ## line protocol (`stack …`) -/
open Hive.Proto Hive.C12a

def showOut : Out → String
  | .ok => "ok"
  | .val v => showOptVal v
  | .nat n => toString n
  | .bool b => showBool b

/-- White-box state printed after every answer: the slice, bottom first. -/
def showState (s : St) : String := showNatList (s.take 64)

def stepLine (s : St) (toks : List String) : St × String :=
  match toks with
  | ["new", _] => (init, "ok")
  | ["push", x] => match x.toNat? with | some x => let r := step s (.push x); (r.1, showOut r.2) | none => (s, "bad-op")
  | ["pop"] => let r := step s .pop; (r.1, showOut r.2)
  | ["peek"] => let r := step s .peek; (r.1, showOut r.2)
  | ["clear"] => let r := step s .clear; (r.1, showOut r.2)
  | ["size"] => let r := step s .size; (r.1, showOut r.2)
  | ["isempty"] => let r := step s .isEmpty; (r.1, showOut r.2)
  | _ => (s, "bad-op")

end Hive.C12a.Stack
