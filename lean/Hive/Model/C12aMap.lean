import Hive.Base.Proto
/-!
# Finite maps as association lists (shared by the C12 part-A models)

Go's built-in `map[K]V` is modelled as an association list over `Nat` keys.  Iteration order of a
Go map is unspecified; every observation that iterates a map is compared up to order (both sides
print it sorted).  `set` replaces the first binding of the key or appends a new one, `del` removes
every binding of the key, so `get_set` / `get_del` hold without any invariant; `NoDupKeys` (kept as
a separate invariant) makes `length` the number of keys.
-/
namespace Hive.C12a

abbrev AL (β : Type) := List (Nat × β)

namespace AL

variable {β : Type}

def get : AL β → Nat → Option β
  | [], _ => none
  | (k', v) :: t, k => if k' = k then some v else get t k

def has (m : AL β) (k : Nat) : Bool := (get m k).isSome

def set : AL β → Nat → β → AL β
  | [], k, v => [(k, v)]
  | (k', v') :: t, k, v => if k' = k then (k, v) :: t else (k', v') :: set t k v

def del (m : AL β) (k : Nat) : AL β := m.filter (fun p => p.1 != k)

def keys (m : AL β) : List Nat := m.map (·.1)

def NoDupKeys (m : AL β) : Prop := (keys m).Nodup

end AL

/-! ## printing helpers shared by the part-A drivers -/
open Hive.Proto

def sortNat (l : List Nat) : List Nat := l.mergeSort (fun a b => decide (a ≤ b))

def sortPairs (l : List (Nat × Nat)) : List (Nat × Nat) :=
  l.mergeSort (fun a b => decide (a.1 < b.1 ∨ (a.1 = b.1 ∧ a.2 ≤ b.2)))

def showPairs (l : List (Nat × Nat)) : String :=
  "[" ++ " ".intercalate (l.map (fun p => s!"{p.1}:{p.2}")) ++ "]"

def showOptVal : Option Nat → String
  | none => "none"
  | some v => toString v

def parseBool : String → Option Bool
  | "true" => some true
  | "false" => some false
  | _ => none

def parseNats : List String → Option (List Nat)
  | [] => some []
  | t :: ts => do
      let n ← t.toNat?
      let r ← parseNats ts
      pure (n :: r)

end Hive.C12a
