import Hive.Model.SerixPrim
/-!
# The object-based calls of serializer/serializer.go: `WriteObject/ReadObject`, `WritePayload/ReadPayload`,
# `WriteSliceOfObjects/ReadSliceOfObjects`

These calls move `serializer.Serializable` objects through the two sticky-error chains of
`Hive/Model/SerixPrim.lean` (`Ser`, `De`).  The objects are a parameter of the API; the harness part `c01/obj`
uses one family: an object is a type code (written with a denotation of one or four bytes), a length byte and that
many data bytes; `Serialize` refuses data longer than 255 bytes, `Deserialize` checks the code and the lengths.
The guards are parameters too: the write guard refuses the codes of a deny list, the read guard (`serSel`) admits
the codes of an allow list and hands out an empty object of that code, the post-read guard refuses objects whose
data starts with a given byte.  Everything the harness's objects and guards refuse is the error class `item`.

Modelled as the code is: `WriteObject` calls its guard only with validation (and panics on a nil guard then),
`WritePayload` calls a non-nil guard in every mode and writes `uint32(len)` in front, a nil payload is the length 0;
`WriteSliceOfObjects` guards and serialises element by element, then is `WriteSliceOfByteSlices`;
`ReadObject` peeks the code (`GetObjectType`), asks the read guard, lets the object deserialize itself from the
remaining input and advances by what it reports; `ReadPayload` advances over the length even when it fails
afterwards, treats length 0 as "no payload", needs five bytes of payload (`MinPayloadByteSize`), and requires the object to
consume exactly the denoted length; `ReadSliceOfObjects` is `ReadSequenceOfObjects` with an item reader that runs
`readObject` on a sub-deserializer, collects the seen codes, applies the post-read guard (both only with
validation), and checks `MustOccur ⊆ seen` at the end (an error without sentinel).
-/
namespace Hive.Serix
open Hive.Proto

structure Obj where
  den : Den
  code : Nat
  data : Bytes
deriving Repr, DecidableEq

/-- `Serialize` of the harness's objects. -/
def Obj.ser (o : Obj) : Option Bytes :=
  if o.data.length > 255 then none
  else some (leBytes o.den.width o.code ++ UInt8.ofNat o.data.length :: o.data)

/-- `Deserialize` of an empty object of code `code`: the object read and the bytes consumed. -/
def objDeser (den : Den) (code : Nat) (b : Bytes) : Except EK (Obj × Nat) :=
  if b.length < den.width then .error .item
  else if leNat (b.take den.width) != code % 256 ^ den.width then .error .typeMismatch
  else match b.drop den.width with
    | [] => .error .item
    | n :: rest =>
      if rest.length < n.toNat then .error .item
      else .ok ({ den := den, code := code, data := rest.take n.toNat }, den.width + 1 + n.toNat)

/-- The read guard (`serSel`) over an allow list. -/
def selOk (allow : List Nat) (ty : Nat) : Bool := allow.contains ty

/-! ## Writers -/

inductive OW where
  /-- `WriteObject`; `deny = none`: a nil guard. -/
  | obj (validation : Bool) (deny : Option (List Nat)) (o : Obj)
  /-- `WritePayload`; `o = none`: a nil payload. -/
  | payload (deny : Option (List Nat)) (o : Option Obj)
  /-- `WriteSliceOfObjects`; `deny = none`: no write guard in the rules. -/
  | slice (lp : LP) (r : Rules) (validation : Bool) (deny : Option (List Nat)) (os : List Obj)
deriving Repr

/-- A write guard over a deny list (`none`: no guard). -/
def denied : Option (List Nat) → Nat → Bool
  | some d, c => d.contains c
  | none, _ => false

/-- Guard and `Serialize`, element by element: the serialised elements or the first refusal. -/
def serAll (guard : Option (List Nat)) : List Obj → Option (List Bytes)
  | [] => some []
  | o :: os =>
    if denied guard o.code then none
    else match o.ser with
      | none => none
      | some b => match serAll guard os with
        | none => none
        | some bs => some (b :: bs)

def owOp : OW → WOut
  | .obj validation deny o =>
    match validation, deny with
    | true, none => .panic
    | true, some d =>
      if d.contains o.code then .done [] (some .item)
      else (match o.ser with | none => .done [] (some .item) | some b => .done b none)
    | false, _ => (match o.ser with | none => .done [] (some .item) | some b => .done b none)
  | .payload _ none => .done (leBytes 4 0) none
  | .payload deny (some o) =>
    if denied deny o.code then .done [] (some .item)
    else match o.ser with
      | none => .done [] (some .item)
      | some b => .done (leBytes 4 b.length ++ b) none
  | .slice lp r validation deny os =>
    match serAll (if validation then deny else none) os with
    | none => .done [] (some .item)
    | some data => wOp (.seq lp r validation data)

def Ser.ostep (s : Ser) (op : OW) : Option Ser :=
  if s.err.isSome then some s
  else match owOp op with
    | .done bs e => some { buf := s.buf ++ bs, err := e }
    | .panic => none

/-! ## Readers -/

/-- What an object reader hands to its target. -/
inductive OV where
  | one (o : Option Obj)
  | many (os : List Obj)
deriving Repr

inductive OROut where
  | done (v : Option OV) (adv : Nat) (err : Option EK)
  | panic
deriving Repr

/-- `readObject` on the input `b`: the object, its code and the bytes consumed. -/
def readObj (den : Den) (allow : List Nat) (b : Bytes) : Except EK (Obj × Nat) :=
  if b.length < den.width then .error .notEnoughData
  else
    let ty := leNat (b.take den.width)
    if !selOk allow ty then .error .item
    else objDeser den ty b

/-- The post-read guard: refuses objects whose data starts with the given byte (`none`: no guard). -/
def postDenied : Option Nat → Obj → Bool
  | some x, o => o.data.head? == some (UInt8.ofNat x)
  | none, _ => false

/-- The item loop of `ReadSequenceOfObjects` with the item reader of `ReadSliceOfObjects`: objects read, offset
advance, error.  A refused item leaves the offset in front of it, an item the element validators refuse has been
consumed (and — the item reader having returned — appended to the collected objects). -/
def oLoop (den : Den) (allow : List Nat) (post : Option Nat) (r : Rules) (validation : Bool) :
    Nat → VSt → Bytes → List Obj × Nat × Option EK
  | 0, _, _ => ([], 0, none)
  | k + 1, st, b =>
    match readObj den allow b with
    | .error e => ([], 0, some e)
    | .ok (o, n) =>
      if validation && postDenied post o then
        ([], 0, some .item)
      else match (if validation then vErr r st (b.take n) else none) with
        | some e => ([o], n, some e)
        | none =>
          let (os, m, e) := oLoop den allow post r validation k (vNext r st (b.take n)) (b.drop n)
          (o :: os, n + m, e)

inductive OR where
  | obj (den : Den) (allow : List Nat)
  | payload (allow : List Nat)
  | slice (lp : LP) (den : Den) (r : Rules) (validation : Bool) (allow : List Nat) (post : Option Nat)
deriving Repr

def orOp (rem : Bytes) : OR → OROut
  | .obj den allow =>
    match readObj den allow rem with
    | .error e => .done none 0 (some e)
    | .ok (o, n) => .done (some (.one (some o))) n none
  | .payload allow =>
    if rem.length < 4 then .done none 0 (some .notEnoughData) else
    let len := leNat (rem.take 4)
    let rem' := rem.drop 4
    if len == 0 then .done (some (.one none)) 4 none
    else if rem'.length < 5 then .done none 4 (some .notEnoughData)
    else if rem'.length < len then .done none 4 (some .notEnoughData)
    else
      let ty := leNat (rem'.take 4)
      if !selOk allow ty then .done none 4 (some .item)
      else match objDeser .u32 ty rem' with
        | .error e => .done none 4 (some e)
        | .ok (o, n) =>
          if n != len then .done none 4 (some .invalidBytes)
          else .done (some (.one (some o))) (4 + n) none
  | .slice lp den r validation allow post =>
    match lp.width with
    | none => .panic
    | some w =>
      if rem.length < w then .done none 0 (some .notEnoughData) else
      let count := leNat (rem.take w)
      match (if validation then boundsErr r count else none) with
      | some e => .done none w (some e)
      | none =>
        let (os, m, e) := oLoop den allow post r validation count {} (rem.drop w)
        match e with
        | some e => .done none (w + m) (some e)
        | none =>
          if validation && !(r.mustOccur.all ((os.map (·.code)).contains ·)) then .done none (w + m) (some .other)
          else .done (some (.many os)) (w + m) none

def De.ostep (d : De) (op : OR) : Option (De × Option OV) :=
  if d.err.isSome then some (d, none)
  else match orOp (d.src.drop d.off) op with
    | .done v adv e => some ({ d with off := d.off + adv, err := e }, v)
    | .panic => none

/-! ## Line protocol (driver `drv_c01`, harness `harness/c01/obj`)

`o new` · `o wobj v|n DENY DEN CODE HEX` · `o wpay DENY nil` · `o wpay DENY DEN CODE HEX` ·
`o wslice LP v|n|vs|ns MIN MAX FLAGS MUST DENY DEN (CODE:HEX)*` → `<Written()> <class | ->` or `panic`; `o ser` → `ok HEX` |
`err CLASS`.  `o rnew HEX` · `o robj DEN ALLOW` · `o rpay ALLOW` · `o rslice LP v|n|vs|ns MIN MAX FLAGS MUST DEN ALLOW POST`
→ `<value | -> <offset> <class | ->`; `o rdone` → `<offset> <class | ->`.  Chain helpers: `o h do` · `o h abortif 0|1` ·
`o h wv v|n 0|1` → `called|skipped|given:HEX <Written()> <class | ->`; `o rh …` the same on the Deserializer →
`called|skipped|given:HEX <offset> <class | ->`.  Lists of numbers: `1,2,3`, `-` for the empty
list, `nil` for "no guard".  Objects print as `CODE:HEX`, a missing payload as `nil`. -/

def parseNatList (s : String) : Option (List Nat) :=
  if s == "-" then some [] else (s.splitOn ",").mapM (·.toNat?)

def parseGuard (s : String) : Option (Option (List Nat)) :=
  if s == "nil" then some none else (parseNatList s).map some

def parseObjTok (den : Den) (s : String) : Option Obj :=
  match s.splitOn ":" with
  | [c, h] => do pure { den := den, code := ← c.toNat?, data := ← unhex h }
  | _ => none

def parseObjs (den : Den) : List String → Option (List Obj)
  | [] => some []
  | t :: ts => do pure ((← parseObjTok den t) :: (← parseObjs den ts))

def parseOW : List String → Option OW
  | ["wobj", mode, deny, den, code, h] => do
    let (v, _) ← parseMode mode
    pure (.obj v (← parseGuard deny) { den := ← parseDenS den, code := ← code.toNat?, data := ← unhex h })
  | ["wpay", deny, "nil"] => do pure (.payload (← parseGuard deny) none)
  | ["wpay", deny, den, code, h] => do
    pure (.payload (← parseGuard deny) (some { den := ← parseDenS den, code := ← code.toNat?, data := ← unhex h }))
  | "wslice" :: lp :: mode :: mn :: mx :: fl :: must :: deny :: den :: objs => do
    let (v, s) ← parseMode mode
    let r ← parseRulesFlat mn mx fl s
    pure (.slice (← parseLPs lp) { r with mustOccur := ← parseNatList must } v (← parseGuard deny)
      (← parseObjs (← parseDenS den) objs))
  | _ => none

def parseOR : List String → Option OR
  | ["robj", den, allow] => do pure (.obj (← parseDenS den) (← parseNatList allow))
  | ["rpay", allow] => do pure (.payload (← parseNatList allow))
  | ["rslice", lp, mode, mn, mx, fl, must, den, allow, post] => do
    let (v, s) ← parseMode mode
    let r ← parseRulesFlat mn mx fl s
    let p ← (if post == "nil" then some none else post.toNat?.map some)
    pure (.slice (← parseLPs lp) (← parseDenS den) { r with mustOccur := ← parseNatList must } v (← parseNatList allow) p)
  | _ => none

/-! ## Chain helpers: `Do`, `AbortIf`, `WithValidation` of both chains

None of them touches the buffer / the offset.  `Do(f)` calls `f` iff no error is stored; `AbortIf(p)` calls `p(nil)` iff no
error is stored and stores what it returns; `WithValidation(mode, p)` calls `p` iff no error is stored **and** the mode has
the validation bit — with the bytes written so far (`Serializer`) / the bytes consumed so far, `src[:offset]`
(`Deserializer`) — and stores what it returns.  The harness's producers return the `item` error or nil. -/

inductive Helper where
  | run
  | abortIf (fail : Bool)
  | withValidation (validation : Bool) (fail : Bool)
deriving Repr, DecidableEq

/-- What a helper does given the stored error and the bytes a `WithValidation` producer would be handed: is the callback
called (and with which bytes, for `WithValidation`), and the error stored afterwards. -/
def helperStep (err : Option EK) (bytes : Bytes) : Helper → Option Bytes × Option EK
  | .run => if err.isSome then (none, err) else (some [], err)
  | .abortIf fail => if err.isSome then (none, err) else (some [], if fail then some .item else none)
  | .withValidation validation fail =>
    if err.isSome || !validation then (none, err) else (some bytes, if fail then some .item else none)

def Ser.helper (s : Ser) (h : Helper) : Ser × Option Bytes :=
  let (called, e) := helperStep s.err s.buf h
  ({ s with err := e }, called)

def De.helper (d : De) (h : Helper) : De × Option Bytes :=
  let (called, e) := helperStep d.err (d.src.take d.off) h
  ({ d with err := e }, called)

def parseHelper : List String → Option Helper
  | ["do"] => some .run
  | ["abortif", "0"] => some (.abortIf false)
  | ["abortif", "1"] => some (.abortIf true)
  | ["wv", mode, f] => do
    let (v, _) ← parseMode mode
    match f with
    | "0" => some (.withValidation v false)
    | "1" => some (.withValidation v true)
    | _ => none
  | _ => none

def showCalled (h : Helper) : Option Bytes → String
  | none => "skipped"
  | some b => match h with
    | .withValidation _ _ => "given:" ++ hex b
    | _ => "called"

def showObj (o : Obj) : String := s!"{o.code}:{hex o.data}"

def showOV : Option OV → String
  | none => "-"
  | some (.one none) => "nil"
  | some (.one (some o)) => showObj o
  | some (.many os) => "[" ++ ",".intercalate (os.map showObj) ++ "]"

def stepObj (s : PSt) : List String → PSt × String
  | ["new"] => ({ s with ser := {} }, "ok")
  | ["ser"] => (s, match s.ser.serialize with | .ok b => "ok " ++ hex b | .error e => "err " ++ e.name)
  | ["rnew", h] =>
    match unhex h with
    | some b => ({ s with de := { src := b } }, "ok")
    | none => (s, "bad-op")
  | ["rdone"] => (s, s!"{s.de.off} {showEK s.de.err}")
  | "h" :: rest =>
    match parseHelper rest with
    | some h => let (s', c) := s.ser.helper h; ({ s with ser := s' }, s!"{showCalled h c} {showSer s'}")
    | none => (s, "bad-op")
  | "rh" :: rest =>
    match parseHelper rest with
    | some h => let (d, c) := s.de.helper h; ({ s with de := d }, s!"{showCalled h c} {d.off} {showEK d.err}")
    | none => (s, "bad-op")
  | toks =>
    match parseOW toks with
    | some op =>
      match s.ser.ostep op with
      | some s' => ({ s with ser := s' }, showSer s')
      | none => (s, "panic")
    | none =>
      match parseOR toks with
      | some op =>
        match s.de.ostep op with
        | some (d, v) => ({ s with de := d }, s!"{if d.err.isSome then "-" else showOV v} {d.off} {showEK d.err}")
        | none => (s, "panic")
      | none => (s, "bad-op")

/-- Lines of the three protocols behind `drv_c01`: `o …` object calls, `w …` / `r …` primitive chains (shared with
`drv_c03`), everything else the serix model. -/
def stepLine4 (s : Option Ty × PSt) (toks : List String) : (Option Ty × PSt) × String :=
  match toks with
  | "o" :: rest =>
    let (p, o) := stepObj s.2 rest
    ((s.1, p), o)
  | _ => stepLine3 s toks

end Hive.Serix
