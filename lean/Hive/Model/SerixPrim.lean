import Hive.Model.SerixProto
/-!
# The `Serializer` / `Deserializer` chains of serializer/serializer.go, one layer below serix

`Hive/Model/Serix.lean` uses the primitives of this file's subject (`leBytes`, `writeLen`, `readLen`,
`validSeq`, `encSeq`, `timeToU64`, …) as its leaves.  Here the two chain objects are modelled as they are:

* `Serializer`: a buffer and a **sticky error** — every `WriteX` is skipped once an error is stored;
  `Written()`, `Serialize()`.  `WriteSliceOfByteSlices` validates element `i` right before it writes
  element `i`, so an error leaves the prefix and the elements before `i` in the buffer (visible through
  `Written()`).
* `Deserializer`: source, offset and a sticky error; every `ReadX` with the offset it leaves behind **also
  when it fails** (`readSliceLength` advances before the bounds are checked, `ReadString` keeps going after
  a bounds violation, `ReadSequenceOfObjects` stops in front of the failing item or behind the item the
  validator refuses), `ReadPayloadLength` / `GetObjectType` (not guarded by the sticky error, they return
  their error instead of storing it), `Skip`, `CheckTypePrefix` (truncating the code to a byte for the
  small denotation), `ConsumedAll`, `Done`, `RemainingBytes`.
* the element validators of `ArrayRules.ElementValidationFunc` as the **state machines** they are (a map
  of seen elements, a previous element, maps of seen type bytes / type words), chained in the order of
  the mode bits; `Hive/Proofs/SerixPrim.lean` proves that a run of the machine over the elements accepts
  iff the declarative `validSeq` of the serix model holds.
* errors are classified by the sentinel they wrap (`errors.Is`), class `other` for errors without one.

Values of a failing machine step are never used, so only the class of the first failing validator matters.
-/
namespace Hive.Serix
open Hive.Proto

/-- The sentinel errors of serializer/error.go an error can be classified by with `errors.Is`. -/
inductive EK where
  | notEnoughData | invalidBool | typeMismatch
  | sliceTooLong | sliceTooShort | strTooLong | strTooShort
  | lenMax | lenMin
  | u256Nil | u256Neg | u256Big
  | arrMin | arrMax | arrOrder | arrUnique | arrTypeUnique | invalidBytes
  | notAllConsumed
  /-- the harness's item reader refused the item -/
  | item
  /-- an error that wraps no sentinel (length out of the prefix range, `binary.Write` of an unsupported type) -/
  | other
deriving Repr, DecidableEq

def EK.name : EK → String
  | .notEnoughData => "not-enough-data" | .invalidBool => "invalid-bool" | .typeMismatch => "type-mismatch"
  | .sliceTooLong => "slice-too-long" | .sliceTooShort => "slice-too-short"
  | .strTooLong => "string-too-long" | .strTooShort => "string-too-short"
  | .lenMax => "len-max" | .lenMin => "len-min"
  | .u256Nil => "u256-nil" | .u256Neg => "u256-negative" | .u256Big => "u256-too-big"
  | .arrMin => "arr-min" | .arrMax => "arr-max" | .arrOrder => "arr-order" | .arrUnique => "arr-unique"
  | .arrTypeUnique => "arr-type-unique" | .invalidBytes => "invalid-bytes"
  | .notAllConsumed => "not-all-consumed" | .item => "item" | .other => "other"

/-! ## Element validators as state machines -/

/-- The captured variables of the closures `ArrayRules.ElementValidationFunc` chains. -/
structure VSt where
  /-- `ElementUniqueValidator`: keys of `set`. -/
  set : List Bytes := []
  /-- `LexicalOrderValidator` / `LexicalOrderWithoutDupsValidator`: the previous element (`none`: no
  element yet.  `LexicalOrderValidator` tests `prev == nil`, which also holds for a previous element that
  was a nil slice; such an element is empty, `bytes.Compare(empty, next) ≤ 0`, and both branches store
  `next` — the confusion has no effect, `lexLe_nil`). -/
  prev : Option Bytes := none
  /-- `AtMostOneOfEachTypeValidator(TypeDenotationByte)`: keys of `seen`, as the first byte. -/
  seen8 : List Bytes := []
  /-- `AtMostOneOfEachTypeValidator(TypeDenotationUint32)`: keys of `seen`, as the first four bytes. -/
  seen32 : List Bytes := []
deriving Repr

/-- `ElementUniqueValidator` (chained only without lexical ordering). -/
def chkU (r : Rules) (st : VSt) (x : Bytes) : Option EK :=
  if r.noDups && !r.lex then (if st.set.contains x then some .arrUnique else none) else none

/-- `LexicalOrderValidator`, or `LexicalOrderWithoutDupsValidator` when duplicates are forbidden as well
(`bytes.Compare(prev, next)`: 1 — order violation, 0 — duplicate). -/
def chkL (r : Rules) (st : VSt) (x : Bytes) : Option EK :=
  if r.lex then
    match st.prev with
    | none => none
    | some p =>
      if r.noDups then (if !lexLe p x then some .arrOrder else if p == x then some .arrUnique else none)
      else (if !lexLe p x then some .arrOrder else none)
  else none

/-- `AtMostOneOfEachTypeValidator` with a denotation of `w` bytes. -/
def chkT (on : Bool) (w : Nat) (seen : List Bytes) (x : Bytes) : Option EK :=
  if on then (if x.length < w then some .invalidBytes else if seen.contains (x.take w) then some .arrTypeUnique else none)
  else none

/-- First failing validator of the chain for `next`, in the order of the mode bits (no-duplicates — only
without lexical ordering —, lexical order with or without duplicates, type byte, type word). -/
def vErr (r : Rules) (st : VSt) (next : Bytes) : Option EK :=
  (chkU r st next).orElse fun _ => (chkL r st next).orElse fun _ =>
    (chkT r.one8 1 st.seen8 next).orElse fun _ => chkT r.one32 4 st.seen32 next

/-- The captured variables after an accepted element. -/
def vNext (r : Rules) (st : VSt) (next : Bytes) : VSt :=
  { set := if r.noDups && !r.lex then next :: st.set else st.set,
    prev := if r.lex then some next else st.prev,
    seen8 := if r.one8 then next.take 1 :: st.seen8 else st.seen8,
    seen32 := if r.one32 then next.take 4 :: st.seen32 else st.seen32 }

/-- The validators over the elements in order: the elements accepted before the first refusal, and the
refusal. -/
def vRun (r : Rules) : VSt → List Bytes → List Bytes × Option EK
  | _, [] => ([], none)
  | st, x :: xs =>
    match vErr r st x with
    | some e => ([], some e)
    | none => let (acc, e) := vRun r (vNext r st x) xs; (x :: acc, e)

/-- `ArrayRules.CheckBounds`: the minimum is tested first. -/
def boundsErr (r : Rules) (n : Nat) : Option EK :=
  if r.min != 0 && n < r.min then some .arrMin
  else if r.max != 0 && n > r.max then some .arrMax
  else none

/-! ## Serializer -/

/-- What one `WriteX` call does to a serializer without a stored error: the bytes it appends and the
error it stores (both can happen: `WriteSliceOfByteSlices`), or a panic. -/
inductive WOut where
  | done (bs : Bytes) (err : Option EK)
  | panic
deriving Repr, DecidableEq

inductive WOp where
  /-- `WriteNum` with a value of a `w`-byte integer / float type (floats as bit patterns). -/
  | num (w : Nat) (x : Int)
  /-- `WriteNum` with a value `binary.Write` cannot handle (an `int`, a string). -/
  | numBad
  | bool (b : Bool)
  | byte (x : Nat)
  | fixed (bs : Bytes)
  | varBytes (lp : LP) (mn mx : Nat) (bs : Bytes)
  | str (lp : LP) (mn mx : Nat) (bs : Bytes)
  | time (x : Int)
  | u256 (x : Option Int)
  | payloadLen (n : Nat)
  | code (c : Code)
  /-- `WriteSliceOfByteSlices`; `r.autoSort` carries `DeSeriModePerformLexicalOrdering`. -/
  | seq (lp : LP) (r : Rules) (validation : Bool) (items : List Bytes)
deriving Repr

/-- `writeSliceLength`: an unknown prefix type panics, a length out of range is an error without sentinel. -/
def wLen (lp : LP) (l : Nat) : WOut :=
  match lp.width with
  | none => .panic
  | some w => if l < 256 ^ w then .done (leBytes w l) none else .done [] (some .other)

def wOp : WOp → WOut
  | .num w x => .done (leBytes w (x % (256 : Int) ^ w).toNat) none
  | .numBad => .done [] (some .other)
  | .bool b => .done [if b then 1 else 0] none
  | .byte x => .done [UInt8.ofNat x] none
  | .fixed bs => .done bs none
  | .varBytes lp mn mx bs =>
    if mx > 0 && bs.length > mx then .done [] (some .sliceTooLong)
    else if mn > 0 && bs.length < mn then .done [] (some .sliceTooShort)
    else match wLen lp bs.length with
      | .done p none => .done (p ++ bs) none
      | o => o
  | .str lp mn mx bs =>
    if mx > 0 && bs.length > mx then .done [] (some .strTooLong)
    else if mn > 0 && bs.length < mn then .done [] (some .strTooShort)
    else match wLen lp bs.length with
      | .done p none => .done (p ++ bs) none
      | o => o
  | .time x => .done (leBytes 8 (timeToU64 x)) none
  | .u256 none => .done [] (some .u256Nil)
  | .u256 (some x) =>
    if x < 0 then .done [] (some .u256Neg)
    else if x ≥ (2 : Int) ^ 256 then .done [] (some .u256Big)
    else .done (leBytes 32 x.toNat) none
  | .payloadLen n => .done (leBytes 4 n) none
  | .code c => .done c.bytes none
  | .seq lp r validation items =>
    match (if validation then boundsErr r items.length else none) with
    | some e => .done [] (some e)
    | none =>
      match wLen lp items.length with
      | .done p none =>
        let data := if r.autoSort && r.lex then sortBytes items else items
        if validation then
          let (acc, e) := vRun r {} data
          .done (p ++ acc.flatten) e
        else .done (p ++ data.flatten) none
      | o => o

structure Ser where
  buf : Bytes := []
  err : Option EK := none
deriving Repr

/-- One call in a `Serializer` chain (`none`: the call panicked). -/
def Ser.step (s : Ser) (op : WOp) : Option Ser :=
  if s.err.isSome then some s
  else match wOp op with
    | .done bs e => some { buf := s.buf ++ bs, err := e }
    | .panic => none

def Ser.run (s : Ser) : List WOp → Option Ser
  | [] => some s
  | op :: ops => match s.step op with
    | some s' => s'.run ops
    | none => none

/-- `Serialize()`. -/
def Ser.serialize (s : Ser) : Except EK Bytes :=
  match s.err with
  | some e => .error e
  | none => .ok s.buf

/-! ## Deserializer -/

inductive PV where
  | int (x : Int)
  | bytes (bs : Bytes)
  | items (xs : List Bytes)
  | unit
deriving Repr

inductive ROp where
  | num (w : Nat) (signed : Bool)
  | bool
  | byte
  /-- `ReadBytes(n)` and `ReadBytesInPlace` of an `n`-byte slice. -/
  | fixed (n : Nat)
  | varBytes (lp : LP) (mn mx : Nat)
  | str (lp : LP) (mn mx : Nat)
  | time
  | u256
  | code (c : Code)
  | skip (n : Nat)
  /-- `ReadSequenceOfObjects` with the item reader of the harness (a length byte and that many bytes). -/
  | seq (lp : LP) (r : Rules) (validation : Bool)
  | consumedAll
deriving Repr

/-- What one `ReadX` call does to a deserializer without a stored error: the value handed to the
destination, the advance of the offset and the error stored — or a panic. -/
inductive ROut where
  | done (v : Option PV) (adv : Nat) (err : Option EK)
  | panic
deriving Repr

/-- The item reader the harness passes to `ReadSequenceOfObjects`. -/
def itemLen : Bytes → Option Nat
  | [] => none
  | n :: rest => if rest.length < n.toNat then none else some (1 + n.toNat)

/-- The item loop with the validators inside: items read, offset advance, error.  A refused item leaves
the offset in front of it, an item the validators refuse has been consumed. -/
def rLoop (r : Rules) (validation : Bool) : Nat → VSt → Bytes → List Bytes × Nat × Option EK
  | 0, _, _ => ([], 0, none)
  | k + 1, st, b =>
    match itemLen b with
    | none => ([], 0, some .item)
    | some n =>
      match (if validation then vErr r st (b.take n) else none) with
      | some e => ([b.take n], n, some e)
      | none =>
        let (xs, m, e) := rLoop r validation k (vNext r st (b.take n)) (b.drop n)
        (b.take n :: xs, n + m, e)

/-- `rem`: the bytes behind the offset. -/
def rOp (rem : Bytes) (total off : Nat) : ROp → ROut
  | .num w signed =>
    if rem.length < w then .done none 0 (some .notEnoughData)
    else .done (some (.int (if signed then toSigned w (leNat (rem.take w)) else leNat (rem.take w)))) w none
  | .bool =>
    match rem with
    | [] => .done none 0 (some .notEnoughData)
    | x :: _ => if x == 0 then .done (some (.int 0)) 1 none else if x == 1 then .done (some (.int 1)) 1 none
                else .done none 0 (some .invalidBool)
  | .byte =>
    match rem with
    | [] => .done none 0 (some .notEnoughData)
    | x :: _ => .done (some (.int x.toNat)) 1 none
  | .fixed n =>
    if rem.length < n then .done none 0 (some .notEnoughData) else .done (some (.bytes (rem.take n))) n none
  | .varBytes lp mn mx =>
    match lp.width with
    | none => .panic
    | some w =>
      if rem.length < w then .done none 0 (some .notEnoughData) else
      let l := leNat (rem.take w)
      if mx > 0 && l > mx then .done none w (some .lenMax)
      else if mn > 0 && l < mn then .done none w (some .lenMin)
      else if (rem.drop w).length < l then .done none w (some .notEnoughData)
      else .done (some (.bytes ((rem.drop w).take l))) (w + l) none
  | .str lp mn mx =>
    match lp.width with
    | none => .panic
    | some w =>
      if rem.length < w then .done none 0 (some .notEnoughData) else
      let l := leNat (rem.take w)
      -- a bounds violation is stored and the call goes on
      let e : Option EK := if mx > 0 && l > mx then some .lenMax else if mn > 0 && l < mn then some .lenMin else none
      if (rem.drop w).length < l then .done none w (some .notEnoughData)
      else .done (some (.bytes ((rem.drop w).take l))) (w + l) e
  | .time =>
    if rem.length < 8 then .done none 0 (some .notEnoughData)
    else .done (some (.int (timeOfU64 (leNat (rem.take 8))))) 8 none
  | .u256 =>
    if rem.length < 32 then .done none 0 (some .notEnoughData)
    else .done (some (.int (leNat (rem.take 32)))) 32 none
  | .code c =>
    -- CheckType / CheckTypeByte(byte(prefix)), then Skip
    if rem.length < c.den.width then .done none 0 (some .notEnoughData)
    else if leNat (rem.take c.den.width) == c.n % 256 ^ c.den.width then .done none c.den.width none
    else .done none 0 (some .typeMismatch)
  | .skip n =>
    if rem.length < n then .done none 0 (some .notEnoughData) else .done none n none
  | .seq lp r validation =>
    match lp.width with
    | none => .panic
    | some w =>
      if rem.length < w then .done none 0 (some .notEnoughData) else
      let count := leNat (rem.take w)
      match (if validation then boundsErr r count else none) with
      | some e => .done none w (some e)
      | none =>
        let (xs, m, e) := rLoop r validation count {} (rem.drop w)
        .done (some (.items xs)) (w + m) e
  | .consumedAll =>
    if total != off then .done none 0 (some .notAllConsumed) else .done none 0 none

structure De where
  src : Bytes := []
  off : Nat := 0
  err : Option EK := none
deriving Repr

/-- One call in a `Deserializer` chain: the new state and the value the destination received. -/
def De.step (d : De) (op : ROp) : Option (De × Option PV) :=
  if d.err.isSome then some (d, none)
  else match rOp (d.src.drop d.off) d.src.length d.off op with
    | .done v adv e => some ({ d with off := d.off + adv, err := e }, v)
    | .panic => none

/-- `ReadPayloadLength`: not guarded by the stored error and not storing its own. -/
def De.payloadLen (d : De) : De × Except EK Nat :=
  let rem := d.src.drop d.off
  if rem.length < 4 then (d, .error .notEnoughData) else ({ d with off := d.off + 4 }, .ok (leNat (rem.take 4)))

/-- `GetObjectType` (`none`: `TypeDenotationNone`). -/
def De.objectType (d : De) (den : Option Den) : Except EK Nat :=
  let rem := d.src.drop d.off
  match den with
  | none => .ok 0
  | some dn => if rem.length < dn.width then .error .notEnoughData else .ok (leNat (rem.take dn.width))

/-! ## Line protocol (driver `drv_c03`, harness `harness/c03/prim`)

`w new` · `w num W X` · `w numbad` · `w bool 0|1` · `w byte X` · `w fixed HEX` · `w vb LP MN MX HEX` ·
`w str LP MN MX HEX` · `w time X` · `w u256 X|nil` · `w plen N` · `w code u8|u32 N` ·
`w seq LP v|n MIN MAX FLAGS HEX*` → `<Written()> <error class | ->` or `panic`;  `w ser` → `ok HEX` | `err CLASS`.

`r new HEX` · `r num W s|u` · `r bool` · `r byte` · `r fixed N` · `r vb LP MN MX` · `r str LP MN MX` · `r time` ·
`r u256` · `r code u8|u32 N` · `r skip N` · `r seq LP v|n MIN MAX FLAGS` · `r all` → `<value | -> <offset> <class | ->`;
`r plen` → `<value | class> <offset> <class | ->`; `r peek u8|u32|none` → `<value | class>`; `r rem` → length;
`r done` → `<offset> <class | ->`. -/

structure PSt where
  ser : Ser := {}
  de : De := {}
deriving Repr

def showEK : Option EK → String
  | none => "-"
  | some e => e.name

def showSer (s : Ser) : String := s!"{s.buf.length} {showEK s.err}"

def parseLPs (s : String) : Option LP := parseLP (.atom s)

def parseRulesFlat (mn mx fl : String) (sortMode : Bool) : Option Rules := do
  let a ← mn.toNat?
  let b ← mx.toNat?
  let has (c : Char) : Bool := fl.toList.contains c
  pure { min := a, max := b, noDups := has 'd', lex := has 'l', one8 := has 'b', one32 := has 'w',
         mustOccur := [], autoSort := sortMode }

def parseHexes : List String → Option (List Bytes)
  | [] => some []
  | h :: hs => do pure ((← unhex h) :: (← parseHexes hs))

def parseDenS : String → Option Den
  | "u8" => some .u8
  | "u32" => some .u32
  | _ => none

/-- Validation flag and lexical-ordering mode bit: `v`, `n`, `vs`, `ns`. -/
def parseMode (s : String) : Option (Bool × Bool) :=
  match s with
  | "v" => some (true, false)
  | "n" => some (false, false)
  | "vs" => some (true, true)
  | "ns" => some (false, true)
  | _ => none

def parseWOp : List String → Option WOp
  | ["num", w, x] => do pure (.num (← w.toNat?) (← parseInt x))
  | ["num", w, x, "f"] => do pure (.num (← w.toNat?) (← parseInt x))
  | ["numbad"] => some .numBad
  | ["bool", "0"] => some (.bool false)
  | ["bool", "1"] => some (.bool true)
  | ["byte", x] => do pure (.byte (← x.toNat?))
  | ["fixed", h] => do pure (.fixed (← unhex h))
  | ["vb", lp, mn, mx, h] => do pure (.varBytes (← parseLPs lp) (← mn.toNat?) (← mx.toNat?) (← unhex h))
  | ["str", lp, mn, mx, h] => do pure (.str (← parseLPs lp) (← mn.toNat?) (← mx.toNat?) (← unhex h))
  | ["time", x] => do pure (.time (← parseInt x))
  | ["u256", "nil"] => some (.u256 none)
  | ["u256", x] => do pure (.u256 (some (← parseInt x)))
  | ["plen", n] => do pure (.payloadLen (← n.toNat?))
  | ["code", d, n] => do pure (.code ⟨← parseDenS d, ← n.toNat?⟩)
  | "seq" :: lp :: mode :: mn :: mx :: fl :: hs => do
    let (v, s) ← parseMode mode
    pure (.seq (← parseLPs lp) (← parseRulesFlat mn mx fl s) v (← parseHexes hs))
  | _ => none

def parseROp : List String → Option ROp
  | ["num", w, "s"] => do pure (.num (← w.toNat?) true)
  | ["num", w, "u"] => do pure (.num (← w.toNat?) false)
  | ["num", w, "f"] => do pure (.num (← w.toNat?) false)
  | ["inplace", n] => do pure (.fixed (← n.toNat?))
  | ["bool"] => some .bool
  | ["byte"] => some .byte
  | ["fixed", n] => do pure (.fixed (← n.toNat?))
  | ["vb", lp, mn, mx] => do pure (.varBytes (← parseLPs lp) (← mn.toNat?) (← mx.toNat?))
  | ["str", lp, mn, mx] => do pure (.str (← parseLPs lp) (← mn.toNat?) (← mx.toNat?))
  | ["time"] => some .time
  | ["u256"] => some .u256
  | ["code", d, n] => do pure (.code ⟨← parseDenS d, ← n.toNat?⟩)
  | ["skip", n] => do pure (.skip (← n.toNat?))
  | ["seq", lp, mode, mn, mx, fl] => do
    let (v, s) ← parseMode mode
    pure (.seq (← parseLPs lp) (← parseRulesFlat mn mx fl s) v)
  | ["all"] => some .consumedAll
  | _ => none

def showPV : Option PV → String
  | none => "-"
  | some (.int x) => toString x
  | some (.bytes bs) => hex bs
  | some (.items xs) => "[" ++ ",".intercalate (xs.map hex) ++ "]"
  | some .unit => "-"

def stepPrim (s : PSt) : List String → PSt × String
  | ["w", "new"] => ({ s with ser := {} }, "ok")
  | ["w", "ser"] =>
    (s, match s.ser.serialize with | .ok b => "ok " ++ hex b | .error e => "err " ++ e.name)
  | "w" :: rest =>
    match parseWOp rest with
    | none => (s, "bad-op")
    | some op =>
      match s.ser.step op with
      | some s' => ({ s with ser := s' }, showSer s')
      | none => (s, "panic")
  | ["r", "new", h] =>
    match unhex h with
    | some b => ({ s with de := { src := b } }, "ok")
    | none => (s, "bad-op")
  | ["r", "plen"] =>
    let (d, res) := s.de.payloadLen
    ({ s with de := d }, (match res with | .ok n => toString n | .error e => e.name) ++ s!" {d.off} {showEK d.err}")
  | ["r", "peek", den] =>
    match (if den == "none" then some none else (parseDenS den).map some) with
    | some dn => (s, match s.de.objectType dn with | .ok n => toString n | .error e => e.name)
    | none => (s, "bad-op")
  | ["r", "rem"] => (s, toString (s.de.src.drop s.de.off).length)
  | ["r", "done"] => (s, s!"{s.de.off} {showEK s.de.err}")
  | "r" :: rest =>
    match parseROp rest with
    | none => (s, "bad-op")
    | some op =>
      match s.de.step op with
      | some (d, v) => ({ s with de := d }, s!"{if d.err.isSome then "-" else showPV v} {d.off} {showEK d.err}")
      | none => (s, "panic")
  | _ => (s, "bad-op")

/-- Lines of both protocols: `w …` / `r …` go to the primitive chains, everything else to the serix model. -/
def stepLine3 (s : Option Ty × PSt) (toks : List String) : (Option Ty × PSt) × String :=
  match toks with
  | "w" :: _ | "r" :: _ =>
    let (p, o) := stepPrim s.2 toks
    ((s.1, p), o)
  | _ =>
    let (t, o) := stepLine s.1 toks
    ((t, s.2), o)

end Hive.Serix
