import Hive.Base.Proto
/-!
# Sequential model of `ds/orderedmap.OrderedMap`, `ds.Set`, `ds.SetMutations`, `ds.SetArithmetic`
# and of the `SerializableOrderedMap` byte format (C11)

`AMap` is the ordered map seen abstractly: an association list in insertion order (the order of the
doubly linked element chain; the hash index is `get`).  The pointer-level model that mirrors the
chain itself is `Hive/Model/OMapPtr.lean`; `Hive/Proofs/OMapPtr.lean` proves that it refines `AMap`.

`ds.Set[T]` embeds `SerializableOrderedMap[T, types.Empty]`; it is modelled *on top of* `AMap` with
the value `0` standing for `types.Void`.  Arguments of type `ReadableSet` / `SetMutations` enter as
the list of elements their `ForEach`/`Range` produces.  Keys, values and elements are `Nat`.

Everything mirrors the code after the two `fix:` commits (`DeleteAll` calls `OrderedMap.Delete`,
`Replace` returns the removed elements); `replaceOld` is the behaviour before the fix.
-/
namespace Hive.OMap

abbrev Bytes := List UInt8

/-! ## OrderedMap (abstract) -/

abbrev AMap := List (Nat × Nat)

namespace AMap

/-- `dictionary.Get(key)` followed by reading the element's value. -/
def get : AMap → Nat → Option Nat
  | [], _ => none
  | (k', v) :: r, k => if k' = k then some v else get r k

def has (m : AMap) (k : Nat) : Bool := (get m k).isSome

def keys (m : AMap) : List Nat := m.map (·.1)

/-- overwrite the value of a live key in place (`oldValue.value = newValue`). -/
def update (m : AMap) (k v : Nat) : AMap := m.map (fun p => if p.1 = k then (k, v) else p)

/-- `OrderedMap.Set`: a live key keeps its position, a new key is appended at the tail.  Returns the
previous value if one existed. -/
def set (m : AMap) (k v : Nat) : AMap × Option Nat :=
  match get m k with
  | some old => (update m k v, some old)
  | none => (m ++ [(k, v)], none)

/-- unlink the element of `k`. -/
def remove (m : AMap) (k : Nat) : AMap := m.filter (fun p => p.1 != k)

/-- `OrderedMap.Delete`: `false` if the key is not found. -/
def delete (m : AMap) (k : Nat) : AMap × Bool :=
  match get m k with
  | none => (m, false)
  | some _ => (remove m k, true)

def head (m : AMap) : Option (Nat × Nat) := m.head?
def tail (m : AMap) : Option (Nat × Nat) := m.getLast?
def size (m : AMap) : Nat := m.length
def forEach (m : AMap) : List (Nat × Nat) := m
def forEachReverse (m : AMap) : List (Nat × Nat) := m.reverse

/-- `Clone`: a fresh map filled by `Set` in chain order. -/
def clone (m : AMap) : AMap := m.foldl (fun c p => (set c p.1 p.2).1) []

end AMap

/-! ## Set -/

/-- A `ds.Set`: the embedded ordered map with `types.Void` (= 0) values. -/
abbrev ASet := AMap

/-- the elements in iteration order (`ToSlice`, `ForEach`, `Range`, `Iterator`). -/
def elems (s : ASet) : List Nat := AMap.keys s

/-- `Add`: `!lo.Return2(s.Set(element, types.Void))`. -/
def sAdd (s : ASet) (e : Nat) : ASet × Bool :=
  let r := AMap.set s e 0
  (r.1, r.2.isNone)

def sDelete (s : ASet) (e : Nat) : ASet × Bool := AMap.delete s e

/-- `NewSet(elements...)`. -/
def newSet (l : List Nat) : ASet := l.foldl (fun s e => (AMap.set s e 0).1) []

/-- `AddAll(elements)`: for every element produced by `elements.ForEach`, `Set` it and collect it in
the result set if it was not present. Returns the new set and `addedElements`. -/
def addAll (s : ASet) (els : List Nat) : ASet × ASet :=
  els.foldl (fun acc e =>
    let r := sAdd acc.1 e
    (r.1, if r.2 then (sAdd acc.2 e).1 else acc.2)) (s, [])

/-- `DeleteAll(other)` (after the fix: the callback calls `OrderedMap.Delete`). -/
def deleteAll (s : ASet) (els : List Nat) : ASet × ASet :=
  els.foldl (fun acc e =>
    let r := sDelete acc.1 e
    (r.1, if r.2 then (sAdd acc.2 e).1 else acc.2)) (s, [])

/-- `apply(mutations)`: first all additions, then all deletions; returns the applied mutations
`(addedElements, removedElements)`. -/
def apply (s : ASet) (adds dels : List Nat) : ASet × (ASet × ASet) :=
  let a := addAll s adds
  let d := deleteAll a.1 dels
  (d.1, (a.2, d.2))

/-- `Compute(factory)`: the factory sees the readable set (its elements in order). -/
def compute (s : ASet) (factory : List Nat → List Nat × List Nat) : ASet × (ASet × ASet) :=
  let m := factory (elems s)
  apply s m.1 m.2

/-- `Replace(elements)` after the fix: remember the previous elements, `Clear`, `Set` every new
element, return the previous elements that are no longer present. -/
def replace (s : ASet) (els : List Nat) : ASet × ASet :=
  let s' := newSet els
  (s', newSet ((elems s).filter (fun e => !(AMap.has s' e))))

/-- `Replace` before the fix: returned *all* previous elements. -/
def replaceOld (s : ASet) (els : List Nat) : ASet × ASet :=
  (newSet els, newSet (elems s))

/-- `HasAll(other)`. -/
def hasAll (s : ASet) (other : List Nat) : Bool := other.all (AMap.has s)

/-- `Filter(predicate)`: a new set filled by `Add` in iteration order. -/
def filter (s : ASet) (p : Nat → Bool) : ASet :=
  (elems s).foldl (fun acc e => if p e then (sAdd acc e).1 else acc) []

/-- `Intersect(other)` = `Filter(other.Has)`. -/
def intersect (s : ASet) (other : ASet) : ASet := filter s (AMap.has other)

/-- `Equals(other)` for two distinct non-nil sets: same size and `HasAll`. -/
def equals (s : ASet) (other : ASet) : Bool :=
  AMap.size s == AMap.size other && hasAll s (elems other)

/-- `Any()`: the first element in iteration order. -/
def any (s : ASet) : Option Nat := (elems s).head?

/-- `Is(element)`. -/
def is (s : ASet) (e : Nat) : Bool := AMap.size s == 1 && AMap.has s e

/-- `Clone()` = `NewSet().AddAll(r)`. -/
def sClone (s : ASet) : ASet := (addAll [] (elems s)).1

/-! ## SetArithmetic

The occurrence counter is a `ShrinkingMap[T,int]` read through `Compute`, which treats a missing key
as 0: a total function with default 0. -/

abbrev Counts := Nat → Int

def Counts.bump (c : Counts) (e : Nat) (d : Int) : Counts := fun x => if x = e then c e + d else c x

/-- One call of the function returned by `elementsCollector(target, opposing, increase, threshold)`. -/
def collect (c : Counts) (target opposing : ASet) (increase : Bool) (thr : Int) (e : Nat) :
    Counts × ASet × ASet :=
  let d : Int := if increase then 1 else -1
  let c' := c.bump e d
  if c e + d = (if increase then thr else thr - 1) then
    let r := sDelete opposing e
    if r.2 then (c', target, r.1) else (c', (sAdd target e).1, opposing)
  else (c', target, opposing)

/-- State while net mutations are collected: the counters and the mutations `m` being filled. -/
structure ArSt where
  counts : Counts
  added : ASet
  deleted : ASet

/-- `AddedElementsCollector(m, thr)(e)`. -/
def ArSt.inc (a : ArSt) (thr : Int) (e : Nat) : ArSt :=
  let r := collect a.counts a.added a.deleted true thr e
  { counts := r.1, added := r.2.1, deleted := r.2.2 }

/-- `SubtractedElementsCollector(m, thr)(e)`. -/
def ArSt.dec (a : ArSt) (thr : Int) (e : Nat) : ArSt :=
  let r := collect a.counts a.deleted a.added false thr e
  { counts := r.1, added := r.2.2, deleted := r.2.1 }

/-- one collector call: `(true, e)` = added-elements collector, `(false, e)` = subtracted-elements collector -/
def ArSt.stepC (thr : Int) (a : ArSt) (x : Bool × Nat) : ArSt :=
  if x.1 then a.inc thr x.2 else a.dec thr x.2

def ArSt.run (a : ArSt) (thr : Int) (xs : List (Bool × Nat)) : ArSt := xs.foldl (ArSt.stepC thr) a

/-- `SetArithmetic.Add(mutations, thr)`: fresh `m`; added elements go through the added collector,
then deleted elements through the subtracted collector. -/
def arAdd (c : Counts) (adds dels : List Nat) (thr : Int) : ArSt :=
  ArSt.run { counts := c, added := [], deleted := [] } thr
    (adds.map (fun e => (true, e)) ++ dels.map (fun e => (false, e)))

/-- `SetArithmetic.Subtract(mutations, thr)`. -/
def arSub (c : Counts) (adds dels : List Nat) (thr : Int) : ArSt :=
  ArSt.run { counts := c, added := [], deleted := [] } thr
    (adds.map (fun e => (false, e)) ++ dels.map (fun e => (true, e)))

/-! ## Byte format of `SerializableOrderedMap.Encode/Decode`

`uint32` little-endian element count followed, per element in chain order, by the key encoding and
the value encoding.  The element codecs are parameters. -/

def le32 (n : Nat) : Bytes :=
  [UInt8.ofNat (n % 256), UInt8.ofNat (n / 256 % 256), UInt8.ofNat (n / 65536 % 256), UInt8.ofNat (n / 16777216 % 256)]

def unle32 : Bytes → Option (Nat × Bytes)
  | a :: b :: c :: d :: rest => some (a.toNat + 256 * b.toNat + 65536 * c.toNat + 16777216 * d.toNat, rest)
  | _ => none

/-- A decoder returns the value and the number of bytes it consumed. -/
abbrev Dec := Bytes → Option (Nat × Nat)

def encodeEntries (encK encV : Nat → Bytes) : List (Nat × Nat) → Bytes
  | [] => []
  | (k, v) :: r => encK k ++ encV v ++ encodeEntries encK encV r

/-- `Encode`: `WriteNum(uint32(Size()))` then every entry in `ForEach` order. -/
def encode (encK encV : Nat → Bytes) (m : AMap) : Bytes :=
  le32 (m.length % 4294967296) ++ encodeEntries encK encV m

/-- The decode loop: `n` more entries to read from `b`, `used` bytes consumed so far, `seen` = the keys
decoded by this call.  An element decoding error or a key that was already decoded by this call
(after the fix: an encoded map never contains a key twice) aborts with `none` but keeps the entries
`Set` so far (the code mutates the receiver as it goes). -/
def decodeLoop (decK decV : Dec) : Nat → Bytes → AMap → Nat → List Nat → AMap × Option Nat
  | 0, _, m, used, _ => (m, some used)
  | n + 1, b, m, used, seen =>
    match decK b with
    | none => (m, none)
    | some (k, nk) =>
      if seen.contains k then (m, none)
      else
        match decV (b.drop nk) with
        | none => (m, none)
        | some (v, nv) =>
          decodeLoop decK decV n (b.drop (nk + nv)) (AMap.set m k v).1 (used + nk + nv) (k :: seen)

/-- `Decode` into the receiver `m` (which is *not* cleared first). -/
def decode (decK decV : Dec) (m : AMap) (b : Bytes) : AMap × Option Nat :=
  match unle32 b with
  | none => (m, none)
  | some (n, rest) => decodeLoop decK decV n rest m 4 []

/-! ### the concrete element codecs used by the correspondence run (serix: `uint16`, `uint8`, `struct{}`) -/

def encU16 (n : Nat) : Bytes := [UInt8.ofNat (n % 256), UInt8.ofNat (n / 256 % 256)]
def decU16 : Dec
  | a :: b :: _ => some (a.toNat + 256 * b.toNat, 2)
  | _ => none
def encU8 (n : Nat) : Bytes := [UInt8.ofNat (n % 256)]
def decU8 : Dec
  | a :: _ => some (a.toNat, 1)
  | _ => none
def encVoid (_ : Nat) : Bytes := []
def decVoid : Dec := fun _ => some (0, 0)

/-! ### fixed-width little-endian numbers of any width (serix `uint8`/`int8`/`bool` = 1 byte … `uint64` = 8 bytes)

An element of a `Set[uint8]` takes one byte and its `types.Empty` value none at all: an entry of an encoded set may be
a single byte. -/

def encLE : Nat → Nat → Bytes
  | 0, _ => []
  | w + 1, n => UInt8.ofNat (n % 256) :: encLE w (n / 256)

def decLE : Nat → Dec
  | 0, _ => some (0, 0)
  | _ + 1, [] => none
  | w + 1, a :: r =>
    match decLE w r with
    | some (v, c) => some (a.toNat + 256 * v, c + 1)
    | none => none

/-! ### table codecs (value types of the correspondence run that are not numbers)

The harness uses maps whose values are pointers to structs, slices and Go maps; it names ten values of
each type `0..9` and sends their serix encodings.  The model treats such a value as its index and the
codec as the table (the encodings are length-prefixed / fixed-size, hence prefix-free). -/

def encTable (tbl : List Bytes) (v : Nat) : Bytes := tbl.getD v []

def decTable (tbl : List Bytes) : Dec := fun b =>
  (List.range tbl.length).findSome? (fun i =>
    let e := tbl.getD i []
    if e.isPrefixOf b then some (i, e.length) else none)

end Hive.OMap
