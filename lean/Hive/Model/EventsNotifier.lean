import Hive.Base.Proto
/-!
# Model of `valuenotifier.Notifier` / `Listener` (runtime/valuenotifier/listener.go) for C15

The notifier maps a value to one *entry* = (notify channel, number of live listeners).  A listener
remembers the value and the channel it was given.  `Notify(v)` closes the entry's channel and deletes
the entry.  Deregistration looks the entry up **again by value**; the repaired code (`fixed = true`)
additionally compares the channel and ignores an entry that belongs to a newer generation, the
original code (`fixed = false`) decremented whatever entry it found.  When the count reaches zero the
channel is closed and the entry deleted (as in the code).

Sequential histories: `Wait` is called with a context that is already cancelled or that times out
while nothing else happens.  Channels are numbered; `closed` is the set of closed notify channels.
`hit` is a ghost flag: Notify for the listener's value was called while the listener existed and
was not deregistered.
-/
namespace Hive.Notifier

structure Entry where
  value : Nat
  chan : Nat
  count : Nat
deriving Repr, DecidableEq

structure Lst where
  value : Nat
  chan : Nat
  dereg : Bool
  hit : Bool
deriving Repr, DecidableEq

structure St where
  entries : List Entry
  closed : List Nat
  nextChan : Nat
  ls : List Lst
deriving Repr

def init : St := { entries := [], closed := [], nextChan := 0, ls := [] }

inductive Ctx
  | cancelled   -- context already cancelled when Wait is called
  | timeout     -- context whose deadline expires while Wait blocks
deriving Repr, DecidableEq

inductive Op
  | listener (v : Nat)
  | notify (v : Nat)
  | dereg (h : Nat)
  | wait (h : Nat) (c : Ctx)
deriving Repr, DecidableEq

inductive Out
  | handle (h : Nat)
  | done
  | ok            -- Wait returned nil
  | dereg         -- ErrListenerDeregistered
  | canceled      -- context.Canceled
  | deadline      -- context.DeadlineExceeded
  | nohandle
deriving Repr, DecidableEq

def findEntry (es : List Entry) (v : Nat) : Option Entry := es.find? (fun e => e.value == v)

/-- `removeListener(value)` as called by the listener that holds channel `c`. -/
def removeListener (fixed : Bool) (s : St) (v c : Nat) : St :=
  match findEntry s.entries v with
  | none => s
  | some e =>
    if fixed && e.chan != c then s
    else if e.count == 1 then
      { s with entries := s.entries.filter (fun x => x.value != v), closed := e.chan :: s.closed }
    else
      { s with entries := s.entries.map (fun x => if x.value == v then { x with count := x.count - 1 } else x) }

def setDereg : List Lst → Nat → List Lst
  | [], _ => []
  | l :: ls, 0 => { l with dereg := true } :: ls
  | l :: ls, h + 1 => l :: setDereg ls h

/-- `Listener.Deregister()` of a listener that is not yet deregistered. -/
def deregister (fixed : Bool) (s : St) (h : Nat) (l : Lst) : St :=
  removeListener fixed { s with ls := setDereg s.ls h } l.value l.chan

def markHit (v : Nat) (l : Lst) : Lst :=
  if l.value == v && !l.dereg then { l with hit := true } else l

def ctxErr : Ctx → Out
  | .cancelled => .canceled
  | .timeout => .deadline

def step (fixed : Bool) (s : St) : Op → St × Out
  | .listener v =>
    match findEntry s.entries v with
    | some e =>
      ({ s with entries := s.entries.map (fun x => if x.value == v then { x with count := x.count + 1 } else x),
                ls := s.ls ++ [{ value := v, chan := e.chan, dereg := false, hit := false }] },
       .handle s.ls.length)
    | none =>
      ({ s with entries := s.entries ++ [{ value := v, chan := s.nextChan, count := 1 }],
                nextChan := s.nextChan + 1,
                ls := s.ls ++ [{ value := v, chan := s.nextChan, dereg := false, hit := false }] },
       .handle s.ls.length)
  | .notify v =>
    let s1 := { s with ls := s.ls.map (markHit v) }
    match findEntry s.entries v with
    | none => (s1, .done)
    | some e =>
      ({ s1 with entries := s.entries.filter (fun x => x.value != v), closed := e.chan :: s.closed }, .done)
  | .dereg h =>
    match s.ls[h]? with
    | none => (s, .nohandle)
    | some l => if l.dereg then (s, .done) else (deregister fixed s h l, .done)
  | .wait h c =>
    match s.ls[h]? with
    | none => (s, .nohandle)
    | some l =>
      if l.dereg then (s, .dereg)
      else
        -- `select`: in a sequential history only the notify channel or the context can be ready;
        -- the deferred Deregister runs afterwards in both cases
        (deregister fixed s h l, if s.closed.contains l.chan then .ok else ctxErr c)

def final (fixed : Bool) (s : St) (ops : List Op) : St := ops.foldl (fun s op => (step fixed s op).1) s

def outs (fixed : Bool) : St → List Op → List Out
  | _, [] => []
  | s, op :: ops => (step fixed s op).2 :: outs fixed (step fixed s op).1 ops

/-! ## line protocol (`vn …`) -/
open Hive.Proto

def parseOp : List String → Option Op
  | ["listener", v] => v.toNat?.map .listener
  | ["notify", v] => v.toNat?.map .notify
  | ["dereg", h] => h.toNat?.map .dereg
  | ["wait", h, "cancelled"] => h.toNat?.map (.wait · .cancelled)
  | ["wait", h, "timeout"] => h.toNat?.map (.wait · .timeout)
  | ["wait", h, "short"] => h.toNat?.map (.wait · .timeout)   -- a very short deadline
  | _ => none

def showOut : Out → String
  | .handle h => s!"l{h}"
  | .done => "done"
  | .ok => "ok"
  | .dereg => "dereg"
  | .canceled => "canceled"
  | .deadline => "deadline"
  | .nohandle => "nohandle"

def stepLine (s : St) (toks : List String) : St × String :=
  match parseOp toks with
  | some op => let (s', o) := step true s op; (s', showOut o)
  | none => (s, "bad-op")

end Hive.Notifier
