import Hive.Base.Proto
import Hive.Model.Daemon
import Hive.Model.DaemonX
/-!
# Line protocol of the C20 driver

* `ev …` lines carry the event log recorded from the real daemon; `verdict` answers with the verdict of the
  trace predicates of `Hive/Spec/Daemon.lean` on that log (`accept` / `reject <clauses>`; compared with the
  verdict of the harness's independent Go oracle), `check` with the same verdict (compared with the constant
  `accept`, so that a rejected log is recorded with its script).
* In a sequential case (`mode seq`) every `do <op>` line is executed on the protocol model
  (`Hive.Daemon.step true true`, the same function the theorems are about) by running the calling thread to its
  end and letting the worker goroutines that are due (cancelled, asked to finish, or exiting at once) run to
  their end; the answers must coincide with those of the implementation.
-/
namespace Hive.Daemon
open Hive.Proto

structure DSt where
  seq : Bool
  s : St
  finReq : List Nat      -- instances asked to return (or returning at once)
  evs : List Ev          -- implementation log, newest first
  nextCall : Nat
  obs : Bool := false    -- `obs on`: every answer of a sequential case is followed by the observable state
  ctx : Bool := false    -- the stopped context of the extension layer (`StX.ctxDone`)
  xobs : List XObs := [] -- observations of (ContextStopped, IsStopped) recorded from the implementation, newest first
  progs : List (Nat × Th) := []  -- per instance: the daemon call its handler makes once it runs (worker kind `a@order`)
  kinds : List (Nat × String) := []  -- per instance: its worker kind
  kicked : List Nat := []  -- instances of kind `k` asked to shut the daemon down from inside their handler

def DSt.init : DSt := { seq := false, s := Hive.Daemon.init, finReq := [], evs := [], nextCall := 1000 }

/-! ## parsing events -/

def parseWhy : String → Option Why
  | "stopped" => some .stopped
  | "dup" => some .dup
  | "running" => some .running
  | "panic" => some .panic
  | _ => none

def parseEv : List String → Option Ev
  | ["bwcall", c, n, o] => do pure (.bwcall (← c.toNat?) (← n.toNat?) (← o.toInt?))
  | ["bwret", c, n, "ok"] => do pure (.accept (← c.toNat?) (← n.toNat?) (← c.toNat?))
  | ["bwret", c, n, w] => do pure (.refuse (← c.toNat?) (← n.toNat?) (← parseWhy w))
  | ["start", i, n, o] => do pure (.start (← i.toNat?) (← n.toNat?) (← o.toInt?))
  | ["seen", i] => do pure (.seen (← i.toNat?))
  | ["ret", i] => do pure (.ret (← i.toNat?))
  | ["sdcall", c] => do pure (.sdcall (← c.toNat?))
  | ["sdret", c] => do pure (.sdret (← c.toNat?))
  | ["stopseen"] => some .stopseen
  | ["runcall", c] => do pure (.runcall (← c.toNat?))
  | ["runret", c] => do pure (.runret (← c.toNat?))
  | ["holdtimeout", i] => do pure (.holdtimeout (← i.toNat?))
  | ["timeout"] => some .timeout
  | ["panic"] => some .panic
  | _ => none

def parseKind : String → Option ObsKind
  | "seen" => some .seen
  | "sdret" => some .sdret
  | "refused" => some .refused
  | "any" => some .any
  | _ => none

def parseB : String → Option Bool
  | "true" => some true
  | "false" => some false
  | _ => none

def parseXObs : List String → Option XObs
  | [k, c, f, tb, te] => do pure ⟨← parseKind k, ⟨← parseB c, ← parseB f⟩, ← tb.toNat?, ← te.toNat?⟩
  | _ => none

/-- The verdict on an implementation log with its observations of the stopped context: the clauses of
`Hive/Spec/Daemon.lean` plus `ctx` (`xobsOk`, `Hive/Model/DaemonX.lean`), in the fixed order the harness uses. -/
def failedX (tr : List Ev) (xs : List XObs) : List String :=
  let f := failed tr
  f.filter (· != "crash") ++ (if xobsOk xs then [] else ["ctx"]) ++ f.filter (· == "crash")

/-! ## stable insertion is one of the sorted arrangements -/

/-- Stable insertion into a list sorted by descending order (behind the entries of the same order). -/
def insDesc (ord : Nat → Int) (i : Nat) : List Nat → List Nat
  | [] => [i]
  | y :: ys => if ord y < ord i then i :: y :: ys else y :: insDesc ord i ys

theorem insertEverywhere_mem (x : Nat) : ∀ (a b : List Nat), a ++ x :: b ∈ insertEverywhere x (a ++ b)
  | [], [] => by simp [insertEverywhere]
  | [], y :: ys => by simp [insertEverywhere]
  | y :: a, b => by
    have ih := insertEverywhere_mem x a b
    simp only [List.cons_append, insertEverywhere, List.mem_cons, List.mem_map]
    exact Or.inr ⟨_, ih, rfl⟩

theorem mem_perms_of_perm : ∀ (xs l : List Nat), l.Perm xs → l ∈ perms xs
  | [], l, h => by
    have : l = [] := List.Perm.eq_nil h
    simp [this, perms]
  | x :: xs, l, h => by
    have hx : x ∈ l := h.symm.subset (List.mem_cons_self ..)
    obtain ⟨a, b, rfl⟩ := List.append_of_mem hx
    have h2 : (a ++ b).Perm xs := (List.perm_middle.symm.trans h).cons_inv
    have ih := mem_perms_of_perm xs (a ++ b) h2
    simp only [perms, List.mem_flatMap]
    exact ⟨a ++ b, ih, insertEverywhere_mem x a b⟩

theorem insDesc_perm (ord : Nat → Int) (i : Nat) : ∀ ys : List Nat, (insDesc ord i ys).Perm (i :: ys)
  | [] => List.Perm.refl _
  | y :: ys => by
    simp only [insDesc]
    split
    · exact List.Perm.refl _
    · exact ((insDesc_perm ord i ys).cons y).trans (List.Perm.swap i y ys)

theorem all_le_insDesc (ord : Nat → Int) (i : Nat) (b : Int) (hi : ord i ≤ b) :
    ∀ ys : List Nat, ys.all (fun y => decide (ord y ≤ b)) = true → (insDesc ord i ys).all (fun y => decide (ord y ≤ b)) = true
  | [], _ => by simp [insDesc, hi]
  | y :: ys, h => by
    simp only [List.all_cons, Bool.and_eq_true, decide_eq_true_eq] at h
    simp only [insDesc]
    split
    · simp [hi, h.1]; simpa using h.2
    · simp only [List.all_cons, Bool.and_eq_true, decide_eq_true_eq]
      exact ⟨h.1, all_le_insDesc ord i b hi ys h.2⟩

theorem sortedDesc_insDesc (ord : Nat → Int) (i : Nat) :
    ∀ ys : List Nat, sortedDesc ord ys = true → sortedDesc ord (insDesc ord i ys) = true
  | [], _ => by simp [insDesc, sortedDesc]
  | y :: ys, h => by
    simp only [sortedDesc, Bool.and_eq_true] at h
    simp only [insDesc]
    split
    · rename_i hlt
      simp only [sortedDesc, Bool.and_eq_true, List.all_cons, decide_eq_true_eq]
      refine ⟨⟨Int.le_of_lt hlt, ?_⟩, h.1, h.2⟩
      rw [List.all_eq_true] at h ⊢
      intro z hz
      have := h.1 z hz
      simp only [decide_eq_true_eq] at this ⊢
      exact Int.le_trans this (Int.le_of_lt hlt)
    · rename_i hge
      simp only [sortedDesc, Bool.and_eq_true]
      exact ⟨all_le_insDesc ord i (ord y) (Int.not_lt.mp hge) ys h.1, sortedDesc_insDesc ord i ys h.2⟩

theorem insDesc_mem_sortedPerms (ord : Nat → Int) (i : Nat) (base : List Nat) (h : sortedDesc ord base = true) :
    insDesc ord i base ∈ sortedPerms ord (base ++ [i]) := by
  simp only [sortedPerms, List.mem_filter]
  refine ⟨mem_perms_of_perm _ _ ?_, sortedDesc_insDesc ord i base h⟩
  exact (insDesc_perm ord i base).trans (List.perm_append_singleton i base).symm


/-! ## one successor of a registration without enumerating the arrangements

`register` has one successor per arrangement of the registry that is sorted by descending order (`sortedPerms`: all
permutations, filtered) — fine for proofs, factorial for an executable driver.  The driver takes the arrangement that
inserts the new instance behind the entries of its order; `stepFirst_mem` shows that what it executes is a successor
of the model's step function. -/

def regPre (s : St) (name : Nat) (order : Int) : St :=
  { setObj s s.n ⟨name, order, .reg, false, false⟩ with
    n := s.n + 1, wgKeys := if s.wgKeys.contains order then s.wgKeys else s.wgKeys ++ [order] }

def regWith (s : St) (c name : Nat) (order : Int) (l : List Nat) : St :=
  let s2 := emit (.accept c name s.n) { regPre s name order with regl := l }
  if s.running then spawn1 s2 s.n else s2

theorem register_eq (s : St) (c name : Nat) (order : Int) (base : List Nat) :
    register s c name order base =
      (sortedPerms (ordOf (regPre s name order)) (base ++ [s.n])).map (regWith s c name order) := rfl

def registerFirst (s : St) (c name : Nat) (order : Int) (base : List Nat) : Option St :=
  if sortedDesc (ordOf (regPre s name order)) base then
    some (regWith s c name order (insDesc (ordOf (regPre s name order)) s.n base))
  else (register s c name order base).head?

theorem registerFirst_mem {s s' : St} {c name : Nat} {order : Int} {base : List Nat}
    (h : registerFirst s c name order base = some s') : s' ∈ register s c name order base := by
  unfold registerFirst at h
  by_cases hs : sortedDesc (ordOf (regPre s name order)) base = true
  · simp only [hs, if_true, Option.some.injEq] at h
    subst h
    rw [register_eq]
    exact List.mem_map.mpr ⟨_, insDesc_mem_sortedPerms _ _ _ hs, rfl⟩
  · simp only [hs] at h
    exact List.mem_of_mem_head? h

def bwCritFirst (s : St) (c name : Nat) (order : Int) : Option St :=
  if s.stopped then some (emit (.refuse c name .stopped) s)
  else if s.cleared then some (emit (.refuse c name .panic) s)
  else
    match findName s name with
    | some j =>
      if !s.running then some (emit (.refuse c name .dup) s)
      else if (s.objs j).flag then some (emit (.refuse c name .running) s)
      else registerFirst s c name order (s.regl.filter (fun k => (s.objs k).name != name))
    | none => registerFirst s c name order s.regl

theorem bwCritFirst_mem {s s' : St} {c name : Nat} {order : Int} (h : bwCritFirst s c name order = some s') :
    s' ∈ bwCrit true s c name order := by
  unfold bwCritFirst at h
  unfold bwCrit
  simp only [Bool.true_and]
  split at h
  · rename_i hs; simp only [Option.some.injEq] at h; subst h; simp [hs]
  · rename_i hs
    split at h
    · rename_i hc; simp only [Option.some.injEq] at h; subst h; simp [hs, hc]
    · rename_i hc
      simp only [hs, hc, if_false]
      split at h
      · split at h
        · simp only [Option.some.injEq] at h; subst h; simp [*]
        · split at h
          · simp only [Option.some.injEq] at h; subst h; simp [*]
          · simp only [*, if_false]; exact registerFirst_mem h
      · simp only [*]; exact registerFirst_mem h

/-- The successor the driver takes. -/
def stepFirst (s : St) : Th → Option (St × Th)
  | .bw c name order .passed => (bwCritFirst s c name order).map fun s' => (s', .bw c name order .fin)
  | t => (step true true s t).head?

theorem stepFirst_mem {s : St} {t : Th} {p : St × Th} (h : stepFirst s t = some p) : p ∈ step true true s t := by
  unfold stepFirst at h
  split at h
  · simp only [Option.map_eq_some_iff] at h
    obtain ⟨s', hs', rfl⟩ := h
    simp only [step, List.mem_map]
    exact ⟨s', bwCritFirst_mem hs', rfl⟩
  · exact List.mem_of_mem_head? h

/-! ## running the model -/

/-- Run one thread, always taking its first successor, until it has none (finished or blocked). -/
def runThread : Nat → St → Th → St × Th
  | 0, s, t => (s, t)
  | fuel + 1, s, t =>
    match stepFirst s t with
    | none => (s, t)
    | some (s', t') => runThread fuel s' t'

/-- The worker goroutine that is due to move, if any, and the successor it takes. -/
def dueWorker (s : St) (finReq : List Nat) : Nat → Option (Nat × Nat)
  | 0 => none
  | k + 1 =>
    match dueWorker s finReq k with
    | some r => some r
    | none =>
      let w := s.objs k
      match w.pc with
      | .ret | .dn | .cl => some (k, 0)
      | .run =>
        if w.cancelled && !w.seen then some (k, 1)            -- observe the cancellation
        else if w.cancelled || finReq.contains k then some (k, 0)  -- return
        else none
      | _ => none

/-- Let every due worker goroutine run to its end. -/
def quiesce : Nat → St → List Nat → St
  | 0, s, _ => s
  | fuel + 1, s, finReq =>
    match dueWorker s finReq s.n with
    | none => s
    | some (i, j) =>
      match (wkStep s i)[j]? with
      | some s' => quiesce fuel s' finReq
      | none => s

/-- `ShutdownAndWait`: the caller runs; whenever it is blocked the cancelled workers run. -/
def runShutdown : Nat → St → Th → List Nat → St × Bool
  | 0, s, _, _ => (s, false)
  | fuel + 1, s, t, finReq =>
    match t with
    | .sd _ .fin => (s, true)
    | _ =>
      match step true true s t with
      | (s', t') :: _ => runShutdown fuel s' t' finReq
      | [] =>
        let s' := quiesce 10000 s finReq
        match step true true s' t with
        | [] => (s', false)       -- still blocked: would hang
        | _ => runShutdown fuel s' t finReq

/-- `ShutdownAndWait` on the extension layer (`liftStep`: the body also cancels the stopped context). -/
def runShutdownX : Nat → StX → Th → List Nat → StX × Bool
  | 0, x, _, _ => (x, false)
  | fuel + 1, x, t, finReq =>
    match t with
    | .sd _ .fin => (x, true)
    | _ =>
      match liftStep x t with
      | (x', t') :: _ => runShutdownX fuel x' t' finReq
      | [] =>
        let x' : StX := ⟨quiesce 10000 x.base finReq, x.ctxDone⟩
        match liftStep x' t with
        | [] => (x', false)       -- still blocked: would hang
        | _ => runShutdownX fuel x' t finReq

/-- Handlers that call back into the daemon (worker kind `a@order`): as soon as the handler of such an instance runs it
makes its nested call (`ThX.handler i [] [call]`: the call is executed by the same step function, while `pc = run`). -/
def runNested : Nat → St → List (Nat × Th) → List (Nat × Th) → St × List (Nat × Th)
  | 0, s, keep, _ => (s, keep)
  | _, s, keep, [] => (s, keep.reverse)
  | fuel + 1, s, keep, (i, c) :: rest =>
    if (s.objs i).pc == .run then
      let (s1, _) := runThread 10 s c
      runNested fuel s1 keep rest
    else runNested fuel s ((i, c) :: keep) rest

def quiesceN (s : St) (finReq : List Nat) (progs : List (Nat × Th)) : St × List (Nat × Th) :=
  let (s1, p1) := runNested 1000 s [] progs
  (quiesce 10000 s1 finReq, p1)

def latestInst (s : St) (name : Nat) : Nat → Option Nat
  | 0 => none
  | k + 1 => if (s.objs k).name == name then some k else latestInst s name k

def insertBy (lt : (Nat × Int) → (Nat × Int) → Bool) (x : Nat × Int) : List (Nat × Int) → List (Nat × Int)
  | [] => [x]
  | y :: ys => if lt x y then x :: y :: ys else y :: insertBy lt x ys

def sortBy (lt : (Nat × Int) → (Nat × Int) → Bool) (l : List (Nat × Int)) : List (Nat × Int) :=
  l.foldl (fun acc x => insertBy lt x acc) []

def showWorkers (s : St) : String :=
  -- the model's `GetRunningBackgroundWorkers` (`runningList`, what `C20_running_list_*` are about); ties are in no
  -- particular order (`sort.Slice`), so the answer is canonicalised by (order, name) on both sides
  let l := (runningList s).map (fun i => ((s.objs i).name, (s.objs i).order))
  let l := sortBy (fun a b => a.2 < b.2 || (a.2 == b.2 && a.1 < b.1)) l
  "[" ++ " ".intercalate (l.map (fun p => s!"{p.1}:{p.2}")) ++ "]"

def insertNat (x : Nat) : List Nat → List Nat
  | [] => [x]
  | y :: ys => if x < y then x :: y :: ys else y :: insertNat x ys

/-- The `seen` events of the model trace, grouped: adjacent events of the same order form one group. -/
def seenGroups (s : St) : List (Int × List Nat) :=
  s.tr.foldl (fun acc e =>
    match e with
    | .seen i =>
      let o := (s.objs i).order
      let nm := (s.objs i).name
      match acc with
      | (o', ns) :: rest => if o' == o then (o', insertNat nm ns) :: rest else (o, [nm]) :: acc
      | [] => [(o, [nm])]
    | _ => acc) []

def showSeen (s : St) : String :=
  match (seenGroups s).reverse with
  | [] => "-"
  | gs => "|".intercalate (gs.map (fun g => s!"{g.1}:" ++ ",".intercalate (g.2.map toString)))

def lastAnswer (s : St) : String :=
  s.tr.foldl (fun acc e =>
    match e with
    | .accept _ _ _ => "ok"
    | .refuse _ _ .stopped => "stopped"
    | .refuse _ _ .dup => "dup"
    | .refuse _ _ .running => "running"
    | .refuse _ _ .panic => "panic"
    | _ => acc) "?"

/-- The variadic `order ...int` argument of a `bw` op: `-` = no order given, `a,b,…` = several. -/
def parseOrders (tok : String) : Option (List Int) :=
  if tok == "-" then some [] else (tok.splitOn ",").mapM String.toInt?

/-- Everything that is due happens: nested registrations of handlers that run (`a`), handlers of kind `k` that were
asked to shut the daemon down call `Shutdown()` from inside (the body of `stopOnce` runs on the extension layer, the
cancelled workers return whenever it is blocked), due worker goroutines run to their end. -/
def settle (d : DSt) : DSt :=
  let (s1, pr1) := quiesceN d.s d.finReq d.progs
  let d1 := { d with s := s1, progs := pr1 }
  d1.kicked.foldl (fun d i =>
    if (d.s.objs i).pc == .run then
      let (x1, _) := runShutdownX 100000 ⟨d.s, d.ctx⟩ (.sd d.nextCall .call) d.finReq
      { d with s := quiesce 10000 x1.base d.finReq, ctx := x1.ctxDone, nextCall := d.nextCall + 1,
               kicked := d.kicked.filter (· != i) }
    else if (d.s.objs i).pc == .reg then d      -- not started yet: it will do it as soon as it runs
    else { d with kicked := d.kicked.filter (· != i) }) d1

def kindOf (d : DSt) (i : Nat) : String :=
  match d.kinds.find? (fun p => p.1 == i) with
  | some p => p.2
  | none => "c"

def doOp (d : DSt) : List String → DSt × String
  | ["bw", n, o, k] =>
    match n.toNat?, parseOrders o with
    | some n, some os =>
      let o := effOrder os
      let i := d.s.n
      let (s1, _) := runThread 10 d.s (.bw d.nextCall n o .call)
      let ans := lastAnswer s1
      let fr := if ans == "ok" && k == "x" then i :: d.finReq else d.finReq
      let kb := (k.splitOn "@").headD "c"
      -- kind `a@c`: the handler registers worker `n + 20` with order `c` as soon as it runs
      let pr := match k.splitOn "@" with
        | ["a", c] => match c.toInt? with
          | some c => if ans == "ok" then d.progs ++ [(i, .bw (d.nextCall + 1) (n + 20) c .call)] else d.progs
          | none => d.progs
        | _ => d.progs
      (settle { d with s := s1, finReq := fr, nextCall := d.nextCall + 2, progs := pr,
                       kinds := if ans == "ok" then (i, kb) :: d.kinds else d.kinds }, ans)
    | _, _ => (d, "bad-op")
  | ["start"] =>
    let (s1, _) := runThread 10 d.s (.starter .call)
    (settle { d with s := s1 }, "ok")
  | ["fin", n] =>
    match n.toNat? with
    | some n =>
      match latestInst d.s n d.s.n with
      | none => (d, "noinst")
      | some i =>
        if kindOf d i == "k" then
          -- a `k` worker does not return when asked to: it calls `Shutdown()` and returns when it is cancelled.  (Asked
          -- before it runs, nothing happens: a shutdown that begins while `Start` is still starting the other workers
          -- races their handlers, which a sequential case cannot contain.)
          if (d.s.objs i).pc == .reg then (d, "notstarted")
          else (settle { d with kicked := d.kicked ++ [i] }, "ok")
        else
          (settle { d with finReq := i :: d.finReq }, "ok")
    | none => (d, "bad-op")
  | ["workers"] => (d, showWorkers d.s)
  | ["isrunning"] => (d, showBool d.s.running)
  | ["isstopped"] => (d, showBool d.s.stopped)
  -- `ContextStopped()`: cancelled by `shutdown()` right after the stopped flag is stored, before the workers are
  -- stopped; at quiescence it is cancelled exactly when the flag is set
  | ["ctxstopped"] => (d, showBool d.ctx)
  -- `ContextStopped().Err() != nil` and `IsStopped()`, read in this order
  | ["ctxflag"] => (d, showBool d.ctx ++ " " ++ showBool d.s.stopped)
  | ["sdw"] =>
    let (x1, ok) := runShutdownX 100000 ⟨d.s, d.ctx⟩ (.sd d.nextCall .call) d.finReq
    (settle { d with s := quiesce 10000 x1.base d.finReq, ctx := x1.ctxDone, nextCall := d.nextCall + 1 },
      if ok then "ok" else "timeout")
  | ["seenlog"] => (d, showSeen d.s)
  | ["end"] => (d, "ok")
  | ["obs", "on"] => ({ d with obs := true }, "ok")
  | _ => (d, "bad-op")

/-- What is observable of the daemon between two calls: `GetRunningBackgroundWorkers`, `IsRunning`, `IsStopped`. -/
def showState (s : St) : String :=
  showWorkers s ++ " " ++ showBool s.running ++ " " ++ showBool s.stopped

/-- A sequential op; with `obs on` the answer is followed by the state after the op (so that model and implementation
are compared after *every* operation, not only where the script asks). -/
def doOpObs (d : DSt) (toks : List String) : DSt × String :=
  let (d', a) := doOp d toks
  if d'.obs && toks != ["end"] then (d', a ++ " | " ++ showState d'.s) else (d', a)

def stepLine (d : DSt) (toks : List String) : DSt × String :=
  match toks with
  | ["mode", "seq"] => ({ d with seq := true }, "ok")
  | ["mode", _] => ({ d with seq := false }, "ok")
  | "op" :: _ => (d, "-")
  | "do" :: rest => if d.seq then doOpObs d rest else (d, "bad-op")
  | "ev" :: rest =>
    match parseEv rest with
    | some e => ({ d with evs := e :: d.evs }, "ok")
    | none => (d, "bad-ev")
  | "xo" :: rest =>
    match parseXObs rest with
    | some o => ({ d with xobs := o :: d.xobs }, "ok")
    | none => (d, "bad-xo")
  | ["verdict"] => (d, showVerdict (failedX d.evs.reverse d.xobs.reverse))
  | ["check"] => (d, showVerdict (failedX d.evs.reverse d.xobs.reverse))
  | _ => (d, "bad-op")

end Hive.Daemon
