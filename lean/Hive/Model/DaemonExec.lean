import Hive.Base.Proto
import Hive.Model.Daemon
/-!
# Line protocol of the C20 driver

* `ev …` lines carry the event log recorded from the real daemon; `verdict` answers with the verdict of the
  trace predicates of `Hive/Spec/Daemon.lean` on that log (`accept` / `reject <clauses>`; compared with the
  verdict of the harness's independent Go oracle), `check` with the same verdict (compared with the constant
  `accept`, so that a rejected log is recorded with its script).
* In a sequential case (`mode seq`) every `do <op>` line is executed on the protocol model
  (`Hive.Daemon.step true true`, the same function the theorems are about) by running the calling thread to its
  end and letting the worker goroutines that are due (cancelled, asked to finish, or exiting at once) run to
  their end; the answers must coincide with those of the implementation.
-/
namespace Hive.Daemon
open Hive.Proto

structure DSt where
  seq : Bool
  s : St
  finReq : List Nat      -- instances asked to return (or returning at once)
  evs : List Ev          -- implementation log, newest first
  nextCall : Nat
  obs : Bool := false    -- `obs on`: every answer of a sequential case is followed by the observable state

def DSt.init : DSt := { seq := false, s := Hive.Daemon.init, finReq := [], evs := [], nextCall := 1000 }

/-! ## parsing events -/

def parseWhy : String → Option Why
  | "stopped" => some .stopped
  | "dup" => some .dup
  | "running" => some .running
  | "panic" => some .panic
  | _ => none

def parseEv : List String → Option Ev
  | ["bwcall", c, n, o] => do pure (.bwcall (← c.toNat?) (← n.toNat?) (← o.toInt?))
  | ["bwret", c, n, "ok"] => do pure (.accept (← c.toNat?) (← n.toNat?) (← c.toNat?))
  | ["bwret", c, n, w] => do pure (.refuse (← c.toNat?) (← n.toNat?) (← parseWhy w))
  | ["start", i, n, o] => do pure (.start (← i.toNat?) (← n.toNat?) (← o.toInt?))
  | ["seen", i] => do pure (.seen (← i.toNat?))
  | ["ret", i] => do pure (.ret (← i.toNat?))
  | ["sdcall", c] => do pure (.sdcall (← c.toNat?))
  | ["sdret", c] => do pure (.sdret (← c.toNat?))
  | ["stopseen"] => some .stopseen
  | ["runcall", c] => do pure (.runcall (← c.toNat?))
  | ["runret", c] => do pure (.runret (← c.toNat?))
  | ["holdtimeout", i] => do pure (.holdtimeout (← i.toNat?))
  | ["timeout"] => some .timeout
  | ["panic"] => some .panic
  | _ => none

/-! ## running the model -/

/-- Run one thread, always taking its first successor, until it has none (finished or blocked). -/
def runThread : Nat → St → Th → St × Th
  | 0, s, t => (s, t)
  | fuel + 1, s, t =>
    match step true true s t with
    | [] => (s, t)
    | (s', t') :: _ => runThread fuel s' t'

/-- The worker goroutine that is due to move, if any, and the successor it takes. -/
def dueWorker (s : St) (finReq : List Nat) : Nat → Option (Nat × Nat)
  | 0 => none
  | k + 1 =>
    match dueWorker s finReq k with
    | some r => some r
    | none =>
      let w := s.objs k
      match w.pc with
      | .ret | .dn | .cl => some (k, 0)
      | .run =>
        if w.cancelled && !w.seen then some (k, 1)            -- observe the cancellation
        else if w.cancelled || finReq.contains k then some (k, 0)  -- return
        else none
      | _ => none

/-- Let every due worker goroutine run to its end. -/
def quiesce : Nat → St → List Nat → St
  | 0, s, _ => s
  | fuel + 1, s, finReq =>
    match dueWorker s finReq s.n with
    | none => s
    | some (i, j) =>
      match (wkStep s i)[j]? with
      | some s' => quiesce fuel s' finReq
      | none => s

/-- `ShutdownAndWait`: the caller runs; whenever it is blocked the cancelled workers run. -/
def runShutdown : Nat → St → Th → List Nat → St × Bool
  | 0, s, _, _ => (s, false)
  | fuel + 1, s, t, finReq =>
    match t with
    | .sd _ .fin => (s, true)
    | _ =>
      match step true true s t with
      | (s', t') :: _ => runShutdown fuel s' t' finReq
      | [] =>
        let s' := quiesce 10000 s finReq
        match step true true s' t with
        | [] => (s', false)       -- still blocked: would hang
        | _ => runShutdown fuel s' t finReq

def latestInst (s : St) (name : Nat) : Nat → Option Nat
  | 0 => none
  | k + 1 => if (s.objs k).name == name then some k else latestInst s name k

def insertBy (lt : (Nat × Int) → (Nat × Int) → Bool) (x : Nat × Int) : List (Nat × Int) → List (Nat × Int)
  | [] => [x]
  | y :: ys => if lt x y then x :: y :: ys else y :: insertBy lt x ys

def sortBy (lt : (Nat × Int) → (Nat × Int) → Bool) (l : List (Nat × Int)) : List (Nat × Int) :=
  l.foldl (fun acc x => insertBy lt x acc) []

def showWorkers (s : St) : String :=
  -- the model's `GetRunningBackgroundWorkers` (`runningList`, what `C20_running_list_*` are about); ties are in no
  -- particular order (`sort.Slice`), so the answer is canonicalised by (order, name) on both sides
  let l := (runningList s).map (fun i => ((s.objs i).name, (s.objs i).order))
  let l := sortBy (fun a b => a.2 < b.2 || (a.2 == b.2 && a.1 < b.1)) l
  "[" ++ " ".intercalate (l.map (fun p => s!"{p.1}:{p.2}")) ++ "]"

def insertNat (x : Nat) : List Nat → List Nat
  | [] => [x]
  | y :: ys => if x < y then x :: y :: ys else y :: insertNat x ys

/-- The `seen` events of the model trace, grouped: adjacent events of the same order form one group. -/
def seenGroups (s : St) : List (Int × List Nat) :=
  s.tr.foldl (fun acc e =>
    match e with
    | .seen i =>
      let o := (s.objs i).order
      let nm := (s.objs i).name
      match acc with
      | (o', ns) :: rest => if o' == o then (o', insertNat nm ns) :: rest else (o, [nm]) :: acc
      | [] => [(o, [nm])]
    | _ => acc) []

def showSeen (s : St) : String :=
  match (seenGroups s).reverse with
  | [] => "-"
  | gs => "|".intercalate (gs.map (fun g => s!"{g.1}:" ++ ",".intercalate (g.2.map toString)))

def lastAnswer (s : St) : String :=
  s.tr.foldl (fun acc e =>
    match e with
    | .accept _ _ _ => "ok"
    | .refuse _ _ .stopped => "stopped"
    | .refuse _ _ .dup => "dup"
    | .refuse _ _ .running => "running"
    | .refuse _ _ .panic => "panic"
    | _ => acc) "?"

/-- The variadic `order ...int` argument of a `bw` op: `-` = no order given, `a,b,…` = several. -/
def parseOrders (tok : String) : Option (List Int) :=
  if tok == "-" then some [] else (tok.splitOn ",").mapM String.toInt?

def doOp (d : DSt) : List String → DSt × String
  | ["bw", n, o, k] =>
    match n.toNat?, parseOrders o with
    | some n, some os =>
      let o := effOrder os
      let i := d.s.n
      let (s1, _) := runThread 10 d.s (.bw d.nextCall n o .call)
      let ans := lastAnswer s1
      let fr := if ans == "ok" && k == "x" then i :: d.finReq else d.finReq
      ({ d with s := quiesce 10000 s1 fr, finReq := fr, nextCall := d.nextCall + 1 }, ans)
    | _, _ => (d, "bad-op")
  | ["start"] =>
    let (s1, _) := runThread 10 d.s (.starter .call)
    ({ d with s := quiesce 10000 s1 d.finReq }, "ok")
  | ["fin", n] =>
    match n.toNat? with
    | some n =>
      match latestInst d.s n d.s.n with
      | none => (d, "noinst")
      | some i =>
        let fr := i :: d.finReq
        ({ d with s := quiesce 10000 d.s fr, finReq := fr }, "ok")
    | none => (d, "bad-op")
  | ["workers"] => (d, showWorkers d.s)
  | ["isrunning"] => (d, showBool d.s.running)
  | ["isstopped"] => (d, showBool d.s.stopped)
  -- `ContextStopped()`: cancelled by `shutdown()` right after the stopped flag is stored, before the workers are
  -- stopped; at quiescence it is cancelled exactly when the flag is set
  | ["ctxstopped"] => (d, showBool d.s.stopped)
  | ["sdw"] =>
    let (s1, ok) := runShutdown 100000 d.s (.sd d.nextCall .call) d.finReq
    ({ d with s := quiesce 10000 s1 d.finReq, nextCall := d.nextCall + 1 }, if ok then "ok" else "timeout")
  | ["seenlog"] => (d, showSeen d.s)
  | ["end"] => (d, "ok")
  | ["obs", "on"] => ({ d with obs := true }, "ok")
  | _ => (d, "bad-op")

/-- What is observable of the daemon between two calls: `GetRunningBackgroundWorkers`, `IsRunning`, `IsStopped`. -/
def showState (s : St) : String :=
  showWorkers s ++ " " ++ showBool s.running ++ " " ++ showBool s.stopped

/-- A sequential op; with `obs on` the answer is followed by the state after the op (so that model and implementation
are compared after *every* operation, not only where the script asks). -/
def doOpObs (d : DSt) (toks : List String) : DSt × String :=
  let (d', a) := doOp d toks
  if d'.obs && toks != ["end"] then (d', a ++ " | " ++ showState d'.s) else (d', a)

def stepLine (d : DSt) (toks : List String) : DSt × String :=
  match toks with
  | ["mode", "seq"] => ({ d with seq := true }, "ok")
  | ["mode", _] => ({ d with seq := false }, "ok")
  | "op" :: _ => (d, "-")
  | "do" :: rest => if d.seq then doOpObs d rest else (d, "bad-op")
  | "ev" :: rest =>
    match parseEv rest with
    | some e => ({ d with evs := e :: d.evs }, "ok")
    | none => (d, "bad-ev")
  | ["verdict"] => (d, verdict d.evs.reverse)
  | ["check"] => (d, verdict d.evs.reverse)
  | _ => (d, "bad-op")

end Hive.Daemon
