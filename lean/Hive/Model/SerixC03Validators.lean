import Hive.Model.SerixPrim
/-!
# The exported validators and helpers of serializer/serializable.go, one by one

`Hive/Model/SerixPrim.lean` models `ArrayRules.ElementValidationFunc` the way serix and the `Serializer` use it: chained,
and abandoned at the first refusal.  The constructors are exported API on their own (`ElementUniqueValidator`,
`LexicalOrderValidator`, `LexicalOrderWithoutDupsValidator`, `AtMostOneOfEachTypeValidator(denotation)`), and a validator
that has refused an element can be called again: here every closure is a state machine of its own, **including what a
refusal leaves behind** (nothing is recorded for a refused element; in the chained function the validators in front of the
refusing one have already recorded it), together with `ArrayRules.CheckBounds`, `TypePrefixes.Subset`, the
`LexicalOrdered*` sort helpers (`sort.Sort` through `Len/Less/Swap`) and `AbortIf` / `Do` of the two chains.

Line protocol (driver `drv_c03`, harness `harness/c03/prim`), all lines start with `x`:

* `x val KIND HEX*` — one fresh validator of KIND ∈ `uniq | lex | lexnd | one8 | one32 | onebad` fed with the elements in
  order, refusals included → one token per element: `-` or the error class; `panic` for an unknown denotation
* `x evf FLAGS HEX*` — `ArrayRules{ValidationMode: FLAGS}.ElementValidationFunc()` fed the same way (`nil` when no mode bit
  is set: the function value is nil)
* `x cb MIN MAX COUNT` — `CheckBounds` → `-` | `arr-min` | `arr-max`
* `x sub A,B,… C,D,…` — `TypePrefixes.Subset` (`-` for the empty set) → `true` | `false`
* `x sort KIND HEX*` — `sort.Sort(LexicalOrderedByteSlices | LexicalOrdered32ByteArrays | …36… | …40…)` and
  `SortedSerializables` → the elements in sorted order
* `x time NANOS` — `TimeToUint64` → the uint64
-/
namespace Hive.Serix.VX
open Hive.Proto Hive.Serix

/-- The exported validator constructors. `one w`: `AtMostOneOfEachTypeValidator` with a denotation of `w` bytes. -/
inductive VKind where
  | uniq | lex | lexNd | one (w : Nat)
deriving Repr, DecidableEq

/-- The captured variables of one closure: the keys of its map (`uniq`: whole elements, `one w`: the first `w` bytes) or
its previous element. -/
structure S where
  set : List Bytes := []
  prev : Option Bytes := none
deriving Repr

/-- One call of a validator closure: the state it leaves and its answer. -/
def step : VKind → S → Bytes → S × Option EK
  | .uniq, st, x =>
    if st.set.contains x then (st, some .arrUnique) else ({ st with set := x :: st.set }, none)
  | .lex, st, x =>
    match st.prev with
    | none => ({ st with prev := some x }, none)
    | some p => if !lexLe p x then (st, some .arrOrder) else ({ st with prev := some x }, none)
  | .lexNd, st, x =>
    match st.prev with
    | none => ({ st with prev := some x }, none)
    | some p =>
      if !lexLe p x then (st, some .arrOrder)
      else if p == x then (st, some .arrUnique)
      else ({ st with prev := some x }, none)
  | .one w, st, x =>
    if x.length < w then (st, some .invalidBytes)
    else if st.set.contains (x.take w) then (st, some .arrTypeUnique)
    else ({ st with set := x.take w :: st.set }, none)

/-- A validator fed with elements in order, refusals included: the answers. -/
def feed (k : VKind) : S → List Bytes → List (Option EK)
  | _, [] => []
  | st, x :: xs => let (st', e) := step k st x; e :: feed k st' xs

/-- A validator accepts a sequence: no element is refused (what `WriteSliceOfByteSlices` / `ReadSequenceOfObjects` ask). -/
def accepts (k : VKind) : S → List Bytes → Bool
  | _, [] => true
  | st, x :: xs => match step k st x with
    | (st', none) => accepts k st' xs
    | (_, some _) => false

/-- The validators `ElementValidationFunc` chains for a mode, in the order of the mode bits. -/
def chainOf (r : Rules) : List VKind :=
  (if r.noDups && !r.lex then [.uniq] else []) ++
  (if r.lex then [if r.noDups then .lexNd else .lex] else []) ++
  (if r.one8 then [.one 1] else []) ++ (if r.one32 then [.one 4] else [])

/-- One call of the chained function (`wrap`): the validators run in order, each one that accepts records the element, the
first refusal is the answer and the validators behind it are not called. -/
def chainStep : List (VKind × S) → Bytes → List (VKind × S) × Option EK
  | [], _ => ([], none)
  | (k, s) :: rest, x =>
    match step k s x with
    | (s', some e) => ((k, s') :: rest, some e)
    | (s', none) => let (rest', e) := chainStep rest x; ((k, s') :: rest', e)

def chainFeed : List (VKind × S) → List Bytes → List (Option EK)
  | _, [] => []
  | c, x :: xs => let (c', e) := chainStep c x; e :: chainFeed c' xs

def chainAccepts : List (VKind × S) → List Bytes → Bool
  | _, [] => true
  | c, x :: xs => match chainStep c x with
    | (c', none) => chainAccepts c' xs
    | (_, some _) => false

def chainInit (r : Rules) : List (VKind × S) := (chainOf r).map (fun k => (k, {}))

/-- `TypePrefixes.Subset`. -/
def subset (a b : List Nat) : Bool := a.all (fun x => b.contains x)

/-- `sort.Sort` with `Less(i, j) = bytes.Compare(l[i], l[j]) < 0`: the order is total and elements that compare equal are
equal, so every correct sorting algorithm gives the same list. -/
def sortLex (l : List Bytes) : List Bytes := sortBytes l

/-! ## Lines -/

def parseKind : String → Option (Option VKind)
  | "uniq" => some (some .uniq)
  | "lex" => some (some .lex)
  | "lexnd" => some (some .lexNd)
  | "one8" => some (some (.one 1))
  | "one32" => some (some (.one 4))
  | "onebad" => some none
  | _ => none

def showAnswers (l : List (Option EK)) : String :=
  if l.isEmpty then "ok" else " ".intercalate (l.map showEK)

def parseNatSet (s : String) : Option (List Nat) :=
  if s == "-" then some [] else (s.splitOn ",").mapM (·.toNat?)

def stepX : List String → String
  | "val" :: kind :: hs =>
    match parseKind kind, parseHexes hs with
    | some (some k), some xs => showAnswers (feed k {} xs)
    | some none, some xs => if xs.isEmpty then "ok" else "panic"
    | _, _ => "bad-op"
  | "evf" :: fl :: hs =>
    match parseRulesFlat "0" "0" fl false, parseHexes hs with
    | some r, some xs => if (chainOf r).isEmpty then "nil" else showAnswers (chainFeed (chainInit r) xs)
    | _, _ => "bad-op"
  | ["cb", mn, mx, n] =>
    match mn.toNat?, mx.toNat?, n.toNat? with
    | some a, some b, some c => showEK (boundsErr { min := a, max := b } c)
    | _, _, _ => "bad-op"
  | ["sub", a, b] =>
    match parseNatSet a, parseNatSet b with
    | some x, some y => toString (subset x y)
    | _, _ => "bad-op"
  | "sort" :: _ :: hs =>
    match parseHexes hs with
    | some xs => "[" ++ ",".intercalate ((sortLex xs).map hex) ++ "]"
    | none => "bad-op"
  | ["time", x] =>
    match parseInt x with
    | some ns => toString (timeToU64 ns)
    | none => "bad-op"
  | _ => "bad-op"

/-- `Serializer.AbortIf` / `Do` and `Deserializer.AbortIf` / `Do`: skipped once an error is stored; `AbortIf` stores what
the producer returns (the harness's producer returns its `item` error or nil), `Do` runs the function.
`w abort 0|1` → `<Written()> <class>`; `w do` → `<Written()> <class> called|skipped`; `r abort 0|1` → `- <offset> <class>`;
`r do` → `- <offset> <class> called|skipped`. -/
def stepChain (p : PSt) : List String → Option (PSt × String)
  | ["w", "abort", b] =>
    let ser := if p.ser.err.isSome || b != "1" then p.ser else { p.ser with err := some .item }
    some ({ p with ser := ser }, showSer ser)
  | ["w", "do"] => some (p, showSer p.ser ++ (if p.ser.err.isSome then " skipped" else " called"))
  | ["r", "abort", b] =>
    let de := if p.de.err.isSome || b != "1" then p.de else { p.de with err := some .item }
    some ({ p with de := de }, s!"- {de.off} {showEK de.err}")
  | ["r", "do"] => some (p, s!"- {p.de.off} {showEK p.de.err}" ++ (if p.de.err.isSome then " skipped" else " called"))
  | _ => none

/-- Lines of all three protocols of `drv_c03`. -/
def stepLine4 (s : Option Ty × PSt) (toks : List String) : (Option Ty × PSt) × String :=
  match toks with
  | "x" :: rest => (s, stepX rest)
  | _ =>
    match stepChain s.2 toks with
    | some (p, o) => ((s.1, p), o)
    | none => stepLine3 s toks

end Hive.Serix.VX
