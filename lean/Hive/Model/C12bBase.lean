import Hive.Base.Proto
/-!
# Shared pieces of the C12 part-B container models (core Lean only)

A Go `map[K]V` (and `shrinkingmap.ShrinkingMap`, whose shrinking is unobservable — part A of C12)
is modelled as an association list over `Nat` keys: `get` returns the first binding, `set`
overwrites the first binding in place or appends, `del` removes every binding of the key.  The
models never create duplicate keys (`NoDupKeys` is part of each invariant); iteration order of a
Go map is not defined, so everything that comes out of an iteration is sorted before it is printed.
-/
namespace Hive.C12b

abbrev AMap (β : Type) := List (Nat × β)

namespace AMap
variable {β : Type}

def get : AMap β → Nat → Option β
  | [], _ => none
  | (k', v) :: m, k => if k' = k then some v else get m k

def has (m : AMap β) (k : Nat) : Bool := (get m k).isSome

def set : AMap β → Nat → β → AMap β
  | [], k, v => [(k, v)]
  | (k', v') :: m, k, v => if k' = k then (k, v) :: m else (k', v') :: set m k v

def del : AMap β → Nat → AMap β
  | [], _ => []
  | (k', v') :: m, k => if k' = k then del m k else (k', v') :: del m k

def keys (m : AMap β) : List Nat := m.map (·.1)

end AMap

/-! ## canonical printing -/

/-- Insertion sort by a key function (stable); used for printing only. -/
def insertBy {α : Type} (f : α → Nat) (x : α) : List α → List α
  | [] => [x]
  | y :: ys => if f x < f y then x :: y :: ys else y :: insertBy f x ys

def sortBy {α : Type} (f : α → Nat) (l : List α) : List α :=
  l.foldl (fun acc x => insertBy f x acc) []

def showKV (p : Nat × Nat) : String := s!"{p.1}={p.2}"

def showKVs (m : AMap Nat) : String :=
  "[" ++ " ".intercalate ((sortBy (·.1) m).map showKV) ++ "]"

def showNats (l : List Nat) : String :=
  "[" ++ " ".intercalate (l.map toString) ++ "]"

def natsOf (toks : List String) : Option (List Nat) :=
  toks.mapM (·.toNat?)

def boolOf : String → Option Bool
  | "1" => some true
  | "0" => some false
  | "true" => some true
  | "false" => some false
  | _ => none

end Hive.C12b
