import Hive.Model.C12bBase
/-!
# Model of `onchangemap.OnChangeMap` (ds/onchangemap/onchangemap.go)

Data layout: the map `m` (id → item; an item is its id plus one mutable value), the switch
`callbacksEnabled` and the four optional callbacks (present / nil).  Callbacks may fail: every
mutating request carries two flags saying whether the changed-callback (`fc`) and the item callback
(`fi`) return an error in this call.

```
executeChangedCallback: if !enabled {nil}; if changedCallback != nil { changedCallback(m.Values()) → error? }
executeItemCallback(cb,item): if !enabled {nil}; executeChangedCallback()? ; if cb != nil { cb(item) → error? }
Add(item):    exists → error (nothing else happens); m.Set; executeItemCallback(added)
Modify(id,f): missing → error; if !f(item) { return clone }; return clone, executeItemCallback(modified)
Delete(id):   missing → error; m.Delete; executeItemCallback(deleted)
```
The stored state is never rolled back when a callback fails.  `f` receives the stored item itself
and may mutate it whatever it returns (`mutate` / `report` flags of the `modify` request).
-/
namespace Hive.C12b.OC

inductive Event
  | changed (snapshot : AMap Nat)
  | added (k v : Nat)
  | modified (k v : Nat)
  | deleted (k v : Nat)
deriving Repr, DecidableEq

inductive Res
  | ok
  | errExists
  | errMissing
  | errChanged
  | errItem
deriving Repr, DecidableEq

structure St where
  m : AMap Nat
  enabled : Bool
  hasC : Bool
  hasA : Bool
  hasM : Bool
  hasD : Bool
deriving Repr

def init (c a m d : Bool) : St := { m := [], enabled := false, hasC := c, hasA := a, hasM := m, hasD := d }

inductive Op
  | enable (b : Bool)
  | add (k v : Nat) (fc fi : Bool)
  | modify (k v : Nat) (mutate report : Bool) (fc fi : Bool)
  | delete (k : Nat) (fc fi : Bool)
  | get (k : Nat)
  | all
  | exec (fc : Bool)
deriving Repr, DecidableEq

structure Out where
  res : Res
  item : Option (Nat × Nat) := none
  all : Option (AMap Nat) := none
  events : List Event := []
deriving Repr, DecidableEq

def execChanged (s : St) (fc : Bool) : Res × List Event :=
  if !s.enabled then (.ok, [])
  else if s.hasC then (if fc then .errChanged else .ok, [.changed s.m])
  else (.ok, [])

def execItem (s : St) (present : Bool) (ev : Event) (fc fi : Bool) : Res × List Event :=
  if !s.enabled then (.ok, [])
  else
    match execChanged s fc with
    | (.ok, evs) => if present then (if fi then .errItem else .ok, evs ++ [ev]) else (.ok, evs)
    | (e, evs) => (e, evs)

def step (s : St) : Op → St × Out
  | .enable b => ({ s with enabled := b }, { res := .ok })
  | .add k v fc fi =>
    if s.m.has k then (s, { res := .errExists })
    else
      let s' := { s with m := s.m.set k v }
      let r := execItem s' s.hasA (.added k v) fc fi
      (s', { res := r.1, events := r.2 })
  | .modify k v mutate report fc fi =>
    match s.m.get k with
    | none => (s, { res := .errMissing })
    | some old =>
      let nv := if mutate then v else old
      let s' := { s with m := s.m.set k nv }
      if !report then (s', { res := .ok, item := some (k, nv) })
      else
        let r := execItem s' s.hasM (.modified k nv) fc fi
        (s', { res := r.1, item := some (k, nv), events := r.2 })
  | .delete k fc fi =>
    match s.m.get k with
    | none => (s, { res := .errMissing })
    | some old =>
      let s' := { s with m := s.m.del k }
      let r := execItem s' s.hasD (.deleted k old) fc fi
      (s', { res := r.1, events := r.2 })
  | .get k =>
    match s.m.get k with
    | none => (s, { res := .errMissing })
    | some v => (s, { res := .ok, item := some (k, v) })
  | .all => (s, { res := .ok, all := some s.m })
  | .exec fc => let r := execChanged s fc; (s, { res := r.1, events := r.2 })

def run (s : St) : List Op → St × List Out
  | [] => (s, [])
  | op :: ops =>
    let r := step s op
    let rs := run r.1 ops
    (rs.1, r.2 :: rs.2)

def final (s : St) (ops : List Op) : St := ops.foldl (fun s op => (step s op).1) s

/-! ## abstract specification: a plain keyed store (what `Get` / `All` / the error answers see) -/

abbrev Spec := Nat → Option Nat

def upd (f : Spec) (k : Nat) (v : Option Nat) : Spec := fun x => if x = k then v else f x

/-- The store-level effect and answer of a request, independent of every callback setting. -/
def specStep (f : Spec) : Op → Spec × Option Res × Option (Nat × Nat)
  | .enable _ => (f, none, none)
  | .add k v _ _ => if (f k).isSome then (f, some .errExists, none) else (upd f k (some v), none, none)
  | .modify k v mutate _ _ _ =>
    match f k with
    | none => (f, some .errMissing, none)
    | some old => let nv := if mutate then v else old; (upd f k (some nv), none, some (k, nv))
  | .delete k _ _ =>
    match f k with
    | none => (f, some .errMissing, none)
    | some _ => (upd f k none, none, none)
  | .get k =>
    match f k with
    | none => (f, some .errMissing, none)
    | some v => (f, some .ok, some (k, v))
  | .all => (f, some .ok, none)
  | .exec _ => (f, none, none)

/-- Replica maintained by a listener from the item events alone. -/
def applyEvent (f : Spec) : Event → Spec
  | .changed _ => f
  | .added k v => upd f k (some v)
  | .modified k v => upd f k (some v)
  | .deleted k _ => upd f k none

def replay (f : Spec) (evs : List Event) : Spec := evs.foldl applyEvent f

/-! ## line protocol -/
open Hive.Proto

def showEvent : Event → String
  | .changed snap => "C" ++ showKVs snap
  | .added k v => s!"A({k}={v})"
  | .modified k v => s!"M({k}={v})"
  | .deleted k v => s!"D({k}={v})"

def showRes : Res → String
  | .ok => "ok"
  | .errExists => "err-exists"
  | .errMissing => "err-missing"
  | .errChanged => "err-changed"
  | .errItem => "err-item"

def showOut (o : Out) : String :=
  let parts := [showRes o.res] ++
    (match o.item with | some p => [showKV p] | none => []) ++
    (match o.all with | some m => [showKVs m] | none => []) ++
    (if o.events.isEmpty then [] else ["|"] ++ o.events.map showEvent)
  " ".intercalate parts

def parseOp : List String → Option Op
  | ["enable", b] => (boolOf b).map .enable
  | ["add", k, v, fc, fi] => do some (.add (← k.toNat?) (← v.toNat?) (← boolOf fc) (← boolOf fi))
  | ["mod", k, v, mu, rp, fc, fi] => do
      some (.modify (← k.toNat?) (← v.toNat?) (← boolOf mu) (← boolOf rp) (← boolOf fc) (← boolOf fi))
  | ["del", k, fc, fi] => do some (.delete (← k.toNat?) (← boolOf fc) (← boolOf fi))
  | ["get", k] => k.toNat?.map .get
  | ["all"] => some .all
  | ["exec", fc] => (boolOf fc).map .exec
  | _ => none

def stepLine (s : St) (toks : List String) : St × String :=
  match toks with
  | ["new", c, a, m, d] =>
    match boolOf c, boolOf a, boolOf m, boolOf d with
    | some c, some a, some m, some d => (init c a m d, "ok")
    | _, _, _, _ => (s, "bad-op")
  | ["state"] => (s, s!"enabled={if s.enabled then 1 else 0} {showKVs s.m}")
  | _ => match parseOp toks with
    | some op => let r := step s op; (r.1, showOut r.2)
    | none => (s, "bad-op")

end Hive.C12b.OC
