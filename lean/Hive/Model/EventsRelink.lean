import Hive.Base.Proto
import Hive.Conc.Sys
/-!
# `LinkTo` concurrent with `Trigger` (C15)

One source event `S` and the registry of one target event `X` (registries of different targets are
independent ordered maps; a `LinkTo` to any other target or to nil only *removes* `S`'s link hook
from `X`).  `linkTo` runs under `S.linkMutex`: acquire, `e.link.Unhook()` (a `Delete` on the
registry that holds the old link hook), `target.Hook(e.Trigger)` (atomic id, `Set` at the tail),
store `e.link`, release.  Triggers of `X` iterate the registry weakly (`orderedmap.ForEach`, see
`EventsIter.lean`); visiting a link hook calls `S.Trigger`.  User `Hook`/`Unhook` callers run as well
(they have no handle on link hooks).

The registry is the one of `EventsIter` with one more ghost component: every frozen entry remembers
the value of the id counter at the time of the removal.  Ghosts of an iterator: `c0` = id counter
when it read `head`, `dead0` = the ids already removed at that moment.
-/
namespace Hive.EventsRelink
open Hive.Conc

structure Reg where
  live : List Nat
  frozen : List (Nat × Option Nat × Nat)   -- (id, next pointer at removal, id counter at removal)
  counter : Nat
deriving Repr, DecidableEq

def liveNext (r : Reg) (x : Nat) : Option Nat := r.live.find? (fun y => decide (x < y))

def next (r : Reg) (x : Nat) : Option Nat :=
  if r.live.contains x then liveNext r x
  else match r.frozen.find? (fun p => p.1 == x) with
    | some p => p.2.1
    | none => none

def attach (r : Reg) : Reg := { r with live := r.live ++ [r.counter + 1], counter := r.counter + 1 }

def delete (r : Reg) (x : Nat) : Reg :=
  if r.live.contains x then
    { r with live := r.live.filter (fun y => y != x), frozen := (x, liveNext r x, r.counter) :: r.frozen }
  else r

structure Sh where
  reg : Reg
  link : Option Nat        -- `S.link`, if it is a hook in X's registry
  mutex : Bool             -- `S.linkMutex` is held
  linkIds : List Nat       -- ghost: every id ever given to a link hook of S on X, newest first
deriving Repr, DecidableEq

inductive ItPc
  | start | at (x : Nat) | after (x : Nat) | fin
deriving Repr, DecidableEq

inductive LPc
  | acquire | unhook | hook | fin
deriving Repr, DecidableEq

inductive Th
  | it (pc : ItPc) (c0 : Nat) (dead0 : List Nat) (visited : List Nat)
  | att (done : Bool)
  | del (x : Nat) (done : Bool)
  | lk (toX : Bool) (pc : LPc)      -- `S.LinkTo(X)` / `S.LinkTo(other or nil)`
deriving Repr, DecidableEq

def pcOf : Option Nat → ItPc
  | some x => .at x
  | none => .fin

def step (s : Sh) : Th → List (Sh × Th)
  | .it .start _ _ vs => [(s, .it (pcOf s.reg.live.head?) s.reg.counter (s.reg.frozen.map (·.1)) vs)]
  | .it (.at x) c0 d vs => [(s, .it (.after x) c0 d (vs ++ [x]))]
  | .it (.after x) c0 d vs => [(s, .it (pcOf (next s.reg x)) c0 d vs)]
  | .it .fin _ _ _ => []
  | .att false => [({ s with reg := attach s.reg }, .att true)]
  | .att true => []
  | .del x false =>
    if s.linkIds.contains x then [(s, .del x true)]   -- users hold no handle on link hooks
    else [({ s with reg := delete s.reg x }, .del x true)]
  | .del _ true => []
  | .lk toX .acquire => if s.mutex then [] else [({ s with mutex := true }, .lk toX .unhook)]
  | .lk toX .unhook =>
    match s.link with
    | some k => [({ s with reg := delete s.reg k, link := none }, .lk toX .hook)]
    | none => [(s, .lk toX .hook)]
  | .lk true .hook =>
    [({ s with reg := attach s.reg, link := some (s.reg.counter + 1), linkIds := (s.reg.counter + 1) :: s.linkIds,
               mutex := false }, .lk true .fin)]
  | .lk false .hook => [({ s with mutex := false }, .lk false .fin)]
  | .lk _ .fin => []

def sys : Sys Sh Th := { step := step }

def Th.initial : Th → Bool
  | .it .start _ _ [] => true
  | .att false => true
  | .del _ false => true
  | .lk _ .acquire => true
  | _ => false

/-- Number of times an iteration called `S.Trigger`: visited hooks that are link hooks of S. -/
def fires (s : Sh) (vs : List Nat) : Nat := vs.countP (fun v => s.linkIds.contains v)

/-! ## line protocol (`it …`): one target event X and one source event S; callbacks hook, unhook
and re-link while `X.Trigger` iterates (section `it` of the harness) -/
open Hive.Proto

structure LSt where
  sh : Sh
  user : List Nat          -- user handle ↦ id
  cur : Option ItPc        -- the running iteration of X, if any
deriving Repr

def linit : LSt :=
  { sh := { reg := { live := [], frozen := [], counter := 0 }, link := none, mutex := false, linkIds := [] },
    user := [], cur := none }

/-- `linkTo` as one uninterrupted call (the harness calls it from inside a callback). -/
def relink (s : Sh) (toX : Bool) : Sh :=
  let s1 := match s.link with
    | some k => { s with reg := delete s.reg k, link := none }
    | none => s
  if toX then
    { s1 with reg := attach s1.reg, link := some (s1.reg.counter + 1), linkIds := (s1.reg.counter + 1) :: s1.linkIds }
  else s1

def showId (s : LSt) (y : Nat) : String :=
  if s.sh.linkIds.contains y then "s"
  else match s.user.findIdx? (· == y) with
    | some h => s!"h{h}"
    | none => "?"

def stepLine (s : LSt) (toks : List String) : LSt × String :=
  match toks with
  | ["hook"] =>
    ({ s with sh := { s.sh with reg := attach s.sh.reg }, user := s.user ++ [s.sh.reg.counter + 1] },
     s!"h{s.user.length}")
  | ["unhook", h] =>
    match h.toNat? with
    | some h =>
      match s.user[h]? with
      | some x => ({ s with sh := { s.sh with reg := delete s.sh.reg x } }, "done")
      | none => (s, "bad-op")
    | none => (s, "bad-op")
  | ["link"] => ({ s with sh := relink s.sh true }, "done")
  | ["unlink"] => ({ s with sh := relink s.sh false }, "done")
  | ["begin", _] =>
    match s.cur with
    | none => ({ s with cur := some .start }, "begun")
    | some _ => (s, "bad-op")
  | ["visit"] =>
    match s.cur with
    | none => (s, "idle")
    | some pc =>
      let nxt := match pc with
        | .start => s.sh.reg.live.head?
        | .after x => next s.sh.reg x
        | .at x => some x
        | .fin => none
      match nxt with
      | some y => ({ s with cur := some (.after y) }, showId s y)
      | none => ({ s with cur := none }, "end")
  | _ => (s, "bad-op")

end Hive.EventsRelink
