/-!
# The 8-byte value buffer of `kvstore.Sequence` at the level of memory (C07)

`update` and `Release` encode the number to store into 8 bytes and hand that *slice* to `seq.store.Set(seq.key, buf[:])`.
Whether the database ends up holding the number the call was made with depends on two things that the cell-level models
(`Hive/Model/Seq.lean`, `SeqStore.lean`, `SeqMulti.lean`) take for granted:

* where the bytes live (`Policy`): a local array `var buf [8]byte` — it escapes through the interface call, so every call
  gets a new array (`local`) —, a buffer field of the `Sequence` object (`perObject`), or a buffer shared by all
  sequences such as a package-level array or a `sync.Pool` slot that is put back before the store call returns (`pooled`);
* what the store does with the slice: copy the bytes (`copying = true`: `mapdb` — `byteutils.ConcatBytes(value)` —, every
  on-disk database) or keep the slice itself (`copying = false`).

Any number of sequences (keys) work on one heap and one database; the events of different keys interleave arbitrarily,
also *between* the moment a key has encoded its value and the moment the store takes it (`encode k v` … `commit k`).
The events of one key alternate (its mutex).  Ghosts: `want k` = the number of the call under way as it was encoded when the
call was made, `acked k` = the number of the last completed `Set`.

`Hive/Props/C07g.lean`: with the local buffer of the code the database holds, for every key, at every moment, exactly the
number of the last completed `Set` — whatever the other keys do and even if the store keeps the slice; with a per-object
buffer this holds over copying stores only; with a shared buffer not even there.
-/
namespace Hive.Seq.Mem

/-- Where 8 bytes live. -/
inductive Addr
  | fresh (n : Nat)      -- the n-th allocation
  | object (k : Nat)     -- a buffer field of the Sequence object of key `k`
  | pool                 -- one buffer for all sequences
deriving Repr, DecidableEq

inductive Policy
  | local | perObject | pooled
deriving Repr, DecidableEq

structure M where
  heap : Addr → Nat             -- the number the 8 bytes at the address encode
  brk : Nat                     -- allocations so far
  cell : Nat → Option Addr      -- the database: key ↦ where the stored value lives
  pending : Nat → Option Addr   -- key ↦ the slice handed to the `store.Set` that is under way
  want : Nat → Option Nat       -- ghost: the number of the call under way, as encoded when the call was made
  acked : Nat → Option Nat      -- ghost: the number of the last completed `Set`

def init : M :=
  { heap := fun _ => 0, brk := 0, cell := fun _ => none, pending := fun _ => none, want := fun _ => none, acked := fun _ => none }

def updA (f : Addr → Nat) (a : Addr) (v : Nat) : Addr → Nat := fun x => if x = a then v else f x
def updK {α : Type} (f : Nat → α) (k : Nat) (v : α) : Nat → α := fun x => if x = k then v else f x

inductive Ev
  | encode (k v : Nat)   -- `binary.BigEndian.PutUint64(buf[:], v)`; `seq.store.Set(seq.key, buf[:])` is entered
  | commit (k : Nat)     -- the store takes the value (copies it / keeps the slice); `Set` answers nil
  | refuse (k : Nat)     -- `Set` answers an error: nothing is written
deriving Repr, DecidableEq

/-- Where the code of key `k` encodes. -/
def bufAddr (p : Policy) (k brk : Nat) : Addr :=
  match p with
  | .local => .fresh brk
  | .perObject => .object k
  | .pooled => .pool

def step (p : Policy) (copying : Bool) (m : M) : Ev → M
  | .encode k v =>
    match m.pending k with
    | some _ => m                                   -- the mutex of key k: one call at a time
    | none =>
      let a := bufAddr p k m.brk
      { m with heap := updA m.heap a v, brk := m.brk + 1, pending := updK m.pending k (some a), want := updK m.want k (some v) }
  | .commit k =>
    match m.pending k with
    | none => m
    | some a =>
      if copying then
        { m with heap := updA m.heap (.fresh m.brk) (m.heap a), brk := m.brk + 1, cell := updK m.cell k (some (.fresh m.brk)),
                 pending := updK m.pending k none, acked := m.want k |> updK m.acked k }
      else
        { m with cell := updK m.cell k (some a), pending := updK m.pending k none, acked := m.want k |> updK m.acked k }
  | .refuse k => { m with pending := updK m.pending k none }

def run (p : Policy) (copying : Bool) (m : M) (evs : List Ev) : M := evs.foldl (step p copying) m

/-- What the database holds under key `k` (what a process started later reads). -/
def stored (m : M) (k : Nat) : Option Nat := (m.cell k).map m.heap

end Hive.Seq.Mem
