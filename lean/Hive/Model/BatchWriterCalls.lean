import Hive.Model.BatchWriter
/-!
# A small language for the straight-line callers of kvstore/batch_writer.go and its meaning as protocol steps (C08)

`harness/c08/callgen` translates `StopBatchWriter`, `Flush`, `startBatchWriter` and `Enqueue` (go/ast) into terms of `PS` on every
run (`Hive/Gen/C08_Calls.lean`).  `flatten` lays a term out as an instruction list (an `if` becomes a conditional branch
over its body), `stepI` gives every instruction its meaning as one atomic step on the shared state of the protocol
model — the Go semantics of `sync.Mutex`, `atomic.Bool`, `sync.WaitGroup`, `go`, and a non-blocking send on the
1-buffered flush channel, as the hand-written model uses them.  `Hive/Props/BatchWriterCalls.lean` proves that the
model's `stepStop`, `stepFlush` and the `startBatchWriter` part of `stepProd` are exactly these interpreted programs
(program counter ↔ instruction index), i.e. these parts of the model are derived from the source text.  Core Lean only.
-/
namespace Hive.BatchWriter.Calls
open Hive.Spec.BatchWriter

inductive PS
  | lock | unlock                       -- bw.startStopMutex.Lock() / Unlock()
  | storeRunning (b : Bool)             -- bw.running.Store(b)
  | wgAdd (n : Nat)                     -- bw.writeWg.Add(n)
  | wgWait                              -- bw.writeWg.Wait()
  | goWriter                            -- go bw.runBatchWriter()
  | flushTrySend                        -- select { case bw.flushChan <- struct{}{}: default: }
  | ifRunning (neg : Bool) (thn : List PS)   -- if [!]bw.running.Load() { thn }
  | onceDo (body : List PS)             -- bw.autoStartOnce.Do(func() { body })
  | callStart                           -- bw.startBatchWriter()
  | countAdd (n : Int)                  -- bw.scheduledCount.Add(n)
  | yield                               -- verifYield("BatchedWriter.Enqueue:after-running-check")
  | ifScheduled (thn : List PS)         -- if object.BatchWriteScheduled() { thn }
  | send                                -- bw.batchQueue <- object
  | ret                                 -- return
  | unsupported (text : String)

inductive I
  | lock | unlock | storeRunning (b : Bool) | wgAdd (n : Nat) | wgWait | goWriter | flushTrySend
  | brRunning (neg : Bool) (els : Nat)  -- load `running`; go on if the guard holds, otherwise jump to `els`
  | onceEnter (els : Nat)               -- sync.Once: first caller enters the body, later ones wait for its end, then `els`
  | onceExit                            -- the body has returned: the Once is done
  | callStart | countAdd (n : Int) | yield | send | ret
  | brScheduled (els : Nat)             -- object.BatchWriteScheduled(): was scheduled → go on, newly scheduled → `els`
  | unsupported
deriving DecidableEq, Repr

mutual
def flatS (base : Nat) : PS → List I
  | .lock => [.lock]
  | .unlock => [.unlock]
  | .storeRunning b => [.storeRunning b]
  | .wgAdd n => [.wgAdd n]
  | .wgWait => [.wgWait]
  | .goWriter => [.goWriter]
  | .flushTrySend => [.flushTrySend]
  | .ifRunning neg thn =>
    let body := flatL (base + 1) thn
    .brRunning neg (base + 1 + body.length) :: body
  | .onceDo body =>
    let b := flatL (base + 1) body
    .onceEnter (base + 1 + b.length + 1) :: b ++ [.onceExit]
  | .callStart => [.callStart]
  | .countAdd n => [.countAdd n]
  | .yield => [.yield]
  | .ifScheduled thn =>
    let body := flatL (base + 1) thn
    .brScheduled (base + 1 + body.length) :: body
  | .send => [.send]
  | .ret => [.ret]
  | .unsupported _ => [.unsupported]

def flatL (base : Nat) : List PS → List I
  | [] => []
  | s :: rest =>
    let a := flatS base s
    a ++ flatL (base + a.length) rest
end

def flatten (p : List PS) : List I := flatL 0 p

/-- One instruction as an atomic step of the protocol model: successor states with the next instruction index; the
empty list = the calling goroutine is blocked (or the function has returned).  `id` / `cur`: the calling producer and the
object it enqueues (for the events of the harness-side object: yield point, flag test-and-set). -/
def stepI (s : St) (pc : Nat) (id cur : Nat := 0) : I → List (St × Nat)
  | .lock => if s.mu then [] else [({ s with mu := true }, pc + 1)]
  | .unlock => [({ s with mu := false }, pc + 1)]
  | .storeRunning false => [({ s with running := false, stopped := true }, pc + 1)]
  | .storeRunning true => [({ s with running := true, started := true }, pc + 1)]
  | .wgAdd n => [({ s with wg := s.wg + n, added := true }, pc + 1)]
  | .wgWait => if s.wg = 0 then [({ s with waited := true }, pc + 1)] else []
  | .goWriter => [({ s with spawned := true }, pc + 1)]
  | .flushTrySend => [({ s with flushCh := true }, pc + 1)]   -- full buffer: the `default` case, nothing changes
  | .brRunning neg els => [(s, if (if neg then !s.running else s.running) then pc + 1 else els)]
  | .onceEnter els =>
    if s.once = 0 then [({ s with once := 1 }, pc + 1)] else if s.once = 3 then [(s, els)] else []
  | .onceExit => [({ s with once := 3 }, pc + 1)]
  | .callStart => [(s, pc)]               -- the helper's own program runs (`fn_startBatchWriter`), then `pc + 1`
  | .countAdd n => [({ s with count := s.count + n }, pc + 1)]
  | .yield => [(emit (.hook id) { s with win := s.win + 1 }, pc + 1)]
  | .brScheduled els =>
    if s.flag cur then [(emit (.schedDup cur) { s with win := s.win - 1 }, pc + 1)]
    else [(emit (.schedNew cur) { s with flag := upd s.flag cur true }, els)]
  | .send =>
    -- a buffered channel with room; an unbuffered one (size 0): hand-over to the writer waiting in a select
    if s.queue.length < s.qsize then
      [({ s with queue := s.queue ++ [cur], snt := upd s.snt cur (s.snt cur + 1), win := s.win - 1 }, pc + 1)]
    else if s.qsize = 0 ∧ (s.wpc = .sel ∨ s.wpc = .fsel) then
      [({ s with snt := upd s.snt cur (s.snt cur + 1), rcv := upd s.rcv cur (s.rcv cur + 1), wcur := cur, wpc := .addReset,
                 win := s.win - 1 }, pc + 1)]
    else []
  | .ret => []
  | .unsupported => []

/-- the program as a step function: the instruction at `pc`, if any (past the end: the function has returned) -/
def stepP (prog : List I) (s : St) (pc : Nat) (id cur : Nat := 0) : List (St × Nat) :=
  match prog[pc]? with
  | some i => stepI s pc id cur i
  | none => []

/-- `stepP` with the yield point fused into the step that reaches it: the yield has no effect on the shared state
(it records the harness's `hook` event and the ghost `win`), the protocol model takes it together with the running
check. -/
def stepPF (prog : List I) (s : St) (pc : Nat) (id cur : Nat) : List (St × Nat) :=
  (stepP prog s pc id cur).flatMap (fun x =>
    match prog[x.2]? with
    | some I.yield => stepI x.1 x.2 id cur I.yield
    | _ => [x])

end Hive.BatchWriter.Calls
