import Hive.Model.BatchWriter
/-!
# A small language for the straight-line callers of kvstore/batch_writer.go and its meaning as protocol steps (C08)

`harness/c08/callgen` translates `StopBatchWriter`, `Flush` and `startBatchWriter` (go/ast) into terms of `PS` on every
run (`Hive/Gen/C08_Calls.lean`).  `flatten` lays a term out as an instruction list (an `if` becomes a conditional branch
over its body), `stepI` gives every instruction its meaning as one atomic step on the shared state of the protocol
model — the Go semantics of `sync.Mutex`, `atomic.Bool`, `sync.WaitGroup`, `go`, and a non-blocking send on the
1-buffered flush channel, as the hand-written model uses them.  `Hive/Props/BatchWriterCalls.lean` proves that the
model's `stepStop`, `stepFlush` and the `startBatchWriter` part of `stepProd` are exactly these interpreted programs
(program counter ↔ instruction index), i.e. these parts of the model are derived from the source text.  Core Lean only.
-/
namespace Hive.BatchWriter.Calls

inductive PS
  | lock | unlock                       -- bw.startStopMutex.Lock() / Unlock()
  | storeRunning (b : Bool)             -- bw.running.Store(b)
  | wgAdd (n : Nat)                     -- bw.writeWg.Add(n)
  | wgWait                              -- bw.writeWg.Wait()
  | goWriter                            -- go bw.runBatchWriter()
  | flushTrySend                        -- select { case bw.flushChan <- struct{}{}: default: }
  | ifRunning (neg : Bool) (thn : List PS)   -- if [!]bw.running.Load() { thn }
  | unsupported (text : String)

inductive I
  | lock | unlock | storeRunning (b : Bool) | wgAdd (n : Nat) | wgWait | goWriter | flushTrySend
  | brRunning (neg : Bool) (els : Nat)  -- load `running`; go on if the guard holds, otherwise jump to `els`
  | unsupported
deriving DecidableEq, Repr

mutual
def flatS (base : Nat) : PS → List I
  | .lock => [.lock]
  | .unlock => [.unlock]
  | .storeRunning b => [.storeRunning b]
  | .wgAdd n => [.wgAdd n]
  | .wgWait => [.wgWait]
  | .goWriter => [.goWriter]
  | .flushTrySend => [.flushTrySend]
  | .ifRunning neg thn =>
    let body := flatL (base + 1) thn
    .brRunning neg (base + 1 + body.length) :: body
  | .unsupported _ => [.unsupported]

def flatL (base : Nat) : List PS → List I
  | [] => []
  | s :: rest =>
    let a := flatS base s
    a ++ flatL (base + a.length) rest
end

def flatten (p : List PS) : List I := flatL 0 p

/-- One instruction as an atomic step of the protocol model: successor states with the next instruction index; the
empty list = the calling goroutine is blocked. -/
def stepI (s : St) (pc : Nat) : I → List (St × Nat)
  | .lock => if s.mu then [] else [({ s with mu := true }, pc + 1)]
  | .unlock => [({ s with mu := false }, pc + 1)]
  | .storeRunning false => [({ s with running := false, stopped := true }, pc + 1)]
  | .storeRunning true => [({ s with running := true, started := true }, pc + 1)]
  | .wgAdd n => [({ s with wg := s.wg + n, added := true }, pc + 1)]
  | .wgWait => if s.wg = 0 then [({ s with waited := true }, pc + 1)] else []
  | .goWriter => [({ s with spawned := true }, pc + 1)]
  | .flushTrySend => [({ s with flushCh := true }, pc + 1)]   -- full buffer: the `default` case, nothing changes
  | .brRunning neg els => [(s, if (if neg then !s.running else s.running) then pc + 1 else els)]
  | .unsupported => []

/-- the program as a step function: the instruction at `pc`, if any (past the end: the function has returned) -/
def stepP (prog : List I) (s : St) (pc : Nat) : List (St × Nat) :=
  match prog[pc]? with
  | some i => stepI s pc i
  | none => []

end Hive.BatchWriter.Calls
