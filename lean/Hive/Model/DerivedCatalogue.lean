import Hive.Model.DerivedScripts
/-!
# The C14 call catalogue, derived from the regenerated skeletons

Roles: tag `k` of class `inUpd` / `inValue` / `inExec` = update-order (writer) mutex, value mutex and
callback execution lock of input `k` (a variable, a source set, a weight variable, the pending set of a
WaitGroup); `derUpd` / `derValue` / `derExec` with tag `d` = the same three locks of derived object `d`
(derived variable / set / counter = 0, heaviest = 1, lightest = 2, event = 3); `setUpd` / `setExec` =
writer mutex of the set below a SortedSet and execution lock of the SortedSet's subscription on it;
`sorted` = `sortedSet.mutex`; `evict` = `evictionState.mutex`; `leaf` = internal
mutexes (`shrinkingmap`, `ds.Set`, `SetArithmetic`) at the call tokens that reach them.
-/
namespace Hive.Derived.Scr
open Hive.Derived Hive.Gen.C14Skel

def F : Nat := 200   -- fuel for `nthFunc`

def inU (k : Nat) : Role := ⟨.inUpd, k⟩
def inV (k : Nat) : Role := ⟨.inValue, k⟩
def inE (k : Nat) : Role := ⟨.inExec, k⟩
def dU (d : Nat) : Role := ⟨.derUpd, d⟩
def dV (d : Nat) : Role := ⟨.derValue, d⟩
def dE (d : Nat) : Role := ⟨.derExec, d⟩
def leaf (k : Nat) : Role := ⟨.leaf, k⟩
def sM : Role := ⟨.sorted, 0⟩
def sU : Role := ⟨.setUpd, 0⟩
def sE : Role := ⟨.setExec, 0⟩
def eM : Role := ⟨.evict, 0⟩

def briefT (r : Role) : List TAct := [.acq r, .rel r]

/-- `ShrinkingMap.GetOrCreate`: the optimistic read phase (read lock taken and released before anything else
happens) is dropped, the write-locked re-check-and-create phase is a leaf acquisition. -/
def tGetOrCreate (k : Nat) : List TAct :=
  template [("rlock s.mutex", .skip), ("runlock s.mutex", .skip), ("lock s.mutex", .acts [.acq (leaf k)]),
    ("defer unlock s.mutex", .deferred [.rel (leaf k)])] skel_ShrinkingMap_GetOrCreate

/-! ## Variables -/

/-- `variable.updateValue`; the generator passed to it runs inside the condition of its `if`. -/
def tUpdateValue (v : Role) (gen : List TAct) : List TAct :=
  template [("lock v.valueMutex", .acts [.acq v]), ("defer unlock v.valueMutex", .deferred [.rel v]), ("if{", .acts gen)]
    skel_variable_updateValue

/-- `variable.Compute` (= `Set`, `Trigger`): `u`/`v` its own mutexes, `e` + `cb` the registered callback. -/
def tCompute (u v e : Role) (gen cb : List TAct) : List TAct :=
  template [("lock v.updateOrderMutex", .acts [.acq u]), ("defer unlock v.updateOrderMutex", .deferred [.rel u]),
    ("helper updateValue", .acts (tUpdateValue v gen)),
    ("call registeredCallback.LockExecution", .acts [.acqIf e]),
    ("call registeredCallback.Invoke", .acts cb),
    ("call registeredCallback.UnlockExecution", .acts [.relIf e])] skel_variable_Compute

def tGet (v : Role) : List TAct :=
  template [("rlock r.valueMutex", .acts [.acq v]), ("defer runlock r.valueMutex", .deferred [.rel v])] skel_readableVariable_Get

/-- `OnUpdate`: registration under the value mutex, fresh execution lock, initial delivery. -/
def tOnUpdate (v e : Role) (cb : List TAct) : List TAct :=
  template [("lock r.valueMutex", .acts [.acq v]), ("call createdCallback.LockExecution", .acts [.fresh e]),
    ("defer call createdCallback.UnlockExecution", .deferred [.rel e]), ("unlock r.valueMutex", .acts [.rel v]),
    ("call createdCallback.Invoke", .acts cb)] skel_readableVariable_OnUpdate

/-- The unsubscribe function returned by `OnUpdate` (its closure literal): `MarkUnsubscribed`. -/
def tMark (e : Role) : List TAct :=
  template [("lock c.executionMutex", .acts [.acqIf e]), ("defer unlock c.executionMutex", .deferred [.relIf e])]
    skel_callback_MarkUnsubscribed

def tUnsubscribe (e : Role) : List TAct :=
  template [("call createdCallback.MarkUnsubscribed", .acts (tMark e))] (nthFunc F 0 skel_readableVariable_OnUpdate)

/-- A derived object's `Compute` with opaque user callbacks. -/
def tDerived (d : Nat) (gen : List TAct) : List TAct := tCompute (dU d) (dV d) (dE d) gen []

/-! ## DerivedVariable (constructor skeleton `skel`, `n` inputs, numbered 1 … n as in the source) -/

def getEnv (n : Nat) : Env :=
  (List.range n).map (fun j => (s!"call input{j + 1}.Get", Item.acts (tGet (inV (j + 1)))))

/-- the closure registered on input `k` (1-based) -/
def dvCallbackToks (skel : List String) (k : Nat) : List String := nthFunc F (k - 1) (nthFunc F 0 skel)

def tDvCallback (skel : List String) (n k : Nat) : List TAct :=
  let cb := dvCallbackToks skel k
  let gen := template (getEnv n) (nthFunc F 0 cb)
  template [("call d.Compute", .acts (tDerived 0 gen))] cb

/-- `input_k.Set(v)` with the derived variable subscribed -/
def tDvWrite (skel : List String) (n k : Nat) : List TAct :=
  tCompute (inU k) (inV k) (inE k) [] (tDvCallback skel n k)

/-- `NewDerivedVariableN(…)`: subscribes to the inputs one after the other -/
def tDvConstruct (skel : List String) (n : Nat) : List TAct :=
  template ((List.range n).map (fun j =>
      (s!"call input{j + 1}.OnUpdate", Item.acts (tOnUpdate (inV (j + 1)) (inE (j + 1)) (tDvCallback skel n (j + 1))))))
    (nthFunc F 0 skel)

/-- `InheritFrom`: `other.OnUpdate(func { v.Set(new) })` -/
def tInheritCallback : List TAct :=
  template [("call v.Set", .acts (tDerived 0 []))] (nthFunc F 0 skel_variable_InheritFrom)

def tInheritFrom : List TAct :=
  template [("call other.OnUpdate", .acts (tOnUpdate (inV 1) (inE 1) tInheritCallback))] skel_variable_InheritFrom

def tInheritWrite : List TAct := tCompute (inU 1) (inV 1) (inE 1) [] tInheritCallback

/-! ## Reactive sets: DerivedSet, SubtractReactive -/

def tSetApplyInner (v : Role) : List TAct :=
  template [("lock s.readableSet.mutex", .acts [.acq v]), ("defer unlock s.readableSet.mutex", .deferred [.rel v]),
    ("call s.value.Apply", .acts (briefT (leaf 0)))] skel_set_apply

/-- `set.Apply` (Add / Delete / Apply) of a set with one registered callback -/
def tSetApply (u v e : Role) (cb : List TAct) : List TAct :=
  template [("lock s.mutex", .acts [.acq u]), ("defer unlock s.mutex", .deferred [.rel u]),
    ("helper apply", .acts (tSetApplyInner v)),
    ("call registeredCallback.LockExecution", .acts [.acqIf e]),
    ("call registeredCallback.Invoke", .acts cb),
    ("call registeredCallback.UnlockExecution", .acts [.relIf e])] skel_set_Apply

/-- `set.Compute`: the mutation factory is an argument of `apply`, evaluated under `s.mutex` just before it -/
def tSetCompute (u v e : Role) (factory cb : List TAct) : List TAct :=
  template [("lock s.mutex", .acts [.acq u]), ("defer unlock s.mutex", .deferred [.rel u]),
    ("helper apply", .acts (factory ++ tSetApplyInner v)),
    ("call registeredCallback.LockExecution", .acts [.acqIf e]),
    ("call registeredCallback.Invoke", .acts cb),
    ("call registeredCallback.UnlockExecution", .acts [.relIf e])] skel_set_Compute

def tSetOnUpdate (v e : Role) (cb : List TAct) : List TAct :=
  template [("lock r.mutex", .acts [.acq v]), ("call createdCallback.LockExecution", .acts [.fresh e]),
    ("defer call createdCallback.UnlockExecution", .deferred [.rel e]), ("unlock r.mutex", .acts [.rel v]),
    ("call createdCallback.Invoke", .acts cb)] skel_readableSet_OnUpdate

def tApplyInherited : List TAct :=
  template [("lock s.readableSet.mutex", .acts [.acq (dV 0)]), ("defer unlock s.readableSet.mutex", .deferred [.rel (dV 0)]),
    ("call s.value.Apply", .acts (briefT (leaf 0)))] skel_derivedSet_applyInheritedMutations

def tInheritMutations : List TAct :=
  template [("lock s.mutex", .acts [.acq (dU 0)]), ("defer unlock s.mutex", .deferred [.rel (dU 0)]),
    ("helper applyInheritedMutations", .acts tApplyInherited),
    ("call registeredCallback.LockExecution", .acts [.acqIf (dE 0)]),
    ("call registeredCallback.Invoke", .acts []),
    ("call registeredCallback.UnlockExecution", .acts [.relIf (dE 0)])] skel_derivedSet_inheritMutations

/-- the callback `InheritFrom` registers on a source: mirror (`ds.Set`, leaf) then `inheritMutations` -/
def tDsCallback : List TAct :=
  template [("call sourceElements.Apply", .acts (briefT (leaf 1))), ("helper inheritMutations", .acts tInheritMutations)]
    (nthFunc F 0 skel_derivedSet_InheritFrom)

def tDsWrite : List TAct := tSetApply (inU 1) (inV 1) (inE 1) tDsCallback

def tDsInherit : List TAct :=
  template [("call source.OnUpdate", .acts (tSetOnUpdate (inV 1) (inE 1) tDsCallback))] skel_derivedSet_InheritFrom

/-- the unsubscribe function of `InheritFrom`: cancel the subscription, then `removeSourceElements` -/
def tDsUnsubscribe : List TAct :=
  tMark (inE 1) ++ template [("helper inheritMutations", .acts tInheritMutations)] (nthFunc F 1 skel_derivedSet_InheritFrom)

/-- callbacks of `SubtractReactive`: occurrence arithmetic inside `s.Compute`'s factory -/
def tSubCallback (n : Nat) (arith : String) : List TAct :=
  let cb := nthFunc F n skel_readableSet_SubtractReactive
  let factory := template [(arith, .acts (briefT (leaf 2)))] (nthFunc F 0 cb)
  template [("call s.Compute", .acts (tSetCompute (dU 0) (dV 0) (dE 0) factory []))] cb

def tSubWriteSource : List TAct := tSetApply (inU 1) (inV 1) (inE 1) (tSubCallback 0 "call setArithmetic.Add")
def tSubWriteOther : List TAct := tSetApply (inU 2) (inV 2) (inE 2) (tSubCallback 1 "call setArithmetic.Subtract")

def tSubCreate : List TAct :=
  template [("call r.OnUpdate", .acts (tSetOnUpdate (inV 1) (inE 1) (tSubCallback 0 "call setArithmetic.Add"))),
    ("call other.OnUpdate", .acts (tSetOnUpdate (inV 2) (inE 2) (tSubCallback 1 "call setArithmetic.Subtract")))]
    skel_readableSet_SubtractReactive

/-! ## Counter -/

def tCounterCallback : List TAct :=
  template [("call c.Compute", .acts (tDerived 0 []))] (nthFunc F 0 skel_counter_Monitor)

def tCounterWrite : List TAct := tCompute (inU 1) (inV 1) (inE 1) [] tCounterCallback

def tCounterMonitor : List TAct :=
  template [("call input.OnUpdate", .acts (tOnUpdate (inV 1) (inE 1) tCounterCallback))] skel_counter_Monitor

/-- the (repaired) unsubscribe function: the second closure literal of `Monitor` -/
def tCounterUnmonitor : List TAct :=
  tMark (inE 1) ++ template [("call c.Compute", .acts (tDerived 0 []))] (nthFunc F 1 skel_counter_Monitor)

/-! ## SortedSet (weight variable of the element = input 1) -/

/-- `updatePosition`: the moves touch no lock; the deferred closure sets heaviest / lightest -/
def tUpdatePosition : List TAct :=
  let ends := template [("call s.heaviestElement.Set", .acts (tDerived 1 [])), ("call s.lightestElement.Set", .acts (tDerived 2 []))]
    (nthFunc F 0 skel_sortedSet_updatePosition)
  template [("defer func{", .deferFunc ends), ("helper swap", .skip)] skel_sortedSet_updatePosition

/-- the weight callback: `initial = true` is the branch `if initialUpdate` (runs under `addSorted`'s lock) -/
def tWeightCallback (initial : Bool) : List TAct :=
  template [("lock s.mutex", if initial then .skip else .acts [.acq sM]),
    ("defer unlock s.mutex", if initial then .skip else .deferred [.rel sM]),
    ("call s.elements.Get", if initial then .skip else .acts (briefT (leaf 3))),
    ("call s.updatePosition", .acts tUpdatePosition)] (nthFunc F 1 skel_sortedSet_addSorted)

def tAddSorted : List TAct :=
  template [("lock s.mutex", .acts [.acq sM]), ("defer unlock s.mutex", .deferred [.rel sM]),
    ("helper GetOrCreate", .acts (tGetOrCreate 3)),
    ("call s.weightVariable(element).OnUpdate", .acts (tOnUpdate (inV 1) (inE 1) (tWeightCallback true)))]
    skel_sortedSet_addSorted

/-- the deferred closure of `deleteSorted` calls the stored unsubscribe function (`MarkUnsubscribed`) -/
def tDeleteSorted : List TAct :=
  template [("defer func{", .deferFunc (tMark (inE 1))), ("lock s.mutex", .acts [.acq sM]),
    ("defer unlock s.mutex", .deferred [.rel sM]), ("call s.elements.DeleteAndReturn", .acts (briefT (leaf 3))),
    ("call s.heaviestElement.Set", .acts (tDerived 1 [])), ("call s.lightestElement.Set", .acts (tDerived 2 []))]
    skel_sortedSet_deleteSorted

/-- `sortedSet.Add(e)` / `Delete(e)`: the embedded set's `Apply`, whose subscriber is the sorted set -/
def tSortedAdd : List TAct := tSetApply sU (inV 50) sE tAddSorted
def tSortedDelete : List TAct := tSetApply sU (inV 50) sE tDeleteSorted
def tWeightWrite : List TAct := tCompute (inU 1) (inV 1) (inE 1) [] (tWeightCallback false)

def tSortedRead : List TAct :=
  template [("rlock s.mutex", .acts [.acq sM]), ("defer runlock s.mutex", .deferred [.rel sM])] skel_sortedSet_Ascending

/-! ## WaitGroup (pending set = input 1, event = derived 3), EvictionState -/

def tWgAdd : List TAct :=
  template [("call w.pendingElementsCounter.Add", .skip), ("call w.pendingElements.Add", .acts (tSetApply (inU 1) (inV 1) (inE 1) [])),
    ("call w.Trigger", .acts (tDerived 3 []))] skel_waitGroup_Add

def tWgDone : List TAct :=
  template [("call w.pendingElementsCounter.Add", .skip), ("call w.pendingElements.Delete", .acts (tSetApply (inU 1) (inV 1) (inE 1) [])),
    ("call w.Trigger", .acts (tDerived 3 []))] skel_waitGroup_Done

def tEvictInner : List TAct :=
  template [("lock e.mutex", .acts [.acq eM]), ("defer unlock e.mutex", .deferred [.rel eM]),
    ("call e.evictionEvents.ForEachKey", .acts (briefT (leaf 4))),
    ("call e.evictionEvents.DeleteAndReturn", .acts (briefT (leaf 4)))]
    skel_evictionState_evict

def tEvict : List TAct :=
  template [("helper evict", .acts tEvictInner), ("call slotEvictedEvent.Trigger", .acts (tDerived 3 []))] skel_evictionState_Evict

def tEvictionEvent : List TAct :=
  template [("rlock e.mutex", .acts [.acq eM]), ("defer runlock e.mutex", .deferred [.rel eM]),
    ("helper GetOrCreate", .acts (tGetOrCreate 4))] skel_evictionState_EvictionEvent

/-! ## The catalogue -/

inductive Call2
  | dvWrite1 | dvWrite2 (k : Fin 2) | dvWrite3 (k : Fin 3) | dvWrite4 (k : Fin 4)
  | dvConstruct1 | dvConstruct2 | dvConstruct3 | dvConstruct4
  | dvUnsubscribe (k : Fin 4)
  | inheritFrom | inheritWrite
  | dsWrite | dsInherit | dsUnsubscribe
  | subWriteSource | subWriteOther | subCreate
  | counterWrite | counterMonitor | counterUnmonitor
  | sortedAdd | sortedDelete | weightWrite | sortedRead
  | wgAdd | wgDone | evict | evictionEvent
deriving Repr, DecidableEq

def Call2.template : Call2 → List TAct
  | .dvWrite1 => tDvWrite skel_NewDerivedVariable 1 1
  | .dvWrite2 k => tDvWrite skel_NewDerivedVariable2 2 (k.val + 1)
  | .dvWrite3 k => tDvWrite skel_NewDerivedVariable3 3 (k.val + 1)
  | .dvWrite4 k => tDvWrite skel_NewDerivedVariable4 4 (k.val + 1)
  | .dvConstruct1 => tDvConstruct skel_NewDerivedVariable 1
  | .dvConstruct2 => tDvConstruct skel_NewDerivedVariable2 2
  | .dvConstruct3 => tDvConstruct skel_NewDerivedVariable3 3
  | .dvConstruct4 => tDvConstruct skel_NewDerivedVariable4 4
  | .dvUnsubscribe k => tUnsubscribe (inE (k.val + 1))
  | .inheritFrom => tInheritFrom
  | .inheritWrite => tInheritWrite
  | .dsWrite => tDsWrite
  | .dsInherit => tDsInherit
  | .dsUnsubscribe => tDsUnsubscribe
  | .subWriteSource => tSubWriteSource
  | .subWriteOther => tSubWriteOther
  | .subCreate => tSubCreate
  | .counterWrite => tCounterWrite
  | .counterMonitor => tCounterMonitor
  | .counterUnmonitor => tCounterUnmonitor
  | .sortedAdd => tSortedAdd
  | .sortedDelete => tSortedDelete
  | .weightWrite => tWeightWrite
  | .sortedRead => tSortedRead
  | .wgAdd => tWgAdd
  | .wgDone => tWgDone
  | .evict => tEvict
  | .evictionEvent => tEvictionEvent

def allCalls : List Call2 :=
  [.dvWrite1, .dvWrite2 0, .dvWrite2 1, .dvWrite3 0, .dvWrite3 1, .dvWrite3 2, .dvWrite4 0, .dvWrite4 1, .dvWrite4 2, .dvWrite4 3,
   .dvConstruct1, .dvConstruct2, .dvConstruct3, .dvConstruct4, .dvUnsubscribe 0, .dvUnsubscribe 1, .dvUnsubscribe 2, .dvUnsubscribe 3,
   .inheritFrom, .inheritWrite, .dsWrite, .dsInherit, .dsUnsubscribe, .subWriteSource, .subWriteOther, .subCreate,
   .counterWrite, .counterMonitor, .counterUnmonitor, .sortedAdd, .sortedDelete, .weightWrite, .sortedRead,
   .wgAdd, .wgDone, .evict, .evictionEvent]

/-- Instance assignment of a call: which concrete objects play the roles. -/
structure Inst where
  σ : Role → Nat
  inj : ∀ r r' : Role, r.cls = r'.cls → σ r = σ r' → r = r'

def Call2.script (c : Call2) (i : Inst) : List Act2 := c.template.map (instAct i.σ)

def threadOf2 (calls : List (Call2 × Inst)) : LT2 := { held := [], script := calls.flatMap (fun p => p.1.script p.2) }

/-- the unrepaired `deleteSorted` (unsubscribe under `s.mutex`), for the witness -/
def tDeleteSortedOld : List TAct :=
  template [("call deletedElement.unsubscribeFromWeightUpdates", .acts (tMark (inE 1))), ("lock s.mutex", .acts [.acq sM]),
    ("defer unlock s.mutex", .deferred [.rel sM]),
    ("call s.heaviestElement.Set", .acts (tDerived 1 [])), ("call s.lightestElement.Set", .acts (tDerived 2 []))]
    ["lock s.mutex", "defer unlock s.mutex", "if{", "call deletedElement.unsubscribeFromWeightUpdates", "for{", "}for", "if{",
     "if{", "call s.heaviestElement.Set", "}else{", "call s.heaviestElement.Set", "}if", "}if", "if{", "if{",
     "call s.lightestElement.Set", "}else{", "call s.lightestElement.Set", "}if", "}if", "}if"]

end Hive.Derived.Scr
