import Hive.Base.Proto
/-!
# Pointer-level model of `ds/orderedmap/orderedmap.go` (the hook registry of `runtime/event`) for C15

`OrderedMap` is a doubly linked list of heap-allocated `Element`s (`key`, `value`, `prev`, `next`) plus
`head`, `tail`, a dictionary key ↦ element and `size`.  The model keeps every element ever allocated in
`heap` (address = index; an iterator may still stand on an element that was removed) and mirrors the
pointer assignments of `Set`, `Delete` and `Clear` one by one — in particular `Delete` and `Clear` leave
the removed elements' own `prev`/`next` pointers as they were, which is what the weak iteration of
`ForEach` / `ForEachReverse` (read `head`, call the consumer outside the lock, read `current.next`)
relies on.  `Hive/Model/EventsIter.lean` is the abstract version of this structure (ids, frozen next
pointers); `Hive/Proofs/EventsOMap.lean` proves the list invariant and the refinement.

The line machine (`om …`) drives the real `OrderedMap[int,int]`: all exported methods, and
`ForEach`/`ForEachReverse` with `Set`/`Delete`/`Clear` executed from inside the consumer.
-/
namespace Hive.EventsOMap

structure Elem where
  key : Nat
  value : Nat
  prev : Option Nat
  next : Option Nat
deriving Repr, DecidableEq

structure OM where
  heap : List Elem
  head : Option Nat
  tail : Option Nat
  dict : List (Nat × Nat)      -- key ↦ address
  size : Nat
deriving Repr, DecidableEq

def OM.empty : OM := { heap := [], head := none, tail := none, dict := [], size := 0 }

/-- `dictionary.Get(key)`. -/
def lookup (m : OM) (k : Nat) : Option Nat := (m.dict.find? (fun p => p.1 == k)).map (·.2)

/-- Assignment to a field of the element at address `a`. -/
def modify (h : List Elem) (a : Nat) (f : Elem → Elem) : List Elem :=
  match h[a]? with
  | some e => h.set a (f e)
  | none => h

def nextOf (m : OM) (a : Nat) : Option Nat := (m.heap[a]?).bind (·.next)
def prevOf (m : OM) (a : Nat) : Option Nat := (m.heap[a]?).bind (·.prev)
def keyOf (m : OM) (a : Nat) : Option Nat := (m.heap[a]?).map (·.key)

/-- `Set`: an existing key keeps its element (the value is overwritten in place); a new key gets a new
element appended behind `tail`.  Returns the previous value. -/
def set (m : OM) (k v : Nat) : OM × Option Nat :=
  match lookup m k with
  | some a =>
    match m.heap[a]? with
    | some e => ({ m with heap := m.heap.set a { e with value := v } }, some e.value)
    | none => (m, none)
  | none =>
    let n := m.heap.length
    if m.head.isNone then
      ({ heap := m.heap ++ [{ key := k, value := v, prev := none, next := none }], head := some n, tail := some n,
         dict := m.dict ++ [(k, n)], size := m.size + 1 }, none)
    else
      let h1 := match m.tail with
        | some t => modify m.heap t (fun x => { x with next := some n })
        | none => m.heap
      ({ heap := h1 ++ [{ key := k, value := v, prev := m.tail, next := none }], head := m.head, tail := some n,
         dict := m.dict ++ [(k, n)], size := m.size + 1 }, none)

/-- `Delete`: unlink the element; its own `prev` / `next` stay as they are. -/
def delete (m : OM) (k : Nat) : OM × Bool :=
  match lookup m k with
  | none => (m, false)
  | some a =>
    match m.heap[a]? with
    | none => (m, false)
    | some e =>
      let h1 := match e.prev with
        | some p => modify m.heap p (fun x => { x with next := e.next })
        | none => m.heap
      let hd := match e.prev with
        | some _ => m.head
        | none => e.next
      let h2 := match e.next with
        | some n => modify h1 n (fun x => { x with prev := e.prev })
        | none => h1
      let tl := match e.next with
        | some _ => m.tail
        | none => e.prev
      ({ heap := h2, head := hd, tail := tl, dict := m.dict.filter (fun p => p.1 != k), size := m.size - 1 }, true)

/-- `Clear`: a fresh dictionary, `head = tail = nil`; the elements are not touched. -/
def clear (m : OM) : OM := { m with head := none, tail := none, dict := [], size := 0 }

def get (m : OM) (k : Nat) : Option Nat := (lookup m k).bind (fun a => (m.heap[a]?).map (·.value))
def has (m : OM) (k : Nat) : Bool := (lookup m k).isSome
def entry (m : OM) : Option Nat → Option (Nat × Nat)
  | some a => (m.heap[a]?).map (fun e => (e.key, e.value))
  | none => none

/-- The walk of `Clone` (and of a quiescent `ForEach`): follow `next` from `a`. -/
def walk (m : OM) : Nat → Option Nat → List Nat
  | 0, _ => []
  | _, none => []
  | fuel + 1, some a => a :: walk m fuel (nextOf m a)

def toList (m : OM) : List (Nat × Nat) :=
  (walk m (m.heap.length + 1) m.head).filterMap (fun a => entry m (some a))

/-! ## line machine (`om …`) -/

structure Iter where
  fwd : Bool
  cur : Option Nat
  called : Bool            -- the consumer ran on `cur`; the next `visit` first reads `cur.next` / `cur.prev`
deriving Repr, DecidableEq

structure St where
  m : OM
  it : Option Iter
deriving Repr

def init : St := { m := OM.empty, it := none }

open Hive.Proto

def showEntry : Option (Nat × Nat) → String
  | some (k, v) => s!"{k}:{v}"
  | none => "none"

def stepLine (s : St) (toks : List String) : St × String :=
  match toks with
  | ["set", k, v] =>
    match k.toNat?, v.toNat? with
    | some k, some v =>
      let (m, p) := set s.m k v
      ({ s with m := m }, match p with | some x => s!"prev {x}" | none => "new")
    | _, _ => (s, "bad-op")
  | ["del", k] =>
    match k.toNat? with
    | some k => let (m, b) := delete s.m k; ({ s with m := m }, showBool b)
    | none => (s, "bad-op")
  | ["clear"] => ({ s with m := clear s.m }, "done")
  | ["get", k] =>
    match k.toNat? with
    | some k => (s, showOptNat (get s.m k))
    | none => (s, "bad-op")
  | ["has", k] =>
    match k.toNat? with
    | some k => (s, showBool (has s.m k))
    | none => (s, "bad-op")
  | ["head"] => (s, showEntry (entry s.m s.m.head))
  | ["tail"] => (s, showEntry (entry s.m s.m.tail))
  | ["size"] => (s, s!"{s.m.size} empty={showBool (s.m.size == 0)}")
  | ["clone"] => (s, "[" ++ " ".intercalate ((toList s.m).map (fun p => showEntry (some p))) ++ "]")
  | ["begin", d] =>
    if s.it.isSome then (s, "bad-op")
    else if d == "fwd" then ({ s with it := some { fwd := true, cur := s.m.head, called := false } }, "begun")
    else if d == "rev" then ({ s with it := some { fwd := false, cur := s.m.tail, called := false } }, "begun")
    else (s, "bad-op")
  | ["visit"] =>
    match s.it with
    | none => (s, "idle")
    | some it =>
      let cur := if it.called then
          (match it.cur with
           | some a => if it.fwd then nextOf s.m a else prevOf s.m a
           | none => none)
        else it.cur
      match cur with
      | none => ({ s with it := none }, "end true")
      | some a => ({ s with it := some { it with cur := some a, called := true } }, showEntry (entry s.m (some a)))
  | ["stop"] =>
    match s.it with
    | none => (s, "idle")
    | some _ => ({ s with it := none }, "stopped false")
  | _ => (s, "bad-op")

end Hive.EventsOMap
