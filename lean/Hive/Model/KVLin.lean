import Hive.Model.KVConc
import Std.Data.HashSet
/-!
# Executable linearizability checker for recorded KVStore histories (C05)

A history is a list of completed operations on the shared ordered map (full keys; each write of a
committed batch is an operation of its own carrying the invocation / response stamps of the
`Commit` call), stamped by one atomic logical clock.  The sequential specification is the C04
ordered map with its closed flag (`hstep`).

* `validate ops w` is the *verified* part: `w` enumerates all operations exactly once, respects
  real-time order (an operation that returned before another was invoked comes first) and, executed
  sequentially in this order, the specification gives exactly the recorded answers.
* `search` is a Wing–Gong search with Lowe's memoisation (set of linearised operations × state) and
  greedy linearisation of matching read-only operations; it only *proposes* a witness.
* `decide` accepts iff the proposed witness validates.  Soundness (`Hive/Proofs/KVLin.lean`):
  `decide h = accept → Linearizable h`.

Core Lean + `Std.Data.HashSet` (toolchain), no Mathlib.
-/
namespace Hive.KV.Lin
open Hive.KV.Conc

inductive HKind
  | data (a : DOp)
  | close
deriving DecidableEq, Repr

structure HOp where
  inv : Nat
  ret : Nat
  kind : HKind
  out : Out
deriving DecidableEq, Repr

/-- The sequential specification: the C04 ordered map with the closed flag. -/
def hstep (st : SeqSt) : HKind → SeqSt × Out
  | .data a => if st.closed then (st, .closed) else ({ st with m := (a.apply st.m).1 }, (a.apply st.m).2)
  | .close => ({ st with closed := true }, .ok)

/-- Executed in this order from `st`, does the specification give the recorded answers? -/
def runSeq (st : SeqSt) : List HOp → Bool
  | [] => true
  | o :: rest => (hstep st o.kind).2 == o.out && runSeq (hstep st o.kind).1 rest

/-- Every operation returns after each operation placed before it was invoked
(`bound` = 1 + the latest invocation stamp so far). -/
def realTimeFrom (bound : Nat) : List HOp → Bool
  | [] => true
  | o :: rest => decide (bound ≤ o.ret) && realTimeFrom (max bound (o.inv + 1)) rest

def nodupB : List Nat → Bool
  | [] => true
  | x :: xs => !xs.contains x && nodupB xs

def pick (ops : Array HOp) (i : Nat) : HOp := ops.getD i { inv := 0, ret := 0, kind := .close, out := .ok }

/-- The verified witness check. -/
def validate (ops : Array HOp) (w : List Nat) : Bool :=
  w.length == ops.size && w.all (fun i => decide (i < ops.size)) && nodupB w &&
    realTimeFrom 0 (w.map (pick ops)) && runSeq seqInit (w.map (pick ops))

/-! ## search (unverified; its result is validated) -/

def HKind.readOnly : HKind → Bool
  | .data a => !a.isWrite
  | .close => false

structure SearchSt where
  memo : Std.HashSet (Nat × SeqSt)
  nodes : Nat

/-- The window of operations that may be linearised next: scanning in invocation order from `lo`,
stop at the first operation invoked after some not yet linearised operation returned. -/
partial def window (ops : Array HOp) (done : Nat) (i : Nat) (minRet : Option Nat) (acc : List Nat) :
    List Nat × Option Nat :=
  if h : i < ops.size then
    let o := ops[i]
    match minRet with
    | some r =>
      if o.inv > r then (acc.reverse, minRet)
      else if done.testBit i then window ops done (i + 1) minRet acc
      else window ops done (i + 1) (some (min r o.ret)) (i :: acc)
    | none =>
      if done.testBit i then window ops done (i + 1) none acc
      else window ops done (i + 1) (some o.ret) (i :: acc)
  else (acc.reverse, minRet)

partial def skipDone (ops : Array HOp) (done : Nat) (lo : Nat) : Nat :=
  if lo < ops.size && done.testBit lo then skipDone ops done (lo + 1) else lo

/-- Wing–Gong search.  `k` operations are linearised (bit set `done`), `acc` is the order so far
(newest first).  Fails (`none`) also when the node budget is exhausted. -/
partial def dfs (ops : Array HOp) (budget : Nat) (lo : Nat) (done : Nat) (k : Nat) (st : SeqSt) (acc : List Nat) :
    StateM SearchSt (Option (List Nat)) := do
  if k == ops.size then return some acc.reverse
  let s ← get
  if s.nodes > budget then return none
  set { s with nodes := s.nodes + 1 }
  let lo := skipDone ops done lo
  let (win, minRet) := window ops done lo none []
  let bound := minRet.getD 0
  -- the effect of a call happens shortly before it returns: try the candidates in response order
  let cands := ((win.filter (fun i => (pick ops i).inv < bound)).toArray.qsort
    (fun a b => (pick ops a).ret < (pick ops b).ret)).toList
  -- greedy: a matching operation that does not change the state can always go first
  match cands.find? (fun i =>
      let o := pick ops i
      (o.kind.readOnly || (st.closed && o.kind != .close)) && (hstep st o.kind).2 == o.out) with
  | some i => dfs ops budget lo (done ||| (1 <<< i)) (k + 1) st (i :: acc)
  | none =>
    for i in cands do
      let o := pick ops i
      let r := hstep st o.kind
      if r.2 == o.out then
        let done' := done ||| (1 <<< i)
        let key := (done', r.1)
        if !(← get).memo.contains key then
          match ← dfs ops budget lo done' (k + 1) r.1 (i :: acc) with
          | some w => return some w
          | none => modify fun s => { s with memo := s.memo.insert key }
    return none

def sortedByInv : List HOp → Bool
  | a :: b :: rest => decide (a.inv ≤ b.inv) && sortedByInv (b :: rest)
  | _ => true

inductive Verdict
  | accept
  | reject (why : String)
deriving DecidableEq, Repr

/-- Decide a recorded history (operations in invocation order): search for a linearisation, accept
iff it validates. -/
def decideHist (h : List HOp) (budget : Nat := 400000) : Verdict :=
  if !sortedByInv h then .reject "history-not-in-invocation-order"
  else
    let ops := h.toArray
    match (dfs ops budget 0 0 0 seqInit []).run { memo := {}, nodes := 0 } with
    | (some w, _) => if validate ops w then .accept else .reject "witness-does-not-validate"
    | (none, s) => if s.nodes > budget then .reject "budget-exhausted" else .reject "not-linearizable"

/-! ## line protocol of `drv_c05` -/
open Hive.Proto

def parseDOp : List String → Option HKind
  | ["get", k] => do pure (.data (.get (← unhex k)))
  | ["has", k] => do pure (.data (.has (← unhex k)))
  | ["set", k, v] => do pure (.data (.set (← unhex k) (← unhex v)))
  | ["del", k] => do pure (.data (.del (← unhex k)))
  | ["delp", p] => do pure (.data (.delp (← unhex p)))
  | ["iter", p, n, d, stop] => do pure (.data (.iter (← unhex p) (← n.toNat?) (← parseDir d) (← stop.toNat?)))
  | ["iterk", p, n, d, stop] => do pure (.data (.iterk (← unhex p) (← n.toNat?) (← parseDir d) (← stop.toNat?)))
  | ["close"] => some .close
  | _ => none

def parseEntry (s : String) : Option Entry :=
  match s.splitOn ":" with
  | [k, v] => do pure (← unhex k, ← unhex v)
  | _ => none

def parseOut : List String → Option Out
  | ["ok"] => some .ok
  | ["closed"] => some .closed
  | ["notfound"] => some .notfound
  | ["true"] => some (.bool true)
  | ["false"] => some (.bool false)
  | ["val", v] => do pure (.val (← unhex v))
  | "kvs" :: l => (l.mapM parseEntry).map .kvs
  | "keys" :: l => (l.mapM unhex).map .keys
  | _ => none

def splitArrow (toks : List String) : List String × List String :=
  (toks.takeWhile (· ≠ "=>"), (toks.dropWhile (· ≠ "=>")).drop 1)

/-- `h INV RET <op> => <answer>` (or `hf …`) records one operation, `end` decides the history recorded so far. -/
def stepLine (s : List HOp) (toks : List String) : List HOp × String :=
  match toks with
  | ["end"] =>
    match decideHist s.reverse with
    | .accept => ([], "accept")
    | .reject why => ([], "reject " ++ why)
  | tag :: i :: r :: rest =>
    -- `hf` marks a mutation that went through a flushkv wrapper and answered `closed` (harness-side classification
    -- only): for the contract it is an operation like any other
    if tag != "h" && tag != "hf" then (s, "bad-op") else
    let (opT, outT) := splitArrow rest
    match i.toNat?, r.toNat?, parseDOp opT, parseOut outT with
    | some i, some r, some k, some o => ({ inv := i, ret := r, kind := k, out := o } :: s, "ok")
    | _, _, _, _ => (s, "bad-op")
  | _ => (s, "bad-op")

end Hive.KV.Lin
