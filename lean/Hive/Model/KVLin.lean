import Hive.Model.KVConc
import Std.Data.HashSet
/-!
# Executable linearizability checker for recorded KVStore histories (C05)

A history is a list of completed operations on the shared ordered map (full keys; each write of a
committed batch is an operation of its own carrying the invocation / response stamps of the
`Commit` call), stamped by one atomic logical clock.  The sequential specification is the C04
ordered map with its closed flag (`hstep`).

* `validate ops w` is the *verified* part: `w` enumerates all operations exactly once, respects
  real-time order (an operation that returned before another was invoked comes first) and, executed
  sequentially in this order, the specification gives exactly the recorded answers.
* `search` is a Wing–Gong search with Lowe's memoisation (set of linearised operations × state); it
  is a total function (structural recursion on the number of operations still to linearise) and it is
  the very definition `drv_c05` runs.
* `decideHist` accepts iff the found witness validates.  Soundness and completeness
  (`Hive/Proofs/KVLin.lean`, `KVLinComplete.lean`): `decideHist h = accept → Linearizable h`, and
  `Linearizable h → decideHist h ∈ {accept, reject budget-exhausted}`.

Core Lean + `Std.Data.HashSet` (toolchain), no Mathlib.
-/
namespace Hive.KV.Lin
open Hive.KV.Conc

inductive HKind
  | data (a : DOp)
  | close
deriving DecidableEq, Repr

structure HOp where
  inv : Nat
  ret : Nat
  kind : HKind
  out : Out
deriving DecidableEq, Repr

/-- The sequential specification: the C04 ordered map with the closed flag. -/
def hstep (st : SeqSt) : HKind → SeqSt × Out
  | .data a => if st.closed then (st, .closed) else ({ st with m := (a.apply st.m).1 }, (a.apply st.m).2)
  | .close => ({ st with closed := true }, .ok)

/-- Executed in this order from `st`, does the specification give the recorded answers? -/
def runSeq (st : SeqSt) : List HOp → Bool
  | [] => true
  | o :: rest => (hstep st o.kind).2 == o.out && runSeq (hstep st o.kind).1 rest

/-- Every operation returns after each operation placed before it was invoked
(`bound` = 1 + the latest invocation stamp so far). -/
def realTimeFrom (bound : Nat) : List HOp → Bool
  | [] => true
  | o :: rest => decide (bound ≤ o.ret) && realTimeFrom (max bound (o.inv + 1)) rest

def pick (ops : Array HOp) (i : Nat) : HOp := ops.getD i { inv := 0, ret := 0, kind := .close, out := .ok }

/-- The verified witness check: `w` enumerates the operations `0 … size-1`, each exactly once; every
operation was invoked before each later one in `w` returned; executed in this order the contract
gives the recorded answers. -/
def validate (ops : Array HOp) (w : List Nat) : Bool :=
  w.isPerm (List.range ops.size) && realTimeFrom 0 (w.map (pick ops)) && runSeq seqInit (w.map (pick ops))

/-! ## search: total, and the definition the driver runs is the one the theorems are about -/

/-- The smallest response stamp among the operations still to linearise. -/
def minRetL (ops : Array HOp) : List Nat → Option Nat
  | [] => none
  | i :: rest =>
    match minRetL ops rest with
    | none => some (pick ops i).ret
    | some r => some (min (pick ops i).ret r)

def retLt (ops : Array HOp) (a b : Nat) : Bool := decide ((pick ops a).ret < (pick ops b).ret)

/-- The operations that may be linearised next: those invoked before every operation still to
linearise returned.  Tried in response order (the effect of a call happens shortly before it
returns). -/
def candidates (ops : Array HOp) (todo : List Nat) : List Nat :=
  match minRetL ops todo with
  | none => []
  | some r => sortBy (retLt ops) (todo.filter (fun i => decide ((pick ops i).inv < r)))

inductive SRes
  | found (w : List Nat)
  | none
  | budget
deriving DecidableEq, Repr

structure SearchSt where
  memo : Std.HashSet (List Nat × SeqSt)   -- configurations (operations still to linearise, state) without completion
  nodes : Nat

/-- One candidate `i` of a configuration (`todo`, `st`, order so far `acc`, newest first): if nothing
has been found yet, the contract gives `i`'s recorded answer in `st`, and the configuration after `i`
is not known to be hopeless, search it (`rec`), and remember it if that fails. -/
def tryCand (ops : Array HOp) (rec : List Nat → SeqSt → List Nat → SearchSt → SRes × SearchSt)
    (todo : List Nat) (st : SeqSt) (acc : List Nat) (p : SRes × SearchSt) (i : Nat) : SRes × SearchSt :=
  match p.1 with
  | .none =>
    if (hstep st (pick ops i).kind).2 == (pick ops i).out then
      if p.2.memo.contains (todo.erase i, (hstep st (pick ops i).kind).1) then p
      else
        match rec (todo.erase i) (hstep st (pick ops i).kind).1 (i :: acc) p.2 with
        | (.none, ss') => (.none, { ss' with memo := ss'.memo.insert (todo.erase i, (hstep st (pick ops i).kind).1) })
        | res => res
    else p
  | _ => p

def overBudget (budget : Option Nat) (nodes : Nat) : Bool :=
  match budget with
  | some b => decide (b < nodes)
  | none => false

/-- Wing–Gong search with Lowe's memoisation.  `fuel` = number of operations still to linearise
(`todo`).  Structural recursion on `fuel`; with `budget = some b` it gives up (`budget`) after `b`
nodes, with `none` it never gives up. -/
def search (ops : Array HOp) (budget : Option Nat) : Nat → List Nat → SeqSt → List Nat → SearchSt → SRes × SearchSt
  | 0, _, _, acc, ss => (.found acc.reverse, ss)
  | fuel + 1, todo, st, acc, ss =>
    if overBudget budget ss.nodes then (.budget, ss)
    else
      (candidates ops todo).foldl (tryCand ops (search ops budget fuel) todo st acc)
        (.none, { ss with nodes := ss.nodes + 1 })

inductive Verdict
  | accept
  | reject (why : String)
deriving DecidableEq, Repr

/-- Every operation was invoked before it returned. -/
def wellStamped (ops : Array HOp) : Bool := ops.all (fun o => decide (o.inv < o.ret))

/-- Decide a recorded history: search for a linearisation, accept iff it validates. -/
def decideHist (h : List HOp) (budget : Option Nat := some 400000) : Verdict :=
  let ops := h.toArray
  if !wellStamped ops then .reject "operation-returned-before-its-invocation"
  else
    match (search ops budget ops.size (List.range ops.size) seqInit [] { memo := {}, nodes := 0 }).1 with
    | .found w => if validate ops w then .accept else .reject "witness-does-not-validate"
    | .none => .reject "not-linearizable"
    | .budget => .reject "budget-exhausted"

/-! ## line protocol of `drv_c05` -/
open Hive.Proto

def parseDOp : List String → Option HKind
  | ["get", k] => do pure (.data (.get (← unhex k)))
  | ["has", k] => do pure (.data (.has (← unhex k)))
  | ["set", k, v] => do pure (.data (.set (← unhex k) (← unhex v)))
  | ["del", k] => do pure (.data (.del (← unhex k)))
  | ["delp", p] => do pure (.data (.delp (← unhex p)))
  | ["iter", p, n, d, stop] => do pure (.data (.iter (← unhex p) (← n.toNat?) (← parseDir d) (← stop.toNat?)))
  | ["iterk", p, n, d, stop] => do pure (.data (.iterk (← unhex p) (← n.toNat?) (← parseDir d) (← stop.toNat?)))
  | ["close"] => some .close
  | ["flag"] => some (.data .nop)   -- WithRealm / WithExtendedRealm / Batched / Flush: only the closed flag is loaded
  | _ => none

def parseEntry (s : String) : Option Entry :=
  match s.splitOn ":" with
  | [k, v] => do pure (← unhex k, ← unhex v)
  | _ => none

def parseOut : List String → Option Out
  | ["ok"] => some .ok
  | ["closed"] => some .closed
  | ["notfound"] => some .notfound
  | ["true"] => some (.bool true)
  | ["false"] => some (.bool false)
  | ["val", v] => do pure (.val (← unhex v))
  | "kvs" :: l => (l.mapM parseEntry).map .kvs
  | "keys" :: l => (l.mapM unhex).map .keys
  | _ => none

def splitArrow (toks : List String) : List String × List String :=
  (toks.takeWhile (· ≠ "=>"), (toks.dropWhile (· ≠ "=>")).drop 1)

/-- `h INV RET <op> => <answer>` (or `hf …`) records one operation, `end` decides the history recorded so far. -/
def stepLine (s : List HOp) (toks : List String) : List HOp × String :=
  match toks with
  | ["end"] =>
    match decideHist s.reverse with
    | .accept => ([], "accept")
    | .reject why => ([], "reject " ++ why)
  | "x" :: _ => (s, "ok")   -- annotation: what the harness scheduled (the replay of a hang / crash finding)
  | tag :: i :: r :: rest =>
    -- `hf` marks a mutation that went through a flushkv wrapper and answered `closed` (harness-side classification
    -- only): for the contract it is an operation like any other
    if tag != "h" && tag != "hf" then (s, "bad-op") else
    let (opT, outT) := splitArrow rest
    match i.toNat?, r.toNat?, parseDOp opT, parseOut outT with
    | some i, some r, some k, some o => ({ inv := i, ret := r, kind := k, out := o } :: s, "ok")
    | _, _, _, _ => (s, "bad-op")
  | _ => (s, "bad-op")

end Hive.KV.Lin
