import Hive.Model.TypedValue
/-!
# A small imperative language for the method bodies of `kvstore/typedvalue.go`, with its semantics

`harness/c06/xlate` (go/ast) translates the bodies of `TypedValue.Get/Has/Compute/Set/Delete` and
`cachedValue` of the working tree into terms of `Stmt` on every run (`Hive/Gen/C06_Code.lean`).  `exec` is
the semantics of that language over the same state as the hand-written model (`St`: the raw key and the
two cache fields), the same fault vectors (`Faults`: which store call *by position*, which codec call fails)
and the same call trace.  `Hive/Proofs/TypedCode.lean` proves that the regenerated bodies, run by `exec`,
are equal to the hand-written `get/has/set/delete/compute` in every state, for every codec, compute function
and fault vector — so every `C06_*` theorem about `step` is a theorem about the code as translated.

What the language keeps of Go: statement order, `if`/`else` chains with their init statements, early
`return`s, short-circuit `&&`/`||`, nil tests and dereferences of the two cache pointers (a nil dereference
is a `panic` outcome), which variable each call result is assigned to and which variable each condition
tests (the defect fixed in `Compute` was a test of the wrong error variable), error wrapping and
`ierrors.Is` through wraps, the order of store and codec calls.  Variables are numbered per declaration by
the translator (Go's scoping and shadowing are resolved there); variable `0` is the blank identifier.
Lock operations are kept as `sync` statements without sequential meaning (their structure is the business of
the protocol model and the `C06_skeleton_*` obligations).

Pointers: `valueCached`/`hasCached` are modelled by their pointees (`Option`).  The translator accepts
`t.valueCached = &x` / `t.hasCached = &x` only when `x` is not assigned again afterwards in the function,
`&truePtr`/`&falsePtr` only when these package variables are initialised to `true`/`false` and are never
assigned in the package, and rejects any store through a cache pointer (`*t.hasCached = …`).
-/
namespace Hive.Typed.Code

/-- Error values: nil, the two sentinels, the error of a failed call, `ierrors.Wrap`. -/
inductive EV
  | nil
  | keyNotFound
  | notChanged
  | inj (e : Err)
  | wrap (e : EV)
deriving DecidableEq, Repr

/-- `ierrors.Is(e, target)` for a sentinel target: looks through wraps. -/
def EV.is : EV → EV → Bool
  | .wrap e, t => e.is t
  | .keyNotFound, .keyNotFound => true
  | .notChanged, .notChanged => true
  | _, _ => false

def EV.isNil : EV → Bool
  | .nil => true
  | _ => false

/-- Which call's error an error value carries (what the harness finds with `errors.Is`). -/
def EV.kind : EV → Err
  | .wrap e => e.kind
  | .inj k => k
  | _ => .kv

inductive BExp
  | tt | ff
  | var (i : Nat)
  | not (a : BExp)
  | and (a b : BExp)
  | or (a b : BExp)
  | errNe (i : Nat)                  -- `e_i != nil`
  | errEq (i : Nat)                  -- `e_i == nil`
  | errIs (i : Nat) (target : EV)    -- `ierrors.Is(e_i, Target)`
  | cvNil | cvNotNil                 -- `t.valueCached == nil`, `!= nil`
  | chNil | chNotNil                 -- `t.hasCached == nil`, `!= nil`
  | derefCh                          -- `*t.hasCached`
deriving Repr

inductive VExp
  | var (i : Nat)
  | derefCv                          -- `*t.valueCached`
deriving Repr

inductive EExp
  | nil
  | var (i : Nat)
  | sentinel (e : EV)
  | wrap (e : EExp) (msg : String)
deriving Repr

inductive RExp
  | v (x : VExp) | b (x : BExp) | e (x : EExp)
deriving Repr

/-- Operations on `t.mutex`. -/
inductive Sync | rlock | runlock | lock | unlock | deferRUnlock | deferUnlock
deriving Repr, DecidableEq

inductive Stmt
  | skip
  | seq (a b : Stmt)
  | ite (c : BExp) (a b : Stmt)
  | sync (what : Sync)
  | kvGet (outY outE : Nat)          -- `y, e = t.kv.Get(t.keyBytes)`
  | kvHas (outB outE : Nat)          -- `b, e = t.kv.Has(t.keyBytes)`
  | kvSet (inY outE : Nat)           -- `e = t.kv.Set(t.keyBytes, y)`
  | kvDel (outE : Nat)               -- `e = t.kv.Delete(t.keyBytes)`
  | decode (inY outV outE : Nat)     -- `v, _, e = t.bytesToV(y)`
  | encode (inV outY outE : Nat)     -- `y, e = t.vToBytes(v)`
  | callFn (inV inB outV outE : Nat) -- `v, e = computeFunc(cur, exists)`
  | cached (outV outB : Nat)         -- `v, b = t.cachedValue()`
  | setB (i : Nat) (x : BExp)
  | cvAddr (i : Nat)                 -- `t.valueCached = &v_i`
  | cvNil                            -- `t.valueCached = nil`
  | chAddrGlobal (b : Bool)          -- `t.hasCached = &truePtr` / `&falsePtr`
  | chAddr (i : Nat)                 -- `t.hasCached = &b_i`
  | ret (rs : List RExp)
deriving Repr

inductive RVal (V : Type)
  | v (x : V) | b (x : Bool) | e (x : EV)

structure Env (V : Type) where
  v : Nat → V
  b : Nat → Bool
  y : Nat → Bytes
  e : Nat → EV

variable {V : Type}

def Env.init [Inhabited V] : Env V := { v := fun _ => default, b := fun _ => false, y := fun _ => [], e := fun _ => .nil }
def Env.setV (n : Env V) (i : Nat) (x : V) : Env V := { n with v := fun j => if j = i then x else n.v j }
def Env.setB (n : Env V) (i : Nat) (x : Bool) : Env V := { n with b := fun j => if j = i then x else n.b j }
def Env.setY (n : Env V) (i : Nat) (x : Bytes) : Env V := { n with y := fun j => if j = i then x else n.y j }
def Env.setE (n : Env V) (i : Nat) (x : EV) : Env V := { n with e := fun j => if j = i then x else n.e j }

/-- Machine state: the object's state, the locals, the calls made so far, the number of store calls made so far. -/
structure M (V : Type) where
  st : St V
  env : Env V
  tr : List Ev
  nkv : Nat

inductive Outc (V : Type)
  | cont (m : M V)
  | done (m : M V) (r : List (RVal V))
  | panic (m : M V)

/-- The store call at position `n` (0-based) of this operation fails. -/
def kvFault (F : Faults) (n : Nat) : Bool := if n = 0 then F.kv1 else if n = 1 then F.kv2 else false

def evalB : BExp → M V → Option Bool
  | .tt, _ => some true
  | .ff, _ => some false
  | .var i, m => some (m.env.b i)
  | .not a, m => (evalB a m).map (!·)
  | .and a b, m => match evalB a m with
    | none => none
    | some false => some false
    | some true => evalB b m
  | .or a b, m => match evalB a m with
    | none => none
    | some true => some true
    | some false => evalB b m
  | .errNe i, m => some (!(m.env.e i).isNil)
  | .errEq i, m => some (m.env.e i).isNil
  | .errIs i t, m => some ((m.env.e i).is t)
  | .cvNil, m => some m.st.cv.isNone
  | .cvNotNil, m => some m.st.cv.isSome
  | .chNil, m => some m.st.ch.isNone
  | .chNotNil, m => some m.st.ch.isSome
  | .derefCh, m => m.st.ch

def evalV : VExp → M V → Option V
  | .var i, m => some (m.env.v i)
  | .derefCv, m => m.st.cv

def evalE : EExp → M V → EV
  | .nil, _ => .nil
  | .var i, m => m.env.e i
  | .sentinel e, _ => e
  | .wrap e _, m => .wrap (evalE e m)

def evalR : RExp → M V → Option (RVal V)
  | .v x, m => (evalV x m).map .v
  | .b x, m => (evalB x m).map .b
  | .e x, m => some (.e (evalE x m))

def evalRs : List RExp → M V → Option (List (RVal V))
  | [], _ => some []
  | r :: rs, m => match evalR r m with
    | none => none
    | some x => (evalRs rs m).map (x :: ·)

/-- How the store reports an error: bare, or wrapped in further layers (`w`).  A `KVStore` may wrap its sentinel
errors; callers have to test with `ierrors.Is`. -/
def errW (w : Bool) (e : EV) : EV := if w then .wrap (.wrap e) else e

/-- Semantics.  A failing store / codec call hands back zero values next to its error.  `w`: the store wraps the
errors it returns (`ErrKeyNotFound` included). -/
def exec [Inhabited V] (C : Codec V) (f : V → Bool → FnRes V) (F : Faults) (w : Bool) : Stmt → M V → Outc V
  | .skip, m => .cont m
  | .sync _, m => .cont m
  | .seq a b, m => match exec C f F w a m with
    | .cont m' => exec C f F w b m'
    | o => o
  | .ite c a b, m => match evalB c m with
    | none => .panic m
    | some true => exec C f F w a m
    | some false => exec C f F w b m
  | .kvGet oy oe, m =>
    if kvFault F m.nkv then
      .cont { m with env := (m.env.setY oy []).setE oe (errW w (.inj .kv)), tr := m.tr ++ [⟨.kvGet, .fail⟩], nkv := m.nkv + 1 }
    else match m.st.store with
      | none => .cont { m with env := (m.env.setY oy []).setE oe (errW w .keyNotFound), tr := m.tr ++ [⟨.kvGet, .nf⟩], nkv := m.nkv + 1 }
      | some b => .cont { m with env := (m.env.setY oy b).setE oe .nil, tr := m.tr ++ [⟨.kvGet, .ok⟩], nkv := m.nkv + 1 }
  | .kvHas ob oe, m =>
    if kvFault F m.nkv then
      .cont { m with env := (m.env.setB ob false).setE oe (errW w (.inj .kv)), tr := m.tr ++ [⟨.kvHas, .fail⟩], nkv := m.nkv + 1 }
    else .cont { m with env := (m.env.setB ob m.st.store.isSome).setE oe .nil, tr := m.tr ++ [⟨.kvHas, .ok⟩], nkv := m.nkv + 1 }
  | .kvSet iy oe, m =>
    if kvFault F m.nkv then
      .cont { m with env := m.env.setE oe (errW w (.inj .kv)), tr := m.tr ++ [⟨.kvSet, .fail⟩], nkv := m.nkv + 1 }
    else .cont { m with st := { m.st with store := some (m.env.y iy) }, env := m.env.setE oe .nil,
                        tr := m.tr ++ [⟨.kvSet, .ok⟩], nkv := m.nkv + 1 }
  | .kvDel oe, m =>
    if kvFault F m.nkv then
      .cont { m with env := m.env.setE oe (errW w (.inj .kv)), tr := m.tr ++ [⟨.kvDel, .fail⟩], nkv := m.nkv + 1 }
    else .cont { m with st := { m.st with store := none }, env := m.env.setE oe .nil,
                        tr := m.tr ++ [⟨.kvDel, .ok⟩], nkv := m.nkv + 1 }
  | .decode iy ov oe, m =>
    match decF C F (m.env.y iy) with
    | none => .cont { m with env := (m.env.setV ov default).setE oe (.inj .dec), tr := m.tr ++ [⟨.dec, .fail⟩] }
    | some v => .cont { m with env := (m.env.setV ov v).setE oe .nil, tr := m.tr ++ [⟨.dec, .ok⟩] }
  | .encode iv oy oe, m =>
    match encF C F (m.env.v iv) with
    | none => .cont { m with env := (m.env.setY oy []).setE oe (.inj .enc), tr := m.tr ++ [⟨.enc, .fail⟩] }
    | some b => .cont { m with env := (m.env.setY oy b).setE oe .nil, tr := m.tr ++ [⟨.enc, .ok⟩] }
  | .callFn iv ib ov oe, m =>
    match f (m.env.v iv) (m.env.b ib) with
    | .ok nv => .cont { m with env := (m.env.setV ov nv).setE oe .nil, tr := m.tr ++ [⟨.fn, .ok⟩] }
    | .notChanged => .cont { m with env := (m.env.setV ov default).setE oe .notChanged, tr := m.tr ++ [⟨.fn, .nc⟩] }
    | .fail => .cont { m with env := (m.env.setV ov default).setE oe (.inj .fn), tr := m.tr ++ [⟨.fn, .fail⟩] }
  | .cached ov ob, m => .cont { m with env := (m.env.setV ov (m.st.cv.getD default)).setB ob m.st.cv.isSome }
  | .setB i x, m => match evalB x m with
    | none => .panic m
    | some b => .cont { m with env := m.env.setB i b }
  | .cvAddr i, m => .cont { m with st := { m.st with cv := some (m.env.v i) } }
  | .cvNil, m => .cont { m with st := { m.st with cv := none } }
  | .chAddrGlobal b, m => .cont { m with st := { m.st with ch := some b } }
  | .chAddr i, m => .cont { m with st := { m.st with ch := some (m.env.b i) } }
  | .ret rs, m => match evalRs rs m with
    | none => .panic m
    | some r => .done m r

/-! ## Lock discipline of a translated body (a decidable, path-sensitive walk)

The protocol model (`Hive/Model/TypedConc.lean`) puts every read of the shared fields under the read or the write
lock and every write, store call, codec call and the compute function under the write lock, released on every
return.  `lockWalk` checks exactly that on a translated body: it follows every path, tracking which lock is held and
whether its release is deferred. -/

inductive Held | none | r | w
deriving DecidableEq, Repr

structure LSt where
  held : Held
  deferred : Bool      -- the release of the held lock is deferred to the return
deriving DecidableEq, Repr

inductive LRes
  | bad (why : String)
  | returned
  | falls (l : LSt)
deriving DecidableEq, Repr

/-- Does the condition look at the shared cache fields? -/
def BExp.shared : BExp → Bool
  | .cvNil | .cvNotNil | .chNil | .chNotNil | .derefCh => true
  | .not a => a.shared
  | .and a b => a.shared || b.shared
  | .or a b => a.shared || b.shared
  | _ => false

def RExp.shared : RExp → Bool
  | .v .derefCv => true
  | .b x => x.shared
  | _ => false

def needW (l : LSt) (what : String) : LRes := if l.held = .w then .falls l else .bad (what ++ " outside the write lock")
/-- Foreign code (the store, the codec functions, the compute function) may panic: it runs under the write lock **with
the release deferred**, so that a panic unwinding through the method cannot leave the mutex locked. -/
def needWD (l : LSt) (what : String) : LRes :=
  if l.held ≠ .w then .bad (what ++ " outside the write lock")
  else if !l.deferred then .bad (what ++ " without a deferred release of the lock (a panic in it would leave the mutex locked)")
  else .falls l
def needRW (l : LSt) (what : String) : LRes := if l.held ≠ .none then .falls l else .bad (what ++ " outside any lock")

def lockWalk : Stmt → LSt → LRes
  | .skip, l => .falls l
  | .seq a b, l => match lockWalk a l with
    | .falls l' => lockWalk b l'
    | r => r
  | .ite c a b, l =>
    if c.shared && l.held = .none then .bad "condition on the cache fields outside any lock" else
    match lockWalk a l, lockWalk b l with
    | .bad w, _ => .bad w
    | _, .bad w => .bad w
    | .returned, r => r
    | r, .returned => r
    | .falls l1, .falls l2 => if l1 = l2 then .falls l1 else .bad "branches leave different locks held"
  | .sync .rlock, l => if l.held = .none then .falls ⟨.r, false⟩ else .bad "RLock while a lock is held"
  | .sync .lock, l => if l.held = .none then .falls ⟨.w, false⟩ else .bad "Lock while a lock is held"
  | .sync .runlock, l => if l.held = .r && !l.deferred then .falls ⟨.none, false⟩ else .bad "RUnlock without the read lock"
  | .sync .unlock, l => if l.held = .w && !l.deferred then .falls ⟨.none, false⟩ else .bad "Unlock without the write lock"
  | .sync .deferRUnlock, l => if l.held = .r && !l.deferred then .falls ⟨.r, true⟩ else .bad "defer RUnlock without the read lock"
  | .sync .deferUnlock, l => if l.held = .w && !l.deferred then .falls ⟨.w, true⟩ else .bad "defer Unlock without the write lock"
  | .kvGet _ _, l => needWD l "store read"        -- the slow paths and Compute read the store under the write lock
  | .kvHas _ _, l => needWD l "store read"
  | .kvSet _ _, l => needWD l "store write"
  | .kvDel _, l => needWD l "store write"
  | .decode _ _ _, l => needWD l "decode"
  | .encode _ _ _, l => needWD l "encode"
  | .callFn _ _ _ _, l => needWD l "compute function"
  | .cached _ _, l => needRW l "cachedValue"
  | .setB _ x, l => if x.shared then needRW l "read of the cache fields" else .falls l
  | .cvAddr _, l => needW l "cache write"
  | .cvNil, l => needW l "cache write"
  | .chAddrGlobal _, l => needW l "cache write"
  | .chAddr _, l => needW l "cache write"
  | .ret rs, l =>
    if rs.any RExp.shared && l.held = .none then .bad "result reads the cache fields outside any lock"
    else if l.held ≠ .none && !l.deferred then .bad "return with a lock held and no deferred release"
    else .returned

/-- Every path of the body returns, and none violates the discipline. -/
def lockOk (s : Stmt) : Bool := lockWalk s ⟨.none, false⟩ == .returned

/-! ## From raw results to the model's `Out` (what the harness's `errKind` / result printing does) -/

def outGet : List (RVal V) → Out V
  | [.v x, .e e] => if e.isNil then .val x else if e.is .keyNotFound then .notfound else .err e.kind
  | _ => .panic

def outHas : List (RVal V) → Out V
  | [.b x, .e e] => if e.isNil then .has x else .err e.kind
  | _ => .panic

def outErr : List (RVal V) → Out V
  | [.e e] => if e.isNil then .ok else .err e.kind
  | _ => .panic

/-- `changed`: the compute function did not answer `ErrTypedValueNotChanged` (the harness knows, it supplies it). -/
def outCompute (tr : List Ev) : List (RVal V) → Out V
  | [.v x, .e e] => if e.isNil then .computed x (!tr.contains ⟨.fn, .nc⟩) else .err e.kind
  | _ => .panic

def finish (toOut : List Ev → List (RVal V) → Out V) : Outc V → Res V
  | .done m r => ⟨m.st, toOut m.tr r, m.tr⟩
  | .panic m => ⟨m.st, .panic, m.tr⟩
  | .cont m => ⟨m.st, .panic, m.tr⟩      -- falling off the end of a function with results does not compile in Go

def start [Inhabited V] (s : St V) : M V := { st := s, env := Env.init, tr := [], nkv := 0 }

/-- The translated method bodies and the variable numbers of their parameters. -/
structure Prog where
  get : Stmt
  has : Stmt
  compute : Stmt
  set : Stmt
  setParam : Nat
  delete : Stmt
  cachedValue : Stmt

/-- Constructor facts (`field=parameter` pairs of the composite literal the constructor returns): every field gets the
parameter of its own name, and none of `fresh`'s fields — the two cache pointers, the mutex — is initialised, so a new object
starts in the model's `fresh` state with an unlocked mutex. -/
def ctorOk (required : List String) (ctor : List String) : Bool :=
  ctor == required.map (fun f => f ++ "=" ++ f) &&
  !(required.any fun f => f == "valueCached" || f == "hasCached" || f == "mutex")

def noFn : V → Bool → FnRes V := fun _ _ => .fail

/-- One operation of the translated code. -/
def execOpW [Inhabited V] (w : Bool) (P : Prog) (C : Codec V) (s : St V) (op : Op V) (F : Faults) : Res V :=
  match op with
  | .get => finish (fun _ => outGet) (exec C noFn F w P.get (start s))
  | .has => finish (fun _ => outHas) (exec C noFn F w P.has (start s))
  | .set v => finish (fun _ => outErr) (exec C noFn F w P.set { start s with env := Env.init.setV P.setParam v })
  | .delete => finish (fun _ => outErr) (exec C noFn F w P.delete (start s))
  | .compute f => finish outCompute (exec C f F w P.compute (start s))
  | .reopen => ⟨{ s with cv := none, ch := none }, .ok, []⟩

/-- Over a store that reports bare sentinels. -/
abbrev execOp [Inhabited V] (P : Prog) (C : Codec V) (s : St V) (op : Op V) (F : Faults) : Res V := execOpW false P C s op F

end Hive.Typed.Code
