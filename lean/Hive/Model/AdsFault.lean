import Hive.Model.AdsId
/-!
# Store I/O errors under `ads.Map` / `ads.Set` (C09): what each method returns and what it leaves behind

The store view handed to the constructor is used through four components (`Hive/Model/AdsRealm.lean`): the raw-key
store (region 0), the trie's node store (region 1), the root cell (key 2), the size cell (key 3).  A *write fault* of
one of them makes every `Set` / `Delete` of the underlying `kvstore.KVStore` in that region fail.  The methods have no
roll-back; as written:

* `Commit`: `root.Set` — fails (`rootW`) ⇒ "failed to set root", nothing written, nothing cached
  (`TypedValue.Set` caches after the write), `tree.Commit()` is not reached;
* `Set`: `tree.Update` (memory only), `rawKeysStore.Set` — fails (`rawW`) ⇒ "failed to set raw key", the trie has the
  entry, raw keys and size do not; `addSize(1)` only for a new key — fails (`sizeW`) ⇒ "failed to increase size", trie
  and raw keys have the entry, the size cell (and its cache) keep the old value;
* `Delete` of a present key: `tree.Delete`, `rawKeysStore.Delete` — fails (`rawW`) ⇒ trie without the entry, raw keys
  and size with it; `addSize(-1)` — fails (`sizeW`) ⇒ trie and raw keys without it, size unchanged.  The answer is
  `(false, err)`.
* Reads never write; `Set` of a value whose serializer fails returns before any write.
* `Stream` when the iteration of the raw-key store fails (`rawR`): "failed to iterate over raw keys", the callback is
  never called.  (Other read faults are not modelled: whether a read reaches the store depends on the caches of
  `kvstore.TypedValue` and on which trie nodes are resolved.)

Not modelled: write faults of the node store.  `Commit` has then already written the root cell, and what
`smt.Commit` leaves behind depends on the node-level state of the third-party trie (`commit` marks a node persisted
*before* it writes it, so after a failed flush a later `Commit` that "succeeds" may skip nodes that never reached the
store — measured on the real library on every run, `observation_failed_flush_then_commit` in the evidence; outside
hive.go and outside the property's quantifier).
-/
namespace Hive.Ads

inductive Fault
  | none
  | rootW   -- writes of the root cell fail
  | sizeW   -- writes of the size cell fail
  | rawW    -- writes of the raw-key store fail
  | rawR    -- iterating the raw-key store fails (a read fault; the only reader is `Stream`)
deriving DecidableEq, Repr

inductive FOut (R : Type)
  | out (o : IOut R)
  | errSize    -- "failed to increase size" / "failed to decrease size"
  | errRaw     -- "failed to set raw key" / "failed to delete from raw keys store"
  | errIter    -- `Stream`: "failed to iterate over raw keys" (the callback was never called)

variable {R B : Type}

/-- One call while the store has the write fault `f`. -/
def fstep (c : Cfg R) (ic : IdCodec R B) (same : R → R → Bool) (f : Fault) (st : ISt R B) (op : Op) : ISt R B × FOut R :=
  let normal := let r := istep c ic same st op; (r.1, FOut.out r.2)
  match st.dangling with
  | some _ => normal
  | none =>
    match f, op with
    | .rootW, .commit => (st, .out .errSetRoot)
    | .rawR, .stream _ => (st, .errIter)
    | .rawW, .set (some kb) (some vb) =>
      ({ st with s := { st.s with trie := st.s.trie.update kb vb } }, .errRaw)
    | .sizeW, .set (some kb) (some vb) =>
      if has st.s kb then normal
      else ({ st with s := { st.s with trie := st.s.trie.update kb vb, rawKeys := insertSorted kb st.s.rawKeys } }, .errSize)
    | .rawW, .del (some kb) =>
      if has st.s kb then
        match st.s.trie.delete kb with
        | some t' => ({ st with s := { st.s with trie := t' } }, .errRaw)
        | none => normal
      else normal
    | .sizeW, .del (some kb) =>
      if has st.s kb then
        match st.s.trie.delete kb with
        | some t' => ({ st with s := { st.s with trie := t', rawKeys := st.s.rawKeys.filter (· ≠ kb) } }, .errSize)
        | none => normal
      else normal
    | _, _ => normal

end Hive.Ads
