import Hive.Model.TypedValue
/-!
# Model of `kvstore.TypedStore` (kvstore/typedstore.go) for C06

`TypedStore` is stateless: every method encodes its arguments, calls the underlying `KVStore` once
and decodes the answer.  The underlying store is an association list kept sorted by key bytes (the
order in which `mapdb` iterates).  The fault vector names the store call (`kv1`; for `Iterate` also
`kvAfter n`: the store's own iteration fails after having delivered `n` entries), the key / value
encoders, and the *positions* of failing decode calls (0-based, in call order within the operation:
entry `i` of an iteration decodes its key as call `2i` and its value as call `2i+1`).
-/
namespace Hive.Typed

abbrev Store := List (Bytes × Bytes)

def bytesLt : Bytes → Bytes → Bool
  | [], [] => false
  | [], _ :: _ => true
  | _ :: _, [] => false
  | a :: as, b :: bs => a < b || (a == b && bytesLt as bs)

def Store.get (m : Store) (k : Bytes) : Option Bytes :=
  match m with
  | [] => none
  | (k', v') :: rest => if k = k' then some v' else Store.get rest k

def Store.insert : Store → Bytes → Bytes → Store
  | [], k, v => [(k, v)]
  | (k', v') :: rest, k, v =>
    if k = k' then (k, v) :: rest
    else if bytesLt k k' then (k, v) :: (k', v') :: rest
    else (k', v') :: Store.insert rest k v

def Store.erase (m : Store) (k : Bytes) : Store := m.filter (fun e => e.1 ≠ k)

/-- The entries a raw `Iterate(prefix, …, direction)` delivers, in order. -/
def Store.entries (m : Store) (pfx : Bytes) (bwd : Bool) : Store :=
  let es := m.filter (fun e => pfx.isPrefixOf e.1)
  if bwd then es.reverse else es

inductive SErr | kv | encK | encV | decK | decV
deriving Repr, DecidableEq

inductive SCall | kvGet | kvHas | kvSet | kvDel | kvIter | encK | encV | decK | decV | cb
deriving Repr, DecidableEq

structure SEv where
  call : SCall
  res : CallRes     -- for `cb`: `ok` = advance, `nc` = the callback asked to stop
deriving Repr, DecidableEq

inductive SOp (K V : Type)
  | get (k : K)
  | has (k : K)
  | set (k : K) (v : V)
  | delete (k : K)
  /-- `stop`: the callback returns `false` on its `stop`-th invocation (`0`: never). -/
  | iterate (pfx : Bytes) (bwd : Bool) (stop : Nat)

structure SFaults where
  kv1 : Bool := false
  encK : Bool := false
  encV : Bool := false
  dec : List Nat := []
  kvAfter : Option Nat := none
deriving Repr, DecidableEq

def noSFaults : SFaults := {}

inductive SOut (K V : Type)
  | ok
  | val (v : V)
  | has (b : Bool)
  | notfound
  | err (e : SErr)
  /-- `Iterate`: the pairs handed to the callback, then the returned error (if any). -/
  | iter (delivered : List (K × V)) (status : Option SErr)
deriving Repr, DecidableEq

structure SRes (K V : Type) where
  st : Store
  out : SOut K V
  tr : List SEv

variable {K V : Type}

def encKF (KC : Codec K) (F : SFaults) (k : K) : Option Bytes := if F.encK then none else KC.enc k
def encVF (VC : Codec V) (F : SFaults) (v : V) : Option Bytes := if F.encV then none else VC.enc v
/-- Decode call number `pos` of the operation. -/
def decAt {A : Type} (C : Codec A) (F : SFaults) (pos : Nat) (b : Bytes) : Option A :=
  if pos ∈ F.dec then none else C.dec b

def sget (KC : Codec K) (VC : Codec V) (m : Store) (k : K) (F : SFaults) : SRes K V :=
  match encKF KC F k with
  | none => ⟨m, .err .encK, [⟨.encK, .fail⟩]⟩
  | some kb =>
    if F.kv1 then ⟨m, .err .kv, [⟨.encK, .ok⟩, ⟨.kvGet, .fail⟩]⟩
    else match m.get kb with
      | none => ⟨m, .notfound, [⟨.encK, .ok⟩, ⟨.kvGet, .nf⟩]⟩
      | some vb =>
        match decAt VC F 0 vb with
        | none => ⟨m, .err .decV, [⟨.encK, .ok⟩, ⟨.kvGet, .ok⟩, ⟨.decV, .fail⟩]⟩
        | some v => ⟨m, .val v, [⟨.encK, .ok⟩, ⟨.kvGet, .ok⟩, ⟨.decV, .ok⟩]⟩

def shas (KC : Codec K) (m : Store) (k : K) (F : SFaults) : SRes K V :=
  match encKF KC F k with
  | none => ⟨m, .err .encK, [⟨.encK, .fail⟩]⟩
  | some kb =>
    if F.kv1 then ⟨m, .err .kv, [⟨.encK, .ok⟩, ⟨.kvHas, .fail⟩]⟩
    else ⟨m, .has (m.get kb).isSome, [⟨.encK, .ok⟩, ⟨.kvHas, .ok⟩]⟩

def sset (KC : Codec K) (VC : Codec V) (m : Store) (k : K) (v : V) (F : SFaults) : SRes K V :=
  match encKF KC F k with
  | none => ⟨m, .err .encK, [⟨.encK, .fail⟩]⟩
  | some kb =>
    match encVF VC F v with
    | none => ⟨m, .err .encV, [⟨.encK, .ok⟩, ⟨.encV, .fail⟩]⟩
    | some vb =>
      if F.kv1 then ⟨m, .err .kv, [⟨.encK, .ok⟩, ⟨.encV, .ok⟩, ⟨.kvSet, .fail⟩]⟩
      else ⟨m.insert kb vb, .ok, [⟨.encK, .ok⟩, ⟨.encV, .ok⟩, ⟨.kvSet, .ok⟩]⟩

def sdelete (KC : Codec K) (m : Store) (k : K) (F : SFaults) : SRes K V :=
  match encKF KC F k with
  | none => ⟨m, .err .encK, [⟨.encK, .fail⟩]⟩
  | some kb =>
    if F.kv1 then ⟨m, .err .kv, [⟨.encK, .ok⟩, ⟨.kvDel, .fail⟩]⟩
    else ⟨m.erase kb, .ok, [⟨.encK, .ok⟩, ⟨.kvDel, .ok⟩]⟩

/-- Decoding of entry number `i`: the key first, then the value, as in the consumer closure. -/
def decEntry (KC : Codec K) (VC : Codec V) (F : SFaults) (i : Nat) (e : Bytes × Bytes) : Except SErr (K × V) :=
  match decAt KC F (2 * i) e.1 with
  | none => .error .decK
  | some k =>
    match decAt VC F (2 * i + 1) e.2 with
    | none => .error .decV
    | some v => .ok (k, v)

/-- The consumer loop of `Iterate` over the per-entry decode results `rs` (entry `n` is the next one
the store would deliver; `acc` are the pairs already handed to the callback). -/
def iterLoop (kvAfter : Option Nat) (stop : Nat) :
    List (Except SErr (K × V)) → Nat → List (K × V) → List SEv → List (K × V) × Option SErr × List SEv
  | [], _, acc, tr => (acc, none, tr ++ [⟨.kvIter, .ok⟩])
  | r :: rest, n, acc, tr =>
    if kvAfter = some n then (acc, some .kv, tr ++ [⟨.kvIter, .fail⟩])
    else match r with
      | .error .decV => (acc, some .decV, tr ++ [⟨.decK, .ok⟩, ⟨.decV, .fail⟩, ⟨.kvIter, .ok⟩])
      | .error e => (acc, some e, tr ++ [⟨.decK, .fail⟩, ⟨.kvIter, .ok⟩])
      | .ok kv =>
        if (acc ++ [kv]).length = stop then
          (acc ++ [kv], none, tr ++ [⟨.decK, .ok⟩, ⟨.decV, .ok⟩, ⟨.cb, .nc⟩, ⟨.kvIter, .ok⟩])
        else iterLoop kvAfter stop rest (n + 1) (acc ++ [kv]) (tr ++ [⟨.decK, .ok⟩, ⟨.decV, .ok⟩, ⟨.cb, .ok⟩])

def mapIdxFrom {A B : Type} (f : Nat → A → B) : Nat → List A → List B
  | _, [] => []
  | i, a :: as => f i a :: mapIdxFrom f (i + 1) as

def siterate (KC : Codec K) (VC : Codec V) (m : Store) (pfx : Bytes) (bwd : Bool) (stop : Nat) (F : SFaults) : SRes K V :=
  if F.kv1 then ⟨m, .iter [] (some .kv), [⟨.kvIter, .fail⟩]⟩
  else
    let rs := mapIdxFrom (decEntry KC VC F) 0 (m.entries pfx bwd)
    let (acc, status, tr) := iterLoop F.kvAfter stop rs 0 [] []
    ⟨m, .iter acc status, tr⟩

/-! ### `IterateKeys`, `DeletePrefix`, `Clear` -/

/-- Entry `i` of a key iteration makes decode call `i` (keys only). -/
def decKeyEntry (KC : Codec K) (F : SFaults) (i : Nat) (e : Bytes × Bytes) : Except SErr (K × Unit) :=
  match decAt KC F i e.1 with
  | none => .error .decK
  | some k => .ok (k, ())

/-- `IterateKeys` is the consumer loop of `Iterate` without the value decode (the trace drops the
value-decode events of the shared loop). -/
def siterateKeys (KC : Codec K) (m : Store) (pfx : Bytes) (bwd : Bool) (stop : Nat) (F : SFaults) : SRes K Unit :=
  if F.kv1 then ⟨m, .iter [] (some .kv), [⟨.kvIter, .fail⟩]⟩
  else
    let rs := mapIdxFrom (decKeyEntry KC F) 0 (m.entries pfx bwd)
    let (acc, status, tr) := iterLoop F.kvAfter stop rs 0 [] []
    ⟨m, .iter acc status, tr.filter fun e => e.call != .decV⟩

def Store.deletePrefix (m : Store) (pfx : Bytes) : Store := m.filter fun e => !pfx.isPrefixOf e.1

/-- The first `n` entries (in the store's iteration order) that satisfy `p` removed: what a bulk deletion that fails
part-way leaves behind. -/
def Store.dropFirst (p : Bytes × Bytes → Bool) : Nat → Store → Store
  | 0, m => m
  | _, [] => []
  | n + 1, e :: rest => if p e then Store.dropFirst p n rest else e :: Store.dropFirst p (n + 1) rest

/-- A bulk deletion of the underlying store (`DeletePrefix`, `Clear`) over the entries selected by `p`: it fails up front
(`kv1`: nothing done), or **part-way** (`kvAfter = some n` with more than `n` entries to delete: the first `n` of them are
gone, then the store reports the failure), or goes through (`full`). -/
def bulkDelete (m : Store) (p : Bytes × Bytes → Bool) (full : Store) (F : SFaults) : Store × Option SErr :=
  if F.kv1 then (m, some .kv)
  else match F.kvAfter with
    | some n => if n < (m.filter p).length then (m.dropFirst p n, some .kv) else (full, none)
    | none => (full, none)

/-- `DeletePrefix` and `Clear` hand the store's answer through unwrapped; what is left behind is what the store left. -/
def sdeletePrefix (m : Store) (pfx : Bytes) (F : SFaults) : Store × Option SErr :=
  bulkDelete m (fun e => pfx.isPrefixOf e.1) (m.deletePrefix pfx) F

def sclear (m : Store) (F : SFaults) : Store × Option SErr :=
  bulkDelete m (fun _ => true) [] F

def sstep (KC : Codec K) (VC : Codec V) (m : Store) (op : SOp K V) (F : SFaults) : SRes K V :=
  match op with
  | .get k => sget KC VC m k F
  | .has k => shas KC m k F
  | .set k v => sset KC VC m k v F
  | .delete k => sdelete KC m k F
  | .iterate pfx bwd stop => siterate KC VC m pfx bwd stop F

/-! ## Specification: the raw operations under the codecs -/

/-- The decodable prefix of per-entry decode results. -/
def goodPrefix (rs : List (Except SErr (K × V))) : List (K × V) :=
  (rs.takeWhile Except.isOk).filterMap Except.toOption

/-- The first decode error, if any. -/
def firstErr (rs : List (Except SErr (K × V))) : Option SErr :=
  match rs.dropWhile Except.isOk with
  | .error e :: _ => some e
  | _ => none

def sspec (KC : Codec K) (VC : Codec V) (m : Store) : SOp K V → Store × SOut K V
  | .get k =>
    match KC.enc k with
    | none => (m, .err .encK)
    | some kb => match m.get kb with
      | none => (m, .notfound)
      | some vb => match VC.dec vb with
        | none => (m, .err .decV)
        | some v => (m, .val v)
  | .has k =>
    match KC.enc k with
    | none => (m, .err .encK)
    | some kb => (m, .has (m.get kb).isSome)
  | .set k v =>
    match KC.enc k with
    | none => (m, .err .encK)
    | some kb => match VC.enc v with
      | none => (m, .err .encV)
      | some vb => (m.insert kb vb, .ok)
  | .delete k =>
    match KC.enc k with
    | none => (m, .err .encK)
    | some kb => (m.erase kb, .ok)
  | .iterate pfx bwd stop =>
    -- declarative: the longest prefix of decodable entries, cut at the callback's stop
    let rs := (m.entries pfx bwd).map (decEntry KC VC noSFaults 0)
    if 0 < stop ∧ stop ≤ (goodPrefix rs).length then (m, .iter ((goodPrefix rs).take stop) none)
    else (m, .iter (goodPrefix rs) (firstErr rs))

/-! ## Concrete key codec of the correspondence run: `uint16`, 2 bytes big-endian; 0xFFFF is
unencodable, byte strings of another length (or holding 0xFFFF) do not decode. -/

def maxU16 : UInt16 := UInt16.ofNat (2^16 - 1)

def codec16 : Codec UInt16 where
  enc k := if k = maxU16 then none else some [UInt8.ofNat (k.toNat / 256), UInt8.ofNat k.toNat]
  dec b := if b.length = 2 then
      (let k := UInt16.ofNat (ofBE b); if k = maxU16 then none else some k)
    else none

/-- A second key codec for the correspondence run, variable-length and **not prefix-free**: keys below 256 encode as one
byte, the others as two bytes big-endian (0xFFFF unencodable); only canonical encodings decode.  The encoding of `k < 256`
is a proper prefix of the encodings of `256*k .. 256*k+255`. -/
def codecVar : Codec UInt16 where
  enc k := if k = maxU16 then none
    else if k.toNat < 256 then some [UInt8.ofNat k.toNat]
    else some [UInt8.ofNat (k.toNat / 256), UInt8.ofNat k.toNat]
  dec b := match b with
    | [x] => some (UInt16.ofNat x.toNat)
    | [x, y] => if x = 0 then none else
        (let k := UInt16.ofNat (ofBE [x, y]); if k = maxU16 then none else some k)
    | _ => none

/-! ## line protocol -/
open Hive.Proto

def parseNatList (s : String) : Option (List Nat) :=
  (s.splitOn "+").foldr (fun t acc => do let l ← acc; let n ← t.toNat?; pure (n :: l)) (some [])

def parseSFaults (tok : String) : Option SFaults :=
  if tok == "-" then some {} else
  (tok.splitOn ",").foldl (fun acc t =>
    match acc with
    | none => none
    | some F =>
      if t == "kv1" then some { F with kv1 := true }
      else if t == "enck" then some { F with encK := true }
      else if t == "encv" then some { F with encV := true }
      else if t.startsWith "dec@" then (parseNatList (t.drop 4).toString).map fun l => { F with dec := l }
      else if t.startsWith "kv@" then ((t.drop 3).toString.toNat?).map fun n => { F with kvAfter := some n }
      else none) (some {})

def u16? (s : String) : Option UInt16 := s.toNat?.map UInt16.ofNat

def parseSOp : List String → Option (SOp UInt16 UInt64 × SFaults)
  | ["get", k, f] => do let k ← u16? k; let F ← parseSFaults f; pure (.get k, F)
  | ["has", k, f] => do let k ← u16? k; let F ← parseSFaults f; pure (.has k, F)
  | ["set", k, v, f] => do let k ← u16? k; let v ← u64? v; let F ← parseSFaults f; pure (.set k v, F)
  | ["del", k, f] => do let k ← u16? k; let F ← parseSFaults f; pure (.delete k, F)
  | ["iter", p, d, stop, f] => do
      let p ← unhex p
      let bwd ← (if d == "fwd" then some false else if d == "bwd" then some true else none)
      let stop ← stop.toNat?
      let F ← parseSFaults f
      pure (.iterate p bwd stop, F)
  | _ => none

def showSErr : SErr → String
  | .kv => "err:kv" | .encK => "err:enck" | .encV => "err:encv" | .decK => "err:deck" | .decV => "err:decv"

def showPairs (l : List (UInt16 × UInt64)) : String :=
  "[" ++ " ".intercalate (l.map fun p => s!"{p.1.toNat}={p.2.toNat}") ++ "]"

def showSOut : SOut UInt16 UInt64 → String
  | .ok => "ok"
  | .val v => s!"val {v.toNat}"
  | .has b => s!"has {showBool b}"
  | .notfound => "notfound"
  | .err e => showSErr e
  | .iter d none => s!"iter ok {showPairs d}"
  | .iter d (some e) => s!"iter {showSErr e} {showPairs d}"

def showSEv (e : SEv) : String :=
  (match e.call with
   | .kvGet => "G" | .kvHas => "H" | .kvSet => "S" | .kvDel => "X" | .kvIter => "I"
   | .encK => "k" | .encV => "v" | .decK => "K" | .decV => "V" | .cb => "c") ++
  (match e.res with
   | .ok => "" | .nf => "?" | .nc => "~" | .fail => "!")

def showSTrace (tr : List SEv) : String :=
  if tr.isEmpty then "-" else String.join (tr.map showSEv)

def showStore (m : Store) : String :=
  "{" ++ " ".intercalate (m.map fun e => hex e.1 ++ ":" ++ hex e.2) ++ "}"

def showSRes (r : SRes UInt16 UInt64) : String :=
  s!"{showSOut r.out} calls={showSTrace r.tr} store={showStore r.st}"

def showIterk (r : SRes UInt16 Unit) (m : Store) : String :=
  let keys := match r.out with
    | .iter d _ => "[" ++ " ".intercalate (d.map fun (x : UInt16 × Unit) => toString x.1.toNat) ++ "]"
    | _ => "[]"
  let st := match r.out with
    | .iter _ (some e) => showSErr e
    | _ => "ok"
  s!"iterk {st} {keys} calls={showSTrace r.tr} store={showStore m}"

def sstepLineK (KC : Codec UInt16) (VC : Codec UInt64) (m : Store) (toks : List String) : Store × String :=
  match toks with
  | ["rawset", k, v] =>
    match unhex k, unhex v with
    | some k, some v => let m' := m.insert k v; (m', s!"ok store={showStore m'}")
    | _, _ => (m, "bad-op")
  | ["rawdel", k] =>
    match unhex k with
    | some k => let m' := m.erase k; (m', s!"ok store={showStore m'}")
    | none => (m, "bad-op")
  | ["iterk", p, d, stop, f] =>
    match unhex p, (if d == "fwd" then some false else if d == "bwd" then some true else none), stop.toNat?, parseSFaults f with
    | some p, some bwd, some stop, some F =>
      (m, showIterk (siterateKeys KC m p bwd stop F) m)
    | _, _, _, _ => (m, "bad-op")
  | ["delp", p, f] =>
    match unhex p, parseSFaults f with
    | some p, some F =>
      match sdeletePrefix m p F with
      | (m', none) => (m', s!"ok calls=P store={showStore m'}")
      | (m', some e) => (m', s!"{showSErr e} calls=P! store={showStore m'}")
    | _, _ => (m, "bad-op")
  | ["clear", f] =>
    match parseSFaults f with
    | some F =>
      match sclear m F with
      | (m', none) => (m', s!"ok calls=Z store={showStore m'}")
      | (m', some e) => (m', s!"{showSErr e} calls=Z! store={showStore m'}")
    | none => (m, "bad-op")
  | _ =>
    match parseSOp toks with
    | some (op, F) => let r := sstep KC VC m op F; (r.st, showSRes r)
    | none => (m, "bad-op")

def sstepLine (m : Store) (toks : List String) : Store × String := sstepLineK codec16 codec64 m toks

end Hive.Typed
