import Hive.Model.DerivedBase
/-!
# Sequential models of `reactive.Counter`, `reactive.EvictionState` and `reactive.WaitGroup`

(ds/reactive/counter_impl.go, eviction_state_impl.go, wait_group_impl.go — the counter and the wait
group as repaired, see known_findings/C14.json.)
-/
namespace Hive.Derived
open Hive.Proto

/-! ## Counter -/

/-- One `Monitor` subscription: the monitored variable, whether it is still subscribed, and the
closure variable `conditionWasTrue`. -/
structure Mon where
  var : Nat
  live : Bool
  was : Bool
deriving Repr, DecidableEq

structure CT where
  cond : Int → Bool
  vars : Nat → Int
  mons : List Mon
  counter : Int

def CT.init (cond : Int → Bool) : CT := { cond := cond, vars := fun _ => 0, mons := [], counter := 0 }

/-- The subscription callback: `c.Compute` adjusts the counter iff the condition flipped. -/
def monCallback (cond : Int → Bool) (v : Int) (m : Mon) (cnt : Int) : Mon × Int :=
  if cond v != m.was then ({ m with was := cond v }, if cond v then cnt + 1 else cnt - 1) else (m, cnt)

def ctDeliver (cond : Int → Bool) (i : Nat) (v : Int) : List Mon → Int → List Mon × Int
  | [], cnt => ([], cnt)
  | m :: rest, cnt =>
    if m.live && m.var == i then
      let r := monCallback cond v m cnt
      let r' := ctDeliver cond i v rest r.2
      (r.1 :: r'.1, r'.2)
    else
      let r' := ctDeliver cond i v rest cnt
      (m :: r'.1, r'.2)

inductive CTOp
  | set (i : Nat) (v : Int)
  | monitor (i : Nat)
  | unmonitor (j : Nat)
deriving Repr

def CT.step (s : CT) : CTOp → CT
  | .set i v =>
    if s.vars i == v then s      -- `Variable.Set` with an unchanged value triggers nothing
    else
      let r := ctDeliver s.cond i v s.mons s.counter
      { s with vars := setAt s.vars i v, mons := r.1, counter := r.2 }
  | .monitor i =>
    -- `OnUpdate(…, true)`: the callback is invoked with the current value
    let r := monCallback s.cond (s.vars i) { var := i, live := true, was := false } s.counter
    { s with mons := s.mons ++ [r.1], counter := r.2 }
  | .unmonitor j =>
    match s.mons[j]? with
    | none => s
    | some m =>
      -- repaired code: unsubscribing withdraws the input's contribution
      { s with mons := s.mons.set j { m with live := false, was := false },
               counter := if m.was then s.counter - 1 else s.counter }

/-- The unrepaired `Monitor` returned the bare `OnUpdate` unsubscribe function (witness only). -/
def CT.stepOldUnmonitor (s : CT) (j : Nat) : CT :=
  match s.mons[j]? with
  | none => s
  | some m => { s with mons := s.mons.set j { m with live := false } }

def CT.run (s : CT) : List CTOp → CT
  | [] => s
  | op :: ops => CT.run (s.step op) ops

/-- Defining function: the number of live monitors whose input currently satisfies the condition. -/
def CT.expected (s : CT) : Nat := s.mons.countP (fun m => m.live && s.cond (s.vars m.var))

def condOf : String → Option (Int → Bool)
  | "nonzero" => some (fun v => v != 0)
  | "gt2" => some (fun v => decide (v > 2))
  | "even" => some (fun v => v % 2 == 0)
  | _ => none

def CT.stepLine (s : CT) (toks : List String) : CT × String :=
  match toks with
  | ["new", c] =>
    match condOf c with
    | some f => (CT.init f, "ok")
    | none => (s, "bad-op")
  | ["set", i, v] =>
    match i.toNat?, v.toInt? with
    | some i, some v => let s' := s.step (.set i v); (s', toString s'.counter)
    | _, _ => (s, "bad-op")
  | ["mon", i] =>
    match i.toNat? with
    | some i => let s' := s.step (.monitor i); (s', s!"{s.mons.length} {s'.counter}")
    | none => (s, "bad-op")
  | ["monmany", i, k] =>
    match i.toNat?, k.toNat? with
    | some i, some k =>
      let s' := s.run (List.replicate k (.monitor i)); (s', s!"{s'.mons.length} {s'.counter}")
    | _, _ => (s, "bad-op")
  | ["unmon", j] =>
    match j.toNat? with
    | some j => let s' := s.step (.unmonitor j); (s', toString s'.counter)
    | none => (s, "bad-op")
  | _ => (s, "bad-op")

/-! ## EvictionState

Slots are integers: every integer slot type of `EvictionStateSlotType` embeds into `Int`, and so do the float slots the
harness uses (multiples of 1/4, counted in quarters) — the code only compares slots (`slot > *lastEvictedSlot`,
`registeredSlot <= slot`), so any order embedding is faithful.  `evict` (as repaired, see known_findings/C14.json)
collects the registered events of all slots up to the evicted slot, in ascending order, instead of probing the slots
one by one counted up from 0 / the last evicted slot.  Every slot gets at most one real event in its life (created
while the slot is above the last evicted slot), so a real event is identified by its slot. -/

structure EV where
  last : Option Int
  events : List Int      -- slots that have an event in `evictionEvents`
  trig : List Int        -- slots whose real event has been triggered
  handed : List Int      -- ghost: slots for which a real event was handed out

def EV.init : EV := { last := none, events := [], trig := [], handed := [] }

def EV.evicted (s : EV) (slot : Int) : Bool :=
  match s.last with
  | none => false
  | some l => decide (slot ≤ l)

inductive EVOp
  | event (slot : Int)
  | evict (slot : Int)
deriving Repr

inductive EVOut
  | pre                     -- the shared pre-triggered event
  | held (fresh : Bool)     -- the slot's real (still untriggered) event; `fresh` = created by this call
  | triggered (slots : List Int)   -- events triggered by this `Evict`, in slot order
deriving Repr, DecidableEq

/-- `evict`: the registered slots up to `slot` (`ForEachKey` + `registeredSlot <= slot`), sorted ascending. -/
def insInt (a : Int) : List Int → List Int
  | [] => [a]
  | b :: l => if a ≤ b then a :: b :: l else b :: insInt a l

def sortInts : List Int → List Int
  | [] => []
  | a :: l => insInt a (sortInts l)

def evFire (events : List Int) (slot : Int) : List Int := sortInts (events.filter (fun i => decide (i ≤ slot)))

def EV.step (s : EV) : EVOp → EV × EVOut
  | .event slot =>
    if s.evicted slot then (s, .pre)
    else if s.events.contains slot then (s, .held false)
    else ({ s with events := slot :: s.events, handed := slot :: s.handed }, .held true)
  | .evict slot =>
    if s.evicted slot then (s, .triggered [])
    else
      ({ s with last := some slot, events := s.events.filter (fun i => !decide (i ≤ slot)),
                trig := s.trig ++ evFire s.events slot }, .triggered (evFire s.events slot))

def EV.run (s : EV) : List EVOp → EV
  | [] => s
  | op :: ops => EV.run (s.step op).1 ops

/-! ### The probing loop `evict` had before (witnesses only)

Up to 4972df2: `for i := startingSlot; i <= slot; i++ { probe i }` with `startingSlot` = 0 before the first eviction
and `lastEvictedSlot + 1` afterwards.  Three defects: (1) with `slot` the largest value of the slot type `i++` wraps
around and the loop never ends (`evLoopOld`, repaired first by a `break`: `evLoop`); (2) a slot below 0 registered before
the first eviction is never probed; (3) a float slot between two integers is never probed (`evFireOldProbe` with the
model's unit = 1/`unit` of the type's step). -/

def evNext (top i : Nat) : Nat := if i < top then i + 1 else 0

def evProbe (events : List Nat) (i : Nat) (acc : List Nat) : List Nat := if events.contains i then i :: acc else acc

def evLoop (top : Nat) (events : List Nat) (slot : Nat) : Nat → Nat → List Nat → Option (List Nat)
  | 0, _, _ => none
  | fuel + 1, i, acc =>
    if i ≤ slot then
      if i == slot then some (evProbe events i acc).reverse
      else evLoop top events slot fuel (evNext top i) (evProbe events i acc)
    else some acc.reverse

def evLoopOld (top : Nat) (events : List Nat) (slot : Nat) : Nat → Nat → List Nat → Option (List Nat)
  | 0, _, _ => none
  | fuel + 1, i, acc =>
    if i ≤ slot then evLoopOld top events slot fuel (evNext top i) (evProbe events i acc)
    else some acc.reverse

/-- What the probing loop collected: the registered slots among `start, start+unit, start+2·unit, … ≤ slot`. -/
def evFireOldProbe (events : List Int) (last : Option Int) (unit : Nat) (slot : Int) : List Int :=
  let start : Int := match last with | none => 0 | some l => l + unit
  events.filter (fun i => decide (start ≤ i) && decide (i ≤ slot) && decide ((i - start) % (unit : Int) = 0))

/-- Range of the slots of the slot types the harness instantiates `EvictionState` with, in the model's unit (integer
types and `f32`/`f64`: the type's own values; `f32q`/`f64q`: quarters, the exactly representable range). -/
def evRange : String → Option (Int × Int)
  | "int" | "i64" => some (-(2 ^ 63), 2 ^ 63 - 1)
  | "i8" => some (-(2 ^ 7), 2 ^ 7 - 1)
  | "i16" => some (-(2 ^ 15), 2 ^ 15 - 1)
  | "i32" => some (-(2 ^ 31), 2 ^ 31 - 1)
  | "uint" | "u64" | "uintptr" => some (0, 2 ^ 63 - 1)      -- the harness carries slots as int64
  | "u8" => some (0, 2 ^ 8 - 1)
  | "u16" => some (0, 2 ^ 16 - 1)
  | "u32" | "slot32" => some (0, 2 ^ 32 - 1)
  | "f32" | "f32q" => some (-(2 ^ 24), 2 ^ 24)
  | "f64" | "f64q" => some (-(2 ^ 53), 2 ^ 53)
  | _ => none

def showIntList (l : List Int) : String := "[" ++ " ".intercalate (l.map toString) ++ "]"

def EV.stepLine (bot top : Int) (s : EV) (toks : List String) : EV × String :=
  match toks with
  | ["event", n] =>
    match n.toInt? with
    | some n =>
      if n < bot || n > top then (s, "bad-op") else
      match s.step (.event n) with
      | (s', .pre) => (s', "pre")
      | (s', .held true) => (s', "held new")
      | (s', .held false) => (s', "held same")
      | (s', _) => (s', "bad")
    | none => (s, "bad-op")
  | ["evict", n] =>
    match n.toInt? with
    | some n =>
      if n < bot || n > top then (s, "bad-op") else
      match s.step (.evict n) with
      | (s', .triggered l) => (s', showIntList l ++ " last=" ++ toString (s'.last.getD 0))
      | (s', _) => (s', "bad")
    | none => (s, "bad-op")
  | _ => (s, "bad-op")

/-! ## WaitGroup, one call at a time -/

structure WG where
  pending : List Nat
  counter : Int
  trig : Bool
  emptied : Bool     -- ghost: some `Done` removed the last pending element
deriving Repr, DecidableEq

def WG.init : WG := { pending := [], counter := 0, trig := false, emptied := false }

def wgAddLoop : List Nat → WG → WG
  | [], s => s
  | x :: xs, s =>
    if s.pending.contains x then
      -- already present: correct the counter (repaired code: and trigger if that makes it 0)
      wgAddLoop xs { s with counter := s.counter - 1, trig := s.trig || s.counter - 1 == 0 }
    else wgAddLoop xs { s with pending := s.pending ++ [x] }

def wgDoneLoop : List Nat → WG → WG
  | [], s => s
  | x :: xs, s =>
    if s.pending.contains x then
      wgDoneLoop xs { pending := s.pending.erase x, counter := s.counter - 1,
                      trig := s.trig || s.counter - 1 == 0, emptied := s.emptied || (s.pending.erase x).isEmpty }
    else wgDoneLoop xs s

inductive WGOp
  | add (xs : List Nat)
  | done (xs : List Nat)
deriving Repr

def WG.step (s : WG) : WGOp → WG
  | .add xs => wgAddLoop xs { s with counter := s.counter + xs.length }
  | .done xs => wgDoneLoop xs s

def WG.run (s : WG) : List WGOp → WG
  | [] => s
  | op :: ops => WG.run (s.step op) ops

def WG.show (s : WG) : String :=
  s!"pending={showOrSums s.pending} trig={showBool s.trig}"

end Hive.Derived
