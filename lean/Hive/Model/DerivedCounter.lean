import Hive.Model.DerivedBase
/-!
# Sequential models of `reactive.Counter`, `reactive.EvictionState` and `reactive.WaitGroup`

(ds/reactive/counter_impl.go, eviction_state_impl.go, wait_group_impl.go — the counter and the wait
group as repaired, see known_findings/C14.json.)
-/
namespace Hive.Derived
open Hive.Proto

/-! ## Counter -/

/-- One `Monitor` subscription: the monitored variable, whether it is still subscribed, and the
closure variable `conditionWasTrue`. -/
structure Mon where
  var : Nat
  live : Bool
  was : Bool
deriving Repr, DecidableEq

structure CT where
  cond : Int → Bool
  vars : Nat → Int
  mons : List Mon
  counter : Int

def CT.init (cond : Int → Bool) : CT := { cond := cond, vars := fun _ => 0, mons := [], counter := 0 }

/-- The subscription callback: `c.Compute` adjusts the counter iff the condition flipped. -/
def monCallback (cond : Int → Bool) (v : Int) (m : Mon) (cnt : Int) : Mon × Int :=
  if cond v != m.was then ({ m with was := cond v }, if cond v then cnt + 1 else cnt - 1) else (m, cnt)

def ctDeliver (cond : Int → Bool) (i : Nat) (v : Int) : List Mon → Int → List Mon × Int
  | [], cnt => ([], cnt)
  | m :: rest, cnt =>
    if m.live && m.var == i then
      let r := monCallback cond v m cnt
      let r' := ctDeliver cond i v rest r.2
      (r.1 :: r'.1, r'.2)
    else
      let r' := ctDeliver cond i v rest cnt
      (m :: r'.1, r'.2)

inductive CTOp
  | set (i : Nat) (v : Int)
  | monitor (i : Nat)
  | unmonitor (j : Nat)
deriving Repr

def CT.step (s : CT) : CTOp → CT
  | .set i v =>
    if s.vars i == v then s      -- `Variable.Set` with an unchanged value triggers nothing
    else
      let r := ctDeliver s.cond i v s.mons s.counter
      { s with vars := setAt s.vars i v, mons := r.1, counter := r.2 }
  | .monitor i =>
    -- `OnUpdate(…, true)`: the callback is invoked with the current value
    let r := monCallback s.cond (s.vars i) { var := i, live := true, was := false } s.counter
    { s with mons := s.mons ++ [r.1], counter := r.2 }
  | .unmonitor j =>
    match s.mons[j]? with
    | none => s
    | some m =>
      -- repaired code: unsubscribing withdraws the input's contribution
      { s with mons := s.mons.set j { m with live := false, was := false },
               counter := if m.was then s.counter - 1 else s.counter }

/-- The unrepaired `Monitor` returned the bare `OnUpdate` unsubscribe function (witness only). -/
def CT.stepOldUnmonitor (s : CT) (j : Nat) : CT :=
  match s.mons[j]? with
  | none => s
  | some m => { s with mons := s.mons.set j { m with live := false } }

def CT.run (s : CT) : List CTOp → CT
  | [] => s
  | op :: ops => CT.run (s.step op) ops

/-- Defining function: the number of live monitors whose input currently satisfies the condition. -/
def CT.expected (s : CT) : Nat := s.mons.countP (fun m => m.live && s.cond (s.vars m.var))

def condOf : String → Option (Int → Bool)
  | "nonzero" => some (fun v => v != 0)
  | "gt2" => some (fun v => decide (v > 2))
  | "even" => some (fun v => v % 2 == 0)
  | _ => none

def CT.stepLine (s : CT) (toks : List String) : CT × String :=
  match toks with
  | ["new", c] =>
    match condOf c with
    | some f => (CT.init f, "ok")
    | none => (s, "bad-op")
  | ["set", i, v] =>
    match i.toNat?, v.toInt? with
    | some i, some v => let s' := s.step (.set i v); (s', toString s'.counter)
    | _, _ => (s, "bad-op")
  | ["mon", i] =>
    match i.toNat? with
    | some i => let s' := s.step (.monitor i); (s', s!"{s.mons.length} {s'.counter}")
    | none => (s, "bad-op")
  | ["monmany", i, k] =>
    match i.toNat?, k.toNat? with
    | some i, some k =>
      let s' := s.run (List.replicate k (.monitor i)); (s', s!"{s'.mons.length} {s'.counter}")
    | _, _ => (s, "bad-op")
  | ["unmon", j] =>
    match j.toNat? with
    | some j => let s' := s.step (.unmonitor j); (s', toString s'.counter)
    | none => (s, "bad-op")
  | _ => (s, "bad-op")

/-! ## EvictionState

Slots are natural numbers (the slot types are used with non-negative indices; wrap-around of the
`for i := start; i <= slot; i++` loop at the top of a fixed-width type is not modelled).  Every slot
gets at most one real event in its life (created while the slot is above the last evicted slot),
so a real event is identified by its slot. -/

structure EV where
  last : Option Nat
  events : List Nat      -- slots that have an event in `evictionEvents`
  trig : List Nat        -- slots whose real event has been triggered
  handed : List Nat      -- ghost: slots for which a real event was handed out

def EV.init : EV := { last := none, events := [], trig := [], handed := [] }

def EV.evicted (s : EV) (slot : Nat) : Bool :=
  match s.last with
  | none => false
  | some l => slot ≤ l

inductive EVOp
  | event (slot : Nat)
  | evict (slot : Nat)
deriving Repr

inductive EVOut
  | pre                     -- the shared pre-triggered event
  | held (fresh : Bool)     -- the slot's real (still untriggered) event; `fresh` = created by this call
  | triggered (slots : List Nat)   -- events triggered by this `Evict`, in slot order
deriving Repr, DecidableEq

def EV.step (s : EV) : EVOp → EV × EVOut
  | .event slot =>
    if s.evicted slot then (s, .pre)
    else if s.events.contains slot then (s, .held false)
    else ({ s with events := slot :: s.events, handed := slot :: s.handed }, .held true)
  | .evict slot =>
    if s.evicted slot then (s, .triggered [])
    else
      let start := match s.last with | none => 0 | some l => l + 1
      let fire := (List.range' start (slot + 1 - start)).filter (fun i => s.events.contains i)
      ({ s with last := some slot, events := s.events.filter (fun i => !(decide (start ≤ i) && decide (i ≤ slot))),
                trig := s.trig ++ fire }, .triggered fire)

def EV.run (s : EV) : List EVOp → EV
  | [] => s
  | op :: ops => EV.run (s.step op).1 ops

/-! ### The loop of `evict` on a fixed-width slot type

`for i := startingSlot; i <= slot; i++ { probe i; if i == slot { break } }` (the repaired code) on a slot type whose
largest value is `top`: `i++` at `top` wraps around (to 0 for the unsigned types; the signed ones wrap to their minimum,
which is below every slot as well — the model uses 0 for both).  `none` = the loop is still running when the fuel is
used up.  `evLoopOld` is the loop without the `break`: with `slot = top` its condition `i <= slot` can never fail. -/

def evNext (top i : Nat) : Nat := if i < top then i + 1 else 0

def evProbe (events : List Nat) (i : Nat) (acc : List Nat) : List Nat := if events.contains i then i :: acc else acc

def evLoop (top : Nat) (events : List Nat) (slot : Nat) : Nat → Nat → List Nat → Option (List Nat)
  | 0, _, _ => none
  | fuel + 1, i, acc =>
    if i ≤ slot then
      if i == slot then some (evProbe events i acc).reverse
      else evLoop top events slot fuel (evNext top i) (evProbe events i acc)
    else some acc.reverse

def evLoopOld (top : Nat) (events : List Nat) (slot : Nat) : Nat → Nat → List Nat → Option (List Nat)
  | 0, _, _ => none
  | fuel + 1, i, acc =>
    if i ≤ slot then evLoopOld top events slot fuel (evNext top i) (evProbe events i acc)
    else some acc.reverse

/-- `EV.step` with `evict`'s loop executed literally on a slot type with largest slot `top` (what the driver runs;
equal to `EV.step` for slots of the type: `EV.stepW_eq`). -/
def EV.stepW (top : Nat) (s : EV) : EVOp → EV × EVOut
  | .event slot => s.step (.event slot)
  | .evict slot =>
    if s.evicted slot then (s, .triggered [])
    else
      let start := match s.last with | none => 0 | some l => l + 1
      let fire := (evLoop top s.events slot (slot + 1 - start) start []).getD []
      ({ s with last := some slot, events := s.events.filter (fun i => !(decide (start ≤ i) && decide (i ≤ slot))),
                trig := s.trig ++ fire }, .triggered fire)

/-- Largest slot of the slot types the harness instantiates `EvictionState` with (floats: up to where every integer
is a value of the type). -/
def evTop : String → Option Nat
  | "int" | "i64" => some (2 ^ 63 - 1)
  | "i8" => some (2 ^ 7 - 1)
  | "i16" => some (2 ^ 15 - 1)
  | "i32" => some (2 ^ 31 - 1)
  | "uint" | "u64" | "uintptr" => some (2 ^ 64 - 1)
  | "u8" => some (2 ^ 8 - 1)
  | "u16" => some (2 ^ 16 - 1)
  | "u32" | "slot32" => some (2 ^ 32 - 1)
  | "f32" => some (2 ^ 24)
  | "f64" => some (2 ^ 53)
  | _ => none

def EV.stepLine (top : Nat) (s : EV) (toks : List String) : EV × String :=
  match toks with
  | ["event", n] =>
    match n.toNat? with
    | some n =>
      if n > top then (s, "bad-op") else
      match s.stepW top (.event n) with
      | (s', .pre) => (s', "pre")
      | (s', .held true) => (s', "held new")
      | (s', .held false) => (s', "held same")
      | (s', _) => (s', "bad")
    | none => (s, "bad-op")
  | ["evict", n] =>
    match n.toNat? with
    | some n =>
      if n > top then (s, "bad-op") else
      match s.stepW top (.evict n) with
      | (s', .triggered l) => (s', showNatList l ++ " last=" ++ toString (s'.last.getD 0))
      | (s', _) => (s', "bad")
    | none => (s, "bad-op")
  | _ => (s, "bad-op")

/-! ## WaitGroup, one call at a time -/

structure WG where
  pending : List Nat
  counter : Int
  trig : Bool
  emptied : Bool     -- ghost: some `Done` removed the last pending element
deriving Repr, DecidableEq

def WG.init : WG := { pending := [], counter := 0, trig := false, emptied := false }

def wgAddLoop : List Nat → WG → WG
  | [], s => s
  | x :: xs, s =>
    if s.pending.contains x then
      -- already present: correct the counter (repaired code: and trigger if that makes it 0)
      wgAddLoop xs { s with counter := s.counter - 1, trig := s.trig || s.counter - 1 == 0 }
    else wgAddLoop xs { s with pending := s.pending ++ [x] }

def wgDoneLoop : List Nat → WG → WG
  | [], s => s
  | x :: xs, s =>
    if s.pending.contains x then
      wgDoneLoop xs { pending := s.pending.erase x, counter := s.counter - 1,
                      trig := s.trig || s.counter - 1 == 0, emptied := s.emptied || (s.pending.erase x).isEmpty }
    else wgDoneLoop xs s

inductive WGOp
  | add (xs : List Nat)
  | done (xs : List Nat)
deriving Repr

def WG.step (s : WG) : WGOp → WG
  | .add xs => wgAddLoop xs { s with counter := s.counter + xs.length }
  | .done xs => wgDoneLoop xs s

def WG.run (s : WG) : List WGOp → WG
  | [] => s
  | op :: ops => WG.run (s.step op) ops

def WG.show (s : WG) : String :=
  s!"pending={showOrSums s.pending} trig={showBool s.trig}"

end Hive.Derived
