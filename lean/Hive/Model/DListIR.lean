import Hive.Model.DList
/-!
# A small imperative language for the bodies of `ds/list_impl.go` and `container/list/list.go` (C10)

`harness/c10/xlate` (go/ast) translates every function of the inner `list` / `listElement` of
ds/list_impl.go **and** every function of Go's `container/list` into the statement lists below
(`Hive/Gen/C10_Code.lean`, regenerated from the working tree and from GOROOT on every run).  This file is
the meaning of those statement lists: an interpreter over the same heap as `Hive/Model/DList.lean`
(nodes `{prev, next, owner, val}`, `len : Int` per list, allocation counter).

The language is exactly as large as the two source files need: loads / stores of `prev`, `next`, `list`,
`len = 0 | ++ | --`, allocation of an element, `if c { … }` blocks (a forward skip), calls of the sibling
functions, `return`.  The two whole-list pushes are a `LoopFn`: the statements before the loop, the shape of
`for i, e := other.Len(), other.F(); i > 0; i, e = i-1, e.G()` and the loop body.

Core Lean only.
-/
namespace Hive.DList.IR

inductive Fld | prev | next
deriving DecidableEq, Repr

/-- Expressions that evaluate to a machine word: an element pointer (`0` = `nil`) or an element value. -/
inductive E
  | nil
  | var (i : Nat)          -- i-th parameter / local of the function (receiver not counted)
  | rootSelf               -- `&l.root`
  | rootOwner (p : E)      -- `&p.list.root`
  | load (f : Fld) (p : E) -- `p.prev` / `p.next` (`.Load()` in hive)
  | deref (p : E)          -- `p.Value` (container/list), `*p.value.Load()` (hive)
deriving DecidableEq, Repr

/-- List-pointer expressions. -/
inductive LE
  | self              -- the receiver `l`
  | nil
  | owner (p : E)     -- `p.list` (`.Load()` in hive)
deriving DecidableEq, Repr

inductive Cond
  | peq (a b : E) | pne (a b : E)
  | leq (a b : LE) | lne (a b : LE)
  | lenZero                 -- `l.len == 0`
  | valNil (p : E)          -- `p.value.Load() == nil` (hive's `Value()` only)
  | or (a b : Cond) | and (a b : Cond)
deriving DecidableEq, Repr

/-- Names of the functions of the inner list and of the element. -/
inductive Fn
  | Init | lazyInit | insert | insertValue | remove | move
  | Front | Back | Len | PushFront | PushBack | Remove | InsertBefore | InsertAfter
  | MoveToFront | MoveToBack | MoveBefore | MoveAfter
  | Next | Prev | Value
deriving DecidableEq, Repr

inductive Ret
  | none            -- `return`
  | self            -- `return l`
  | len             -- `return l.len`
  | expr (e : E)
deriving DecidableEq, Repr

inductive Stmt
  | storeP (f : Fld) (p v : E)   -- `p.f = v`
  | storeL (p : E) (l : LE)      -- `p.list = l`
  | lenSet0 | lenInc | lenDec
  | alloc (dst : Nat) (v : E)    -- `dst := &Element{Value: v}`
  | letv (dst : Nat) (e : E)     -- `dst := e`
  | when (c : Cond) (n : Nat)    -- `if c { the next n statements }`
  | call (fn : Fn) (args : List E)
  | retCall (fn : Fn) (args : List E)   -- `return l.fn(args)`
  | ret (r : Ret)
deriving DecidableEq, Repr

/-- `l.lazyInit(); for i, e := other.Len(), other.<start>(); i > 0; i, e = i-1, e.<adv>() { body }` — the
translator accepts exactly this loop shape; in `body` the loop pointer `e` is variable 0. -/
structure LoopFn where
  pre : List Stmt
  start : Fn
  adv : Fn
  body : List Stmt
deriving DecidableEq, Repr

/-- A translated library. -/
structure Lib where
  code : Fn → List Stmt
  pushBackList : LoopFn
  pushFrontList : LoopFn

/-! ## meaning -/

structure CSt where
  heap : Heap
  len : Bool → Int
  fresh : Nat

inductive Val
  | none
  | word (n : Nat)
  | int (i : Int)
deriving DecidableEq, Repr

abbrev Env := List Nat

def lookup (env : Env) (i : Nat) : Nat := env.getD i 0

def setVar : Env → Nat → Nat → Env
  | [], 0, v => [v]
  | [], i + 1, v => 0 :: setVar [] i v
  | _ :: xs, 0, v => v :: xs
  | x :: xs, i + 1, v => x :: setVar xs i v

def evalE (self : Bool) (env : Env) (h : Heap) : E → Nat
  | .nil => 0
  | .var i => lookup env i
  | .rootSelf => root self
  | .rootOwner p => match (h (evalE self env h p)).owner with
    | some k => root k
    | Option.none => 0
  | .load .prev p => (h (evalE self env h p)).prev
  | .load .next p => (h (evalE self env h p)).next
  | .deref p => (h (evalE self env h p)).val

def evalL (self : Bool) (env : Env) (h : Heap) : LE → Option Bool
  | .self => some self
  | .nil => Option.none
  | .owner p => (h (evalE self env h p)).owner

def evalC (self : Bool) (env : Env) (s : CSt) : Cond → Bool
  | .peq a b => evalE self env s.heap a == evalE self env s.heap b
  | .pne a b => !(evalE self env s.heap a == evalE self env s.heap b)
  | .leq a b => evalL self env s.heap a == evalL self env s.heap b
  | .lne a b => !(evalL self env s.heap a == evalL self env s.heap b)
  | .lenZero => s.len self == 0
  | .valNil p => evalE self env s.heap p < 3   -- only the sentinels (and nil) have no value
  | .or a b => evalC self env s a || evalC self env s b
  | .and a b => evalC self env s a && evalC self env s b

def evalRet (self : Bool) (env : Env) (s : CSt) : Ret → Val
  | .none => .none
  | .self => .none
  | .len => .int (s.len self)
  | .expr e => .word (evalE self env s.heap e)

/-- Meaning of a callee: arguments, receiver, state ↦ state, result. -/
abbrev Callee := Fn → List Nat → Bool → CSt → CSt × Val

/-- Straight-line execution with forward skips.  `skip` = number of statements still to be jumped over. -/
def exec (callee : Callee) (self : Bool) : List Stmt → Nat → Env → CSt → CSt × Val
  | [], _, _, s => (s, .none)
  | _ :: rest, skip + 1, env, s => exec callee self rest skip env s
  | st :: rest, 0, env, s =>
    match st with
    | .storeP .prev p v =>
      exec callee self rest 0 env { s with heap := setPrev s.heap (evalE self env s.heap p) (evalE self env s.heap v) }
    | .storeP .next p v =>
      exec callee self rest 0 env { s with heap := setNext s.heap (evalE self env s.heap p) (evalE self env s.heap v) }
    | .storeL p l =>
      exec callee self rest 0 env { s with heap := setOwner s.heap (evalE self env s.heap p) (evalL self env s.heap l) }
    | .lenSet0 => exec callee self rest 0 env { s with len := upd s.len self 0 }
    | .lenInc => exec callee self rest 0 env { s with len := upd s.len self (s.len self + 1) }
    | .lenDec => exec callee self rest 0 env { s with len := upd s.len self (s.len self - 1) }
    | .alloc dst v =>
      exec callee self rest 0 (setVar env dst s.fresh)
        { s with heap := fun j => if j = s.fresh then { val := evalE self env s.heap v } else s.heap j,
                 fresh := s.fresh + 1 }
    | .letv dst e => exec callee self rest 0 (setVar env dst (evalE self env s.heap e)) s
    | .when c n => if evalC self env s c then exec callee self rest 0 env s else exec callee self rest n env s
    | .call fn args => exec callee self rest 0 env (callee fn (args.map (evalE self env s.heap)) self s).1
    | .retCall fn args => callee fn (args.map (evalE self env s.heap)) self s
    | .ret r => (s, evalRet self env s r)

/-- Call depth `n`: the functions of the two files call each other at most three deep
(`PushBack → insertValue → insert`). -/
def semN (code : Fn → List Stmt) : Nat → Callee
  | 0 => fun _ _ _ s => (s, .none)
  | n + 1 => fun fn args self s => exec (semN code n) self (code fn) 0 args s

def sem (code : Fn → List Stmt) : Callee := semN code 3

def Val.toWord : Val → Nat
  | .word n => n
  | _ => 0

def Val.toInt : Val → Int
  | .int i => i
  | _ => 0

/-- `e.Next()` / `e.Prev()` / `e.Value()`: methods of the element (`e` is variable 0, there is no receiver list). -/
def semElem (code : Fn → List Stmt) (fn : Fn) (e : Nat) (s : CSt) : Val := (sem code fn [e] false s).2

/-- The loop of a whole-list push: `i` iterations left, `e` the loop pointer. -/
def loopIter (code : Fn → List Stmt) (f : LoopFn) (self : Bool) : Nat → Nat → CSt → CSt
  | 0, _, s => s
  | i + 1, e, s =>
    let s' := (exec (sem code) self f.body 0 [e] s).1
    loopIter code f self i (semElem code f.adv e s').toWord s'

/-- `pre; for i, e := other.Len(), other.<start>(); i > 0; i, e = i-1, e.<adv>() { body }` -/
def runLoop (code : Fn → List Stmt) (f : LoopFn) (self other : Bool) (s : CSt) : CSt :=
  let s1 := (exec (sem code) self f.pre 0 [] s).1
  loopIter code f self (sem code .Len [] other s1).2.toInt.toNat (sem code f.start [] other s1).2.toWord s1

/-- One of the four traversals of the inner list (`Range`, `RangeReverse`, `ForEach`, `ForEachReverse`):
`for e := l.<start>(); e != nil; e = e.<adv>() { callback(e.Value()) }`; `abortable`: the callback's error ends the
loop and is returned. -/
structure WalkFn where
  start : Fn
  adv : Fn
  abortable : Bool
deriving DecidableEq, Repr

/-- The values handed to the callback, at most `fuel` of them, from element `e` on. -/
def walkSem (code : Fn → List Stmt) (w : WalkFn) (s : CSt) : Nat → Nat → List Nat
  | 0, _ => []
  | f + 1, e =>
    if e = 0 then [] else (semElem code .Value e s).toWord :: walkSem code w s f (semElem code w.adv e s).toWord

def walkAll (code : Fn → List Stmt) (w : WalkFn) (l : Bool) (s : CSt) (fuel : Nat) : List Nat :=
  walkSem code w s fuel (sem code w.start [] l s).2.toWord

end Hive.DList.IR

namespace Hive.DList
open IR

/-- The part of the model state the code can see (no ghost fields). -/
def conc (s : St) : CSt := { heap := s.heap, len := s.len, fresh := s.fresh }

/-- An operation's result as a machine value: handles and element values are words, `nil` is 0. -/
def outVal : Out → Val
  | .handle e => .word e
  | .nil => .word 0
  | .value v => .word v
  | .ok => .none

/-- One operation of the line protocol executed by a translated library. -/
def semOp (lib : Lib) : Op → CSt → CSt × Val
  | .pushFront l v, s => sem lib.code .PushFront [v] l s
  | .pushBack l v, s => sem lib.code .PushBack [v] l s
  | .remove l e, s => sem lib.code .Remove [e] l s
  | .insertBefore l v m, s => sem lib.code .InsertBefore [v, m] l s
  | .insertAfter l v m, s => sem lib.code .InsertAfter [v, m] l s
  | .moveToFront l e, s => sem lib.code .MoveToFront [e] l s
  | .moveToBack l e, s => sem lib.code .MoveToBack [e] l s
  | .moveBefore l e m, s => sem lib.code .MoveBefore [e, m] l s
  | .moveAfter l e m, s => sem lib.code .MoveAfter [e, m] l s
  | .pushBackList l o, s => (runLoop lib.code lib.pushBackList l o s, .none)
  | .pushFrontList l o, s => (runLoop lib.code lib.pushFrontList l o s, .none)
  | .init l, s => ((sem lib.code .Init [] l s).1, .none)

end Hive.DList
