import Hive.Conc.Sys
import Hive.Model.EventsMax
/-!
# `WithMaxTriggerCount` with several hooks under concurrent `Trigger` callers (C15)

One event with limit `n` and a fixed list of hooks, each with its own limit `m` (0 = unlimited); any
number of concurrent `Trigger` callers.  A caller performs the atomic `Add(1)` on the event counter
and compares; if it may proceed it walks the hooks in attachment order; per hook: look it up (a hook
that was unhooked meanwhile is skipped), atomic `Add(1)` on the hook's counter and compare, then
either `Unhook` (limit exceeded) or invoke.  Every line is one step.
-/
namespace Hive.EventsMaxN
open Hive.Conc
open Hive.EventsMax (minLim)

structure HSt where
  m : Nat
  hc : Nat
  attached : Bool
  fired : Nat
  skipped : Nat
deriving Repr, DecidableEq

structure Sh where
  n : Nat
  ec : Nat
  passed : Nat
  hooks : List HSt
deriving Repr, DecidableEq

inductive HPc
  | look | add | unhook | call
deriving Repr, DecidableEq

inductive Th
  | t0
  | h (i : Nat) (pc : HPc)
  | fin
deriving Repr, DecidableEq

/-- Where a caller goes after it is done with hook `i`. -/
def nextTh (s : Sh) (i : Nat) : Th := if i + 1 < s.hooks.length then .h (i + 1) .look else .fin

def setH (s : Sh) (i : Nat) (hk : HSt) : Sh := { s with hooks := s.hooks.set i hk }

def step (s : Sh) : Th → List (Sh × Th)
  | .t0 =>
    if Hive.Events.exceeds s.n (s.ec + 1) then [({ s with ec := s.ec + 1 }, .fin)]
    else [({ s with ec := s.ec + 1, passed := s.passed + 1 }, if 0 < s.hooks.length then .h 0 .look else .fin)]
  | .h i pc =>
    match s.hooks[i]? with
    | none => [(s, .fin)]
    | some hk =>
      match pc with
      | .look =>
        if hk.attached then [(s, .h i .add)]
        else [(setH s i { hk with skipped := hk.skipped + 1 }, nextTh s i)]
      | .add =>
        if Hive.Events.exceeds hk.m (hk.hc + 1) then [(setH s i { hk with hc := hk.hc + 1 }, .h i .unhook)]
        else [(setH s i { hk with hc := hk.hc + 1 }, .h i .call)]
      | .unhook => [(setH s i { hk with attached := false }, nextTh s i)]
      | .call => [(setH s i { hk with fired := hk.fired + 1 }, nextTh s i)]
  | .fin => []

def sys : Sys Sh Th := { step := step }

def init (n : Nat) (ms : List Nat) : Sh :=
  { n := n, ec := 0, passed := 0,
    hooks := ms.map (fun m => { m := m, hc := 0, attached := true, fired := 0, skipped := 0 }) }

/-! ## forced interleavings: nested triggers (section `mn` of the harness)

The callback of hook `ri` calls `Trigger` again while the outer `Trigger` stands in the middle of its
iteration (argument = remaining nesting depth).  On the protocol model this is the schedule in which a
new caller runs to completion right after an outer caller's `call` step on hook `ri`. -/

def runNested (ri : Nat) : Nat → Nat → Sh → Th → Sh
  | 0, _, s, _ => s
  | fuel + 1, depth, s, t =>
    match step s t with
    | [] => s
    | (s', t') :: _ =>
      let s'' := if t == .h ri .call && decide (0 < depth) then runNested ri fuel (depth - 1) s' .t0 else s'
      runNested ri fuel depth s'' t'

open Hive.Proto

/-- `mn <n> <ri> <depth> <m0> <m1> …` → `<TriggerCount> <fired0> <fired1> …` -/
def nestedLine (toks : List String) : String :=
  match toks.mapM (·.toNat?) with
  | some (n :: ri :: depth :: ms) =>
    if ms.isEmpty || ms.length ≤ ri || 8 < depth || 12 < ms.length then "bad-op"
    else
      let s := runNested ri 100000 depth (init n ms) .t0
      " ".intercalate ((toString s.ec) :: s.hooks.map (fun h => toString h.fired))
  | _ => "bad-op"

end Hive.EventsMaxN
