import Hive.Model.C12aShrink
/-!
# Model of `randommap.RandomMap` (ds/randommap/random_map.go) for C12

`raw` is the inner map key ↦ entry (value, keyIndex) — the entries are pointers in Go, so updating
an entry in place is an update of the binding; `keys` is the dense key slice.  The inner map is a
ShrinkingMap, which is a plain map by the ShrinkingMap theorems; its options are passed through by
the harness but are not part of this model.  `Delete` swaps the last key into the hole (also when
the deleted key *is* the last one: the guard `keyIndex != len(keys)` of the code is always true).

The random source is an explicit argument: `c` stands for the value `rand.Intn(size)` is computed
from (`c % size` ranges over every possible outcome), `perm` for the outcome of `rand.Perm(len(keys))`.
-/
namespace Hive.C12a.RMap

open Hive.C12a

structure Entry where
  value : Nat
  keyIndex : Nat
deriving Repr, DecidableEq

structure St where
  raw : AL Entry
  keys : List Nat
deriving Repr

def init : St := { raw := [], keys := [] }

def set (s : St) (k v : Nat) : St :=
  match AL.get s.raw k with
  | some e => { s with raw := AL.set s.raw k { e with value := v } }
  | none => { raw := AL.set s.raw k { value := v, keyIndex := s.raw.length }, keys := s.keys ++ [k] }

def get (s : St) (k : Nat) : Option Nat := (AL.get s.raw k).map (·.value)

def delete (s : St) (k : Nat) : St × Option Nat :=
  match AL.get s.raw k with
  | none => (s, none)
  | some e =>
    let s1 : St :=
      if e.keyIndex ≠ s.keys.length then
        let old := e.keyIndex
        let mi := s.keys.length - 1
        let mk := s.keys.getD mi 0
        let raw1 := match AL.get s.raw mk with
          | some me => AL.set s.raw mk { me with keyIndex := old }
          | none => s.raw
        { raw := raw1, keys := (s.keys.set old mk).set mi 0 }
      else s
    ({ raw := AL.del s1.raw k, keys := s1.keys.take (s1.keys.length - 1) }, some e.value)

/-- `randomKey()`: `keys[rand.Intn(rawMap.Size())]`. -/
def randomKey (s : St) (c : Nat) : Nat := s.keys.getD (c % s.raw.length) 0

def randKey (s : St) (c : Nat) : Option Nat :=
  if s.keys.length = 0 then none else some (randomKey s c)

def randEntry (s : St) (c : Nat) : Option Nat :=
  if s.raw.length = 0 then none else (AL.get s.raw (randomKey s c)).map (·.value)

/-- The loop of `RandomUniqueEntries` over the remaining part of the random order. -/
def rueLoop (s : St) (count : Nat) : List Nat → List Nat → List Nat
  | [], acc => acc
  | i :: rest, acc =>
    if acc.length < count then
      match AL.get s.raw (s.keys.getD i 0) with
      | some e => rueLoop s count rest (acc ++ [e.value])
      | none => rueLoop s count rest acc
    else acc

/-- `RandomUniqueEntries(count)`; `count` is the (non-negative part of the) argument, `perm` the
outcome of `rand.Perm(len(keys))`.  When everything is returned the order is the inner map's
iteration order, which is not modelled (observations are compared up to order). -/
def randUnique (s : St) (count : Nat) (perm : List Nat) : List Nat :=
  if count < 1 then []
  else if s.raw.length ≤ count then s.raw.map (·.2.value)
  else rueLoop s count perm []

/-- `Keys()`: `result = make([]K, rawMap.Size()); copy(result, r.keys)`. -/
def keysOut (s : St) : List Nat :=
  s.keys.take s.raw.length ++ List.replicate (s.raw.length - s.keys.length) 0

inductive Op
  | set (k v : Nat)
  | get (k : Nat)
  | has (k : Nat)
  | del (k : Nat)
  | size | keys | values | forEach
  | forEachN (n : Nat)       -- ForEach with a consumer that stops after n visits
  | randKey (c : Nat)
  | randEntry (c : Nat)
  | randUnique (n : Nat) (perm : List Nat)
deriving Repr, DecidableEq

inductive Out
  | ok
  | bool (b : Bool)
  | val (v : Option Nat)
  | nat (n : Nat)
  | list (l : List Nat)
  | pairs (l : List (Nat × Nat))
deriving Repr, DecidableEq

def step (s : St) : Op → St × Out
  | .set k v => (set s k v, .ok)
  | .get k => (s, .val (get s k))
  | .has k => (s, .bool (AL.has s.raw k))
  | .del k => let r := delete s k; (r.1, .val r.2)
  | .size => (s, .nat s.raw.length)
  | .keys => (s, .list (keysOut s))
  | .values => (s, .list (s.raw.map (·.2.value)))
  | .forEach => (s, .pairs (s.raw.map (fun p => (p.1, p.2.value))))
  | .forEachN n => (s, .nat (Shrink.visits n s.raw.length))
  | .randKey c => (s, .val (randKey s c))
  | .randEntry c => (s, .val (randEntry s c))
  | .randUnique n perm => (s, .list (randUnique s n perm))

def run (s : St) : List Op → St × List Out
  | [] => (s, [])
  | op :: ops =>
    let r := step s op
    let r' := run r.1 ops
    (r'.1, r.2 :: r'.2)

def final (s : St) (ops : List Op) : St := ops.foldl (fun s op => (step s op).1) s

/-! ## line protocol (`rmap …`)

The harness cannot control `math/rand`; for the random picks it reports what the implementation
returned and the model answers with the set-level facts (`member`, `ok <count>`). -/
open Hive.Proto

def stepCore (s : St) (toks : List String) : St × String :=
  match toks with
  | ["set", k, v] =>
    match k.toNat?, v.toNat? with
    | some k, some v => (set s k v, "ok")
    | _, _ => (s, "bad-op")
  | ["get", k] => match k.toNat? with | some k => (s, showOptVal (get s k)) | none => (s, "bad-op")
  | ["has", k] => match k.toNat? with | some k => (s, showBool (AL.has s.raw k)) | none => (s, "bad-op")
  | ["del", k] =>
    match k.toNat? with
    | some k => let r := delete s k; (r.1, showOptVal r.2)
    | none => (s, "bad-op")
  | ["size"] => (s, toString s.raw.length)
  | ["keys"] => (s, showNatList (keysOut s))
  | ["values"] => (s, showNatList (sortNat (s.raw.map (·.2.value))))
  | ["foreach"] => (s, showPairs (sortPairs (s.raw.map (fun p => (p.1, p.2.value)))))
  | ["foreachn", n] => match n.toNat? with | some n => (s, toString (Shrink.visits n s.raw.length)) | none => (s, "bad-op")
  | ["index", k] =>    -- white-box: the entry's keyIndex
    match k.toNat? with
    | some k => (s, showOptVal ((AL.get s.raw k).map (·.keyIndex)))
    | none => (s, "bad-op")
  | ["randkey", "-"] => (s, if (randKey s 0).isNone then "empty" else "bad")
  | ["randkey", k] =>
    match k.toNat? with
    | some k =>
      -- is there an outcome of the random source that yields k?
      let i := s.keys.idxOf k
      (s, if i < s.raw.length ∧ randKey s i = some k then "member" else "bad")
    | none => (s, "bad-op")
  | ["randentry", "-"] => (s, if (randEntry s 0).isNone then "empty" else "bad")
  | ["randentry", v] =>
    match v.toNat? with
    | some v =>
      (s, if (List.range s.raw.length).any (fun c => randEntry s c == some v) then "member" else "bad")
    | none => (s, "bad-op")
  | "rue" :: n :: vs =>
    match n.toInt?, parseNats vs with
    | some n, some vs =>
      -- `count` is a signed int: everything below 1 gives the empty result (`n.toNat` = 0 then)
      let n := n.toNat
      -- facts that hold for every outcome of the random source: count, distinct, members
      let want := (randUnique s n (List.range s.keys.length)).length
      let vals := s.raw.map (·.2.value)
      (s, if vs.length = want ∧ vs.all (fun v => vals.contains v) ∧ vs.eraseDups.length = vs.length
          then s!"ok {want}" else "bad")
    | _, _ => (s, "bad-op")
  | _ => (s, "bad-op")

/-- Driver state: the options and the deletion counter of the inner ShrinkingMap ride along (white
box; by the ShrinkingMap theorems nothing else can observe them). -/
structure DSt where
  o : Shrink.Opts
  s : St
  deleted : Nat
deriving Repr

def dinit : DSt := { o := ⟨0, 1, 0⟩, s := init, deleted := 0 }

/-- `k<keys slice> i[<keyIndex of each of its keys>] n<inner size> d<inner deletedKeys>`. -/
def showState (d : DSt) : String :=
  s!"k{showNatList d.s.keys} i[{" ".intercalate (d.s.keys.map (fun k => showOptVal ((AL.get d.s.raw k).map (·.keyIndex))))}] n{d.s.raw.length} d{d.deleted}"

def stepLine (d : DSt) (toks : List String) : DSt × String :=
  match toks with
  | ["new", "default"] => ({ o := ⟨10, 1, 100⟩, s := init, deleted := 0 }, "ok")
  -- IEEE specials of the inner map's float32 ratio (see `Shrink.stepLine`)
  | ["new", "nan", c] | ["new", "-inf", c] =>
    match c.toInt? with | some c => ({ o := ⟨-1, 1, c⟩, s := init, deleted := 0 }, "ok") | none => (d, "bad-op")
  | ["new", "+inf", c] =>
    match c.toInt? with | some c => ({ o := ⟨1, 0, c⟩, s := init, deleted := 0 }, "ok") | none => (d, "bad-op")
  | ["new", a, b, c] =>
    match a.toInt?, b.toNat?, c.toInt? with
    | some a, some b, some c => if b = 0 then (d, "bad-op") else ({ o := ⟨a, b, c⟩, s := init, deleted := 0 }, "ok")
    | _, _, _ => (d, "bad-op")
  | _ =>
    let r := stepCore d.s toks
    -- the inner map's `delete`: count, then rebuild (counter back to 0) when the thresholds say so
    let del :=
      if r.1.raw.length < d.s.raw.length then
        (if Shrink.shouldShrink d.o (d.deleted + 1) r.1.raw.length then 0 else d.deleted + 1)
      else d.deleted
    ({ d with s := r.1, deleted := del }, r.2)

end Hive.C12a.RMap
