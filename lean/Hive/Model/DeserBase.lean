import Hive.Base.Proto
/-!
# Shared vocabulary of the decoder models (C02, stream part of C01)

Byte strings, little-endian numbers, length-prefix types, outcome classes and the cost record
`{alloc, iters}`.  `alloc` counts the bytes requested where the Go code calls `make` / `append` /
converts to `string` with a size taken from the input; `iters` counts the executions of a loop whose
bound is a length field (one per item callback).  Fixed-size allocations made once per loop
iteration are covered by `iters`.
-/
namespace Hive.Dec

abbrev Bytes := List UInt8

/-- little-endian value of a byte string -/
def leNat : Bytes → Nat
  | [] => 0
  | b :: bs => b.toNat + 256 * leNat bs

/-- `w` little-endian bytes of `n` (truncating, like Go's `uint8(v)` … `uint64(v)`) -/
def natLE : Nat → Nat → Bytes
  | 0, _ => []
  | w + 1, n => UInt8.ofNat (n % 256) :: natLE w (n / 256)

/-- `serializer.SeriLengthPrefixType` -/
inductive LP
  | u8 | u16 | u32 | u64
deriving Repr, DecidableEq

def LP.width : LP → Nat
  | .u8 => 1
  | .u16 => 2
  | .u32 => 4
  | .u64 => 8

/-- outcome class of a decoder call -/
inductive Res
  | ok | err | panic
deriving Repr, DecidableEq

structure Cost where
  alloc : Nat := 0
  iters : Nat := 0
deriving Repr, DecidableEq

instance : Add Cost := ⟨fun a b => ⟨a.alloc + b.alloc, a.iters + b.iters⟩⟩

@[simp] theorem Cost.add_alloc (a b : Cost) : (a + b).alloc = a.alloc + b.alloc := rfl
@[simp] theorem Cost.add_iters (a b : Cost) : (a + b).iters = a.iters + b.iters := rfl

/-- observed values: byte strings (numbers as their little-endian bytes) and counts -/
inductive Val
  | bytes (b : Bytes)
  | size (n : Nat)
deriving Repr, DecidableEq

open Hive.Proto in
def Val.show : Val → String
  | .bytes b => hex b
  | .size n => "#" ++ toString n

def showVals (vs : List Val) : String :=
  if vs.isEmpty then "." else ",".intercalate (vs.map Val.show)

def parseLP : String → Option LP
  | "u8" => some .u8
  | "u16" => some .u16
  | "u32" => some .u32
  | "u64" => some .u64
  | _ => none

theorem natLE_length (w n : Nat) : (natLE w n).length = w := by
  induction w generalizing n with
  | zero => rfl
  | succ w ih => simp [natLE, ih]

theorem leNat_natLE (w n : Nat) (h : n < 256 ^ w) : leNat (natLE w n) = n := by
  induction w generalizing n with
  | zero => simp at h; simp [natLE, leNat, h]
  | succ w ih =>
    have h2 : n / 256 < 256 ^ w := by
      rw [Nat.div_lt_iff_lt_mul (by decide)]
      rw [Nat.pow_succ] at h; exact h
    have hb : (UInt8.ofNat (n % 256)).toNat = n % 256 := by
      simp [UInt8.toNat_ofNat']
    simp only [natLE, leNat, ih _ h2, hb]
    omega

end Hive.Dec
