import Hive.Model.Ads
/-!
# A path-compressed sparse Merkle trie over an abstract hash (growth item of C09)

`Hive/Model/Ads.lean` *assumes* that the root of the third-party trie (pokt-network/smt v0.9.2) is
a function of its contents.  This file models the trie algorithm itself, so that the assumption
becomes a theorem (`Hive/Proofs/AdsTrie.lean`, `C09_trie_*` in `Hive/Props/C09.lean`).

What is modelled (smt.go, with the value hasher disabled as hive.go configures it):

* a trie over fixed-length bit paths (`path = sha256(key)`), most significant bit first;
* **leaf compression**: a leaf sits at the shallowest position where it is alone in its subtree
  (`update` on an empty subtrie puts a leaf there, `update` on a leaf with another path forks at
  the first differing bit, `delete` moves a leaf whose sibling subtrie became empty up, repeatedly);
* the digest: `zero` for an empty subtrie (the placeholder), `leaf path value` for a leaf,
  `node left right` for an inner node — for **uninterpreted** `zero`, `leaf`, `node`;
* `Get`.

smt's *extension nodes* are a storage-level compression of chains of inner nodes with one empty
child each; by smt's own definition `hashNode(ext) = hashNode(ext.expand())` they do not change any
digest.  The first half of this file is the trie in expanded form (`E`: such a chain is
`inner nil (inner nil …)`), the second half (`T`) is the trie *with* extension nodes and smt's
in-place surgery on them (`split` in `update`; join and absorb in `delete`), whose digest is by
definition the digest of its expansion.  Lazy loading / persistence of nodes is abstracted by
`Trie.disk` of the glue model.
-/
namespace Hive.Ads.SMT

abbrev Path := List Bool

/-- `getPathBit(path, d)`: `true` = right. -/
def bit (p : Path) (d : Nat) : Bool := p.getD d false

inductive E where
  | nil
  | leaf (p : Path) (v : Val)
  | inner (l r : E)
deriving DecidableEq, Repr

/-- `smt.Get`, started at depth `d`. -/
def E.get : E → Nat → Path → Option Val
  | .nil, _, _ => none
  | .leaf q w, _, p => if q = p then some w else none
  | .inner l r, d, p => if bit p d then r.get (d + 1) p else l.get (d + 1) p

/-- The subtrie that replaces a leaf when a leaf with another path arrives: a chain of inner nodes
with one empty child for every further common bit (smt: one extension node), then the inner node at
the first differing bit.  `lp`/`lq` are the two leaves, the lists the remaining bits of their paths. -/
def fork (lp lq : E) : List Bool → List Bool → E
  | a :: as, b :: bs =>
    if a = b then (if a then .inner .nil (fork lp lq as bs) else .inner (fork lp lq as bs) .nil)
    else (if a then .inner lq lp else .inner lp lq)
  | _, _ => lp

/-- `smt.update`, at depth `d`. -/
def E.insert : E → Nat → Path → Val → E
  | .nil, _, p, v => .leaf p v
  | .leaf q w, d, p, v =>
    if q = p then .leaf p v else fork (.leaf p v) (.leaf q w) (p.drop d) (q.drop d)
  | .inner l r, d, p, v =>
    if bit p d then .inner l (r.insert (d + 1) p v) else .inner (l.insert (d + 1) p v) r

/-- What `smt.delete` puts in place of an inner node after one child changed: a leaf next to an
empty subtrie moves up. -/
def collapse : E → E → E
  | .nil, .leaf q w => .leaf q w
  | .leaf q w, .nil => .leaf q w
  | l, r => .inner l r

/-- `smt.delete`, at depth `d` (an absent key leaves the trie as it is). -/
def E.delete : E → Nat → Path → E
  | .nil, _, _ => .nil
  | .leaf q w, _, p => if q = p then .nil else .leaf q w
  | .inner l r, d, p =>
    if bit p d then collapse l (r.delete (d + 1) p) else collapse (l.delete (d + 1) p) r

/-- The hash functions, uninterpreted. -/
structure Hash (H : Type) where
  zero : H
  leaf : Path → Val → H
  node : H → H → H

/-- `hashNode`. -/
def E.digest {H : Type} (h : Hash H) : E → H
  | .nil => h.zero
  | .leaf p v => h.leaf p v
  | .inner l r => h.node (l.digest h) (r.digest h)

/-- number of leaves -/
def E.count : E → Nat
  | .nil => 0
  | .leaf _ _ => 1
  | .inner l r => l.count + r.count

/-- Operations on a trie of path length `n`. -/
inductive TOp
  | put (p : Path) (v : Val)
  | del (p : Path)
deriving DecidableEq, Repr

def TOp.path : TOp → Path
  | .put p _ => p
  | .del p => p

def applyOp (t : E) : TOp → E
  | .put p v => t.insert 0 p v
  | .del p => t.delete 0 p

def runOps (ops : List TOp) : E := ops.foldl applyOp .nil

/-- The contents of a trie as a function. -/
def E.fn (t : E) : Path → Option Val := fun p => t.get 0 p

/-! ## the trie with extension nodes -/

inductive T where
  | nil
  | leaf (p : Path) (v : Val)
  | inner (l r : T)
  /-- `bits` = `path[pathBounds[0] .. pathBounds[1])`; the child is an inner node -/
  | ext (bits : List Bool) (child : T)
deriving DecidableEq, Repr

/-- One inner node with an empty sibling: the subtrie `x` hangs on side `b`. -/
def link (b : Bool) (x : E) : E := if b then .inner .nil x else .inner x .nil

/-- `ext.expand()`: the chain of inner nodes an extension stands for. -/
def chain : List Bool → E → E
  | [], x => x
  | b :: bs, x => link b (chain bs x)

def T.expand : T → E
  | .nil => .nil
  | .leaf p v => .leaf p v
  | .inner l r => .inner l.expand r.expand
  | .ext bits c => chain bits c.expand

/-- `hashNode`: an extension node hashes as its expansion. -/
def T.digest {H : Type} (h : Hash H) (t : T) : H := t.expand.digest h

/-- `countCommonPrefixBits`: the common prefix of two bit strings. -/
def lcp : List Bool → List Bool → List Bool
  | a :: as, b :: bs => if a = b then a :: lcp as bs else []
  | _, _ => []

/-- An extension node is only created for a non-empty run of bits. -/
def mkExt : List Bool → T → T
  | [], c => c
  | b :: bs, c => .ext (b :: bs) c

/-- An inner node with `x` on side `m` and `y` on the other side. -/
def innerOn (m : Bool) (x y : T) : T := if m then .inner y x else .inner x y

/-- `smt.update` at depth `d`. -/
def T.update : T → Nat → Path → Val → T
  | .nil, _, p, v => .leaf p v
  | .leaf q w, d, p, v =>
    let c := lcp (p.drop d) (q.drop d)
    if c.length = (p.drop d).length then .leaf p v                 -- prefixlen == depth(): replace
    else mkExt c (innerOn (bit p (d + c.length)) (.leaf p v) (.leaf q w))
  | .inner l r, d, p, v =>
    if bit p d then .inner l (r.update (d + 1) p v) else .inner (l.update (d + 1) p v) r
  | .ext bits c, d, p, v =>
    -- ext.split(path, depth)
    let m := lcp bits (p.drop d)
    if m.length = bits.length then .ext bits (c.update (d + bits.length) p v)   -- full match: descend
    else
      -- the extension's own bit at the first mismatch, and what follows it
      let myBit := (bits.drop m.length).headD false
      let post := (bits.drop m.length).tail
      mkExt m (innerOn myBit (mkExt post c) (.leaf p v))

/-- What `smt.delete` returns for an inner node whose child on side `s` is now `child'`. -/
def afterDelete (s : Bool) (child' sib : T) : T :=
  match child', sib with
  | .nil, .leaf q w => .leaf q w
  | .nil, .ext nb nc => .ext ((!s) :: nb) nc          -- absorb: n.pathBounds[0]--
  | .leaf q w, .nil => .leaf q w
  | .ext nb nc, .nil => .ext (s :: nb) nc
  | c, o => if s then .inner o c else .inner c o

/-- `smt.delete` at depth `d` (an absent key leaves the trie as it is). -/
def T.delete : T → Nat → Path → T
  | .nil, _, _ => .nil
  | .leaf q w, _, p => if q = p then .nil else .leaf q w
  | .inner l r, d, p =>
    if bit p d then afterDelete true (r.delete (d + 1) p) l else afterDelete false (l.delete (d + 1) p) r
  | .ext bits c, d, p =>
    if bits.isPrefixOf (p.drop d) then
      match c.delete (d + bits.length) p with
      | .leaf q w => .leaf q w                          -- the leaf moves above the extension
      | .ext nb nc => .ext (bits ++ nb) nc              -- join with the child extension
      | c' => .ext bits c'
    else .ext bits c

/-- `smt.Get` at depth `d`. -/
def T.get : T → Nat → Path → Option Val
  | .nil, _, _ => none
  | .leaf q w, _, p => if q = p then some w else none
  | .inner l r, d, p => if bit p d then r.get (d + 1) p else l.get (d + 1) p
  | .ext bits c, d, p => if bits.isPrefixOf (p.drop d) then c.get (d + bits.length) p else none

def applyOpT (t : T) : TOp → T
  | .put p v => t.update 0 p v
  | .del p => t.delete 0 p

def runOpsT (ops : List TOp) : T := ops.foldl applyOpT .nil

end Hive.Ads.SMT
