import Hive.Model.KV
/-!
# The methods of `mapdb.go` as translated source, and what a translated body does (C04)

`harness/c04/mgen` (go/ast) translates the body of every method of `kvstore/mapdb/mapdb.go` into a `List MStmt`
(`Hive/Gen/C04_Map.lean`, regenerated from the working tree on every run of the check).  `mexec` interprets such a body
sequentially over the value model's state — the shared map with its `closed` flag (`Store`), a batch's two operation maps —
with the methods of `syncedKVMap` (`get`, `has`, `set`, `delete`, `deletePrefix`, `iterate`, `iterateKeys`: the Go map
under its own lock) as primitives.  `Hive/Props/C04.lean` proves that interpreting the *generated* bodies gives exactly the
functions of the hand-written model `Hive/Model/KV.lean` (`dbGet`, `dbSet`, …, `dbCommit`, the batch bookkeeping of `step`):
the model of views and batches is derived from the source.  Locks are no-ops here (sequential; C05 models them).
Core Lean only.
-/
namespace Hive.KV.MapSrc

inductive MStmt
  | closedCheck (flag : String) (rets : List String)   -- if F.Load() { return rets…, kvstore.ErrStoreClosed }
  | swapRetNil (flag : String)                          -- if F.Swap(true) { return nil }
  | lock (what : String)
  | deferUnlock (what : String)
  | mapDo (meth : String) (args : List String)          -- s.m.M(args)
  | mapGetOrNotFound (args : List String)               -- v, c := s.m.get(args); if !c { return nil, ErrKeyNotFound }; return v, nil
  | mapHas (args : List String)                         -- c := s.m.has(args); return c, nil
  | bind (x e : String)                                 -- x := e
  | bmapDelete (field key : String)                     -- delete(b.F, k)
  | bmapSet (field key val : String)                    -- b.F[k] = v
  | bmapReset (field : String)                          -- b.F = make(…)
  | rangeApply (field vars meth : String) (args : List String)  -- for vars := range b.F { err := b.kvStore.M(args); if err != nil { return err } }
  | retNil
  | retSelf (meth : String) (args : List String)        -- return s.m(args)
  | retExtend                                           -- return s.WithRealm(byteutils.ConcatBytes(s.Realm(), $0))
  | retExpr (e : String)
  | retNew (typ : String) (fields : List (String × String))
  | other (src : String)
deriving DecidableEq, Repr

/-- The variables a body can mention. -/
structure Env where
  realm : Bytes                 -- `s.realm` (for a batch: the realm of `b.kvStore`)
  argv : List Bytes             -- the byte-string parameters
  d : Dir                       -- direction of an iteration (what `iterDirection...` means to `utils.SortSlice`)
  stop : Nat                    -- the consumer returns false on its `stop`-th call (0: never)
  binds : List (String × Bytes) -- local variables
  key : Bytes                   -- range variables
  value : Bytes

def lookupS (x : String) : List (String × Bytes) → Option Bytes
  | [] => none
  | (k, v) :: t => if k == x then some v else lookupS x t

/-- The byte-string expressions that occur in `mapdb.go`. -/
def evalE (e : Env) (x : String) : Option Bytes :=
  if x == "$0" then e.argv[0]?
  else if x == "$1" then e.argv[1]?
  else if x == "s.realm" then some e.realm
  else if x == "byteutils.ConcatBytes(s.realm)" then some e.realm
  else if x == "byteutils.ConcatBytes(s.realm,$0)" then e.argv[0]?.map (e.realm ++ ·)
  else if x == "byteutils.ConcatBytesToString($0)" then e.argv[0]?
  else if x == "[]byte(key)" then some e.key
  else if x == "value" then some e.value
  else lookupS x e.binds

/-- The state a body works on. -/
structure MS where
  db : Store
  sets : AList                  -- b.setOperations
  dels : List Bytes             -- b.deleteOperations
  seen : Option Out             -- what the consumer of an iteration was handed
deriving DecidableEq, Repr

/-- What a body returns: the answer, and the object it creates (a view with that realm / a batch). -/
structure Res where
  st : MS
  out : Out
  view : Option Bytes
  batch : Bool
deriving DecidableEq, Repr

def done (st : MS) (o : Out) : Option Res := some ⟨st, o, none, false⟩

/-- The primitives: methods of `syncedKVMap`. -/
def mapPrim (e : Env) (st : MS) (meth : String) (args : List String) : Option MS :=
  if meth == "set" then
    match args with
    | [a, b] => do let k ← evalE e a; let v ← evalE e b; pure { st with db := { st.db with m := aset k v st.db.m } }
    | _ => none
  else if meth == "delete" then
    match args with
    | [a] => do let k ← evalE e a; pure { st with db := { st.db with m := adel k st.db.m } }
    | _ => none
  else if meth == "deletePrefix" then
    match args with
    | [a] => do let p ← evalE e a; pure { st with db := { st.db with m := adelPfx p st.db.m } }
    | _ => none
  else if meth == "iterate" then
    if args == ["s.realm", "$0", "$1", "$2..."] then
      do let p ← e.argv[0]?; pure { st with seen := some (.kvs (stopAfter e.stop (iterAll e.realm p e.d st.db.m))) }
    else none
  else if meth == "iterateKeys" then
    if args == ["s.realm", "$0", "$1", "$2..."] then
      do let p ← e.argv[0]?; pure { st with seen := some (.keys (stopAfter e.stop (iterKeysAll e.realm p e.d st.db.m))) }
    else none
  else none

/-- Bodies without calls of other methods of the same type. -/
def leaf (e : Env) : List MStmt → MS → Option Res
  | [], st => done st (st.seen.getD .ok)     -- a method without result (Cancel)
  | .closedCheck flag _ :: rest, st =>
    if flag == "s.closed" || flag == "b.closed" then (if st.db.closed then done st .closed else leaf e rest st) else none
  | .swapRetNil flag :: rest, st =>
    if flag == "s.closed" then
      (if st.db.closed then done st .ok else leaf e rest { st with db := { st.db with closed := true } })
    else none
  | .lock _ :: rest, st => leaf e rest st
  | .deferUnlock _ :: rest, st => leaf e rest st
  | .mapDo meth args :: rest, st =>
    match mapPrim e st meth args with
    | some st' => leaf e rest st'
    | none => none
  | .mapGetOrNotFound [a] :: _, st =>
    match evalE e a with
    | some k => done st (match aget k st.db.m with | none => .notfound | some v => .val v)
    | none => none
  | .mapHas [a] :: _, st =>
    match evalE e a with
    | some k => done st (.bool (aget k st.db.m).isSome)
    | none => none
  | .bind x ex :: rest, st =>
    match evalE e ex with
    | some v => leaf { e with binds := (x, v) :: e.binds } rest st
    | none => none
  | .bmapDelete field k :: rest, st =>
    match evalE e k with
    | some key =>
      if field == "deleteOperations" then leaf e rest { st with dels := st.dels.filter (· != key) }
      else if field == "setOperations" then leaf e rest { st with sets := adel key st.sets }
      else none
    | none => none
  | .bmapSet field k v :: rest, st =>
    match evalE e k with
    | some key =>
      if field == "setOperations" then
        match evalE e v with
        | some val => leaf e rest { st with sets := aset key val st.sets }
        | none => none
      else if field == "deleteOperations" && v == "types.Void" then
        leaf e rest { st with dels := key :: st.dels.filter (· != key) }     -- a Go map: one entry per key
      else none
    | none => none
  | .bmapReset field :: rest, st =>
    if field == "setOperations" then leaf e rest { st with sets := [] }
    else if field == "deleteOperations" then leaf e rest { st with dels := [] }
    else none
  | .retNil :: _, st => done st (st.seen.getD .ok)
  | .retExpr ex :: _, st =>
    match evalE e ex with
    | some b => done st (.bytes b)
    | none => none
  | .retNew typ fields :: _, st =>
    if typ == "mapDB" then
      match fields with
      | [("m", "s.m"), ("closed", "s.closed"), ("realm", r)] => (evalE e r).map (fun rb => ⟨st, .ok, some rb, false⟩)
      | _ => none
    else if typ == "batchedMutations" &&
        fields == [("kvStore", "s"), ("setOperations", "make(map[string]kvstore.Value)"),
          ("deleteOperations", "make(map[string]types.Empty)"), ("closed", "s.closed")] then
      some ⟨st, .ok, none, true⟩
    else none
  | _ :: _, _ => none

/-- `for … := range b.F { err := b.kvStore.M(args); if err != nil { return err } }` over the entries `es` (a Go map: the
order is arbitrary; the model applies the last entry of its list first, as `dbCommit` does). -/
def applyAll (e : Env) (body : List MStmt) (args : List String) : List (Bytes × Bytes) → MS → Option (MS × Out)
  | [], st => some (st, .ok)
  | x :: rest, st =>
    match applyAll e body args rest st with
    | some (st', .ok) =>
      let e' := { e with key := x.1, value := x.2 }
      match args.mapM (evalE e') with
      | some argv => (leaf { e' with argv := argv } body st').map (fun r => (r.st, r.out))
      | none => none
    | r => r

/-- Bodies that may call the unexported methods of the same type (`self`: their translated bodies). -/
def mexec (self : String → List MStmt) (e : Env) : List MStmt → MS → Option Res
  | .retSelf meth args :: _, st =>
    match args.mapM (evalE e) with
    | some argv => leaf { e with argv := argv } (self meth) st
    | none => none
  | .retExtend :: _, st =>
    match e.argv[0]? with
    | some r => leaf { e with argv := [e.realm ++ r] } (self "WithRealm") st
    | none => none
  | .rangeApply field vars meth args :: rest, st =>
    let es : Option (List (Bytes × Bytes)) :=
      if field == "setOperations" && vars == "key,value" then some st.sets
      else if field == "deleteOperations" && vars == "key" then some (st.dels.map (fun k => (k, [])))
      else none
    match es with
    | some es =>
      match applyAll e (self meth) args es st with
      | some (st', .ok) => mexec self e rest st'
      | some (st', o) => done st' o
      | none => none
    | none => none
  | .closedCheck flag r :: rest, st =>
    if flag == "s.closed" || flag == "b.closed" then (if st.db.closed then done st .closed else mexec self e rest st) else none
  | .lock _ :: rest, st => mexec self e rest st
  | .deferUnlock _ :: rest, st => mexec self e rest st
  | body, st => leaf e body st

end Hive.KV.MapSrc
