import Hive.Base.Proto
import Hive.Spec.Serix
/-!
# Line protocol of the serix model (drivers `drv_c01`, `drv_c03`, `drv_c02b`)

Requests of one case (the case header resets the schema):

* `type …`            → `ok` (selects the Go universe on the harness side; the schema follows in `def`)
* `som set|del|clear …` → `ok` (history of the Go-side `SerializableOrderedMap`; the following `enc` carries
                         the entries of the harness's reference list, which the model encodes as a
                         uint32-counted sequence of (key, value) structs)
* `def SCHEMA`        → `ok wf` | `ok nowf` | `bad-schema`
* `enc v|n VALUE`     → `ok HEX` | `err` | `panic`      (`v`: with validation)
* `dec v|n HEX`       → `ok VALUE N` | `err` | `panic`
* `canon v|n VALUE`   → `ok VALUE` (the canonical form used by `C01_decode_encode`)

Schemas and values are s-expressions, see `parseTy` / `parseVal` (and harness/serixgen/sexp.go,
which prints them from `reflect.Type` + registered settings and from `reflect.Value`).
-/
namespace Hive.Serix
open Hive.Proto

inductive SExp where
  | atom (s : String)
  | list (xs : List SExp)
deriving Repr, Inhabited

/-- Split a line into `(`, `)` and atoms. -/
def tokenize (s : String) : List String :=
  let rec go (cs : List Char) (cur : List Char) (acc : List String) : List String :=
    match cs with
    | [] => (if cur.isEmpty then acc else String.ofList cur.reverse :: acc).reverse
    | c :: rest =>
      if c == '(' || c == ')' then
        go rest [] (String.singleton c :: (if cur.isEmpty then acc else String.ofList cur.reverse :: acc))
      else if c == ' ' then
        go rest [] (if cur.isEmpty then acc else String.ofList cur.reverse :: acc)
      else go rest (c :: cur) acc
  go s.toList [] []

/-- Parse one s-expression from a token list (explicit stack, structural on the tokens). -/
def parseSExp (toks : List String) : Option SExp :=
  let rec go (ts : List String) (cur : List SExp) (stack : List (List SExp)) : Option SExp :=
    match ts with
    | [] => match stack, cur with
      | [], [x] => some x
      | _, _ => none
    | t :: rest =>
      if t == "(" then go rest [] (cur :: stack)
      else if t == ")" then
        match stack with
        | parent :: st => go rest (SExp.list cur.reverse :: parent) st
        | [] => none
      else go rest (SExp.atom t :: cur) stack
  go toks [] []

def parseLP : SExp → Option LP
  | .atom "u8" => some .u8
  | .atom "u16" => some .u16
  | .atom "u32" => some .u32
  | .atom "u64" => some .u64
  | .atom "none" => some .unset
  | _ => none

def parseDen : SExp → Option Den
  | .atom "u8" => some .u8
  | .atom "u32" => some .u32
  | _ => none

def parseNat : SExp → Option Nat
  | .atom s => s.toNat?
  | _ => none

def parseCode : SExp → Option (Option Code)
  | .atom "none" => some none
  | .list [d, n] => do
    let den ← parseDen d
    let k ← parseNat n
    pure (some ⟨den, k⟩)
  | _ => none

def parseNats : List SExp → Option (List Nat)
  | [] => some []
  | x :: xs => do
    let n ← parseNat x
    let ns ← parseNats xs
    pure (n :: ns)

/-- `(MIN MAX FLAGS (MUST*))`, FLAGS ⊆ `d` noDups, `l` lexical order, `b` at most one of each type
(byte), `w` at most one of each type (uint32), `s` lexicalOrdering setting (auto sort); `-` = none. -/
def parseRules : SExp → Option Rules
  | .list [mn, mx, .atom fl, .list must] => do
    let a ← parseNat mn
    let b ← parseNat mx
    let ms ← parseNats must
    let has (c : Char) : Bool := fl.toList.contains c
    pure { min := a, max := b, noDups := has 'd', lex := has 'l', one8 := has 'b', one32 := has 'w',
           mustOccur := ms, autoSort := has 's' }
  | _ => none

mutual
def parseTy : SExp → Option Ty
  | .atom "bool" => some .bool
  | .atom "u256" => some .u256
  | .atom "time" => some .time
  | .list [.atom "u", w] => do pure (.uint (← parseNat w))
  | .list [.atom "i", w] => do pure (.int (← parseNat w))
  | .list [.atom "f", w] => do pure (.float (← parseNat w))
  | .list [.atom "str", lp, mn, mx] => do pure (.str (← parseLP lp) (← parseNat mn) (← parseNat mx))
  | .list [.atom "bytes", lp, mn, mx] => do pure (.bytes (← parseLP lp) (← parseNat mn) (← parseNat mx))
  | .list [.atom "barr", n, c, mn, mx] => do
    pure (.byteArr (← parseNat n) (← parseCode c) (← parseNat mn) (← parseNat mx))
  | .list [.atom "slice", lp, r, e] => do pure (.slice (← parseLP lp) (← parseRules r) (← parseTy e))
  | .list [.atom "arr", n, lp, r, e] => do
    pure (.array (← parseNat n) (← parseLP lp) (← parseRules r) (← parseTy e))
  | .list [.atom "map", lp, r, k, v] => do
    pure (.map (← parseLP lp) (← parseRules r) (← parseTy k) (← parseTy v))
  | .list (.atom "struct" :: c :: fs) => do pure (.struct (← parseCode c) (← parseFields fs))
  | .list [.atom "ptr", t] => do pure (.ptr (← parseTy t))
  | .list (.atom "iface" :: d :: alts) => do pure (.iface (← parseDen d) (← parseAlts alts))
  | .list [.atom "custom", c, .atom "any"] => do pure (.custom (← parseCode c) none)
  | .list [.atom "custom", c, n] => do pure (.custom (← parseCode c) (some (← parseNat n)))
  | _ => none
def parseFields : List SExp → Option Fields
  | [] => some .nil
  | .list [.atom "p", t] :: rest => do pure (.cons false (← parseTy t) (← parseFields rest))
  | .list [.atom "o", t] :: rest => do pure (.cons true (← parseTy t) (← parseFields rest))
  | .list [.atom "e", .list (.atom "struct" :: _ :: fs)] :: rest => do
    pure (.emb false (← parseFields fs) (← parseFields rest))
  | .list [.atom "e", .list [.atom "ptr", .list (.atom "struct" :: _ :: fs)]] :: rest => do
    pure (.emb true (← parseFields fs) (← parseFields rest))
  | _ => none
def parseAlts : List SExp → Option Alts
  | [] => some .nil
  | .list [c, t] :: rest => do pure (.cons (← parseNat c) (← parseTy t) (← parseAlts rest))
  | _ => none
end

def parseInt (s : String) : Option Int :=
  if s.startsWith "-" then (s.drop 1).toNat?.map (fun n => -(n : Int)) else s.toNat?.map (fun n => (n : Int))

mutual
def parseVal : SExp → Option Val
  | .atom "nil" => some .nil
  | .list [.atom "n", .atom s] => s.toNat?.map .n
  | .list [.atom "i", .atom s] => (parseInt s).map .i
  | .list [.atom "x", .atom s] => (unhex s).map .x
  | .list (.atom "l" :: vs) => (parseVals vs).map .l
  | .list [.atom "kv", k, v] => do pure (.kv (← parseVal k) (← parseVal v))
  | .list [.atom "some", v] => do pure (.some (← parseVal v))
  | .list [.atom "alt", c, v] => do pure (.alt (← parseNat c) (← parseVal v))
  | _ => none
def parseVals : List SExp → Option (List Val)
  | [] => some []
  | v :: vs => do pure ((← parseVal v) :: (← parseVals vs))
end

def sortStrings (l : List String) : List String := l.mergeSort (fun a b => decide (a ≤ b))

mutual
/-- Canonical text of a value; the entries of a map (a list of `kv`) are sorted by their text, which
is how the harness prints a Go map. -/
def showVal : Val → String
  | .n x => s!"(n {x})"
  | .i x => s!"(i {x})"
  | .x bs => s!"(x {hex bs})"
  | .l vs =>
    let items := showVals vs
    let items := match vs with
      | .kv _ _ :: _ => sortStrings items
      | _ => items
    "(l" ++ String.join (items.map (" " ++ ·)) ++ ")"
  | .kv k v => s!"(kv {showVal k} {showVal v})"
  | .nil => "nil"
  | .some v => s!"(some {showVal v})"
  | .alt c v => s!"(alt {c} {showVal v})"
def showVals : List Val → List String
  | [] => []
  | v :: vs => showVal v :: showVals vs
end

def parseFlag : String → Option Bool
  | "v" => some true
  | "n" => some false
  | _ => none

def showRes {α : Type} (f : α → String) : Res α → String
  | .ok a => "ok " ++ f a
  | .err => "err"
  | .panic => "panic"

def stepLine (s : Option Ty) (toks : List String) : Option Ty × String :=
  match toks with
  | "type" :: _ => (none, "ok")   -- selects the Go universe; the schema follows in `def`
  | "som" :: _ => (s, "ok")       -- Set/Delete/Clear on the harness's SerializableOrderedMap (no model state)
  | "def" :: rest =>
    match (parseSExp (tokenize (" ".intercalate rest))).bind parseTy with
    | some t => (some t, if t.wf then "ok wf" else "ok nowf")
    | none => (none, "bad-schema")
  | "enc" :: fl :: rest =>
    match s, parseFlag fl, (parseSExp (tokenize (" ".intercalate rest))).bind parseVal with
    | some t, some v, some val => (s, showRes hex (encode t val ⟨v, false⟩))
    | _, _, _ => (s, "bad-op")
  | ["dec", fl, h] =>
    match s, parseFlag fl, unhex h with
    | some t, some v, some b =>
      (s, showRes (fun p => s!"{showVal p.1} {p.2}") (decode t b ⟨v, false⟩))
    | _, _, _ => (s, "bad-op")
  | "canon" :: fl :: rest =>
    match s, parseFlag fl, (parseSExp (tokenize (" ".intercalate rest))).bind parseVal with
    | some t, some v, some val => (s, "ok " ++ showVal (canon t val ⟨v, false⟩))
    | _, _, _ => (s, "bad-op")
  | _ => (s, "bad-op")

end Hive.Serix
