import Hive.Conc.Sys
import Hive.Spec.Daemon
/-!
# Protocol model of `app/daemon.OrderedDaemon` (app/daemon/daemon.go) for C20

Shared state = the daemon struct: the `stopped` / `running` atomics, the worker objects (an append-only
heap `objs`, index = instance), the registry `regl` (the `workers` map together with the
`shutdownOrderWorker` slice: the registered instances in shutdown order — both are always updated in the
same critical section), one `sync.WaitGroup` counter per order (`wgc`; the objects live as long as a
goroutine holds a pointer) and the key set of the `wgPerSameShutdownOrder` map (`wgKeys`, emptied by
`clear`), the state of the `stopOnce` body (`sd`: only one goroutine is ever inside `shutdown()`, so its
locals `prevPriority` and the rest of the snapshot live here) and the ghost event trace `tr`.

Every critical section of `d.lock` is one atomic step (nothing waits while holding the lock); the reads
that the code makes *without* the lock are separate steps: the `IsStopped` pre-checks of
`BackgroundWorker` and `Start`, `IsRunning` in `shutdown`, `worker.running.Load()` in `stopWorkers`, the
`WaitGroup` waits, and `worker.running.Store(false)` at the end of the worker goroutine.

A worker goroutine is the life cycle of its object: `reg` (registered, not started) → `run` (`wg.Add`,
`running` flag set, handler running; the handler may observe its cancellation and may return at *any*
time, cancelled or not) → `ret` (handler returned) → `dn` (`wg.Done`) → `cl` (`cleanupWorker` under the
lock) → `fin` (`running` flag cleared).  A thread `wk i` drives object `i`.

`sys true true` is the code after the repairs: `fixed` = the stopped flag is set and re-checked under the
lock (`BackgroundWorker`, `Start`); `runFixed` = `Run` waits, under the lock, until the counter of running
workers is zero instead of copying the per-order WaitGroups once.  `sys false _` / `sys true false` are the
code before the respective repair, kept for the witnesses.
-/
namespace Hive.Daemon

inductive WPc
  | reg | run | ret | dn | cl | fin
  deriving DecidableEq, Repr

structure Wk where
  name : Nat
  order : Int
  pc : WPc
  cancelled : Bool
  seen : Bool
  deriving DecidableEq, Repr

/-- `worker.running`: set by `runBackgroundWorker`, cleared after the clean-up. -/
def Wk.flag (w : Wk) : Bool := w.pc == .run || w.pc == .ret || w.pc == .dn || w.pc == .cl

/-- Counted in its order's WaitGroup: between `Add(1)` and `Done()`. -/
def Wk.counted (w : Wk) : Bool := w.pc == .run || w.pc == .ret

/-- Program points of `shutdown()` / `stopWorkers()` (the body of `stopOnce`). -/
inductive SdPc
  | idle                                    -- `stopOnce` not yet entered
  | taken                                   -- inside, before `stopped.Store(true)`
  | stoppedSet                              -- before `if !d.IsRunning()`
  | snap                                    -- before `getWorkersAndShutdownOrder()`
  | loop (prev : Int) (todo : List Nat)     -- `for _, name := range shutdownOrderWorker`, rest of the snapshot
  | waitMid (prev : Int) (todo : List Nat)  -- `wg[prevPriority].Wait()` before the head of `todo` is cancelled
  | waitLast (prev : Int)                   -- the final `wg[prevPriority].Wait()`
  | unrun                                   -- before `running.Store(false)`
  | clr                                     -- before `clear()`
  | done
  deriving DecidableEq, Repr

structure St where
  stopped : Bool
  running : Bool
  cleared : Bool
  n : Nat
  objs : Nat → Wk
  regl : List Nat
  wgc : Int → Nat
  wgKeys : List Int
  rw : Nat               -- `runningWorkers`: started and not yet cleaned up (guarded by the lock)
  sd : SdPc
  tr : List Ev

def blank : Wk := ⟨0, 0, .fin, false, false⟩

def init : St :=
  { stopped := false, running := false, cleared := false, n := 0, objs := fun _ => blank, regl := [],
    wgc := fun _ => 0, wgKeys := [], rw := 0, sd := .idle, tr := [] }

def emit (e : Ev) (s : St) : St := { s with tr := s.tr ++ [e] }

def setObj (s : St) (i : Nat) (w : Wk) : St := { s with objs := fun j => if j = i then w else s.objs j }

def ordOf (s : St) (i : Nat) : Int := (s.objs i).order

/-! ## `sort.Slice` is not stable: any arrangement that is sorted by descending order may result -/

def insertEverywhere (x : Nat) : List Nat → List (List Nat)
  | [] => [[x]]
  | y :: ys => (x :: y :: ys) :: (insertEverywhere x ys).map (y :: ·)

def perms : List Nat → List (List Nat)
  | [] => [[]]
  | x :: xs => (perms xs).flatMap (insertEverywhere x)

def sortedDesc (ord : Nat → Int) : List Nat → Bool
  | [] => true
  | x :: xs => xs.all (fun y => decide (ord y ≤ ord x)) && sortedDesc ord xs

def sortedPerms (ord : Nat → Int) (l : List Nat) : List (List Nat) := (perms l).filter (sortedDesc ord)

/-! ## worker goroutine -/

/-- `runBackgroundWorker`: `wg.Add(1)`, `runningWorkers++`, `running.Store(true)`, `go`.  (Only ever called for a registered
worker that has not been started; the guard makes the function total.) -/
def spawn1 (s : St) (i : Nat) : St :=
  let w := s.objs i
  if w.pc == .reg then
    emit (.start i w.name w.order)
      { setObj s i { w with pc := .run } with
        wgc := fun o => if o = w.order then s.wgc o + 1 else s.wgc o, rw := s.rw + 1 }
  else s

def wkStep (s : St) (i : Nat) : List St :=
  if i < s.n then
    let w := s.objs i
    match w.pc with
    | .reg => []
    | .run =>
      -- the handler returns (at any time) ...
      [emit (.ret i) (setObj s i { w with pc := .ret })] ++
      -- ... or observes that its context was cancelled
      (if w.cancelled && !w.seen then [emit (.seen i) (setObj s i { w with seen := true })] else [])
    | .ret =>
      [{ setObj s i { w with pc := .dn } with wgc := fun o => if o = w.order then s.wgc o - 1 else s.wgc o }]
    | .dn =>
      -- cleanupWorker: under the lock; `runningWorkers--` (and the broadcast that lets a waiting `Run`
      -- re-check); nothing is removed from the registry once the daemon is stopped
      if s.stopped then [{ setObj s i { w with pc := .cl } with rw := s.rw - 1 }]
      else [{ setObj s i { w with pc := .cl } with
              rw := s.rw - 1, regl := s.regl.filter (fun j => (s.objs j).name != w.name) }]
    | .cl => [setObj s i { w with pc := .fin }]
    | .fin => []
  else []

/-! ## BackgroundWorker -/

inductive CallPc
  | call | passed | fin
  deriving DecidableEq, Repr

def findName (s : St) (name : Nat) : Option Nat := s.regl.find? (fun j => (s.objs j).name == name)

/-- The registration part of the critical section, after a possible old entry of the name was removed
from the shutdown order (`base`). -/
def register (s : St) (c name : Nat) (order : Int) (base : List Nat) : List St :=
  let i := s.n
  let s1 : St := { setObj s i ⟨name, order, .reg, false, false⟩ with
    n := s.n + 1, wgKeys := if s.wgKeys.contains order then s.wgKeys else s.wgKeys ++ [order] }
  (sortedPerms (ordOf s1) (base ++ [i])).map fun l =>
    let s2 := emit (.accept c name i) { s1 with regl := l }
    if s.running then spawn1 s2 i else s2

/-- The critical section of `BackgroundWorker`. -/
def bwCrit (fixed : Bool) (s : St) (c name : Nat) (order : Int) : List St :=
  if fixed && s.stopped then [emit (.refuse c name .stopped) s]
  else if s.cleared then [emit (.refuse c name .panic) s]   -- assignment to an entry of the nil map
  else
    match findName s name with
    | some j =>
      if !s.running then [emit (.refuse c name .dup) s]
      else if (s.objs j).flag then [emit (.refuse c name .running) s]
      else register s c name order (s.regl.filter (fun k => (s.objs k).name != name))
    | none => register s c name order s.regl

/-- The shutdown order a `BackgroundWorker(name, handler, order...)` call uses: the first of the variadic orders, `0`
when none is given (`len(order) > 0 && order[0] != 0` … `else 0`); further values are ignored. -/
def effOrder : List Int → Int
  | [] => 0
  | o :: _ => o

/-- `GetRunningBackgroundWorkers` (one critical section under the read lock): the registered workers whose `running`
flag is set, in reversed shutdown order. -/
def runningList (s : St) : List Nat := (s.regl.filter (fun i => (s.objs i).flag)).reverse

/-! ## Start -/

def startCrit (fixed : Bool) (s : St) : St :=
  if fixed && s.stopped then s
  else if s.running then s
  else s.regl.foldl spawn1 { s with running := true }

/-! ## the body of `stopOnce` -/

def cancelW (s : St) (i : Nat) : St :=
  emit (.cancel i) (setObj s i { s.objs i with cancelled := true })

def sdBody (s : St) : List St :=
  match s.sd with
  | .idle => []
  | .taken => [{ s with stopped := true, sd := .stoppedSet }]
  | .stoppedSet => if s.running then [{ s with sd := .snap }] else [{ s with sd := .done }]
  | .snap =>
    match s.regl with
    | [] => [{ s with sd := .unrun }]
    | h :: rest => [{ s with sd := .loop (ordOf s h) (h :: rest) }]
  | .loop prev [] => [emit (.waitfor prev) { s with sd := .waitLast prev }]
  | .loop prev (h :: rest) =>
    if !(s.objs h).flag then [{ cancelW s h with sd := .loop prev rest }]
    else if ordOf s h < prev then [emit (.waitfor prev) { s with sd := .waitMid prev (h :: rest) }]
    else [{ cancelW s h with sd := .loop prev rest }]
  | .waitMid prev todo =>
    if s.wgc prev = 0 then
      match todo with
      | [] => [{ s with sd := .waitLast prev }]   -- (not reachable: `waitMid` is only entered with a head)
      -- `prevPriority = worker.shutdownOrder`, then the head is cancelled (re-examining it in `loop` has
      -- exactly that effect: its order is not below the new `prev`)
      | h :: rest => [{ s with sd := .loop (ordOf s h) (h :: rest) }]
    else []
  | .waitLast prev => if s.wgc prev = 0 then [{ s with sd := .unrun }] else []
  | .unrun => [{ s with running := false, sd := .clr }]
  | .clr => [{ s with regl := [], wgKeys := [], cleared := true, sd := .done }]
  | .done => []

/-! ## threads -/

inductive OncePc
  | call | enter | body | blocked | fin
  deriving DecidableEq, Repr

inductive RunPc
  | call | passed | started | waiting (keys : List Int) | fin
  deriving DecidableEq, Repr

inductive Th
  | bw (c name : Nat) (order : Int) (pc : CallPc)   -- a `BackgroundWorker` call
  | starter (pc : CallPc)                           -- a `Start` call
  | wk (i : Nat)                                    -- the goroutine of worker object `i`
  | sd (c : Nat) (pc : OncePc)                      -- `ShutdownAndWait`, or the goroutine of `Shutdown`
  | runner (c : Nat) (pc : RunPc)                   -- a `Run` call
  | watcher                                         -- somebody polling `IsStopped`
  deriving DecidableEq, Repr

def step (fixed runFixed : Bool) (s : St) : Th → List (St × Th)
  | .bw c name order .call =>
    let s1 := emit (.bwcall c name order) s
    if s.stopped then [(emit (.refuse c name .stopped) s1, .bw c name order .fin)]
    else [(s1, .bw c name order .passed)]
  | .bw c name order .passed => (bwCrit fixed s c name order).map fun s' => (s', .bw c name order .fin)
  | .bw _ _ _ .fin => []
  | .starter .call => if s.stopped then [(s, .starter .fin)] else [(s, .starter .passed)]
  | .starter .passed => [(startCrit fixed s, .starter .fin)]
  | .starter .fin => []
  | .wk i => (wkStep s i).map fun s' => (s', .wk i)
  | .sd c .call => [(emit (.sdcall c) s, .sd c .enter)]
  | .sd c .enter =>
    match s.sd with
    | .idle => [({ s with sd := .taken }, .sd c .body)]
    | _ => [(s, .sd c .blocked)]
  | .sd c .body =>
    match s.sd with
    | .done => [(emit (.sdret c) s, .sd c .fin)]
    | _ => (sdBody s).map fun s' => (s', .sd c .body)
  | .sd c .blocked =>
    match s.sd with
    | .done => [(emit (.sdret c) s, .sd c .fin)]
    | _ => []
  | .sd _ .fin => []
  | .runner c .call =>
    let s1 := emit (.runcall c) s
    if s.stopped then [(s1, .runner c .started)] else [(s1, .runner c .passed)]
  | .runner c .passed => [(startCrit fixed s, .runner c .started)]
  | .runner c .started =>
    if runFixed then
      -- repaired `Run`: under the lock, `for d.runningWorkers > 0 { d.workersDone.Wait() }`
      (if s.rw = 0 then [(emit (.runret c) s, .runner c .fin)] else [])
    else
      -- `Run` before its repair: copy the per-order WaitGroups once, then pass them one by one
      [(emit (.runsnap c) s, .runner c (.waiting s.wgKeys))]
  | .runner c (.waiting []) => if runFixed then [] else [(emit (.runret c) s, .runner c .fin)]
  | .runner c (.waiting (k :: ks)) =>
    -- (old `Run` only) Go's map iteration order is arbitrary: any of the copied WaitGroups whose counter is
    -- zero is passed
    if runFixed then []
    else ((k :: ks).filter (fun o => s.wgc o == 0)).map fun o => (s, .runner c (.waiting ((k :: ks).erase o)))
  | .runner _ .fin => []
  | .watcher => if s.stopped then [(emit .stopseen s, .watcher)] else []

def sys (fixed runFixed : Bool) : Hive.Conc.Sys St Th := ⟨step fixed runFixed⟩

/-- Threads as they are before their call begins. -/
def Th.isInit : Th → Bool
  | .bw _ _ _ .call => true
  | .starter .call => true
  | .wk _ => true
  | .sd _ .call => true
  | .runner _ .call => true
  | .watcher => true
  | _ => false

end Hive.Daemon
