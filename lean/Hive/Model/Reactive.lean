import Hive.Conc.Sys
import Hive.Spec.Reactive
/-!
# Protocol model of the reactive objects (ds/reactive: variable_impl.go, set_impl.go, event_impl.go, utils.go)

One model, parametric in the object kind (`Obj`): the state `S` (a value / the set's contents), the
notes `N` handed to callbacks (`(prev,new)` / applied mutations), what a write operation does to the
state (`upd`) and what `OnUpdate` delivers initially (`ini`).

Shared state: the state, the update-id counter, the update-order mutex `U` (`variable.updateOrderMutex`
/ `set.mutex`), the value mutex `V` (`valueMutex` / `readableSet.mutex`), the callback list
(`registeredCallbacks`, a thread-safe `ds.List`: `PushBack`, `Remove`, `Values` are atomic) and, per
callback ever created, `{unsubscribed, lastUpdate, executionMutex}` plus its event log.

Threads (any number, each with an arbitrary remaining script of writes / subscriptions /
unsubscriptions) follow the code:

* writer (`Compute`/`Apply`/`Replace`): {`Apply` with empty mutations returns at once, no lock taken (`Obj.early`)}; ⟨U⟩; ⟨V⟩; {compute; if it notifies: state := new; id := ++uid;
  snapshot := Values()}; release V; for cb in snapshot: `LockExecution(id)` = ⟨cb.E⟩ then
  {if `cb.unsubscribed ∨ (id ≠ 0 ∧ id = cb.lastUpdate)`: release E, skip; else `cb.lastUpdate := id`},
  `Invoke` (enter … exit), `UnlockExecution`; release U.
* subscriber (`OnUpdate`): ⟨V⟩; {cur := state; `PushBack(cb)`; `cb.LockExecution(uid)`}; release V;
  if there is something to deliver initially: `Invoke(ini)`; `UnlockExecution` (deferred).
* unsubscriber: `Remove(element)` (list mutex only); `MarkUnsubscribed` = ⟨cb.E⟩; unsubscribed := true;
  release E; return.

Atomic steps are the lock-protected sections (everything in braces runs under V and touches only
V-protected data and the list; the only list access outside V is `Remove`, which commutes with the
block as a whole).  The callback's `enter` event is emitted in the step that takes the execution
lock, its `exit` event in the step that releases it — the strongest placement for the exclusivity
and unsubscribe claims.  Callback bodies are opaque: they do not call back into the same object.

Update ids (`uid`, `lastUpdate`, a writer's `id`) are unbounded naturals: the code's `uniqueID` is a
`uint64` that is only ever incremented, and 2⁶⁴ updates are out of reach (obligation
`C13_skeleton_type_uniqueID`; with a narrower type the id of a real change could wrap onto a recorded
`lastUpdate` and the change would be dropped by `LockExecution`).  The atomicity of the list
operations is the list mutex held around each whole operation (`C13_skeleton_list_*`).  Which Go
field each of `U`, `V`, `E` is, is fixed by the `C13_skeleton_type_*` obligations.

Ghost fields (never read by the protocol): per callback the history entries since its registration
(`since`), how many of them were delivered to it (`d`), the state at registration (`s0`), the
initial note (`ini`) and whether the initial phase is over (`iniDone`).
-/
namespace Hive.Reactive
open Hive.Conc

/-- What a write does to the state. -/
inductive Upd (S N : Type) where
  | change (s' : S) (n : N)      -- new state, update id bumped, callbacks snapshotted and notified with `n`
  | quiet (bump : Bool)          -- no notification (Variable: value unchanged; Set.Apply: nothing applied, id bumped)

/-- An object kind. -/
structure Obj (S N : Type) where
  WOp : Type
  upd : S → WOp → Upd S N
  ini : S → Bool → Option N
  s0 : S
  /-- the call returns before it takes any lock (`Set.Apply` with empty mutations) -/
  early : WOp → Bool := fun _ => false

/-- A history entry: state before, note, state after. -/
structure Entry (S N : Type) where
  before : S
  note : N
  after : S

structure Cb (S N : Type) where
  unsub : Bool := false
  last : Nat := 0
  elock : Bool := false
  evs : List (Ev N) := []
  -- ghost
  since : List (Entry S N) := []
  d : Nat := 0
  s0 : S
  ini : Option N := none
  iniDone : Bool := false

structure Sh (S N : Type) where
  st : S
  uid : Nat := 0
  ulock : Bool := false
  vlock : Bool := false
  ncb : Nat := 0
  cbs : Nat → Cb S N
  listed : List Nat := []

inductive Op (W : Type) where
  | write (w : W)
  | sub (flag : Bool)
  | unsub (c : Nat)

inductive Pc (W N : Type) where
  | idle
  | wU (w : W)                                   -- holds U
  | wV (w : W)                                   -- holds U, V
  | wRelV (id : Nat) (n : Option N) (todo : List Nat)   -- holds U, V; update done
  | wLoop (id : Nat) (n : Option N) (todo : List Nat)   -- holds U
  | wRun (id : Nat) (n : Option N) (c : Nat) (rest : List Nat)  -- holds U and E(c); callback running
  | sV (flag : Bool)                             -- holds V
  | sReg (c : Nat)                               -- holds V and E(c)
  | sInit (c : Nat)                              -- holds E(c)
  | sRun (c : Nat)                               -- holds E(c); initial callback running
  | uRm (c : Nat)                                -- element removed from the list

structure Th (W N : Type) where
  pc : Pc W N := .idle
  script : List (Op W) := []

variable {S N : Type}

def setCb (sh : Sh S N) (c : Nat) (x : Cb S N) : Sh S N :=
  { sh with cbs := fun i => if i = c then x else sh.cbs i }

/-- `LockExecution(id)` succeeds (does not skip). -/
def Cb.takes (cb : Cb S N) (id : Nat) : Bool := !(cb.unsub || (id != 0 && id == cb.last))

def step (o : Obj S N) (sh : Sh S N) (t : Th o.WOp N) : List (Sh S N × Th o.WOp N) :=
  match t.pc with
  | .idle =>
    match t.script with
    | [] => []
    | .write w :: rest =>
      if o.early w then [(sh, { pc := .idle, script := rest })]     -- `if mutations.IsEmpty() { return … }`, no lock taken
      else if sh.ulock then [] else [({ sh with ulock := true }, { pc := .wU w, script := rest })]
    | .sub flag :: rest => if sh.vlock then [] else [({ sh with vlock := true }, { pc := .sV flag, script := rest })]
    | .unsub c :: rest =>
      if c < sh.ncb then [({ sh with listed := sh.listed.filter (· != c) }, { pc := .uRm c, script := rest })] else []
  | .wU w => if sh.vlock then [] else [({ sh with vlock := true }, { t with pc := .wV w })]
  | .wV w =>
    match o.upd sh.st w with
    | .change s' n =>
      let e : Entry S N := { before := sh.st, note := n, after := s' }
      [({ sh with st := s', uid := sh.uid + 1,
                  cbs := fun i => { sh.cbs i with since := (sh.cbs i).since ++ [e] } },
        { t with pc := .wRelV (sh.uid + 1) (some n) sh.listed })]
    | .quiet bump =>
      [({ sh with uid := if bump then sh.uid + 1 else sh.uid }, { t with pc := .wRelV 0 none [] })]
  | .wRelV id n todo => [({ sh with vlock := false }, { t with pc := .wLoop id n todo })]
  | .wLoop _ _ [] => [({ sh with ulock := false }, { t with pc := .idle })]
  | .wLoop id none (_ :: rest) => [(sh, { t with pc := .wLoop id none rest })]   -- unreachable: no note, no snapshot
  | .wLoop id (some n) (c :: rest) =>
    let cb := sh.cbs c
    if cb.elock then []
    else if cb.takes id then
      [(setCb sh c { cb with elock := true, last := id, evs := cb.evs ++ [.enter n], d := cb.d + 1 },
        { t with pc := .wRun id (some n) c rest })]
    else [(sh, { t with pc := .wLoop id (some n) rest })]
  | .wRun id n c rest =>
    let cb := sh.cbs c
    [(setCb sh c { cb with elock := false, evs := cb.evs ++ [.exit] }, { t with pc := .wLoop id n rest })]
  | .sV flag =>
    let c := sh.ncb
    let cb : Cb S N := { elock := true, last := sh.uid, s0 := sh.st, ini := o.ini sh.st flag }
    [({ setCb sh c cb with ncb := c + 1, listed := sh.listed ++ [c] }, { t with pc := .sReg c })]
  | .sReg c => [({ sh with vlock := false }, { t with pc := .sInit c })]
  | .sInit c =>
    let cb := sh.cbs c
    match cb.ini with
    | some n => [(setCb sh c { cb with evs := cb.evs ++ [.enter n], iniDone := true }, { t with pc := .sRun c })]
    | none => [(setCb sh c { cb with elock := false, iniDone := true }, { t with pc := .idle })]
  | .sRun c =>
    let cb := sh.cbs c
    [(setCb sh c { cb with elock := false, evs := cb.evs ++ [.exit] }, { t with pc := .idle })]
  | .uRm c =>
    let cb := sh.cbs c
    if cb.elock then []
    else [(setCb sh c { cb with unsub := true, evs := cb.evs ++ [.unsubRet] }, { t with pc := .idle })]

def sys (o : Obj S N) : Sys (Sh S N) (Th o.WOp N) := { step := step o }

/-- Initial shared state: no callbacks, all locks free. -/
def sh0 (o : Obj S N) : Sh S N := { st := o.s0, cbs := fun _ => { s0 := o.s0 } }

/-- Initial configurations: any number of threads, each idle with an arbitrary script. -/
def Init (o : Obj S N) (c : Cfg (Sh S N) (Th o.WOp N)) : Prop :=
  c.1 = sh0 o ∧ ∀ t ∈ c.2, t.pc = .idle

/-- All threads have finished. -/
def Quiescent {W : Type} (ts : List (Th W N)) : Prop := ∀ t ∈ ts, t.pc = .idle

end Hive.Reactive
