import Hive.Model.DerivedSet
import Hive.Model.DerivedCounter
import Hive.Model.DerivedSorted
import Hive.Model.DerivedWG
import Hive.Model.DerivedVar
import Hive.Model.DerivedLocks
import Hive.Spec.Derived
import Hive.Model.DerivedVarSeq
import Hive.Gen.C14_Facts
import Hive.Model.DerivedGraph
/-! # Line protocol of the C14 driver: one construct per case, selected by the first token. -/
namespace Hive.Derived
open Hive.Proto Hive.Conc

inductive DSt
  | none
  | ds (s : DS)
  | sr (s : SR)
  | ct (s : CT)
  | ss (s : SS)
  | ev (s : EV) (bot top : Int)
  | wg (s : WG)
  | dv (s : DV)
  | gs (s : GW)

def parseNatLists (toks : List String) : Option (List (List Nat)) := toks.mapM parseNats

def parsePairs (s : String) : Option (List (Nat × Int)) :=
  if s == "-" then some [] else
  (s.splitOn ",").mapM (fun p => match p.splitOn ":" with
    | [a, b] => do pure (← a.toNat?, ← b.toInt?)
    | _ => none)

def verdict (b : Bool) : String := if b then "accept" else "reject"

def optB (o : Option Bool) : String :=
  match o with
  | some b => verdict b
  | none => "bad-op"

/-- Quiescence requests: final input values and the observed derived value. -/
def qLine : List String → String
  | ["dvar", fn, ins, got] => optB do pure (qDerivedVar fn (← parseInts ins) (← got.toInt?))
  | "dset" :: k :: rest => optB do
      let k ← k.toNat?
      let srcs ← parseNatLists (rest.take k)
      let got ← parseNats (← (rest.drop k).head?)
      pure (qDerivedSet srcs got)
  | "sub" :: src :: k :: rest => optB do
      let k ← k.toNat?
      let others ← parseNatLists (rest.take k)
      let got ← parseNats (← (rest.drop k).head?)
      pure (qSubtract (← parseNats src) others got)
  | ["counter", c, vals, got] => optB do pure (qCounter (← condOf c) (← parseInts vals) (← got.toInt?))
  | ["sorted", mode, ws, desc, asc, h, l] => optB do
      pure (qSorted (mode == "less") (← parsePairs ws) (← parseNats desc) (← parseNats asc) (← h.toNat?) (← l.toNat?))
  | ["evict", last, evs] => optB do
      let last ← if last == "none" then some none else last.toInt?.map some
      let evs ← parsePairs evs
      pure (qEvict last (evs.map (fun p => ((p.1 : Int), p.2 != 0))))
  | ["wg", pending, dones, trig] => optB do
      pure (qWaitGroup (← parseNats pending) (← dones.toNat?) (trig == "true"))
  | _ => "bad-op"

/-- The duplicate-Add / Done race replayed on the protocol model (repaired code). -/
def wgRaceLine (x : Nat) : String :=
  let c := runSched (wgSys true) (wgRaceInit x) wgRaceSched
  s!"pending={showSet (fun y => c.1.pending.contains y)} trig={showBool c.1.trig} finished={showBool (c.2.all (· == WGT.fin))}"

/-- The subscriptions of the constructor of the arity, regenerated from `variable.go`. -/
def subsOfArity : Nat → List (String × String)
  | 1 => Hive.Gen.C14Facts.subs_NewDerivedVariable
  | 2 => Hive.Gen.C14Facts.subs_NewDerivedVariable2
  | 3 => Hive.Gen.C14Facts.subs_NewDerivedVariable3
  | _ => Hive.Gen.C14Facts.subs_NewDerivedVariable4

/-- `dvz <fn> <inits> <m> <writes i:v,…>`: the forced schedule "a writer inside the m-th computation of the
constructor" replayed on the protocol model `dvSys` **with the flags of the code**; the answer is the model's final
derived value and inputs (what the implementation printed for the same schedule). -/
def dvzLine (fn inits m writes : String) : String :=
  match fnEval fn, parseInts inits, m.toNat?, parsePairs writes with
  | some f, some inits, some m, some writes =>
    let n := inits.length
    if n < 1 || n > 4 then "bad-op" else
    let c := dvzReplay n (fun a => f ((List.range n).map a)) (trigOf (subsOfArity n)) inits m writes
    let vals := (List.range n).map c.1.val
    s!"d={c.1.d} in={Hive.Derived.showIntList vals} finished={showBool (c.2.all DVT.finished)}"
  | _, _, _, _ => "bad-op"

/-- `dvw <fn> <inits> <k> <writes>`: "a writer inside the OnUpdate window of the constructor's k-th subscription"
(hook `VerifOnUpdateWindow`) replayed on `dvSys` with the flags of the code. -/
def dvwLine (fn inits k writes : String) : String :=
  match fnEval fn, parseInts inits, k.toNat?, parsePairs writes with
  | some f, some inits, some k, some writes =>
    let n := inits.length
    if n < 1 || n > 4 then "bad-op" else
    let c := dvwReplay n (fun a => f ((List.range n).map a)) (trigOf (subsOfArity n)) inits k writes
    let vals := (List.range n).map c.1.val
    s!"d={c.1.d} in={Hive.Derived.showIntList vals} finished={showBool (c.2.all DVT.finished)}"
  | _, _, _, _ => "bad-op"

def stepLine (st : DSt) (toks : List String) : DSt × String :=
  match toks with
  | "q" :: rest => (st, qLine rest)
  | "stress" :: _ => (st, "ok")      -- scenario descriptor of a stress case (its `q` lines follow)
  | ["dvz", fn, inits, m, writes] => (st, dvzLine fn inits m writes)
  | ["dvw", fn, inits, k, writes] => (st, dvwLine fn inits k writes)
  | "ds" :: rest =>
    let s := match st with | .ds s => s | _ => DS.init
    let r := s.stepLine rest; (.ds r.1, r.2)
  | "sr" :: rest =>
    let s := match st with | .sr s => s | _ => SR.init
    let r := s.stepLine rest; (.sr r.1, r.2)
  | "ct" :: rest =>
    let s := match st with | .ct s => s | _ => CT.init (fun v => v != 0)
    let r := s.stepLine rest; (.ct r.1, r.2)
  | "ss" :: rest =>
    let s := match st with | .ss s => s | _ => SS.init false
    let r := s.stepLine rest; (.ss r.1, r.2)
  | ["ev", "new"] => (.ev EV.init (-(2 ^ 63)) (2 ^ 63 - 1), "ok")
  | ["ev", "new", ty] =>
    match evRange ty with
    | some r => (.ev EV.init r.1 r.2, "ok")
    | none => (.none, "bad-op")
  | "ev" :: rest =>
    match st with
    | .ev s bot top => let r := s.stepLine bot top rest; (.ev r.1 bot top, r.2)
    | _ => (st, "bad-op")
  | "gs" :: rest =>
    let cur := match st with | .gs s => some s | _ => none
    match GW.stepLine cur rest with
    | (some s, a) => (.gs s, a)
    | (none, a) => (st, a)
  | "dv" :: rest =>
    let cur := match st with | .dv s => some s | _ => none
    match DV.stepLine cur rest with
    | (some s, a) => (.dv s, a)
    | (none, a) => (st, a)
  | ["wg", "new", xs] =>
    match parseNats xs with
    | some xs => let s := WG.init.step (.add xs); (.wg s, s.show)
    | none => (st, "bad-op")
  | ["wg", "add", xs] =>
    match parseNats xs, st with
    | some xs, .wg s => let s' := s.step (.add xs); (.wg s', s'.show)
    | _, _ => (st, "bad-op")
  | ["wg", "done", xs] =>
    match parseNats xs, st with
    | some xs, .wg s => let s' := s.step (.done xs); (.wg s', s'.show)
    | _, _ => (st, "bad-op")
  | ["wg", "race", x] =>
    match x.toNat? with
    | some x => (st, wgRaceLine x)
    | none => (st, "bad-op")
  | _ => (st, "bad-op")

end Hive.Derived
