import Hive.Spec.Derived
/-!
# Sequential model of `reactive.DerivedVariable` with `Unsubscribe` and `DeriveValueFrom`

(ds/reactive/variable.go `NewDerivedVariable1..4`, variable_impl.go `newDerivedVariable`, `derivedVariable.Unsubscribe`,
`variable.DeriveValueFrom`, `variable.InheritFrom`.)  The inputs may hold values before the derived variable is created;
the constructor stores the initial value and then subscribes to every input with the current value delivered at once,
each delivery recomputing from all inputs.  `Unsubscribe` (idempotent: `sync.Once`) stops the recomputation; a variable
that derives its value from the derived variable (`DeriveValueFrom` = `InheritFrom` + the derived variable's
`Unsubscribe` as teardown) copies every new value.  The interleavings of writers are the subject of `DerivedVar.lean`.
-/
namespace Hive.Derived

structure DV where
  fn : List Int → Int
  ins : List Int
  subscribed : Bool
  seen : List Int          -- ghost: the inputs the derived value was last computed from
  d : Int
  target : Option Int      -- the variable that derives its value from this one (if any)

inductive DVOp
  | set (i : Nat) (v : Int)
  | unsub                  -- `Unsubscribe()`, directly or as the teardown function of `DeriveValueFrom`
  | derive

/-- `newDerivedVariable`: `Init(initialValue)`, then one `OnUpdate(…, true)` per input, in order. -/
def DV.create (fn : List Int → Int) (init : Int) (vals : List Int) : DV :=
  { fn := fn, ins := vals, subscribed := true, seen := vals, d := vals.foldl (fun _ _ => fn vals) init, target := none }

def DV.step (s : DV) : DVOp → DV
  | .set i v =>
    if i < s.ins.length then
      let ins' := s.ins.set i v
      if s.subscribed then
        -- the input's callback: `d.Compute(compute(_, …, v, …other.Get()…))`; the deriving variable is `Set` to the result
        { s with ins := ins', seen := ins', d := s.fn ins', target := s.target.map (fun _ => s.fn ins') }
      else { s with ins := ins' }
    else s
  | .unsub => { s with subscribed := false }
  | .derive =>
    match s.target with
    | some _ => s
    | none => { s with target := some s.d }      -- `InheritFrom` delivers the current value at once

def DV.run (s : DV) : List DVOp → DV
  | [] => s
  | op :: ops => DV.run (s.step op) ops

def DV.show (s : DV) : String :=
  match s.target with
  | none => s!"d={s.d}"
  | some t => s!"d={s.d} t={t}"

def DV.stepLine (st : Option DV) (toks : List String) : Option DV × String :=
  match st, toks with
  | none, ["new", fn, init, vals] =>
    match fnEval fn, init.toInt?, parseInts vals with
    | some f, some init, some vals =>
      if vals.length < 1 || vals.length > 4 then (st, "bad-op")
      else let s := DV.create f init vals; (some s, s.show)
    | _, _, _ => (st, "bad-op")
  | some s, ["set", i, v] =>
    match i.toNat?, v.toInt? with
    | some i, some v => if i < s.ins.length then let s' := s.step (.set i v); (some s', s'.show) else (st, "bad-op")
    | _, _ => (st, "bad-op")
  -- the other write paths of an input variable are `Compute` with a different generator: `Compute(cur ↦ cur + δ)`,
  -- `DefaultTo(v)` (writes only over the zero value), `ToggleValue(v)` = `Set(v)` and its reset function = `Set(zero)`
  | some s, ["compute", i, d] =>
    match i.toNat?, d.toInt? with
    | some i, some d =>
      match s.ins[i]? with
      | some cur => let s' := s.step (.set i (cur + d)); (some s', s'.show)
      | none => (st, "bad-op")
    | _, _ => (st, "bad-op")
  | some s, ["default", i, v] =>
    match i.toNat?, v.toInt? with
    | some i, some v =>
      match s.ins[i]? with
      | some cur => let s' := if cur == 0 then s.step (.set i v) else s; (some s', s'.show)
      | none => (st, "bad-op")
    | _, _ => (st, "bad-op")
  | some s, ["toggle", i, v] =>
    match i.toNat?, v.toInt? with
    | some i, some v => if i < s.ins.length then let s' := s.step (.set i v); (some s', s'.show) else (st, "bad-op")
    | _, _ => (st, "bad-op")
  | some s, ["reset", i] =>
    match i.toNat? with
    | some i => if i < s.ins.length then let s' := s.step (.set i 0); (some s', s'.show) else (st, "bad-op")
    | none => (st, "bad-op")
  | some s, ["unsub"] => let s' := s.step .unsub; (some s', s'.show)
  | some s, ["teardown"] =>
    match s.target with
    | some _ => let s' := s.step .unsub; (some s', s'.show)
    | none => (st, "bad-op")
  | some s, ["derive"] =>
    match s.target with
    | some _ => (st, "bad-op")
    | none => let s' := s.step .derive; (some s', s'.show)
  -- the deriving variable held a value before: `InheritFrom` (flag `true`) delivers the current value whatever it is
  | some s, ["derive", _] =>
    match s.target with
    | some _ => (st, "bad-op")
    | none => let s' := s.step .derive; (some s', s'.show)
  | _, _ => (st, "bad-op")

end Hive.Derived
