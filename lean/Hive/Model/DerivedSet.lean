import Hive.Model.DerivedBase
/-!
# Sequential models of `reactive.DerivedSet` and `ReadableSet.SubtractReactive` (ds/reactive/set_impl.go)

`DS`: a pool of reactive source sets, one derived set, and the subscriptions created by
`InheritFrom` (each with its private mirror `sourceElements`), the shared occurrence counts
(`setArithmetic`) and the value of the derived set.

`SR`: a pool of reactive sets and one set created by `src.SubtractReactive(others…)`.
-/
namespace Hive.Derived
open Hive.Proto

/-! ## DerivedSet -/

structure Sub where
  src : Nat
  live : Bool
  mirror : Nat → Bool

structure DS where
  mem : Nat → Nat → Bool
  subs : List Sub
  count : Nat → Int
  value : Nat → Bool

def DS.init : DS := { mem := fun _ _ => false, subs := [], count := fun _ => 0, value := fun _ => false }

/-- One subscription callback `s.inheritMutations(sourceElements.Apply(appliedMutations))`. -/
def subCallback (s : Sub) (ra rd : Nat → Bool) (c : Nat → Int) (v : Nat → Bool) :
    Sub × (Nat → Int) × (Nat → Bool) :=
  ({ s with mirror := memo! (fun x => (applyBit (s.mirror x) (ra x) (rd x)).1) },
   memo! (fun x => (inheritBit (c x) (v x) (applyBit (s.mirror x) (ra x) (rd x)).2.1 (applyBit (s.mirror x) (ra x) (rd x)).2.2).1),
   memo! (fun x => (inheritBit (c x) (v x) (applyBit (s.mirror x) (ra x) (rd x)).2.1 (applyBit (s.mirror x) (ra x) (rd x)).2.2).2))

/-- The writer of source `i` invokes the registered callbacks in registration order. -/
def deliver (i : Nat) (ra rd : Nat → Bool) : List Sub → (Nat → Int) → (Nat → Bool) →
    List Sub × (Nat → Int) × (Nat → Bool)
  | [], c, v => ([], c, v)
  | s :: rest, c, v =>
    if s.live && s.src == i then
      let r := subCallback s ra rd c v
      let r' := deliver i ra rd rest r.2.1 r.2.2
      (r.1 :: r'.1, r'.2.1, r'.2.2)
    else
      let r' := deliver i ra rd rest c v
      (s :: r'.1, r'.2.1, r'.2.2)

inductive DSOp
  | write (i : Nat) (op : SrcOp)
  | inherit (i : Nat)          -- `InheritFrom(source i)`: the new subscription gets the next index
  | unsub (j : Nat)            -- the unsubscribe function of subscription `j`

def setSub (subs : List Sub) (j : Nat) (f : Sub → Sub) : List Sub :=
  match subs[j]? with
  | none => subs
  | some s => subs.set j (f s)

def DS.step (s : DS) : DSOp → DS
  | .write i op =>
    let m := s.mem i
    let r := deliver i (op.repAdded m) (op.repDeleted m) s.subs s.count s.value
    { mem := setAt s.mem i (memo! (op.newMem m)), subs := r.1, count := r.2.1, value := r.2.2 }
  | .inherit i =>
    -- OnUpdate delivers the current content as added elements to the fresh (empty) mirror
    let r := subCallback { src := i, live := true, mirror := fun _ => false } (s.mem i) (fun _ => false) s.count s.value
    { s with subs := s.subs ++ [r.1], count := r.2.1, value := r.2.2 }
  | .unsub j =>
    match s.subs[j]? with
    | none => s
    | some sub =>
      -- unsubscribe from the source, then `inheritMutations(deleted = sourceElements)`; the mirror is
      -- not cleared, so calling the function twice subtracts twice (as the code does)
      { s with subs := s.subs.set j { sub with live := false },
               count := memo! (fun x => (inheritBit (s.count x) (s.value x) false (sub.mirror x)).1),
               value := memo! (fun x => (inheritBit (s.count x) (s.value x) false (sub.mirror x)).2) }

/-- The unsubscribe function of a subscription is called at most once, and only for existing ones. -/
def DS.wfOp (s : DS) : DSOp → Prop
  | .unsub j => ∃ sub, s.subs[j]? = some sub ∧ sub.live = true
  | _ => True

def DS.run (s : DS) : List DSOp → DS
  | [] => s
  | op :: ops => DS.run (s.step op) ops

def DS.wfRun (s : DS) : List DSOp → Prop
  | [] => True
  | op :: ops => s.wfOp op ∧ DS.wfRun (s.step op) ops

/-- Defining function: the union of the sources of the live subscriptions. -/
def DS.union (s : DS) (x : Nat) : Prop := ∃ sub ∈ s.subs, sub.live = true ∧ s.mem sub.src x = true

/-- The derived set as the unrepaired reactive `Replace` made it behave (witness only). -/
def DS.stepOldReplace (s : DS) (i : Nat) (X : List Nat) : DS :=
  let m := s.mem i
  let r := deliver i (oldReplaceAdded X) (oldReplaceDeleted m) s.subs s.count s.value
  { mem := setAt s.mem i (fun x => X.contains x), subs := r.1, count := r.2.1, value := r.2.2 }

def parseDSOps : List String → Option (List DSOp)
  | ["inherit", is] => do pure ((← parseNats is).map .inherit)
  | ["unsub", js] => do pure ((← parseNats js).map .unsub)
  | toks => do
    let (i, op) ← parseSrcOp toks
    pure [.write i op]

def DS.stepLine (s : DS) (toks : List String) : DS × String :=
  match toks with
  | ["new"] => (DS.init, "ok")
  | ["new", _] => (DS.init, "ok")     -- per-case renaming of the elements (x ↦ x*scale+off) on the implementation side
  | _ =>
    match parseAliasOp s.mem toks with
    | some ws => let s' := s.run (ws.map (fun w => .write w.1 w.2)); (s', showSet s'.value)
    | none =>
    match parseDSOps toks with
    | some ops => let s' := s.run ops; (s', showSet s'.value)
    | none => (s, "bad-op")

/-! ## SubtractReactive -/

structure SR where
  mem : Nat → Nat → Bool
  created : Bool
  src : Nat
  others : List Nat
  count : Nat → Int
  value : Nat → Bool

def SR.init : SR := { mem := fun _ _ => false, created := false, src := 0, others := [], count := fun _ => 0, value := fun _ => false }

/-- Callbacks registered on set `i`: the source callback (if `i` is the source) was registered first,
then one callback per occurrence of `i` among the others. -/
def srDeliverOthers (i : Nat) (ra rd : Nat → Bool) : List Nat → (Nat → Int) → (Nat → Bool) → (Nat → Int) × (Nat → Bool)
  | [], c, v => (c, v)
  | o :: rest, c, v =>
    if o == i then
      srDeliverOthers i ra rd rest (memo! (fun x => (subtractBit (c x) (v x) (ra x) (rd x)).1))
        (memo! (fun x => (subtractBit (c x) (v x) (ra x) (rd x)).2))
    else srDeliverOthers i ra rd rest c v

def srDeliver (s : SR) (i : Nat) (ra rd : Nat → Bool) : (Nat → Int) × (Nat → Bool) :=
  if s.src == i then
    srDeliverOthers i ra rd s.others (memo! (fun x => (inheritBit (s.count x) (s.value x) (ra x) (rd x)).1))
      (memo! (fun x => (inheritBit (s.count x) (s.value x) (ra x) (rd x)).2))
  else srDeliverOthers i ra rd s.others s.count s.value

/-- Initial deliveries of `SubtractReactive`: the source's content is added, then each other set's
content is subtracted, in argument order. -/
def srInitOthers (mem : Nat → Nat → Bool) : List Nat → (Nat → Int) → (Nat → Bool) → (Nat → Int) × (Nat → Bool)
  | [], c, v => (c, v)
  | o :: rest, c, v =>
    srInitOthers mem rest (memo! (fun x => (subtractBit (c x) (v x) (mem o x) false).1))
      (memo! (fun x => (subtractBit (c x) (v x) (mem o x) false).2))

inductive SROp
  | write (i : Nat) (op : SrcOp)
  | create (src : Nat) (others : List Nat)

def SR.step (s : SR) : SROp → SR
  | .write i op =>
    let m := s.mem i
    if s.created then
      let r := srDeliver s i (op.repAdded m) (op.repDeleted m)
      { s with mem := setAt s.mem i (memo! (op.newMem m)), count := r.1, value := r.2 }
    else { s with mem := setAt s.mem i (memo! (op.newMem m)) }
  | .create src others =>
    if s.created then s
    else
      let r := srInitOthers s.mem others (memo! (fun x => (inheritBit 0 false (s.mem src x) false).1))
        (memo! (fun x => (inheritBit 0 false (s.mem src x) false).2))
      { s with created := true, src := src, others := others, count := r.1, value := r.2 }

def SR.run (s : SR) : List SROp → SR
  | [] => s
  | op :: ops => SR.run (s.step op) ops

/-- Defining function: the source minus every other set. -/
def SR.diff (s : SR) (x : Nat) : Bool := s.mem s.src x && s.others.all (fun o => !s.mem o x)

def SR.stepLine (s : SR) (toks : List String) : SR × String :=
  match toks with
  | ["new"] => (SR.init, "ok")
  | ["new", _] => (SR.init, "ok")
  | ["create", r, os] =>
    match r.toNat?, parseNats os with
    | some r, some os => let s' := s.step (.create r os); (s', showSet s'.value)
    | _, _ => (s, "bad-op")
  | _ =>
    match parseAliasOp s.mem toks with
    | some ws => let s' := s.run (ws.map (fun w => .write w.1 w.2)); (s', if s'.created then showSet s'.value else "-")
    | none =>
    match parseSrcOp toks with
    | some (i, op) => let s' := s.step (.write i op); (s', if s'.created then showSet s'.value else "-")
    | none => (s, "bad-op")

end Hive.Derived
