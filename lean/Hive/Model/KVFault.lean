import Hive.Model.KVCopy
/-!
# The error paths of the wrappers and of `Copy` / `CopyBatched`: a `Flush` that fails (C04)

With `mapdb` below the wrappers the only error any call can return is `ErrStoreClosed`, and `Flush` fails only
on a closed store.  The error paths of `flushkv` ("return the error of the wrapped call, else the error of
`Flush` unless it is ErrStoreClosed"), of `kvstore.Copy` (stop at the first failing `Set`; the final `Flush`)
and of `kvstore.CopyBatched` (a failing `Commit` inside the iteration stops it, the pending batch is cancelled;
the final `Commit`; the final `Flush`) are therefore modelled with a *fault flag* `fe`: while it is set, a
`Flush()` that reaches the store below the wrappers and would have succeeded fails with an error that is not
ErrStoreClosed (the harness's recording store returns `kvstore.ErrKeyNotFound`, printed `notfound`).
`stepF false` is `step` (`Hive/Proofs/KVFault.lean`), so everything proved about `step` holds for the
driver's model while no fault is armed.  Core Lean only.
-/
namespace Hive.KV

/-- `Flush()` through a wrapper stack (every wrapper forwards it) with the fault flag. -/
def vFlushF (fe : Bool) : List Wrap → Store → Out
  | [], s => match dbCheck s with | .ok => if fe then .notfound else .ok | o => o
  | _ :: ws, s => vFlushF fe ws s

/-- A mutator through a wrapper stack: `flushkv` returns the error of the wrapped call, else what
`flushAfterMutation` returns: the error of `Flush()` unless it is ErrStoreClosed. -/
def vMutF (fe : Bool) (f : Store → Store × Out) : List Wrap → Store → Store × Out
  | [], s => f s
  | .debug :: ws, s => vMutF fe f ws s
  | .flush :: ws, s =>
    match vMutF fe f ws s with
    | (s', .ok) => (s', match vFlushF fe ws s' with | .closed => .ok | o => o)
    | r => r

def mutateF (fe : Bool) (s : St) (vw : View) (f : Store → Store × Out) : St × Out :=
  let r := vMutF fe f vw.wraps s.db
  ({ s with db := r.1 }, r.2)

/-- `step` with the fault flag: the requests that involve `Flush`. -/
def stepF (fe : Bool) (s : St) : Op → St × Out
  | .set v k x => onView s v fun vw => mutateF fe s vw (dbSet vw.realm k x)
  | .del v k => onView s v fun vw => mutateF fe s vw (dbDelete vw.realm k)
  | .delp v p => onView s v fun vw => mutateF fe s vw (dbDeletePrefix vw.realm p)
  | .clear v => onView s v fun vw => mutateF fe s vw (dbClear vw.realm)
  | .flush v => onView s v fun vw => (s, vFlushF fe vw.wraps s.db)
  | .commit b final =>
    onBatch s b fun bt =>
      let r := vMutF fe (dbCommit bt.realm bt.sets bt.dels) bt.wraps s.db
      ({ s with db := r.1, batches := if final then s.batches.filter (fun e => e.1 != b) else s.batches }, r.2)
  | op => step s op

/-! ## Copy / CopyBatched (`fe`: the fault flag of the target's store tree) -/

def copySetsF (fe : Bool) (ws : List Wrap) (realm : Bytes) : List Entry → Store → Store × Out
  | [], s => (s, .ok)
  | e :: rest, s =>
    match vMutF fe (dbSet realm e.1 e.2) ws s with
    | (s', .ok) => copySetsF fe ws realm rest s'
    | r => r

def copyStepF (fe : Bool) (src dst : St) (v w : Nat) : St × Out :=
  match src.views.lookup v, dst.views.lookup w with
  | some vs, some vd =>
    match vRead (dbIterate vs.realm [] .fwd 0) vs.wraps src.db with
    | .kvs es =>
      match copySetsF fe vd.wraps vd.realm es dst.db with
      | (db', .ok) => ({ dst with db := db' }, vFlushF fe vd.wraps db')
      | (db', e) => ({ dst with db := db' }, e)
    | e => (dst, e)
  | _, _ => (dst, .badHandle)

/-- One `Commit` per batch, stopping at the first error (`innerErr`; the batch being filled is cancelled). -/
def copyCommitsF (fe : Bool) (ws : List Wrap) (realm : Bytes) : List (List Entry) → Store → Store × Out
  | [], s => (s, .ok)
  | c :: rest, s =>
    match vMutF fe (dbCommit realm c []) ws s with
    | (s', .ok) => copyCommitsF fe ws realm rest s'
    | r => r

def copybStepF (fe : Bool) (src dst : St) (v w n : Nat) : St × Out :=
  match src.views.lookup v, dst.views.lookup w with
  | some vs, some vd =>
    match vRead dbCheck vd.wraps dst.db with
    | .ok =>
      match vRead (dbIterate vs.realm [] .fwd 0) vs.wraps src.db with
      | .kvs es =>
        match copyCommitsF fe vd.wraps vd.realm (chunks n es) dst.db with
        | (db', .ok) => ({ dst with db := db' }, vFlushF fe vd.wraps db')
        | (db', e) => ({ dst with db := db' }, e)
      | e => (dst, e)
    | e => (dst, e)
  | _, _ => (dst, .badHandle)

/-- `pstep` with the fault flags of the two trees. -/
def pstepF (fe1 fe2 : Bool) (p : Pair) : POp → Pair × Out
  | .on b op => let r := stepF (if b then fe2 else fe1) (p.get b) op; (p.put b r.1, r.2)
  | .copy sb v db w => let r := copyStepF (if db then fe2 else fe1) (p.get sb) (p.get db) v w; (p.put db r.1, r.2)
  | .copyb sb v db w n => let r := copybStepF (if db then fe2 else fe1) (p.get sb) (p.get db) v w n; (p.put db r.1, r.2)

end Hive.KV
