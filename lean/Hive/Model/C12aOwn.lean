import Hive.Base.Proto
/-!
# Memory-level model of `RandomMap`'s key slice and of the slices `Keys()` hands out (C12, ownership)

The pure models of C12 treat every answer as a *value*.  That is only right if the code never hands out
its own storage: a caller may keep an answered slice, sort it, overwrite it.  This file adds the memory
layer for the one container whose internal state is a dense slice the answers are copied from
(`randommap.RandomMap.keys`): a heap of arrays, the address/length of `r.keys`, and the address/length of
every slice returned by `Keys()`.

* `append k` — `r.keys = append(r.keys, k)` (`Set` of a new key): in place while there is capacity,
  otherwise a new, larger backing array (`growslice`);
* `delSwap i` — `Delete` of the entry with `keyIndex = i`: `keys[i] = keys[len-1]; keys[len-1] = zero;
  keys = keys[:len-1]`, in place;
* `keys` — `Keys()`: `result = make([]K, size); copy(result, r.keys)`; with `alias := true` the variant of
  seeded change r6-2, `return r.keys[:size:size]`;
* `write h i v` — the *caller* stores `v` into cell `i` of the `h`-th slice it was given.

The abstract side `P` is what the pure models assume: the key list and the list of answered values, a
caller's write changing only the answer it writes to.
-/
namespace Hive.C12a.Own

structure St where
  mem : List (List Nat)     -- the heap: one entry per allocated backing array (address = position)
  keys : Nat                -- address of the backing array of `r.keys`
  len : Nat                 -- `len(r.keys)`
  out : List (Nat × Nat)    -- the slices handed to callers, oldest first: (address, length)
deriving Repr, DecidableEq

/-- `keys: make([]K, 0)`. -/
def init : St := { mem := [[]], keys := 0, len := 0, out := [] }

def St.arr (s : St) (a : Nat) : List Nat := s.mem.getD a []

inductive Op
  | append (k : Nat)
  | delSwap (i : Nat)
  | keys
  | write (h i v : Nat)
deriving Repr, DecidableEq

def step (alias : Bool) (s : St) : Op → St
  | .append k =>
    let a := s.arr s.keys
    if s.len < a.length then
      { s with mem := s.mem.set s.keys (a.set s.len k), len := s.len + 1 }
    else
      { s with mem := s.mem ++ [a.take s.len ++ [k] ++ List.replicate s.len 0],
               keys := s.mem.length, len := s.len + 1 }
  | .delSwap i =>
    if i < s.len then
      let a := s.arr s.keys
      { s with mem := s.mem.set s.keys ((a.set i (a.getD (s.len - 1) 0)).set (s.len - 1) 0),
               len := s.len - 1 }
    else s
  | .keys =>
    if alias then { s with out := s.out ++ [(s.keys, s.len)] }
    else { s with mem := s.mem ++ [(s.arr s.keys).take s.len], out := s.out ++ [(s.mem.length, s.len)] }
  | .write h i v =>
    match s.out[h]? with
    | some (a, n) => if i < n then { s with mem := s.mem.set a ((s.arr a).set i v) } else s
    | none => s

def final (alias : Bool) (s : St) (ops : List Op) : St := ops.foldl (step alias) s

/-! ## the value-level view the pure models work with -/

structure P where
  l : List Nat             -- the key list
  outs : List (List Nat)   -- the answers of `Keys()`, as the callers see them now
deriving Repr, DecidableEq

def pstep (p : P) : Op → P
  | .append k => { p with l := p.l ++ [k] }
  | .delSwap i =>
    if i < p.l.length then
      { p with l := ((p.l.set i (p.l.getD (p.l.length - 1) 0)).set (p.l.length - 1) 0).take (p.l.length - 1) }
    else p
  | .keys => { p with outs := p.outs ++ [p.l] }
  | .write h i v =>
    match p.outs[h]? with
    | some o => { p with outs := p.outs.set h (o.set i v) }
    | none => p

def pfinal (p : P) (ops : List Op) : P := ops.foldl pstep p

/-- What the memory state means: the cells of `r.keys`, and the cells of every handed-out slice. -/
def abs (s : St) : P :=
  { l := (s.arr s.keys).take s.len, outs := s.out.map (fun p => (s.arr p.1).take p.2) }

/-- `Keys()` filling and returning a scratch buffer that is kept between calls
(`r.scratch = append(r.scratch[:0], r.keys...); return r.scratch` — the aliasing *between answers* of seeded
change r5-2, here on `Keys()`): the array of the previous answer is overwritten and handed out again when it is
large enough, otherwise a fresh array becomes the scratch buffer. -/
def keysScratch (s : St) : St :=
  let fresh : St :=
    { s with mem := s.mem ++ [(s.arr s.keys).take s.len], out := s.out ++ [(s.mem.length, s.len)] }
  match s.out.getLast? with
  | some (a, _) =>
    if s.len ≤ (s.arr a).length then
      { s with mem := s.mem.set a ((s.arr s.keys).take s.len ++ (s.arr a).drop s.len),
               out := s.out ++ [(a, s.len)] }
    else fresh
  | none => fresh

/-! ## line protocol (`own …`: the harness is the caller that keeps and edits what `Keys()` returned) -/
open Hive.Proto

/-- `k<key slice> o[<answer> …]`: the cells of `r.keys` and of every slice handed out so far. -/
def showState (s : St) : String :=
  let p := abs s
  "k" ++ showNatList p.l ++ " o[" ++ " ".intercalate (p.outs.map showNatList) ++ "]"

def stepLine (s : St) (toks : List String) : St × String :=
  let l := (abs s).l
  match toks with
  | ["new"] => (init, "ok")
  | ["set", k] => match k.toNat? with   -- `Set`: a known key only has its value replaced
    | some k => (if l.contains k then s else step false s (.append k), "ok")
    | none => (s, "bad-op")
  | ["del", k] => match k.toNat? with   -- `Delete`: the entry's `keyIndex` is the key's position
    | some k => (if l.contains k then step false s (.delSwap (l.findIdx (· == k))) else s, "ok")
    | none => (s, "bad-op")
  | ["keys"] => (step false s .keys, showNatList l)
  | ["write", h, i, v] => match h.toNat?, i.toNat?, v.toNat? with
    | some h, some i, some v => (step false s (.write h i v), "ok")
    | _, _, _ => (s, "bad-op")
  | _ => (s, "bad-op")

end Hive.C12a.Own
