import Hive.Model.Seq
import Hive.Conc.Sys
/-!
# Protocol model of concurrent callers on ONE `kvstore.Sequence` object (kvstore/sequence.go) for C07

Any number of goroutines, each with an arbitrary remaining script of `Next` / `Release` calls, share
one live `Sequence` object.  The shared state is the state of the sequential model (`Hive.Seq.St`:
the stored mark, the object's fields `interval / next / reserved`, the ghost list of numbers handed
out, the ghost budget) plus the holder of `seq.Mutex`, the generation (`epoch`) of the live object
and ghost logs.  Every method is cut into exactly the shared-memory micro-steps of the code, in
program order (written against the regenerated skeletons `C07_skeleton_next/release/update` in
`Hive/Props/C07.lean`: `lock seq`, `defer unlock seq`, the lease test, `helper update` =
`call seq.store.Get` … `call seq.store.Set`, and for `Release` the test, `call seq.store.Set`):

```
Next:     idle --Lock (blocked while held)--> nTest --next >= reserved?--> uGet | nHand
update:   uGet --store.Get ok--> uNext m --seq.next = num; lease := min interval (MaxUint64 - next)-->
               uSet (lease > 0) | unlock err (lease = 0: ErrSequenceExhausted)
          uSet --store.Set(next + lease) ok--> uRes r --seq.reserved = reserved--> nHand
               (Get / Set may fail: the call returns err)
          nHand --val := next; next++--> unlock (num val) --deferred Unlock--> idle
Release:  idle --Lock--> rTest --next >= reserved?--> unlock ok | rSet --store.Set ok--> rRes
               --seq.reserved = seq.next--> unlock ok   (Set may fail: the call returns err)
```

Other goroutines may be scheduled between any two micro-steps; that they cannot interfere is what
the theorems (`Hive/Props/C07b.lean`) prove from the mutex, it is not built into the model.

An *environment* thread models crashes and restarts: `restart i` abandons the whole object **at any
point** — whatever micro-step the goroutine inside a method has reached — with the abandonment
semantics of the sequential model (`Hive.Seq.step _ (.new i)` = `abandon`, then a fresh object with
interval `i`, `next = reserved = 0`, a fresh unlocked mutex).  The generation counter is bumped: the
goroutines of the old generation died with their process (they never move again); goroutines of the
pool whose `epoch` is the new generation start using the new object.

Ghost state (never read by a method step): `log` — (goroutine, number) per hand-out, in hand-out
order; `hist` — one entry per linearised call (appended inside the mutex-protected section, at the
call's last shared-memory effect), per crash and per restart, as operations of the sequential
machine together with the answers the concrete steps computed; `base` — the state at the last
linearisation point; `cp` — which store-operation boundary of the sequential model the current
micro-state corresponds to (the label a crash gets in `hist`).
-/
namespace Hive.Seq.Conc
open Hive.Conc Hive.Seq

inductive Call
  | next
  | release
deriving Repr, DecidableEq

inductive Pc
  | idle                 -- between calls; with a non-empty script: about to call `seq.Lock()`
  | nTest                -- Next: mutex held, before `if seq.next >= seq.reserved`
  | uGet                 -- update(): before `seq.store.Get(seq.key)`
  | uNext (m : Nat)      -- update(): Get returned `m` (0: key not found), before `seq.next = num`
  | uSet                 -- update(): lease > 0 computed, before `seq.store.Set(seq.key, seq.next + lease)`
  | uRes (r : Nat)       -- update(): Set done, before `seq.reserved = reserved`
  | nHand                -- Next: before `val := seq.next; seq.next++`
  | rTest                -- Release: mutex held, before `if seq.next >= seq.reserved`
  | rSet                 -- Release: before `seq.store.Set(seq.key, seq.next)`
  | rRes                 -- Release: Set done, before `seq.reserved = seq.next`
  | unlock (a : Out)     -- answer known, before the deferred `seq.Unlock()`
deriving Repr, DecidableEq

/-- Between `Lock` and `Unlock`. -/
def Pc.inside : Pc → Bool
  | .idle => false
  | _ => true

structure Gor where
  id : Nat
  epoch : Nat            -- generation of the object this goroutine was started on
  script : List Call     -- remaining calls, the head is the one in progress
  pc : Pc
  got : List Out         -- answers received so far
deriving Repr, DecidableEq

inductive Thread
  | gor (g : Gor)
  | env (restarts : List Nat)   -- crash + restart with the given intervals, at arbitrary moments
deriving Repr, DecidableEq

structure Shared where
  st : St                               -- store mark, object fields (+ the sequential ghosts)
  holder : Option Nat                   -- `seq.Mutex`: id of the goroutine holding it
  epoch : Nat                           -- generation of the live object
  log : List (Nat × Nat)                -- ghost: (goroutine, number) per hand-out, oldest first
  hist : List (Option Nat × Op × Out)   -- ghost: linearised calls / crashes / restarts (`none` = environment)
  base : St                             -- ghost: state at the last linearisation point
  cp : CrashAt                          -- ghost: sequential crash point of the current micro-state
deriving Repr

def setObj (sh : Shared) (o : Obj) : Shared := { sh with st := { sh.st with obj := some o } }

def setStore (sh : Shared) (v : Nat) (cp : CrashAt) : Shared :=
  { sh with st := { sh.st with store := some v }, cp := cp }

/-- Linearisation point of a call of goroutine `who`: the concrete effects are done, the answer is
known; record it as an operation of the sequential machine. -/
def lin (sh : Shared) (who : Nat) (op : Op) (a : Out) : Shared :=
  { sh with hist := sh.hist ++ [(some who, op, a)], base := sh.st, cp := .idle }

def entry : Call → Pc
  | .next => .nTest
  | .release => .rTest

def withObj (sh : Shared) (f : Obj → List (Shared × Gor)) : List (Shared × Gor) :=
  match sh.st.obj with
  | none => []
  | some o => f o

/-- `val := seq.next; seq.next++` with its ghost bookkeeping. -/
def handOut (sh : Shared) (who : Nat) (o : Obj) : Shared :=
  { sh with st := { sh.st with obj := some { o with next := o.next + 1 }, returned := o.next :: sh.st.returned },
            log := sh.log ++ [(who, o.next)] }

/-- One micro-step of a live goroutine.  Where two successors are listed the second one is the store
call returning an I/O error. -/
def mstep (sh : Shared) (g : Gor) : List (Shared × Gor) :=
  match g.pc with
  | .idle =>
    match g.script with
    | [] => []
    | c :: _ =>
      if sh.holder.isSome then [] else [({ sh with holder := some g.id }, { g with pc := entry c })]
  | .nTest => withObj sh fun o => [(sh, { g with pc := if hasLease o then .nHand else .uGet })]
  | .uGet =>
    withObj sh fun _ =>
      [(sh, { g with pc := .uNext (mark sh.st) }),
       (lin sh g.id (.failNext .get) .err, { g with pc := .unlock .err })]
  | .uNext m =>
    withObj sh fun o =>
      -- `seq.next = num`; then (local computation under the mutex) the lease, capped at the end of the number
      -- space; nothing left: `return ErrSequenceExhausted` (the deferred Unlock follows, nothing is handed out)
      if lease m o.interval = 0 then
        [(lin (setObj sh { o with next := m }) g.id .next .err, { g with pc := .unlock .err })]
      else [(setObj sh { o with next := m }, { g with pc := .uSet })]
  | .uSet =>
    withObj sh fun o =>
      [(setStore sh (o.next + lease o.next o.interval) .nextWrite,
        { g with pc := .uRes (o.next + lease o.next o.interval) }),
       (lin sh g.id (.failNext .set) .err, { g with pc := .unlock .err })]
  | .uRes r => withObj sh fun o => [(setObj sh { o with reserved := r }, { g with pc := .nHand })]
  | .nHand =>
    withObj sh fun o =>
      [(lin (handOut sh g.id o) g.id .next (.num o.next), { g with pc := .unlock (.num o.next) })]
  | .rTest =>
    withObj sh fun o =>
      if hasLease o then [(sh, { g with pc := .rSet })]
      else [(lin sh g.id .release .ok, { g with pc := .unlock .ok })]
  | .rSet =>
    withObj sh fun o =>
      [(setStore sh o.next .relWrite, { g with pc := .rRes }),
       (lin sh g.id .failRelease .err, { g with pc := .unlock .err })]
  | .rRes =>
    withObj sh fun o =>
      [(lin (setObj sh { o with reserved := o.next }) g.id .release .ok, { g with pc := .unlock .ok })]
  | .unlock a =>
    [({ sh with holder := none }, { g with pc := .idle, script := g.script.tail, got := g.got ++ [a] })]

/-- Crash at any point + restart with interval `i` (`NewSequence` panics on 0: no new object). -/
def estep (sh : Shared) : List Nat → List (Shared × Thread)
  | [] => []
  | i :: rest =>
    if i = 0 then [] else
      let st' := (step sh.st (.new i)).1
      [({ st := st', holder := none, epoch := sh.epoch + 1, log := sh.log,
          hist := sh.hist ++ [(none, .crash sh.cp, (step sh.base (.crash sh.cp)).2), (none, .new i, .ok)],
          base := st', cp := .idle }, .env rest)]

def tstep (sh : Shared) : Thread → List (Shared × Thread)
  | .gor g => if g.epoch = sh.epoch then (mstep sh g).map (fun p => (p.1, .gor p.2)) else []
  | .env rs => estep sh rs

def sys : Sys Shared Thread := { step := tstep }

def initSh (s0 : St) : Shared :=
  { st := s0, holder := none, epoch := 0, log := [], hist := [], base := s0, cp := .idle }

/-- What a pool is made of: goroutines (any id, any generation, any script) and environments. -/
inductive Spec
  | gor (id epoch : Nat) (script : List Call)
  | env (restarts : List Nat)
deriving Repr, DecidableEq

def spawn : Spec → Thread
  | .gor id e sc => .gor { id := id, epoch := e, script := sc, pc := .idle, got := [] }
  | .env rs => .env rs

/-- A live goroutine between `Lock` and `Unlock` of the object of generation `e`. -/
def pIn (e : Nat) : Thread → Bool
  | .gor g => g.epoch == e && g.pc.inside
  | .env _ => false

def histOps (h : List (Option Nat × Op × Out)) : List Op := h.map fun x => x.2.1
def histOuts (h : List (Option Nat × Op × Out)) : List Out := h.map fun x => x.2.2

/-- The numbers among a list of answers, in order. -/
def outNums : List Out → List Nat
  | [] => []
  | .num n :: os => n :: outNums os
  | _ :: os => outNums os

/-- The smallest number the live (or a future) object may still hand out (= `Hive.Seq.frontier`). -/
def front (s : St) : Nat :=
  match s.obj with
  | some o => if hasLease o then o.next else mark s
  | none => mark s

/-! ## Trace predicate for recorded concurrent histories (request `chist`)

The harness lets `g` goroutines call `Next` on the live object while another goroutine keeps calling
`Release`, records what every goroutine received in completion order, then abandons the object
(crash between calls) and lets a fresh object hand out a few numbers.  What the theorems say about
such a history: every goroutine's numbers are strictly increasing (`C07_concurrent_strictly_increasing`:
a sub-list of the log), all numbers together are exactly the `n` consecutive numbers from the frontier
(`C07_concurrent_contiguous`: neither `Release` nor the interleaving wastes or repeats anything), and
the fresh object continues at most one interval above (`C07_concurrent_crash_wastes_le_interval`). -/

def increasing : List Nat → Bool
  | [] => true
  | [_] => true
  | a :: b :: rest => a < b && increasing (b :: rest)

def insertSorted (x : Nat) : List Nat → List Nat
  | [] => [x]
  | y :: ys => if x ≤ y then x :: y :: ys else y :: insertSorted x ys

def sortNat (l : List Nat) : List Nat := l.foldr insertSorted []

/-- `f0`: frontier before the concurrent phase, `iv`: interval of the object used by it. -/
def histWhy (f0 iv : Nat) (perG : List (List Nat)) (fresh : List Nat) : String :=
  let all := perG.foldr (· ++ ·) []
  let n := all.length
  if !perG.all increasing then "reject one-caller-not-increasing"
  else if sortNat all != List.range' f0 n then "reject not-the-consecutive-numbers-from-the-frontier"
  else match fresh with
    | [] => "accept"
    | f1 :: _ =>
      if fresh != List.range' f1 fresh.length then "reject fresh-object-not-consecutive"
      else if f1 < f0 + n then "reject fresh-object-reuses"
      else if f0 + n + iv < f1 then "reject crash-wasted-more-than-one-interval"
      else "accept"

def parseNats (s : String) : Option (List Nat) :=
  if s == "-" then some [] else (s.splitOn ",").mapM (·.toNat?)

def splitAtTok (t : String) : List String → List String × List String
  | [] => ([], [])
  | x :: xs => if x == t then ([], xs) else let (a, b) := splitAtTok t xs; (x :: a, b)

/-- Line protocol of the C07 driver: the sequential requests of `Hive.Seq.stepLine` plus
`chist <spec…> h <list> … f <list>` (always the last request of a case: the state is kept). -/
def stepLineC (s : St) (toks : List String) : St × String :=
  match toks with
  | "chist" :: rest =>
    match s.obj with
    | none => (s, "noobj")
    | some o =>
      let (_, obs) := splitAtTok "h" rest
      let (gs, fr) := splitAtTok "f" obs
      match gs.mapM parseNats, fr.mapM parseNats with
      | some perG, some [fresh] => (s, histWhy (front s) o.interval perG fresh)
      | _, _ => (s, "bad-op")
  | _ => stepLine s toks

/-- The driver keeps two independent sequences (two keys of one store): `k2 <request>` addresses the second. -/
def stepLine2 (p : St × St) (toks : List String) : (St × St) × String :=
  match toks with
  | "k2" :: rest => let (s', a) := stepLineC p.2 rest; ((p.1, s'), a)
  | _ => let (s', a) := stepLineC p.1 toks; ((s', p.2), a)

end Hive.Seq.Conc
