import Hive.Model.C12aMap
/-!
# Model of `queue.Queue` (ds/queue/queue.go) for C12

Ring indices modulo the capacity; the zero value of the element type is `0`.  The capacity is
positive (`New(0)` makes `ForceOffer` index an empty slice and `% 0` panic; capacity 0 is outside the
property's "capacities > 0").  The abstract model is the bounded FIFO `Spec`.
-/
namespace Hive.C12a.Queue

structure St where
  buf : List Nat
  read : Nat
  write : Nat
  cap : Nat
  size : Nat
deriving Repr

def init (cap : Nat) : St := { buf := List.replicate cap 0, read := 0, write := 0, cap := cap, size := 0 }

/-- `poll()`. -/
def poll (s : St) : St × Option Nat :=
  if s.size ≠ 0 then
    ({ s with buf := s.buf.set s.read 0, read := (s.read + 1) % s.cap, size := s.size - 1 },
     some (s.buf.getD s.read 0))
  else (s, none)

def put (s : St) (x : Nat) : St :=
  { s with buf := s.buf.set s.write x, write := (s.write + 1) % s.cap, size := s.size + 1 }

def offer (s : St) (x : Nat) : St × Bool :=
  if s.size = s.cap then (s, false) else (put s x, true)

def forceOffer (s : St) (x : Nat) : St × Option Nat :=
  if s.size = s.cap then
    let r := poll s
    (put r.1 x, r.2)
  else (put s x, none)

inductive Op
  | offer (x : Nat) | force (x : Nat) | poll | size | cap
deriving Repr, DecidableEq

inductive Out
  | bool (b : Bool) | val (v : Option Nat) | nat (n : Nat)
deriving Repr, DecidableEq

def step (s : St) : Op → St × Out
  | .offer x => let r := offer s x; (r.1, .bool r.2)
  | .force x => let r := forceOffer s x; (r.1, .val r.2)
  | .poll => let r := poll s; (r.1, .val r.2)
  | .size => (s, .nat s.size)
  | .cap => (s, .nat s.cap)

def run (s : St) : List Op → St × List Out
  | [] => (s, [])
  | op :: ops =>
    let r := step s op
    let r' := run r.1 ops
    (r'.1, r.2 :: r'.2)

/-! ## abstract model: bounded FIFO, oldest first -/

structure Spec where
  q : List Nat
  cap : Nat
deriving Repr, DecidableEq

def specStep (a : Spec) : Op → Spec × Out
  | .offer x => if a.q.length = a.cap then (a, .bool false) else ({ a with q := a.q ++ [x] }, .bool true)
  | .force x =>
    if a.q.length = a.cap then ({ a with q := a.q.tail ++ [x] }, .val a.q.head?)
    else ({ a with q := a.q ++ [x] }, .val none)
  | .poll => ({ a with q := a.q.tail }, .val a.q.head?)
  | .size => (a, .nat a.q.length)
  | .cap => (a, .nat a.cap)

def specRun (a : Spec) : List Op → Spec × List Out
  | [] => (a, [])
  | op :: ops =>
    let r := specStep a op
    let r' := specRun r.1 ops
    (r'.1, r.2 :: r'.2)

/-! ## line protocol (`queue …`) -/
open Hive.Proto Hive.C12a

def showOut : Out → String
  | .bool b => showBool b
  | .val v => showOptVal v
  | .nat n => toString n

/-- White-box state printed after every answer: the first 64 buffer cells, `read`, `write`, `size`. -/
def showState (s : St) : String := s!"b{showNatList (s.buf.take 64)} r{s.read} w{s.write} n{s.size}"

def stepLine (s : St) (toks : List String) : St × String :=
  match toks with
  -- capacity 0 is legal to construct: Offer drops everything, Poll is empty, ForceOffer panics
  -- (index out of range on the empty buffer, nothing changed before); outside the theorems (`0 < c`)
  | ["new", c] => match c.toNat? with | some c => (init c, "ok") | _ => (s, "bad-op")
  | ["offer", x] => match x.toNat? with | some x => let r := step s (.offer x); (r.1, showOut r.2) | none => (s, "bad-op")
  | ["force", x] => match x.toNat? with | some x => if s.cap = 0 then (s, "panic") else let r := step s (.force x); (r.1, showOut r.2) | none => (s, "bad-op")
  | ["poll"] => let r := step s .poll; (r.1, showOut r.2)
  | ["size"] => let r := step s .size; (r.1, showOut r.2)
  | ["cap"] => let r := step s .cap; (r.1, showOut r.2)
  | _ => (s, "bad-op")

end Hive.C12a.Queue
