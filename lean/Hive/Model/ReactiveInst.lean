import Hive.Model.Reactive
/-!
# The three object kinds of the reactive protocol model

* `varObj`: `reactive.Variable` (`variable_impl.go`): a write is `Compute(f)` with the optional
  transformation function already composed into `f`; callbacks are notified with `(previous, new)`
  iff the value changed; `OnUpdate` delivers `(zero, current)` iff `current ≠ zero` or
  `triggerWithInitialZeroValue`.
* `eventObj`: `reactive.Event` (`event_impl.go`) = a `Variable[bool]` whose transformation is
  `current || new`.
* `setObj`: `reactive.Set` (`set_impl.go`, after the `Replace` fix): `Apply` (also behind
  `Add/AddAll/Delete/DeleteAll`), `Compute`, `Replace`; the note is the applied mutation.
  A `DerivedSet` is a `setObj` with one more kind of writer: `inheritMutations` runs the writer program
  under the same (embedded) `set.mutex`, and its update is a `SetOp.compute` (the mutation is decided
  by the occurrence counts, then `value.Apply`; callbacks are always notified).
-/
namespace Hive.Reactive

/-! ## Variable / Event -/

def varObj (V : Type) [DecidableEq V] (zero init : V) : Obj V (V × V) where
  WOp := V → V
  upd v f := if f v = v then .quiet false else .change (f v) (v, f v)
  ini v flag := if v ≠ zero ∨ flag = true then some (zero, v) else none
  s0 := init

/-- `Event.Trigger()` = `Set(true)` through the transformation `current || new`. -/
def eventSet (new : Bool) : Bool → Bool := fun cur => cur || new

def eventObj : Obj Bool (Bool × Bool) := varObj Bool false false

/-! ## Set: what `ds.Set.apply` / the repaired `replace` do to the contents and what they report -/

/-- `ds.Set.apply`: add every element of `m.1` that is not present (reporting it), then delete every
element of `m.2` that is present by then (reporting it). -/
def applyMut (s : List Nat) (m : Mut) : List Nat × Mut :=
  let added := m.1.filter (fun x => !s.contains x)
  let s1 := s ++ added
  let deleted := m.2.filter (fun x => s1.contains x)
  (s1.filter (fun x => !deleted.contains x), (added, deleted))

/-- `reactive.set.replace` (repaired).  Its first action under the value mutex is a **private snapshot
of its argument** (`newElements := ds.NewSet(elements.ToSlice()...)`); `els` is that snapshot, and
everything after it — the two filters and `value.Replace` — reads only the snapshot.  The contents
become `els`; reported: the elements that are new as added, the elements that are gone as deleted. -/
def replaceMut (s els : List Nat) : List Nat × Mut :=
  (els, (els.filter (fun x => !s.contains x), s.filter (fun x => !els.contains x)))

/-- The unrepaired `replace`: every new element reported as added, every previous one as deleted. -/
def replaceMutOld (s els : List Nat) : List Nat × Mut := (els, (els, s))

/-- `replace` *without* the private snapshot reads its argument three times: `Filter` (what is new),
`Has` (what is gone) and `Range` inside `value.Replace`.  If the argument changes in between — it is
the set itself or a view of it (`value.Replace` clears the contents before it ranges over the
argument), or another goroutine mutates it — the three reads differ and the report no longer
matches the change. -/
def replaceMutLive (s read1 read2 read3 : List Nat) : List Nat × Mut :=
  (read3, (read1.filter (fun x => !s.contains x), s.filter (fun x => !read2.contains x)))

def Mut.isEmpty (m : Mut) : Bool := m.1.isEmpty && m.2.isEmpty

inductive SetOp where
  | apply (m : Mut)                      -- Apply, Add, AddAll, Delete, DeleteAll
  | compute (g : List Nat → Mut)         -- Compute(mutationFactory)
  | replace (els : List Nat)              -- Replace(arg); `els` = the private snapshot of `arg`
  | replaceView (g : List Nat → List Nat) -- Replace(arg) where `arg` is the set itself or a view derived from it:
                                          -- the snapshot is `g` of the contents at the moment it is taken

def setUpd (s : List Nat) : SetOp → Upd (List Nat) Mut
  | .apply m =>
    if m.isEmpty then .quiet false          -- returns before any lock is taken
    else
      let r := applyMut s m
      if r.2.isEmpty then .quiet true       -- id bumped, callbacks snapshotted, nobody notified
      else .change r.1 r.2
  | .compute g => let r := applyMut s (g s); .change r.1 r.2
  | .replace els => let r := replaceMut s els; .change r.1 r.2
  | .replaceView g => let r := replaceMut s (g s); .change r.1 r.2

def setObj (init : List Nat) : Obj (List Nat) Mut where
  WOp := SetOp
  upd := setUpd
  ini s flag := if !s.isEmpty || flag then some (s, []) else none
  s0 := init
  early
    | .apply m => m.isEmpty     -- `if mutations.IsEmpty() { return ds.NewSetMutations() }` before `s.mutex.Lock()`
    | _ => false

end Hive.Reactive
