import Hive.Model.BatchWriter
/-!
# A small language for `BatchedWriter.runBatchWriter` and its meaning as protocol steps (C08)

`harness/c08/loopgen` translates `runBatchWriter` (go/ast) into a term of `WS` on every run
(`Hive/Gen/C08_Loop.lean`): the loop with the loads of its condition in order, the creation of the collector, the
closure `collectValues` with its `select`, the flush loop.  `compile` inlines the closure at its call and lays the term
out as an instruction list with explicit jump targets; `stepD` gives the list its meaning on the shared state of the
protocol model (the goroutine's locals — collector contents, `shouldFlush` — live in `St`, as in the hand-written
model): one *resting* instruction (a load of the loop condition, a `select`, `BatchCollector.Add`, `BatchCollector.Commit`,
`writeWg.Done`) per step, followed by the goroutine-local instructions up to the next resting one (`runLocal`: jumps,
`shouldFlush = …`, `if shouldFlush`, a new collector, the timer).  `Add` and `Commit` are the collector's functions,
whose own derivation is `Hive/Props/BatchWriterColl.lean`; here they take the micro-steps of the protocol model (reset,
decrement, BatchWrite; commit, Done …).  `Hive/Props/BatchWriterLoop.lean` proves that `stepWriter` is `stepD` of the
generated program, program counter by instruction index.  Core Lean only.
-/
namespace Hive.BatchWriter.Loop
open Hive.Spec.BatchWriter

inductive Load
  | running | countNonZero | unsupported (text : String)
deriving DecidableEq, Repr

inductive Comm
  | recvQueue | recvFlush | recvTimer | dflt | unsupported (text : String)
deriving DecidableEq, Repr

inductive WS
  | forCond (loads : List Load) (body : List WS)   -- for l1 || l2 { body }
  | forever (label : String) (body : List WS)      -- [label:] for { body }
  | select (cases : List (Comm × List WS))
  | newCollector                                   -- Batched(); panic on error; batchCollector (:)= newBatchCollector(…)
  | setFlush (b : Bool)                            -- shouldFlush (:)= b
  | timer                                          -- time.NewTimer(bw.opts.batchTimeout); defer timeutil.CleanupTimer(…)
  | defCollect (body : List WS)                    -- collectValues := func() { body }
  | callCollect                                    -- collectValues()
  | collect (body : List WS)                       -- the call with the closure's body inlined (`inlineTop`)
  | ifFlush (thn : List WS)                        -- if shouldFlush { thn }
  | ifAdd (thn : List WS)                          -- if batchCollector.Add(objectToPersist) { thn }
  | commit                                         -- if err := batchCollector.Commit(); err != nil { panic(err) }
  | ret | brk (label : String) | wgDone
  | unsupported (text : String)

inductive WI
  | brLoad (l : Load) (yes no : Nat)
  | select (alts : List (Comm × Nat))
  | add (full notFull : Nat)
  | commit | wgDone
  | newCollector | setFlush (b : Bool) | timer
  | jmp (t : Nat) (endIter : Bool)      -- return / break / end of a case / back-edge; `endIter`: the back-edge of the outer loop
  | brFlush (no : Nat)
  | unsupported
deriving DecidableEq, Repr

/-- `collectValues()` with the closure defined in the same block inlined at the call -/
def inlineL (body : List WS) : List WS :=
  match body.findSome? (fun s => match s with | .defCollect b => some b | _ => none) with
  | none => body
  | some b => body.filterMap (fun s => match s with
      | .defCollect _ => none
      | .callCollect => some (.collect b)
      | s => some s)

def inlineTop (p : List WS) : List WS :=
  p.map (fun s => match s with
    | .forCond loads body => .forCond loads (inlineL body)
    | s => s)

mutual
def sizeS : WS → Nat
  | .forCond loads body => loads.length + sizeL body + 1
  | .forever _ body => sizeL body + 1
  | .select cases => 1 + sizeC cases
  | .defCollect _ => 0
  | .collect body => sizeL body
  | .ifFlush thn => 1 + sizeL thn
  | .ifAdd thn => 1 + sizeL thn
  | _ => 1
def sizeL : List WS → Nat
  | [] => 0
  | s :: rest => sizeS s + sizeL rest
def sizeC : List (Comm × List WS) → Nat
  | [] => 0
  | c :: rest => sizeL c.2 + 1 + sizeC rest
end

def lookupBrk (l : String) : List (String × Nat) → Nat
  | [] => 0
  | (k, t) :: rest => if k = l then t else lookupBrk l rest

def loadInstrs (base k exit : Nat) : Nat → List Load → List WI
  | _, [] => []
  | i, l :: rest => .brLoad l (base + k) (if i + 1 < k then base + i + 1 else exit) :: loadInstrs base k exit (i + 1) rest

mutual
def emitS (base retT : Nat) (brk : List (String × Nat)) : WS → List WI
  | .forCond loads body =>
    let k := loads.length
    loadInstrs base k (base + k + sizeL body + 1) 0 loads ++ emitL (base + k) retT brk body ++ [.jmp base true]
  | .forever l body => emitL base retT ((l, base + sizeL body + 1) :: brk) body ++ [.jmp base false]
  | .select cases => .select (altsC (base + 1) cases) :: emitC (base + 1) (base + 1 + sizeC cases) retT brk cases
  | .newCollector => [.newCollector]
  | .setFlush b => [.setFlush b]
  | .timer => [.timer]
  | .defCollect _ => []
  | .callCollect => [.unsupported]
  | .collect body => emitL base (base + sizeL body) brk body
  | .ifFlush thn => .brFlush (base + 1 + sizeL thn) :: emitL (base + 1) retT brk thn
  | .ifAdd thn => .add (base + 1) (base + 1 + sizeL thn) :: emitL (base + 1) retT brk thn
  | .commit => [.commit]
  | .ret => [.jmp retT false]
  | .brk l => [.jmp (lookupBrk l brk) false]
  | .wgDone => [.wgDone]
  | .unsupported _ => [.unsupported]
def emitL (base retT : Nat) (brk : List (String × Nat)) : List WS → List WI
  | [] => []
  | s :: rest => emitS base retT brk s ++ emitL (base + sizeS s) retT brk rest
def emitC (base endT retT : Nat) (brk : List (String × Nat)) : List (Comm × List WS) → List WI
  | [] => []
  | c :: rest => emitL base retT brk c.2 ++ [.jmp endT false] ++ emitC (base + sizeL c.2 + 1) endT retT brk rest
def altsC (base : Nat) : List (Comm × List WS) → List (Comm × Nat)
  | [] => []
  | c :: rest => (c.1, base) :: altsC (base + sizeL c.2 + 1) rest
end

def compile (p : List WS) : List WI := emitL 0 0 [] (inlineTop p)

/-! ### Meaning -/

/-- where inside `Add` / `Commit` the goroutine is -/
inductive Phase
  | top | dec | write | done
deriving DecidableEq, Repr

/-- one goroutine-local instruction (`none`: `i` is a resting instruction) -/
def localStep (s : St) (pc : Nat) : WI → Option (St × Nat)
  | .newCollector => some ({ s with batch := [], muts := [], todo := [] }, pc + 1)
  | .setFlush b => some ({ s with fl := b }, pc + 1)
  | .timer => some (s, pc + 1)
  | .jmp t endIter =>
    -- the back-edge of the outer loop: the variables declared in its body (`batchCollector`, `shouldFlush`) are gone
    some (if endIter then { s with fl := false, batch := [], muts := [], todo := [] } else s, t)
  | .brFlush no => some (s, if s.fl then pc + 1 else no)
  | _ => none

def runLocal (prog : List WI) : Nat → St × Nat → St × Nat
  | 0, x => x
  | fuel + 1, (s, pc) =>
    match prog[pc]? with
    | none => (s, pc)
    | some i =>
      match localStep s pc i with
      | none => (s, pc)
      | some x => runLocal prog fuel x

/-- `armed`: the channel of the time-out alternative can become ready.  `time.NewTimer(d)` arms its channel for every `d`
(a duration ≤ 0 fires at once), so for the code as it is `armed = true` whatever `WithBatchTimeout` was given; a nil
channel (a "disabled" time-out) is `armed = false`. -/
def selectAlt (s : St) (armed : Bool := true) : Comm × Nat → List (St × Nat)
  | (.recvQueue, t) =>
    match s.queue with
    | [] => []
    | o :: rest => [({ s with queue := rest, rcv := upd s.rcv o (s.rcv o + 1), wcur := o }, t)]
  | (.recvFlush, t) => if s.flushCh then [({ s with flushCh := false }, t)] else []
  | (.recvTimer, t) => if armed then [(s, t)] else []   -- the timer may have fired at any moment
  | (.dflt, t) => if s.queue = [] then [(s, t)] else []   -- `default`: only when no other case is ready
  | (.unsupported _, _) => []

/-- one resting instruction; successors are (state, instruction index, phase) -/
def restStep (s : St) (pc : Nat) (ph : Phase) (armed : Bool := true) : WI → List (St × Nat × Phase)
  | .brLoad .running yes no => [(s, if s.running then yes else no, .top)]
  | .brLoad .countNonZero yes no => [(s, if s.count ≠ 0 then yes else no, .top)]
  | .brLoad (.unsupported _) _ _ => []
  | .select alts => (alts.flatMap (selectAlt s armed)).map (fun x => (x.1, x.2, .top))
  | .add full notFull =>
    match ph with
    | .top => [(emit (.reset s.wcur) { s with flag := upd s.flag s.wcur false, rst := upd s.rst s.wcur (s.rst s.wcur + 1) }, pc, .dec)]
    | .dec => [({ s with count := s.count - 1 }, pc, .write)]
    | _ =>
      let s1 := emit (.write s.wcur (s.ver s.wcur))
        { s with batch := s.batch ++ [s.wcur], muts := s.muts ++ [(s.wcur, s.ver s.wcur)] }
      [(s1, if s.bsize ≤ s.batch.length + 1 then full else notFull, .top)]
  | .commit =>
    match ph with
    | .done =>
      match s.todo with
      | [] => [(s, pc + 1, .top)]
      | o :: rest => [(emit (.done o) { s with todo := rest }, pc, .done)]
    | _ =>
      match s.batch with
      | [] => [(s, pc + 1, .top)]
      | _ :: _ => [(emit .commit { s with store := applyMuts s.muts s.store, todo := s.batch, batch := [], muts := [] }, pc, .done)]
  | .wgDone => [({ s with wg := s.wg - 1 }, pc + 1, .top)]
  | _ => []

/-- the derived writer: the resting instruction at `pc`, then the local instructions up to the next resting one -/
def stepD (prog : List WI) (s : St) (pc : Nat) (ph : Phase) (armed : Bool := true) : List (St × Nat × Phase) :=
  match prog[pc]? with
  | none => []
  | some i =>
    (restStep s pc ph armed i).map (fun x =>
      if x.2.2 = .top then
        let y := runLocal prog 8 (x.1, x.2.1)
        (y.1, y.2, .top)
      else x)

end Hive.BatchWriter.Loop
