import Hive.Model.C12aShrink
import Hive.Conc.Sys
/-!
# ShrinkingMap under several callers: callbacks run inside the critical section (C12)

`ShrinkingMap.Delete(key, condition)`, `Compute(key, f)` and `GetOrCreate(key, f)` take the map's
write lock *first* and call the function they were given while holding it.  Hence the verdict of a
delete condition (a function of the map state: "the value under `k` is `x`") is a verdict about the
very state in which the removal takes effect: `Delete` with a condition is one atomic step of the
plain map.  This file has

* the atomic specification `spec` of the operations used by the forced schedules of the harness
  (a `Shrink.specStep` whose condition is evaluated on the current map),
* a small linearizability checker `search` for recorded histories (what `drv_c12` answers the `cb`
  lines with),
* the lock protocol as a `Hive.Conc.Sys` (any number of callers, any operations): `want → inCb →
  eff → rel → done`; `sys true` is the broken variant that evaluates the callback *before* taking the
  lock (seeded change C12-r2-1).
-/
namespace Hive.C12a.Cb

open Hive.C12a Hive.Conc

/-- Operations of the callers. -/
inductive LOp
  | delIfEq (k x : Nat)     -- Delete(k, func() bool { return value under k == x })
  | set (k v : Nat)
  | compute (k d : Nat)
  | goc (k v : Nat)
  | get (k : Nat)
  | del (k : Nat)
  | snap                    -- ForEach / AsMap: a snapshot of all bindings
deriving Repr, DecidableEq

/-- The delete condition as a function of the map state. -/
def condOf (m : AL Nat) (k x : Nat) : Bool := AL.get m k == some x

/-- What the callback of `o` answers on map `m` (only `Delete`'s condition has a verdict). -/
def cbVal (m : AL Nat) : LOp → Bool
  | .delIfEq k x => condOf m k x
  | _ => true

/-- The plain-map operation carried out once the callback answered `b`. -/
def toOp : LOp → Bool → Shrink.Op
  | .delIfEq k _, b => .delif k b
  | .set k v, _ => .set k v
  | .compute k d, _ => .compute k d
  | .goc k v, _ => .goc k v
  | .get k, _ => .get k
  | .del k, _ => .del k
  | .snap, _ => .asMap

/-- **Atomic specification**: the condition is evaluated on the state in which the operation takes
effect. -/
def spec (m : AL Nat) (o : LOp) : AL Nat × Shrink.Out := Shrink.specStep m (toOp o (cbVal m o))

/-! ## recorded histories and the linearizability check -/

structure Ev where
  op : LOp
  inv : Nat
  res : Nat
  out : Shrink.Out
deriving Repr, DecidableEq

def insPair (p : Nat × Nat) : List (Nat × Nat) → List (Nat × Nat)
  | [] => [p]
  | q :: t => if p.1 ≤ q.1 then p :: q :: t else q :: insPair p t

/-- Snapshots are compared up to the order of the bindings (sorted by key; keys are distinct). -/
def norm : Shrink.Out → Shrink.Out
  | .pairs l => .pairs (l.foldr insPair [])
  | o => o

/-- `e` may be linearised next: no operation still to place returned before `e` was invoked. -/
def minimal (e : Ev) (todo : List Ev) : Bool := todo.all (fun o => !decide (o.res < e.inv))

def outOk (m : AL Nat) (e : Ev) : Bool := decide (norm (spec m e.op).2 = norm e.out)

/-- Backtracking search for a linearisation (fuel = number of operations). -/
def search : Nat → AL Nat → List Ev → Bool
  | 0, _, todo => todo.isEmpty
  | f + 1, m, todo =>
    todo.isEmpty || todo.any (fun e => minimal e todo && outOk m e && search f (spec m e.op).1 (todo.erase e))

/-- A witness order: every operation placed before another one was invoked before that one
returned, and the specification run in this order gives the recorded answers. -/
def validFrom (m : AL Nat) : List Ev → Bool
  | [] => true
  | e :: rest => minimal e (e :: rest) && outOk m e && validFrom (spec m e.op).1 rest

def Linearizable (m : AL Nat) (h : List Ev) : Prop := ∃ w : List Ev, w.Perm h ∧ validFrom m w = true

def linOk (m : AL Nat) (h : List Ev) : Bool := search h.length m h

/-! ## the lock protocol -/

structure Sh where
  m : AL Nat
  locked : Bool
  log : List (LOp × Shrink.Out)   -- ghost: completed critical sections in order
deriving Repr

inductive Pc
  | want (o : LOp)
  | pre (o : LOp) (b : Bool)          -- broken variant only: callback evaluated, lock not yet taken
  | inCb (o : LOp)                    -- lock held, callback about to run
  | eff (o : LOp) (b : Bool)          -- callback answered b
  | rel (o : LOp) (out : Shrink.Out)  -- effect applied, about to unlock
  | done (o : LOp) (out : Shrink.Out)
deriving Repr, DecidableEq

/-- `early = false` is the code (lock, callback, effect, unlock); `early = true` evaluates the
callback before the lock. -/
def sys (early : Bool) : Sys Sh Pc where
  step s
    | .want o =>
      if early then [(s, .pre o (cbVal s.m o))]
      else if s.locked then [] else [({ s with locked := true }, .inCb o)]
    | .pre o b => if s.locked then [] else [({ s with locked := true }, .eff o b)]
    | .inCb o => [(s, .eff o (cbVal s.m o))]
    | .eff o b =>
      let r := Shrink.specStep s.m (toOp o b)
      [({ s with m := r.1, log := s.log ++ [(o, r.2)] }, .rel o r.2)]
    | .rel o out => [({ s with locked := false }, .done o out)]
    | .done _ _ => []

def inCrit : Pc → Bool
  | .inCb _ => true
  | .eff _ _ => true
  | .rel _ _ => true
  | _ => false

/-- Replays a log on the atomic specification; `none` when an answer differs. -/
def replay : AL Nat → List (LOp × Shrink.Out) → Option (AL Nat)
  | m, [] => some m
  | m, (o, out) :: rest => if (spec m o).2 = out then replay (spec m o).1 rest else none

def start (m : AL Nat) (ops : List LOp) : Cfg Sh Pc := ({ m := m, locked := false, log := [] }, ops.map .want)

/-! ## line protocol (`cb …`): one recorded history per line

`cb lin i <k:v>… e <kind> <args> <inv> <res> <out tokens> e …` → `accept` / `reject not-linearizable` -/
open Hive.Proto

def parsePair (t : String) : Option (Nat × Nat) :=
  match t.splitOn ":" with
  | [a, b] => do pure ((← a.toNat?), (← b.toNat?))
  | _ => none

def parsePairs : List String → Option (AL Nat)
  | [] => some []
  | t :: ts => do
      let p ← parsePair t
      let r ← parsePairs ts
      pure (p :: r)

/-- Splits at the separator token `e`. -/
def splitEv : List String → List String → List (List String) → List (List String)
  | [], cur, acc => (acc ++ [cur])
  | t :: ts, cur, acc => if t == "e" then splitEv ts [] (acc ++ [cur]) else splitEv ts (cur ++ [t]) acc

/-- The recorded answer, read according to the kind of the operation. -/
def parseOut : LOp → List String → Option Shrink.Out
  | .delIfEq _ _, [b] => do pure (.bool (← parseBool b))
  | .set _ _, [b] => do pure (.bool (← parseBool b))
  | .del _, [b] => do pure (.bool (← parseBool b))
  | .compute _ _, [v] => do pure (.nat (← v.toNat?))
  | .goc _ _, [v, b] => do pure (.valb (← v.toNat?) (← parseBool b))
  | .get _, ["none"] => some (.val none)
  | .get _, [v] => do pure (.val (some (← v.toNat?)))
  | .snap, toks =>
    let txt := " ".intercalate toks
    match txt.toList with
    | '[' :: rest =>
      if rest.getLast? = some ']' then do pure (.pairs (← parsePairs (words (String.ofList rest.dropLast))))
      else none
    | _ => none
  | _, _ => none

def mkEv (op : LOp) (inv res : String) (out : List String) : Option Ev := do
  pure { op := op, inv := (← inv.toNat?), res := (← res.toNat?), out := (← parseOut op out) }

def parseEv : List String → Option Ev
  | "delifeq" :: k :: x :: inv :: res :: out => do mkEv (.delIfEq (← k.toNat?) (← x.toNat?)) inv res out
  | "set" :: k :: v :: inv :: res :: out => do mkEv (.set (← k.toNat?) (← v.toNat?)) inv res out
  | "compute" :: k :: d :: inv :: res :: out => do mkEv (.compute (← k.toNat?) (← d.toNat?)) inv res out
  | "goc" :: k :: v :: inv :: res :: out => do mkEv (.goc (← k.toNat?) (← v.toNat?)) inv res out
  | "get" :: k :: inv :: res :: out => do mkEv (.get (← k.toNat?)) inv res out
  | "del" :: k :: inv :: res :: out => do mkEv (.del (← k.toNat?)) inv res out
  | "snap" :: inv :: res :: out => mkEv .snap inv res out
  | _ => none

def parseEvs : List (List String) → Option (List Ev)
  | [] => some []
  | t :: ts => do
      let e ← parseEv t
      let r ← parseEvs ts
      pure (e :: r)

def stepLine (toks : List String) : String :=
  match toks with
  | "new" :: _ => "ok"
  | "lin" :: "i" :: rest =>
    match splitEv rest [] [] with
    | ini :: evs =>
      match parsePairs ini, parseEvs evs with
      | some m, some h => if h.length ≤ 8 then (if linOk m h then "accept" else "reject not-linearizable") else "bad-op"
      | _, _ => "bad-op"
    | [] => "bad-op"
  | _ => "bad-op"

end Hive.C12a.Cb
