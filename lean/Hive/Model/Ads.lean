import Hive.Base.Proto
/-!
# Model of `ads.Map` / `ads.Set` (ads/map_impl.go, ads/set_impl.go) for C09

What is modelled is the hive.go glue, as it is written:

* `has(key) = tree.Get(key) != nil`;
* `Set`: encode value, encode key, `has`, `tree.Update`, raw-key mirror `Set`, and only when the key
  was absent `addSize(1)`; a value whose serializer returns a nil slice is stored as the empty
  value (repaired code, see `design/C09.md`);
* `Delete`: encode key, `has`; absent ⇒ `(false, nil)` and nothing is touched; otherwise
  `tree.Delete`, raw-key mirror `Delete`, `addSize(-1)`;
* `addSize`: read the size (absent ⇒ 0), write `size + delta`;  `Size()`: absent ⇒ 0;
* `Get`: `tree.Get`, nil ⇒ not found, otherwise decode and insist that everything was consumed;
* `Stream`: iterate the raw-key mirror in the store's key order, `tree.Get` each key, decode (the
  consumed count is ignored here), hand the pair to the callback, stop at the first error;
* `Commit`: store `tree.Root()` under the root key, then flush the trie;
* the constructor: the size / root values and the raw keys live directly in the store (they are
  *not* buffered until `Commit`); the trie is imported from the stored root if there is one and is
  a new empty trie otherwise;
* `WasRestoredFromStorage()`: the root key is present.

The third-party trie (pokt-network/smt with the value hasher disabled) is **abstract**: its state
is `{mem, disk}` — the key→value contents of the in-memory trie and the contents that the last
`Commit` flushed to the node store — and its `Root()` is `rootOf` of the contents *as a function*
`Key → Option Val`, for a function `rootOf` about which nothing is assumed.  `Hive/Model/AdsTrie.lean`
replaces this abstraction by a path-compressed sparse Merkle trie over an abstract hash.

One instance is live per store at a time: `reopen` abandons the live object and constructs a new
one over the same store (also when un-committed changes exist — the model follows the code there,
the *property* only speaks about reopening at commit points).

The size is an `Int`: Go computes `uint64(int(size) + delta)` and reports `int(size)`, which agrees
with unbounded integers for histories shorter than 2^63 operations.
-/
namespace Hive.Ads

abbrev Key := List UInt8
abbrev Val := List UInt8
abbrev KV := List (Key × Val)

/-! ## association lists -/

def kvGet (k : Key) : KV → Option Val
  | [] => none
  | (k', v) :: l => if k' = k then some v else kvGet k l

/-- removes every entry of `k` -/
def kvErase (k : Key) : KV → KV
  | [] => []
  | (k', v) :: l => if k' = k then kvErase k l else (k', v) :: kvErase k l

def kvPut (k : Key) (v : Val) (l : KV) : KV := (k, v) :: kvErase k l

/-- Go's `<` on strings (the order in which mapdb iterates keys). -/
def ltBytes : List UInt8 → List UInt8 → Bool
  | [], [] => false
  | [], _ :: _ => true
  | _ :: _, [] => false
  | a :: as, b :: bs => a.toNat < b.toNat || (a.toNat == b.toNat && ltBytes as bs)

/-- Position of a new key in a store that iterates in key order. -/
def insertAt (k : Key) : List Key → List Key
  | [] => [k]
  | x :: xs => if ltBytes k x then k :: x :: xs else x :: insertAt k xs

/-- `store.Set(k, {})` on a store that iterates in key order: an existing key stays where it is. -/
def insertSorted (k : Key) (l : List Key) : List Key := if k ∈ l then l else insertAt k l

/-! ## the abstract trie -/

structure Trie where
  /-- contents of the in-memory trie -/
  mem : KV
  /-- contents flushed to the node store by the last `Commit` (`none`: nothing was ever flushed) -/
  disk : Option KV
deriving Repr

namespace Trie
/-- `tree.Get`: `none` is Go's nil slice. -/
def get (t : Trie) (k : Key) : Option Val := kvGet k t.mem
def update (t : Trie) (k : Key) (v : Val) : Trie := { t with mem := kvPut k v t.mem }
/-- `tree.Delete`: fails with `ErrKeyNotFound` when the key is absent. -/
def delete (t : Trie) (k : Key) : Option Trie :=
  if (kvGet k t.mem).isSome then some { t with mem := kvErase k t.mem } else none
def commit (t : Trie) : Trie := { t with disk := some t.mem }
/-- the contents as a function: the argument of `rootOf` -/
def fn (t : Trie) : Key → Option Val := fun k => kvGet k t.mem
/-- `smt.NewSparseMerkleTrie` over a node store -/
def fresh (disk : Option KV) : Trie := { mem := [], disk := disk }
/-- `smt.ImportSparseMerkleTrie` over a node store: resolves the flushed nodes lazily -/
def imported (disk : Option KV) : Trie := { mem := disk.getD [], disk := disk }
end Trie

/-! ## the glue -/

/-- Result of `bytesToValue`. -/
inductive Dec
  | ok        -- decoded, consumed everything
  | short     -- decoded, consumed less than everything
  | fail      -- error
deriving DecidableEq, Repr

/-- What the model is parametric in: the root function of the trie and the value decoder. -/
structure Cfg (R : Type) where
  rootOf : (Key → Option Val) → R
  dec : Val → Dec

structure St (R : Type) where
  trie : Trie
  /-- realm 0: the raw keys, in the store's iteration order -/
  rawKeys : List Key
  /-- key 3 -/
  size : Option Int
  /-- key 2 -/
  rootKey : Option R

def init {R : Type} : St R := { trie := Trie.fresh none, rawKeys := [], size := none, rootKey := none }

/-- How the callback handed to `Stream` behaves: it records the pair and fails on its `n`-th call
(`0`: never). -/
abbrev StopAfter := Nat

inductive Op
  /-- `Set(key, value)`; `none` = the serializer of that argument fails -/
  | set (k : Option Key) (v : Option Val)
  | get (k : Option Key)
  | has (k : Option Key)
  | del (k : Option Key)
  | size
  | stream (stop : StopAfter)
  | commit
  | root
  | restored
  | reopen
deriving DecidableEq, Repr

inductive StreamEnd
  | ok
  | errCb    -- the callback returned an error
  | errDec   -- a value did not decode
deriving DecidableEq, Repr

inductive Out (R : Type)
  | ok
  | errVal           -- "failed to serialize value"
  | errKey           -- "failed to serialize key"
  | errTree          -- the trie refused (unreachable: guarded by `has`)
  | found (v : Val)
  | notfound
  | errDec           -- "failed to deserialize value"
  | errPartial       -- "failed to parse entire value"
  | bool (b : Bool)
  | deleted (b : Bool)
  | size (n : Int)
  | streamed (ps : KV) (e : StreamEnd)
  | root (r : R)
  | restored (b : Bool)

def has {R : Type} (s : St R) (kb : Key) : Bool := (s.trie.get kb).isSome

def addSize {R : Type} (s : St R) (d : Int) : St R := { s with size := some (s.size.getD 0 + d) }

def sizeOf {R : Type} (s : St R) : Int := s.size.getD 0

/-- The loop of `Stream` over the raw keys still to be visited; `seen` = pairs handed to the
callback so far, newest first. -/
def streamGo (dec : Val → Dec) (t : Trie) (stop : StopAfter) : List Key → KV → KV × StreamEnd
  | [], seen => (seen.reverse, .ok)
  | k :: ks, seen =>
    let vb := (t.get k).getD []          -- a nil slice decodes like the empty slice
    match dec vb with
    | .fail => (seen.reverse, .errDec)
    | _ =>
      let seen' := (k, vb) :: seen
      if seen'.length = stop then (seen'.reverse, .errCb) else streamGo dec t stop ks seen'

def step {R : Type} (c : Cfg R) (s : St R) : Op → St R × Out R
  | .set k v =>
    match v with
    | none => (s, .errVal)
    | some vb =>
      match k with
      | none => (s, .errKey)
      | some kb =>
        let h := has s kb
        let s1 := { s with trie := s.trie.update kb vb, rawKeys := insertSorted kb s.rawKeys }
        (if h then s1 else addSize s1 1, .ok)
  | .get k =>
    match k with
    | none => (s, .errKey)
    | some kb =>
      match s.trie.get kb with
      | none => (s, .notfound)
      | some vb =>
        match c.dec vb with
        | .fail => (s, .errDec)
        | .short => (s, .errPartial)
        | .ok => (s, .found vb)
  | .has k =>
    match k with
    | none => (s, .errKey)
    | some kb => (s, .bool (has s kb))
  | .del k =>
    match k with
    | none => (s, .errKey)
    | some kb =>
      if has s kb then
        match s.trie.delete kb with
        | none => (s, .errTree)
        | some t' => (addSize { s with trie := t', rawKeys := s.rawKeys.filter (· ≠ kb) } (-1), .deleted true)
      else (s, .deleted false)
  | .size => (s, .size (sizeOf s))
  | .stream stop =>
    let (ps, e) := streamGo c.dec s.trie stop s.rawKeys []
    (s, .streamed ps e)
  | .commit => ({ s with rootKey := some (c.rootOf s.trie.fn), trie := s.trie.commit }, .ok)
  | .root => (s, .root (c.rootOf s.trie.fn))
  | .restored => (s, .restored s.rootKey.isSome)
  | .reopen =>
    ({ s with trie := match s.rootKey with
                      | some _ => Trie.imported s.trie.disk
                      | none => Trie.fresh s.trie.disk }, .ok)

def run {R : Type} (c : Cfg R) (s : St R) : List Op → St R × List (Out R)
  | [] => (s, [])
  | op :: ops =>
    let (s', o) := step c s op
    let (s'', os) := run c s' ops
    (s'', o :: os)

def final {R : Type} (c : Cfg R) (s : St R) (ops : List Op) : St R :=
  ops.foldl (fun s op => (step c s op).1) s

/-! ## the unrepaired `Set` with a nil-encoded value (regression witness only)

Before the repair a value whose serializer returned a nil slice reached `tree.Update` as nil: the
leaf existed (root, raw keys and size changed) but `tree.Get` answered nil, i.e. "absent". -/

/-- state of the old code: the abstract trie plus the keys whose leaf holds a nil value -/
structure OldSt where
  rawKeys : List Key
  size : Int
  nilLeaves : List Key
deriving Repr

/-- old `Set(k, nilValue)` on a map that holds no other value for `k` -/
def oldSetNil (s : OldSt) (k : Key) : OldSt :=
  -- `has` is false (the trie answers nil for the leaf), so the size is increased every time
  { rawKeys := insertSorted k s.rawKeys, size := s.size + 1, nilLeaves := insertSorted k s.nilLeaves }

/-- old `Has(k)` for such a key -/
def oldHasNil (_ : OldSt) (_ : Key) : Bool := false

/-! ## line protocol: codecs, answers, requests (the sessions are in `Hive/Model/AdsRealm.lean`) -/
open Hive.Proto

/-- The serializers of the harness: a key / value whose first byte is `0xEE` does not encode. -/
def encArg (b : List UInt8) : Option (List UInt8) :=
  match b with
  | x :: _ => if x.toNat = 0xEE then none else some b
  | [] => some b

/-- The value decoder of the harness: first byte `0xDD` fails, first byte `0xCC` consumes all but
one byte. -/
def harnessDec (v : Val) : Dec :=
  match v with
  | x :: _ => if x.toNat = 0xDD then .fail else if x.toNat = 0xCC then .short else .ok
  | [] => .ok

/-- The driver's root type: the contents themselves (an injective `rootOf`). -/
abbrev R0 := Key → Option Val

def cfg0 : Cfg R0 := { rootOf := id, dec := harnessDec }

/-- Decidable extensional equality of two association lists. -/
def sameKV (a b : KV) : Bool :=
  a.all (fun p => kvGet p.1 a == kvGet p.1 b) && b.all (fun p => kvGet p.1 a == kvGet p.1 b)

/-- Index of the first element of `pts` with the same contents as `m` (`pts.length` if none). -/
def classOf (m : KV) : List KV → Nat
  | [] => 0
  | p :: ps => if sameKV p m then 0 else classOf m ps + 1

def showKV (ps : KV) : String :=
  "[" ++ " ".intercalate (ps.map (fun p => hex p.1 ++ "=" ++ hex p.2)) ++ "]"

def showEnd : StreamEnd → String
  | .ok => "ok"
  | .errCb => "err-cb"
  | .errDec => "err-dec"

def showOut : Out R0 → String
  | .ok => "ok"
  | .errVal => "err-val"
  | .errKey => "err-key"
  | .errTree => "err-tree"
  | .found v => "found " ++ hex v
  | .notfound => "notfound"
  | .errDec => "err-dec"
  | .errPartial => "err-partial"
  | .bool b => showBool b
  | .deleted b => "deleted " ++ showBool b
  | .size n => s!"size {n}"
  | .streamed ps e => "stream " ++ showKV ps ++ " " ++ showEnd e
  | .root _ => "root"
  | .restored b => "restored " ++ showBool b

/-- A value token: hex, `-` for the empty slice, `nil` for a nil slice (stored as the empty value). -/
def parseVal (s : String) : Option (List UInt8) := if s == "nil" then some [] else unhex s

def parseOp : List String → Option Op
  | ["set", k, v] => do
      let kb ← unhex k
      let vb ← parseVal v
      pure (.set (encArg kb) (encArg vb))
  | ["add", k] => do
      let kb ← unhex k
      pure (.set (encArg kb) (some []))
  | ["get", k] => (unhex k).map (fun kb => .get (encArg kb))
  | ["has", k] => (unhex k).map (fun kb => .has (encArg kb))
  | ["del", k] => (unhex k).map (fun kb => .del (encArg kb))
  | ["size"] => some .size
  | ["stream", n] => n.toNat?.map .stream
  | ["commit"] => some .commit
  | ["root"] => some .root
  | ["restored"] => some .restored
  | ["reopen"] => some .reopen
  | _ => none

end Hive.Ads
