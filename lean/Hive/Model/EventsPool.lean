import Hive.Conc.Sys
/-!
# Pooled hooks: "by the time the pool has drained" (C15)

`Trigger` submits one task per pooled hook (`workerPool.Submit(func() { hook.trigger(args) })`) in attachment order and
returns; workers of the pool pop tasks, run them, and mark them done.  `Submit` increases the pool's pending-tasks counter
before the task is queued, `markDone` decreases it after the task ran; the harness (and every user who wants the
results) waits for `PendingTasksCounter.WaitIsZero()` — "the pool has drained".

Model (`Sys`): tasks are natural numbers (the index of the invocation in the trigger's log); any number of submitting
threads (`Trigger` calls with their lists of pooled invocations — several triggers, several events sharing the pool),
any number of workers.  Ghost: `submitted`, `executed`.  The pool itself is C16's subject; this model has only what the
C15 clause needs: a queue, the workers' current task, the counter.
-/
namespace Hive.EventsPool
open Hive.Conc

structure Sh where
  queue : List Nat
  pending : Nat            -- PendingTasksCounter
  submitted : List Nat     -- ghost: every task ever submitted, in submission order
  executed : List Nat      -- ghost: every task whose function has run, in execution order
deriving DecidableEq, Repr

inductive Th
  | sub (todo : List Nat)   -- a `Trigger` that still has to submit the pooled invocations `todo`
  | idle                    -- a worker waiting for a task
  | run (t : Nat)           -- a worker that popped task `t` and is about to run it
  | done (t : Nat)          -- a worker whose task has run, about to `markDone` (counter decrease)
deriving DecidableEq, Repr

def step (s : Sh) : Th → List (Sh × Th)
  | .sub [] => []
  | .sub (t :: rest) =>
    [({ s with queue := s.queue ++ [t], pending := s.pending + 1, submitted := s.submitted ++ [t] }, .sub rest)]
  | .idle =>
    match s.queue with
    | [] => []
    | t :: q => [({ s with queue := q }, .run t)]
  | .run t => [({ s with executed := s.executed ++ [t] }, .done t)]
  | .done _ => [({ s with pending := s.pending - 1 }, .idle)]

def sys : Sys Sh Th := { step := step }

def init : Sh := { queue := [], pending := 0, submitted := [], executed := [] }

def Th.initial : Th → Bool
  | .sub _ => true
  | .idle => true
  | _ => false

end Hive.EventsPool
