import Hive.Model.DeserBase
/-!
# Model of serix `MapDecode` / `JSONDecode` (serializer/serix/map_decode.go) — C02, JSON totality

What is modelled is the *dispatch on the kind of the JSON value* for every kind of target type, i.e.
every place where map_decode.go looks at the dynamic type of a decoded JSON value, plus the string
syntaxes that decide between `ok` and `err` (strconv.ParseInt/ParseUint/ParseFloat in base 10,
hexutil.Decode/DecodeBig, min/max length bounds and UTF-8 validity under validation).  The result
is the outcome class only (`ok | err | panic`); the decoded values are the business of C01.

`Cfg.checked = true` is the code after `fix:` 63f234d (every type assertion checked); with
`checked = false` the assertion sites panic the way the old code did (used by witness theorems only;
for a non-array value where a slice is expected the old outcome depended on the element type and is
given as `panic`).
-/
namespace Hive.JsonDec
open Hive.Dec

/-- a decoded JSON document (`encoding/json` into `any`); numbers carry their integer part only -/
inductive Json
  | null
  | bool (b : Bool)
  | num (i : Int)
  | str (s : Bytes)
  | arr (xs : List Json)
  | obj (kvs : List (Bytes × Json))

/-- kinds of struct fields: required, optional/omitempty, embedded struct, inlined -/
inductive FKind
  | req | opt | emb | inl
deriving Repr, DecidableEq

mutual
/-- what decides the JSON shape of a Go target type -/
inductive JTy
  | bool
  | str (min max : Nat)
  | f64                         -- int8/16/32, uint8/16/32: a JSON number
  | i64 | u64                   -- decimal strings
  | flt (bits : Nat)            -- float32/64: a string parsed by strconv.ParseFloat
  | big                         -- *big.Int: 0x-prefixed hex number
  | time                        -- time.Time: decimal string of nanoseconds
  | hex (min max : Nat)         -- []byte: 0x-prefixed hex string
  | harr                        -- [N]byte by value
  | pharr (key : Bytes)         -- *[N]byte / [N]byte of a type registered with an object code: {key: hex}
  | ohex (key : Bytes) (min max : Nat)  -- a []byte type registered with an object code: {key: hex}, bounds under validation
  | cstr                        -- a type that decodes itself (DeserializableJSON) from a string; a registered syntactic validator refuses "bad"
  | cnum                        -- a type that decodes itself (value receiver) from a number
  | sl (min max : Nat) (e : JTy)
  | arr (n : Nat) (e : JTy)
  | map (min max : Nat) (k v : JTy)
  | st (code : Option Nat) (fs : JFields)
  | iface (alts : JAlts)
  | ifu                         -- interface without registered objects
  | uns                         -- kinds map_decode.go does not support (pointer to a basic type, complex, chan, …)
inductive JFields
  | nil
  | cons (key : Bytes) (kind : FKind) (ty : JTy) (rest : JFields)
inductive JAlts
  | nil
  | cons (code : Nat) (ty : JTy) (rest : JAlts)
end

structure Cfg where
  checked : Bool
  validate : Bool
deriving Repr, DecidableEq

/-- an assertion site on a value of the wrong kind -/
def bad (c : Cfg) : Res := if c.checked then .err else .panic

/-! ### the string syntaxes -/

def isDigit (c : UInt8) : Bool := 48 ≤ c && c ≤ 57
def isHexDigit (c : UInt8) : Bool := isDigit c || (97 ≤ c && c ≤ 102) || (65 ≤ c && c ≤ 70)
def decVal (s : Bytes) : Nat := s.foldl (fun a c => a * 10 + (c.toNat - 48)) 0

/-- strconv.ParseUint(s, 10, 64) succeeds -/
def parseUintOk (s : Bytes) : Bool := !s.isEmpty && s.all isDigit && decVal s < 2 ^ 64

/-- strconv.ParseInt(s, 10, 64) succeeds -/
def parseIntOk (s : Bytes) : Bool :=
  match s with
  | 43 :: ds => !ds.isEmpty && ds.all isDigit && decVal ds < 2 ^ 63
  | 45 :: ds => !ds.isEmpty && ds.all isDigit && decVal ds ≤ 2 ^ 63
  | ds => !ds.isEmpty && ds.all isDigit && decVal ds < 2 ^ 63

def has0x (s : Bytes) : Option Bytes :=
  match s with
  | 48 :: 120 :: r => some r
  | 48 :: 88 :: r => some r
  | _ => none

/-- serix.DecodeHex: number of decoded bytes, `none` = error ("" decodes to no bytes) -/
def hexDecode (s : Bytes) : Option Nat :=
  if s.isEmpty then some 0
  else
    match has0x s with
    | none => none
    | some r => if r.length % 2 == 0 && r.all isHexDigit then some (r.length / 2) else none

/-- hexutil.DecodeBig succeeds -/
def decodeBigOk (s : Bytes) : Bool :=
  match has0x s with
  | none => false
  | some r =>
    !r.isEmpty && r.length ≤ 64 && r.all isHexDigit &&
      (match r with
       | 48 :: _ :: _ => false
       | _ => true)

def lower (c : UInt8) : UInt8 := if 65 ≤ c && c ≤ 90 then c + 32 else c

def stripSign (s : Bytes) : Bytes :=
  match s with
  | 43 :: r => r
  | 45 :: r => r
  | r => r

/-- the rounding threshold above which a decimal overflows to ±Inf -/
def overflowAt (bits : Nat) : Nat := if bits = 32 then 2 ^ 128 - 2 ^ 103 else 2 ^ 1024 - 2 ^ 970

/-- does mantissa · 10^e reach the overflow threshold -/
def overflows (bits : Nat) (mant : Nat) (e : Int) : Bool :=
  if mant = 0 then false
  else if e > 5000 then true
  else if e < -5000 then false
  else if e ≥ 0 then overflowAt bits ≤ mant * 10 ^ e.toNat
  else overflowAt bits * 10 ^ (-e).toNat ≤ mant

/-- strconv's `underscoreOK` without a base prefix: an underscore only between two digits
(state: 0 start, 1 digit, 2 underscore, 3 other) -/
def uscoreOK : Bytes → Nat → Bool
  | [], st => st != 2
  | c :: r, st =>
    if isDigit c then uscoreOK r 1
    else if c == 95 then st == 1 && uscoreOK r 2
    else st != 2 && uscoreOK r 3

/-- strconv.ParseFloat(s, bits) succeeds, for decimal syntax and inf/nan (hexadecimal floats are not modelled) -/
def parseFloatOk (bits : Nat) (s0 : Bytes) : Bool :=
  if s0.contains 95 && !uscoreOK (stripSign s0) 0 then false else
  let s := s0.filter (· != 95)
  let ls := s.map lower
  if ls == [110, 97, 110] then true                                   -- nan
  else if stripSign ls == [105, 110, 102] || stripSign ls == [105, 110, 102, 105, 110, 105, 116, 121] then true
  else
    let body := stripSign s
    let ip := body.takeWhile isDigit
    let r1 := body.dropWhile isDigit
    let (fp, r2) := match r1 with
      | 46 :: r => (r.takeWhile isDigit, r.dropWhile isDigit)
      | r => ([], r)
    if ip.isEmpty && fp.isEmpty then false
    else
      match r2 with
      | [] => !overflows bits (decVal (ip ++ fp)) (-(fp.length : Int))
      | c :: r =>
        if c == 101 || c == 69 then
          let neg := match r with
            | 45 :: _ => true
            | _ => false
          let ds := stripSign r
          if ds.isEmpty || !ds.all isDigit then false
          else
            let ev : Int := if ds.length > 6 then 1000000 else decVal ds
            !overflows bits (decVal (ip ++ fp)) ((if neg then -ev else ev) - (fp.length : Int))
        else false

def cont (c : UInt8) : Bool := 128 ≤ c && c ≤ 191

/-- utf8.ValidString -/
def validUtf8 : Bytes → Bool
  | [] => true
  | a :: rest =>
    if a < 128 then validUtf8 rest
    else
      match rest with
      | b :: rest2 =>
        if 194 ≤ a && a ≤ 223 then cont b && validUtf8 rest2
        else
          match rest2 with
          | c :: rest3 =>
            if a == 224 then (160 ≤ b && b ≤ 191) && cont c && validUtf8 rest3
            else if (225 ≤ a && a ≤ 236) || a == 238 || a == 239 then cont b && cont c && validUtf8 rest3
            else if a == 237 then (128 ≤ b && b ≤ 159) && cont c && validUtf8 rest3
            else
              match rest3 with
              | d :: rest4 =>
                if a == 240 then (144 ≤ b && b ≤ 191) && cont c && cont d && validUtf8 rest4
                else if 241 ≤ a && a ≤ 243 then cont b && cont c && cont d && validUtf8 rest4
                else if a == 244 then (128 ≤ b && b ≤ 143) && cont c && cont d && validUtf8 rest4
                else false
              | [] => false
          | [] => false
      | [] => false

/-- `checkMinMaxBoundsLength` -/
def boundsBad (min max n : Nat) : Bool := (min != 0 && n < min) || (max != 0 && max < n)

/-! ### the decoder -/

def ofBool (b : Bool) : Res := if b then .ok else .err

/-- `for i := range len { mapDecode(elem) }`: the first failure ends the loop -/
def decList (f : Json → Res) : List Json → Res
  | [] => .ok
  | x :: xs =>
    match f x with
    | .ok => decList f xs
    | r => r

/-- `for k, v := range m { mapDecode(key); mapDecode(value) }` -/
def decEntries (fk fv : Json → Res) : List (Bytes × Json) → Res
  | [] => .ok
  | (k, v) :: kvs =>
    match fk (.str k) with
    | .ok =>
      match fv v with
      | .ok => decEntries fk fv kvs
      | r => r
    | r => r

/-- the key under which the object code is written -/
def keyType : Bytes := [116, 121, 112, 101]

/-- `uint32(float64)` of the number's integer part -/
def toU32 (i : Int) : Nat := (i % 4294967296).toNat

mutual
def dec (c : Cfg) : JTy → Json → Res
  | .bool, j =>
    match j with
    | .bool _ => .ok
    | _ => bad c
  | .str mn mx, j =>
    match j with
    | .str s => if c.validate then ofBool (!boundsBad mn mx s.length && validUtf8 s) else .ok
    | _ => .err
  | .f64, j =>
    match j with
    | .num _ => .ok
    | _ => bad c
  | .i64, j =>
    match j with
    | .str s => ofBool (parseIntOk s)
    | _ => bad c
  | .u64, j =>
    match j with
    | .str s => ofBool (parseUintOk s)
    | _ => bad c
  | .flt bits, j =>
    match j with
    | .str s => ofBool (parseFloatOk bits s)
    | _ => bad c
  | .big, j =>
    match j with
    | .str s => ofBool (decodeBigOk s)
    | _ => .err
  | .time, j =>
    match j with
    | .str s => ofBool (parseUintOk s)
    | _ => bad c
  | .hex mn mx, j =>
    match j with
    | .str s =>
      match hexDecode s with
      | none => .err
      | some n => ofBool (!(c.validate && boundsBad mn mx n))
    | _ => bad c
  | .harr, j =>
    match j with
    | .str s => ofBool (hexDecode s).isSome
    | _ => bad c
  | .pharr key, j =>
    match j with
    | .obj kvs =>
      match kvs.lookup key with
      | some (.str s) => ofBool (hexDecode s).isSome
      | _ => bad c
    | _ => bad c
  | .ohex key mn mx, j =>
    match j with
    | .obj kvs =>
      match kvs.lookup key with
      | some (.str s) =>
        match hexDecode s with
        | none => .err
        | some n => ofBool (!(c.validate && boundsBad mn mx n))
      | _ => bad c
    | _ => bad c
  | .cstr, j =>
    match j with
    | .str s => ofBool (!(c.validate && s == [98, 97, 100]))
    | _ => .err
  | .cnum, j =>
    match j with
    | .num _ => .ok
    | _ => .err
  | .sl mn mx e, j =>
    match j with
    | .arr xs =>
      match decList (dec c e) xs with
      | .ok => ofBool (!(c.validate && boundsBad mn mx xs.length))
      | r => r
    | _ => bad c
  | .arr n e, j =>
    match j with
    | .arr xs =>
      match decList (dec c e) xs with
      | .ok => ofBool (xs.length == n)
      | r => r
    | _ => bad c
  | .map mn mx k v, j =>
    match j with
    | .obj kvs =>
      match decEntries (dec c k) (dec c v) kvs with
      | .ok => ofBool (!(c.validate && boundsBad mn mx kvs.length))
      | r => r
    | _ => .err
  | .st code fs, j =>
    match j with
    | .obj kvs =>
      match code with
      | none => decFields c fs kvs
      | some oc =>
        match kvs.lookup keyType with
        | some (.num i) => if toU32 i = oc then decFields c fs kvs else .err
        | _ => .err
    | _ => .err
  | .iface alts, j =>
    match j with
    | .obj kvs =>
      match kvs.lookup keyType with
      | none => .err
      | some (.num i) => decAlts c alts (toU32 i) kvs
      | some _ => bad c
    | _ => .err
  | .ifu, _ => .err
  | .uns, _ => .err
def decFields (c : Cfg) : JFields → List (Bytes × Json) → Res
  | .nil, _ => .ok
  | .cons key kind ty rest, kvs =>
    let r :=
      match kind with
      | .emb => decEmb c ty kvs
      | .inl => dec c ty (.obj kvs)
      | .req =>
        match kvs.lookup key with
        | none => .err
        | some v => dec c ty v
      | .opt =>
        match kvs.lookup key with
        | none => .ok
        | some v => dec c ty v
    match r with
    | .ok => decFields c rest kvs
    | r => r
/-- an embedded struct reads its fields from the enclosing object -/
def decEmb (c : Cfg) : JTy → List (Bytes × Json) → Res
  | .st _ fs, kvs => decFields c fs kvs
  | _, _ => .err
def decAlts (c : Cfg) : JAlts → Nat → List (Bytes × Json) → Res
  | .nil, _, _ => .err
  | .cons code ty rest, oc, kvs => if code = oc then dec c ty (.obj kvs) else decAlts c rest oc kvs
end

/-! ### line protocol -/
open Hive.Proto

def dropFirst (t : String) : String := String.ofList (t.toList.drop 1)

def parseKey (t : String) : Option Bytes :=
  if t.startsWith "\"" then (if t.length == 1 then some [] else unhex (dropFirst t)) else none

def parseNum (t : String) : Option Int :=
  -- "#-12.75" → -12
  let body := dropFirst t
  let ip := (body.splitOn ".").headD ""
  if ip == "-0" then some 0 else ip.toInt?

mutual
def parseJson : Nat → List String → Option (Json × List String)
  | 0, _ => none
  | _ + 1, "N" :: ts => some (.null, ts)
  | _ + 1, "T" :: ts => some (.bool true, ts)
  | _ + 1, "F" :: ts => some (.bool false, ts)
  | f + 1, "[" :: ts => do
    let (xs, ts') ← parseElems f ts
    pure (.arr xs, ts')
  | f + 1, "{" :: ts => do
    let (kvs, ts') ← parseMembers f ts
    pure (.obj kvs, ts')
  | _ + 1, t :: ts =>
    if t.startsWith "#" then (parseNum t).map fun i => (.num i, ts)
    else if t.startsWith "\"" then (parseKey t).map fun s => (.str s, ts)
    else none
  | _ + 1, [] => none
def parseElems : Nat → List String → Option (List Json × List String)
  | 0, _ => none
  | _ + 1, "]" :: ts => some ([], ts)
  | f + 1, ts => do
    let (x, ts1) ← parseJson f ts
    let (xs, ts2) ← parseElems f ts1
    pure (x :: xs, ts2)
def parseMembers : Nat → List String → Option (List (Bytes × Json) × List String)
  | 0, _ => none
  | _ + 1, "}" :: ts => some ([], ts)
  | f + 1, k :: ts => do
    let key ← parseKey k
    let (x, ts1) ← parseJson f ts
    let (xs, ts2) ← parseMembers f ts1
    pure ((key, x) :: xs, ts2)
  | _ + 1, [] => none
end

def parseKind : String → Option FKind
  | "r" => some .req
  | "o" => some .opt
  | "e" => some .emb
  | "i" => some .inl
  | _ => none

mutual
def parseTy : Nat → List String → Option (JTy × List String)
  | 0, _ => none
  | _ + 1, "bool" :: ts => some (.bool, ts)
  | _ + 1, "f64" :: ts => some (.f64, ts)
  | _ + 1, "i64" :: ts => some (.i64, ts)
  | _ + 1, "u64" :: ts => some (.u64, ts)
  | _ + 1, "big" :: ts => some (.big, ts)
  | _ + 1, "time" :: ts => some (.time, ts)
  | _ + 1, "harr" :: ts => some (.harr, ts)
  | _ + 1, "ifu" :: ts => some (.ifu, ts)
  | _ + 1, "uns" :: ts => some (.uns, ts)
  | _ + 1, "cstr" :: ts => some (.cstr, ts)
  | _ + 1, "cnum" :: ts => some (.cnum, ts)
  | _ + 1, "str" :: mn :: mx :: ts => do pure (.str (← mn.toNat?) (← mx.toNat?), ts)
  | _ + 1, "hex" :: mn :: mx :: ts => do pure (.hex (← mn.toNat?) (← mx.toNat?), ts)
  | _ + 1, "flt" :: b :: ts => do pure (.flt (← b.toNat?), ts)
  | _ + 1, "pharr" :: k :: ts => do pure (.pharr (← parseKey k), ts)
  | _ + 1, "ohex" :: k :: mn :: mx :: ts => do pure (.ohex (← parseKey k) (← mn.toNat?) (← mx.toNat?), ts)
  | f + 1, "sl" :: mn :: mx :: ts => do
    let (e, ts') ← parseTy f ts
    pure (.sl (← mn.toNat?) (← mx.toNat?) e, ts')
  | f + 1, "arr" :: n :: ts => do
    let (e, ts') ← parseTy f ts
    pure (.arr (← n.toNat?) e, ts')
  | f + 1, "map" :: mn :: mx :: ts => do
    let (k, ts1) ← parseTy f ts
    let (v, ts2) ← parseTy f ts1
    pure (.map (← mn.toNat?) (← mx.toNat?) k v, ts2)
  | f + 1, "st" :: code :: "[" :: ts => do
    let (fs, ts') ← parseFields f ts
    pure (.st (if code == "-" then none else code.toNat?) fs, ts')
  | f + 1, "if" :: "[" :: ts => do
    let (alts, ts') ← parseJAlts f ts
    pure (.iface alts, ts')
  | _ + 1, _ => none
def parseFields : Nat → List String → Option (JFields × List String)
  | 0, _ => none
  | _ + 1, "]" :: ts => some (.nil, ts)
  | f + 1, k :: kind :: ts => do
    let key ← parseKey k
    let (ty, ts1) ← parseTy f ts
    let (rest, ts2) ← parseFields f ts1
    pure (.cons key (← parseKind kind) ty rest, ts2)
  | _ + 1, _ => none
def parseJAlts : Nat → List String → Option (JAlts × List String)
  | 0, _ => none
  | _ + 1, "]" :: ts => some (.nil, ts)
  | f + 1, "(" :: code :: ts => do
    let (ty, ts1) ← parseTy f ts
    match ts1 with
    | ")" :: ts2 =>
      let (rest, ts3) ← parseJAlts f ts2
      pure (.cons (← code.toNat?) ty rest, ts3)
    | _ => none
  | _ + 1, _ => none
end

def showRes : Res → String
  | .ok => "ok"
  | .err => "err"
  | .panic => "panic"

/-! ### the string decoders of numbers.go called directly -/

/-- `serix.DecodeUint256` = `hexutil.DecodeBig`: the byte length of the number, `none` = error -/
def bigDecode (s : Bytes) : Option Nat :=
  if decodeBigOk s then
    match has0x s with
    | some r => some (if r == [48] then 0 else (r.length + 1) / 2)
    | none => none
  else none

/-- `nx hex|big|u64 "HEX`: `serix.DecodeHex` / `DecodeUint256` / `DecodeUint64` of a string -/
def numbersStep (fn : String) (s : Bytes) : String :=
  let out : Option Nat :=
    match fn with
    | "hex" => hexDecode s
    | "big" => bigDecode s
    | _ => none
  if fn == "u64" then (if parseUintOk s then "ok" else "err")
  else
    match out with
    | some n => s!"ok {n}"
    | none => "err"

/-- `serix.JSONDecode` on what `encoding/json` makes of a text: a text that is not JSON (`none`) or whose top-level value
is not an object does not unmarshal into the `map[string]any`; `null` leaves the map empty -/
def decText (c : Cfg) (t : JTy) : Option Json → Res
  | none => .err
  | some (.obj kvs) => dec c t (.obj kvs)
  | some .null => dec c t (.obj [])
  | some _ => .err

/-- `j TARGET V schema… | doc…` -/
def stepLine (toks : List String) : String :=
  match toks with
  | "nx" :: fn :: k :: [] =>
    match parseKey k with
    | some s => numbersStep fn s
    | none => "bad-op"
  | "jt" :: _ :: v :: _ :: ts =>
    match parseTy (ts.length + 1) ts with
    | some (ty, "|" :: "X" :: []) => showRes (decText ⟨true, v == "1"⟩ ty none)
    | some (ty, "|" :: ds) =>
      match parseJson (ds.length + 1) ds with
      | some (doc, _) => showRes (decText ⟨true, v == "1"⟩ ty (some doc))
      | none => "bad-op"
    | _ => "bad-op"
  | "j" :: _ :: v :: ts =>
    match parseTy (ts.length + 1) ts with
    | some (ty, "|" :: ds) =>
      match parseJson (ds.length + 1) ds with
      | some (doc, _) => showRes (dec ⟨true, v == "1"⟩ ty doc)
      | none => "bad-op"
    | _ => "bad-op"
  | _ => "bad-op"

end Hive.JsonDec
