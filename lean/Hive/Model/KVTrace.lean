import Hive.Model.KVFault
/-!
# What the wrappers forward: call traces through `flushkv` / `debug` stacks (C04)

`Hive/Model/KV.lean` models the *answers* of the wrappers.  This file models their *side effects*, as
the code has them in `kvstore/flushkv/flushkv.go` and `kvstore/debug/debug.go`:

* which calls reach the wrapped (bottom) store, with which arguments and in which order — in
  particular the `Flush()` that `flushkv` lets follow every mutation that succeeded (`flushAfterMutation`),
  once per `flushkv` layer, and the `Realm()` + `WithRealm(realm ‖ r)` pair by which a wrapper implements
  `WithExtendedRealm`;
* which `debug.AccessCallback` calls happen: `debugStore.X` calls the callback with the command constant
  of `X` and the arguments of the call iff the callback is not nil and the filter has the command's bit
  (`bitmask.HasBits`: `filter & cmd > 0`), *before* it forwards; `Flush`, `Close`, `Realm`, `WithRealm`,
  `Batched`, batch `Commit` / `Cancel` are forwarded silently; the filter and the callback are inherited
  by the views and batches made from a debug store.

A wrapper stack is a `List TWrap` (outermost first), the refinement of `List Wrap` that remembers how each
`debug.New` was configured.  The harness observes the trace with a recording store between the wrappers
and `mapdb` and with recording callbacks.  Core Lean only.
-/
namespace Hive.KV

/-- `debug.Command` of the methods that report to the callback. -/
inductive Cmd
  | iterate | iterateKeys | clear | get | set | has | delete | deletePrefix
deriving DecidableEq, Repr

/-- The constants of `debug.go`: `1 << iota` in declaration order. -/
def Cmd.bit : Cmd → Nat
  | .iterate => 1 | .iterateKeys => 2 | .clear => 4 | .get => 8
  | .set => 16 | .has => 32 | .delete => 64 | .deletePrefix => 128

/-- `debug.CommandNames`. -/
def Cmd.name : Cmd → String
  | .iterate => "Iterate" | .iterateKeys => "IterateKeys" | .clear => "Clear" | .get => "Get"
  | .set => "Set" | .has => "Has" | .delete => "Delete" | .deletePrefix => "DeletePrefix"

def Cmd.all : List Cmd := [.iterate, .iterateKeys, .clear, .get, .set, .has, .delete, .deletePrefix]

/-- `debug.AllCommands`. -/
def allCommands : Nat := Cmd.all.foldl (fun m c => m ||| c.bit) 0

/-- `debug.New(store, callback, commandsFilter...)`: no filter argument = `AllCommands`, otherwise the
OR of the arguments (so `debug.New(s, cb, ShutdownCommand)` reports nothing). -/
def newFilter : List Nat → Nat
  | [] => allCommands
  | l => l.foldl (· ||| ·) 0

inductive TWrap
  | flush
  | debug (filter : Nat) (cb : Bool)   -- `cb = false`: nil callback
deriving DecidableEq, Repr

def TWrap.erase : TWrap → Wrap
  | .flush => .flush
  | .debug _ _ => .debug

/-- A call that reaches the store below the wrappers (`b…`: a call on the batch object it returned). -/
inductive Call
  | withRealm (r : Bytes) | withExtendedRealm (r : Bytes) | realm
  | get (k : Bytes) | has (k : Bytes) | set (k v : Bytes) | delete (k : Bytes) | deletePrefix (p : Bytes) | clear
  | flush | close
  | iterate (p : Bytes) (dirs : List Nat) | iterateKeys (p : Bytes) (dirs : List Nat)
  | batched | bSet (k v : Bytes) | bDelete (k : Bytes) | bCommit | bCancel
deriving DecidableEq, Repr

inductive Ev
  | cb (filter : Nat) (c : Cmd) (args : List Bytes)   -- a callback of a debug wrapper with that filter
  | call (c : Call)
deriving DecidableEq, Repr

/-- `if s.accessCallback != nil && s.accessCallbackCommandsFilter.HasBits(cmd) { s.accessCallback(cmd, args...) }` -/
def dbgCb (filter : Nat) (cb : Bool) (c : Cmd) (args : List Bytes) : List Ev :=
  if cb && (filter &&& c.bit != 0) then [.cb filter c args] else []

def optCb (filter : Nat) (cb : Bool) : Option (Cmd × List Bytes) → List Ev
  | some (c, args) => dbgCb filter cb c args
  | none => []

/-- A call every wrapper forwards unchanged (`flushkv`: everything but the mutators; `debug`: everything,
after the callback if the method has a command constant — `c = none`: it has not). -/
def trFwd (c : Option (Cmd × List Bytes)) (call : Call) : List TWrap → List Ev
  | [] => [.call call]
  | .flush :: ws => trFwd c call ws
  | .debug f cb :: ws => optCb f cb c ++ trFwd c call ws

/-- A mutator (`Set`, `Delete`, `DeletePrefix`, `Clear`, batch `Commit`): `debug` reports and forwards,
`flushkv` forwards and, if the wrapped call returned nil, calls `Flush()` of the wrapped store.  The result is
the trace and whether the call returns nil at this layer: `ok` says whether the store below the wrappers
accepts the mutation (it is open), `fe` whether a `Flush` that reaches it fails (`Hive/Model/KVFault.lean`) —
then the `flushkv` layer that called it returns the error, and the layers above it do not flush any more. -/
def trMut (fe : Bool) (c : Option (Cmd × List Bytes)) (call : Call) (ok : Bool) : List TWrap → List Ev × Bool
  | [] => ([.call call], ok)
  | .debug f cb :: ws => let r := trMut fe c call ok ws; (optCb f cb c ++ r.1, r.2)
  | .flush :: ws =>
    let r := trMut fe c call ok ws
    if r.2 then (r.1 ++ trFwd none .flush ws, !fe) else r

/-- Stacks of the live handles, with their debug configurations. -/
structure TTab where
  spy : Bool                              -- the recording store is installed below the wrappers of this tree
  fault : Bool                            -- ... and makes every `Flush` that would succeed fail (`arm` / `disarm`)
  views : List (Nat × List TWrap)
  batches : List (Nat × List TWrap)
deriving Repr, DecidableEq

def TTab.init : TTab := { spy := false, fault := false, views := [(0, [])], batches := [] }

/-- The trace of one request: `s` is the state before it (the trace depends on it only through the
handle tables and the `closed` flag: a mutation refused by the closed store is not followed by `Flush`).
`dirs` are the direction arguments of an iteration as the caller passed them (none, `0`, `1`, or an
unknown value that makes `GetIterDirection` panic after the calls below have happened). -/
def traceOp (t : TTab) (s : St) (dirs : List Nat) : Op → List Ev
  | .view _ p realm mode =>
    match s.views.lookup p, t.views.lookup p with
    | some pv, some ws =>
      match mode, ws with
      | .abs, _ => trFwd none (.withRealm realm) ws
      | .ext, [] => [.call (.withExtendedRealm realm)]
      -- a wrapper: `s.WithRealm(byteutils.ConcatBytes(s.Realm(), realm))`
      | .ext, _ :: _ => trFwd none .realm ws ++ trFwd none (.withRealm (pv.realm ++ realm)) ws
    | _, _ => []
  | .wrap .. => []
  | .realm v => match t.views.lookup v with | some ws => trFwd none .realm ws | none => []
  | .get v k => match t.views.lookup v with | some ws => trFwd (some (.get, [k])) (.get k) ws | none => []
  | .has v k => match t.views.lookup v with | some ws => trFwd (some (.has, [k])) (.has k) ws | none => []
  | .set v k x =>
    match t.views.lookup v with
    | some ws => (trMut t.fault (some (.set, [k, x])) (.set k x) (!s.db.closed) ws).1
    | none => []
  | .del v k =>
    match t.views.lookup v with
    | some ws => (trMut t.fault (some (.delete, [k])) (.delete k) (!s.db.closed) ws).1
    | none => []
  | .delp v p =>
    match t.views.lookup v with
    | some ws => (trMut t.fault (some (.deletePrefix, [p])) (.deletePrefix p) (!s.db.closed) ws).1
    | none => []
  | .clear v =>
    match t.views.lookup v with
    | some ws => (trMut t.fault (some (.clear, [])) .clear (!s.db.closed) ws).1
    | none => []
  | .flush v => match t.views.lookup v with | some ws => trFwd none .flush ws | none => []
  | .close v => match t.views.lookup v with | some ws => trFwd none .close ws | none => []
  | .iter v p _ _ =>
    match t.views.lookup v with
    | some ws => trFwd (some (.iterate, [p])) (.iterate p dirs) ws
    | none => []
  | .iterk v p _ _ =>
    match t.views.lookup v with
    | some ws => trFwd (some (.iterateKeys, [p])) (.iterateKeys p dirs) ws
    | none => []
  | .batch _ v => match t.views.lookup v with | some ws => trFwd none .batched ws | none => []
  | .bset b k x =>
    match s.batches.lookup b, t.batches.lookup b with
    | some _, some ws => trFwd (some (.set, [k, x])) (.bSet k x) ws
    | _, _ => []
  | .bdel b k =>
    match s.batches.lookup b, t.batches.lookup b with
    | some _, some ws => trFwd (some (.delete, [k])) (.bDelete k) ws
    | _, _ => []
  | .commit b _ =>
    match s.batches.lookup b, t.batches.lookup b with
    | some _, some ws => (trMut t.fault none .bCommit (!s.db.closed) ws).1
    | _, _ => []
  | .cancel b =>
    match s.batches.lookup b, t.batches.lookup b with
    | some _, some ws => trFwd none .bCancel ws
    | _, _ => []

/-! ## the traces of `kvstore.Copy` / `kvstore.CopyBatched` -/

/-- The consumer of `Copy` on the target side: `target.Set` per entry until one fails. -/
def copySetsTr (fe ok : Bool) (ws : List TWrap) : List Entry → List Ev × Bool
  | [] => ([], true)
  | e :: rest =>
    let r := trMut fe (some (.set, [e.1, e.2])) (.set e.1 e.2) ok ws
    if r.2 then let q := copySetsTr fe ok ws rest; (r.1 ++ q.1, q.2) else (r.1, false)

/-- The consumer of `CopyBatched` on the target side, as the loop is written: batch `Set`, count, and at the batch
size `Commit` followed — also when the Commit failed — by a fresh `target.Batched()`; a failed Commit ends the iteration. -/
def copybLoopTr (fe : Bool) (ws : List TWrap) (n : Nat) : Nat → List Entry → List Ev × Bool
  | _, [] => ([], true)
  | cnt, e :: rest =>
    let ev1 := trFwd (some (.set, [e.1, e.2])) (.bSet e.1 e.2) ws
    if n != 0 && cnt + 1 >= n then
      let c := trMut fe none .bCommit true ws
      let ev2 := c.1 ++ trFwd none .batched ws
      if c.2 then let q := copybLoopTr fe ws n 0 rest; (ev1 ++ ev2 ++ q.1, q.2) else (ev1 ++ ev2, false)
    else
      let q := copybLoopTr fe ws n (cnt + 1) rest; (ev1 ++ q.1, q.2)

/-- Trace of `Copy` (`n = none`) / `CopyBatched` (`n = some size`, `0` = no size argument): the target's events before
the source is iterated, the source's events, the target's events afterwards.  `none`: unknown handle. -/
def copyTrace (tS tD : TTab) (src dst : St) (v w : Nat) (n : Option Nat) : Option (List Ev × List Ev × List Ev) :=
  match src.views.lookup v, dst.views.lookup w, tS.views.lookup v, tD.views.lookup w with
  | some vs, some _, some wsS, some wsD =>
    let srcEv := trFwd (some (.iterate, [[]])) (.iterate [] []) wsS
    let its := vRead (dbIterate vs.realm [] .fwd 0) vs.wraps src.db
    match n with
    | none =>
      match its with
      | .kvs es =>
        let r := copySetsTr tD.fault (!dst.db.closed) wsD es
        some ([], srcEv, r.1 ++ (if r.2 then trFwd none .flush wsD else []))
      | _ => some ([], srcEv, [])
    | some n =>
      let pre := trFwd none .batched wsD
      if dst.db.closed then some (pre, [], [])
      else
        match its with
        | .kvs es =>
          let r := copybLoopTr tD.fault wsD n 0 es
          if r.2 then
            let c := trMut tD.fault none .bCommit true wsD
            some (pre, srcEv, r.1 ++ c.1 ++ (if c.2 then trFwd none .flush wsD else []))
          else some (pre, srcEv, r.1 ++ trFwd none .bCancel wsD)
        | _ => some (pre, srcEv, trFwd none .bCancel wsD)
  | _, _, _, _ => none

/-- The handle tables after a request that was answered `ans`; `cfg` is the configuration of the wrapper
a `wrap` request creates. -/
def TTab.step (t : TTab) (cfg : TWrap) (ans : Out) : Op → TTab
  | .view v p _ _ =>
    match ans, t.views.lookup p with
    | .ok, some ws => { t with views := (v, ws) :: t.views }
    | _, _ => t
  | .wrap v p _ =>
    match ans, t.views.lookup p with
    | .ok, some ws => { t with views := (v, cfg :: ws) :: t.views }
    | _, _ => t
  | .batch b v =>
    match ans, t.views.lookup v with
    | .ok, some ws => { t with batches := (b, ws) :: t.batches }
    | _, _ => t
  | _ => t

/-! ## line protocol of `drv_c04` -/
open Hive.Proto

def showCall : Call → String
  | .withRealm r => "WithRealm:" ++ hex r
  | .withExtendedRealm r => "WithExtendedRealm:" ++ hex r
  | .realm => "Realm"
  | .get k => "Get:" ++ hex k
  | .has k => "Has:" ++ hex k
  | .set k v => "Set:" ++ hex k ++ ":" ++ hex v
  | .delete k => "Delete:" ++ hex k
  | .deletePrefix p => "DeletePrefix:" ++ hex p
  | .clear => "Clear"
  | .flush => "Flush"
  | .close => "Close"
  | .iterate p d => "Iterate:" ++ hex p ++ ":d" ++ ",".intercalate (d.map toString)
  | .iterateKeys p d => "IterateKeys:" ++ hex p ++ ":d" ++ ",".intercalate (d.map toString)
  | .batched => "Batched"
  | .bSet k v => "bSet:" ++ hex k ++ ":" ++ hex v
  | .bDelete k => "bDelete:" ++ hex k
  | .bCommit => "bCommit"
  | .bCancel => "bCancel"

def showEv : Ev → String
  | .cb f c args => "cb" ++ toString f ++ ":" ++ c.name ++ String.join (args.map (fun a => ":" ++ hex a))
  | .call c => showCall c

def showTrace (l : List Ev) : String := String.join (l.map (fun e => " " ++ showEv e))

/-- `d` = `debug.New(s, cb)`, `dn` = `debug.New(s, nil)`, `dN1,N2,…` = `debug.New(s, cb, N1, N2, …)`. -/
def parseCfg (tok : String) : Option TWrap :=
  if tok == "f" then some .flush
  else if tok == "d" then some (.debug (newFilter []) true)
  else if tok == "dn" then some (.debug (newFilter []) false)
  else if tok.startsWith "d" then do
    let ns ← ((String.ofList (tok.toList.drop 1)).splitOn ",").mapM String.toNat?
    pure (.debug (newFilter ns) true)
  else none

/-- Direction token of an iteration: what the caller passes (`xN`: the unknown direction value `N`). -/
def parseDirs (tok : String) : Option (List Nat) :=
  if tok == "def" then some []
  else if tok == "fwd" then some [0]
  else if tok == "bwd" then some [1]
  else if tok.startsWith "x" then (String.ofList (tok.toList.drop 1)).toNat?.map (fun n => [n])
  else none

structure TState where
  p : Pair
  t1 : TTab
  t2 : TTab
deriving Repr

def tinit : TState := { p := pinit, t1 := TTab.init, t2 := TTab.init }

/-- One request on one tree (`second`): answer, then — if the recording store is installed — ` ;` and the trace. -/
def treeLine (st : TState) (second : Bool) (toks : List String) : TState × String :=
  let s : St := st.p.get second
  let t : TTab := if second then st.t2 else st.t1
  let put (s' : St) (t' : TTab) : TState :=
    if second then { st with p := st.p.put true s', t2 := t' } else { st with p := st.p.put false s', t1 := t' }
  let suffix (evs : List Ev) : String := if t.spy then " ;" ++ showTrace evs else ""
  match toks with
  | ["spy"] => (put s { t with spy := true }, "ok")
  | ["arm"] => if t.spy then (put s { t with fault := true }, "ok" ++ suffix []) else (st, "bad-op")
  | ["disarm"] => if t.spy then (put s { t with fault := false }, "ok" ++ suffix []) else (st, "bad-op")
  | ["wrap", v, p, cfgTok] =>
    match parseCfg cfgTok with
    | none => (st, "bad-op")
    | some cfg =>
      match parseOp ["wrap", v, p, if cfg == .flush then "f" else "d"] with
      | some op => let r := stepF t.fault s op; (put r.1 (t.step cfg r.2 op), showOut r.2 ++ suffix (traceOp t s [] op))
      | none => (st, "bad-op")
  | "iterc" :: v :: p :: d :: rest =>
    match parseOp ("iter" :: v :: p :: d :: rest), parseDirs d with
    | some (.iter v p dd n), some dirs =>
      let r1 := stepF t.fault s (.iter v p dd n)
      let e1 := traceOp t s dirs (.iter v p dd n)
      match r1.2 with
      | .kvs (_ :: _) =>
        let r2 := stepF t.fault r1.1 (.clear v)
        (put r2.1 t, showOut r1.2 ++ " | " ++ showOut r2.2 ++ suffix (e1 ++ traceOp t r1.1 [] (.clear v)))
      | .badHandle => (put r1.1 t, showOut r1.2 ++ suffix e1)
      | _ => (put r1.1 t, showOut r1.2 ++ " | none" ++ suffix e1)
    | _, _ => (st, "bad-op")
  | [kind, v, p, d, n] =>
    if (kind == "iter" || kind == "iterk") && d.startsWith "x" then
      -- unknown direction: `GetIterDirection` panics inside `utils.SortSlice`, after the closed check, the
      -- callbacks and the snapshot; nothing is changed (and no lock is held: the next request is served)
      match parseOp [kind, v, p, "fwd", n], parseDirs d with
      | some op, some dirs =>
        let r := stepF t.fault s op
        let ans := match r.2 with | .kvs _ => "panic" | .keys _ => "panic" | o => showOut o
        (st, ans ++ suffix (traceOp t s dirs op))
      | _, _ => (st, "bad-op")
    else
      match parseOp toks with
      | some op =>
        let r := stepF t.fault s op
        (put r.1 (t.step .flush r.2 op), showOut r.2 ++ suffix (traceOp t s ((parseDirs d).getD []) op))
      | none => (st, "bad-op")
  | _ =>
    match parseOp toks with
    | some op => let r := stepF t.fault s op; (put r.1 (t.step .flush r.2 op), showOut r.2 ++ suffix (traceOp t s [] op))
    | none => (st, "bad-op")

/-- `fn dbg`: the constants of `debug.go` (command bits in declaration order with their names, `AllCommands`). -/
def dbgConstLine : String :=
  " ".intercalate (Cmd.all.map (fun c => c.name ++ "=" ++ toString c.bit)) ++ " AllCommands=" ++ toString allCommands

/-- What the recording stores saw of a copy: ` ;s` + the source tree's events, ` ;d` + the target tree's (each only if that
tree is traced); one list ` ;s` in call order when source and target are views of the same tree. -/
def copySuffix (st : TState) (sT : Bool) (v : Nat) (dT : Bool) (w : Nat) (n : Option Nat) : String :=
  let tS := if sT then st.t2 else st.t1
  let tD := if dT then st.t2 else st.t1
  let tr := (copyTrace tS tD (st.p.get sT) (st.p.get dT) v w n).getD ([], [], [])
  if sT == dT then (if tS.spy then " ;s" ++ showTrace (tr.1 ++ tr.2.1 ++ tr.2.2) else "")
  else (if tS.spy then " ;s" ++ showTrace tr.2.1 else "") ++ (if tD.spy then " ;d" ++ showTrace (tr.1 ++ tr.2.2) else "")

/-- Requests: `<request>` (tree 1), `2 <request>` (tree 2), `copy …` / `copyb …` / `fn …` (see `pstepLine`). -/
def tstepLine (st : TState) (toks0 : List String) : TState × String :=
  -- `~` = a nil slice, `-` = an empty non-nil slice: one and the same byte string (the contract does not tell them apart)
  let toks := toks0.map (fun w => if w == "~" then "-" else w)
  match toks with
  | ["fn", "dbg"] => (st, dbgConstLine)
  | "fn" :: _ => let r := pstepLine st.p toks; ({ st with p := r.1 }, r.2)
  | ["copy", sT, v, dT, w] =>
    match parseTree sT, v.toNat?, parseTree dT, w.toNat? with
    | some sT, some v, some dT, some w =>
      let r := pstepF st.t1.fault st.t2.fault st.p (.copy sT v dT w)
      ({ st with p := r.1 }, showOut r.2 ++ copySuffix st sT v dT w none)
    | _, _, _, _ => (st, "bad-op")
  | ["copyb", sT, v, dT, w, n0] =>
    -- a negative batch size: `currentBatchSize >= batchSize` holds after every entry, every entry is its own batch (= size 1)
    let n := if n0.startsWith "-" then "1" else n0
    match parseTree sT, v.toNat?, parseTree dT, w.toNat?, n.toNat? with
    | some sT, some v, some dT, some w, some n =>
      let r := pstepF st.t1.fault st.t2.fault st.p (.copyb sT v dT w n)
      ({ st with p := r.1 }, showOut r.2 ++ copySuffix st sT v dT w (some n))
    | _, _, _, _, _ => (st, "bad-op")
  | "2" :: rest => treeLine st true rest
  | _ => treeLine st false toks

end Hive.KV
