import Hive.Base.Proto
/-!
# Sequential model of `runtime/event` (event.go, events.go, hook.go, options.go) for C15

Every hook ever created keeps a record (`hooks`, indexed by a global creation serial `key`); the
registry of event `e` is the sub-sequence of records with `ev = e` that are still `attached`, in
creation order — this is the ordered map keyed by the event's atomic hook counter.  `Trigger` first
bumps the event's trigger counter (one atomic `Add(1)`) and gives up when it exceeds the limit; then
it walks the registry: per hook it bumps the hook's counter, unhooks a hook whose limit is exceeded,
and otherwise calls it (synchronously, or by submitting to a worker pool for `pooled` hooks); the
event's and the hook's `WithPreTriggerFunc` functions are called synchronously right before that.  The
link hook that `LinkTo` installs on the target calls the source event's `Trigger` with the same
argument (through the target's pool if the target has one: the nested trigger then runs
asynchronously, `async`).  `linkTo` unhooks the previous link hook before hooking the new target.

The machine is sequential and non-reentrant (callbacks only record their invocation); iteration
under concurrent `Hook`/`Unhook` is the subject of `Hive/Model/EventsIter.lean`, the trigger counters
under concurrency of `Hive/Model/EventsMax.lean`.  Links always point from a younger event to an
older one (`tgt < src`), so link chains are acyclic and `fuel = number of events + 1` suffices.
-/
namespace Hive.Events

structure Hook where
  ev : Nat                 -- the event the hook is (was) attached to
  handle : Nat             -- user handle (user hooks only)
  link : Option Nat        -- `some src`: link hook of event `src`, calls `src.Trigger`
  max : Nat                -- WithMaxTriggerCount, 0 = unlimited
  count : Nat              -- triggerCount
  fired : Nat              -- ghost: number of invocations
  pool : Option Bool       -- WithWorkerPool on the hook: `some true` a pool, `some false` nil (forced in place),
                           -- `none` no option (the event's pool, if any, is used)
  pre : Bool               -- WithPreTriggerFunc on the hook
  attached : Bool
deriving Repr, DecidableEq

structure Ev where
  max : Nat
  count : Nat
  passed : Nat             -- ghost: triggers that passed the limit check
  link : Option Nat        -- key of `e.link`
  pre : Bool               -- WithPreTriggerFunc on the event
  pooled : Bool            -- WithWorkerPool on the event
deriving Repr, DecidableEq

structure St where
  evs : List Ev
  hooks : List Hook
  user : List Nat          -- user handle ↦ key
deriving Repr

def init : St := { evs := [], hooks := [], user := [] }

/-- What a log entry records: the invocation of a hook, or a call of the event's / the hook's
pre-trigger function (always synchronous, right before the hook is invoked or submitted). -/
inductive Kind
  | call | preEv | preHook
deriving Repr, DecidableEq

structure Call where
  kind : Kind
  handle : Nat             -- hook handle; for `preEv` the event
  arg : Nat
  pooled : Bool
deriving Repr, DecidableEq

inductive Op
  | new (max : Nat) (pre pooled : Bool)
  | hook (e max : Nat) (pool : Option Bool) (pre : Bool)
  | unhook (h : Nat)
  | trigger (e a : Nat)
  | link (src tgt : Nat)
  | unlink (src : Nat)
  | tcount (e : Nat)
  | hcount (h : Nat)
deriving Repr, DecidableEq

inductive Out
  | ev (e : Nat)
  | hk (h : Nat)
  | done
  | calls (cs : List Call)
  | num (n : Nat)
  | bad
deriving Repr, DecidableEq

def setHook (s : St) (k : Nat) (h : Hook) : St := { s with hooks := s.hooks.set k h }
def setEv (s : St) (e : Nat) (ev : Ev) : St := { s with evs := s.evs.set e ev }

/-- `currentTriggerExceedsMaxTriggerCount` for the value the counter has after the `Add(1)`. -/
def exceeds (max newCount : Nat) : Bool := decide (newCount > max) && max != 0

/-- Unhook the hook with key `k` (`hooks.Delete(id)`). -/
def detach (s : St) (k : Nat) : St :=
  match s.hooks[k]? with
  | some h => setHook s k { h with attached := false }
  | none => s

/-- The pre-trigger calls made right before hook `h` of event `e` is invoked with `a` (`async`: the
running `Trigger` was itself submitted to a pool, so everything it does happens in a worker). -/
def preCalls (evPre async : Bool) (e a : Nat) (h : Hook) : List Call :=
  (if evPre then [⟨.preEv, e, a, async⟩] else []) ++ (if h.pre then [⟨.preHook, h.handle, a, async⟩] else [])

def evPreOf (s : St) (e : Nat) : Bool :=
  match s.evs[e]? with
  | some ev => ev.pre
  | none => false

def evPooledOf (s : St) (e : Nat) : Bool :=
  match s.evs[e]? with
  | some ev => ev.pooled
  | none => false

/-- `hook.WorkerPool() != nil`: the hook's own setting, else the event's. -/
def effPooled (evPooled : Bool) (h : Hook) : Bool :=
  match h.pool with
  | some b => b
  | none => evPooled

/-- The body of the `ForEach` consumer for the hook with key `k`. -/
def visitKey (trigRec : St → Nat → Nat → Bool → St × List Call) (e a : Nat) (async : Bool)
    (acc : St × List Call) (k : Nat) : St × List Call :=
  match acc.1.hooks[k]? with
  | none => acc
  | some h =>
    if h.ev != e || !h.attached then acc
    else if exceeds h.max (h.count + 1) then
      (setHook acc.1 k { h with count := h.count + 1, attached := false }, acc.2)
    else
      let s1 := setHook acc.1 k { h with count := h.count + 1, fired := h.fired + 1 }
      let pres := preCalls (evPreOf acc.1 e) async e a h
      let p := async || effPooled (evPooledOf acc.1 e) h
      match h.link with
      | some src => let r := trigRec s1 src a p; (r.1, acc.2 ++ pres ++ r.2)
      | none => (s1, acc.2 ++ pres ++ [⟨.call, h.handle, a, p⟩])

def trig : Nat → St → Nat → Nat → Bool → St × List Call
  | 0, s, _, _, _ => (s, [])
  | fuel + 1, s, e, a, async =>
    match s.evs[e]? with
    | none => (s, [])
    | some ev =>
      if exceeds ev.max (ev.count + 1) then (setEv s e { ev with count := ev.count + 1 }, [])
      else
        (List.range s.hooks.length).foldl (visitKey (trig fuel) e a async)
          (setEv s e { ev with count := ev.count + 1, passed := ev.passed + 1 }, [])

def step (s : St) : Op → St × Out
  | .new max pre pooled =>
    ({ s with evs := s.evs ++ [{ max := max, count := 0, passed := 0, link := none, pre := pre, pooled := pooled }] },
     .ev s.evs.length)
  | .hook e max pool pre =>
    if e < s.evs.length then
      ({ s with hooks := s.hooks ++ [{ ev := e, handle := s.user.length, link := none, max := max, count := 0,
                                        fired := 0, pool := pool, pre := pre, attached := true }],
                user := s.user ++ [s.hooks.length] }, .hk s.user.length)
    else (s, .bad)
  | .unhook h =>
    match s.user[h]? with
    | some k => (detach s k, .done)
    | none => (s, .bad)
  | .trigger e a =>
    if e < s.evs.length then
      let r := trig (s.evs.length + 1) s e a false
      (r.1, .calls r.2)
    else (s, .bad)
  | .link src tgt =>
    match s.evs[src]? with
    | none => (s, .bad)
    | some ev =>
      if tgt < src then
        let s1 := match ev.link with
          | some k => detach s k
          | none => s
        ({ s1 with hooks := s1.hooks ++ [{ ev := tgt, handle := 0, link := some src, max := 0, count := 0, fired := 0,
                                           pool := none, pre := false, attached := true }],
                   evs := s1.evs.set src { ev with link := some s1.hooks.length } }, .done)
      else (s, .bad)
  | .unlink src =>
    match s.evs[src]? with
    | none => (s, .bad)
    | some ev =>
      let s1 := match ev.link with
        | some k => detach s k
        | none => s
      ({ s1 with evs := s1.evs.set src { ev with link := none } }, .done)
  | .tcount e =>
    match s.evs[e]? with
    | some ev => (s, .num ev.count)
    | none => (s, .bad)
  | .hcount h =>
    match s.user[h]? with
    | some k => (s, match s.hooks[k]? with | some hk => .num hk.count | none => .bad)
    | none => (s, .bad)

def final (s : St) (ops : List Op) : St := ops.foldl (fun s op => (step s op).1) s

/-- The registry of event `e`: the attached hooks in attachment order. -/
def registry (s : St) (e : Nat) : List Hook := s.hooks.filter (fun h => h.ev == e && h.attached)

/-! ## line protocol (`ev …`) -/
open Hive.Proto

/-- `sync`: no pool option on the hook (the event's pool applies), `pool`: own pool, `inplace`:
`WithWorkerPool(nil)`. -/
def parsePool : String → Option (Option Bool)
  | "sync" => some none
  | "pool" => some (some true)
  | "inplace" => some (some false)
  | _ => none

def parseOp : List String → Option Op
  | ["new", m] => m.toNat?.map (.new · false false)
  | ["new", m, "pre"] => m.toNat?.map (.new · true false)
  | ["new", m, "pool"] => m.toNat?.map (.new · false true)
  | ["new", m, "pre", "pool"] => m.toNat?.map (.new · true true)
  | ["hook", e, m, k] => do pure (.hook (← e.toNat?) (← m.toNat?) (← parsePool k) false)
  | ["hook", e, m, k, "pre"] => do pure (.hook (← e.toNat?) (← m.toNat?) (← parsePool k) true)
  | ["unhook", h] => h.toNat?.map .unhook
  | ["trigger", e, a] => do pure (.trigger (← e.toNat?) (← a.toNat?))
  | ["link", s, t] => do pure (.link (← s.toNat?) (← t.toNat?))
  | ["unlink", s] => s.toNat?.map .unlink
  | ["tcount", e] => e.toNat?.map .tcount
  | ["hcount", h] => h.toNat?.map .hcount
  | _ => none

def showCall (c : Call) : String :=
  match c.kind with
  | .call => s!"{c.handle}:{c.arg}"
  | .preEv => s!"E{c.handle}:{c.arg}"
  | .preHook => s!"P{c.handle}:{c.arg}"

def showCalls (cs : List Call) : String := "[" ++ " ".intercalate (cs.map showCall) ++ "]"

/-- Synchronous calls in invocation order; pooled calls as a sorted multiset (they are observed after
the pool has drained). -/
def showOut : Out → String
  | .ev e => s!"e{e}"
  | .hk h => s!"h{h}"
  | .done => "done"
  | .calls cs =>
    let sync := cs.filter (fun c => !c.pooled)
    let rank : Call → Nat := fun c => match c.kind with
      | .call => 0
      | .preEv => 1
      | .preHook => 2
    let pool := (cs.filter (fun c => c.pooled)).mergeSort
      (fun x y => rank x < rank y || (rank x == rank y && x.handle ≤ y.handle))
    s!"sync {showCalls sync} pool {showCalls pool}"
  | .num n => toString n
  | .bad => "bad-op"

def stepLine (s : St) (toks : List String) : St × String :=
  match parseOp toks with
  | some op => let (s', o) := step s op; (s', showOut o)
  | none => (s, "bad-op")

end Hive.Events
