import Hive.Base.Proto
import Hive.Model.SerixJson
import Hive.Spec.SerixJsonCanon
/-!
# Line protocol of the C01b driver (JSON/map form of serix)

Requests (one per line, s-expressions; strings are hex-encoded UTF-8, `-` for the empty string):

* `def SCHEMA` — selects the type of the case; answer `ok x=B` with `B` = `JsonExpressible`.
* `enc V VALUE` — `mapEncode` with validation `V`; answer `R vx=B wt=B' c=CANON` where `B` = `ValExpressible`,
  `B'` = `WellTyped`, `CANON` = `canon` of the value (the documented result of decoding the encoding) and
  `R` = `ok JSON` | `err` | `panic` | `illtyped` (`fail` for both `err` and `panic` when the type contains
  a Go map: which entry fails first depends on the iteration order).  Objects are printed in the order the model emits
  them unless the type contains a Go map, in which case every object is printed with its members
  sorted by key (the harness does the same to the output of `JSONEncode`).
* `ftab (W TEXT BITS)*` — texts occurring in the next document that Go's `strconv.ParseFloat(_, W)`
  accepts, with the bits it returns; answer `ok`.
* `dec V JSON` — `mapDecode`; answer `ok VALUE` | `fail` (map entries sorted by printed key).

Schema: `bool (u W) (i W) (f W) (str MIN MAX) (bytes MIN MAX) (barr P N) (tb P N|- CODE KEY) u256 time
(slice MIN MAX T) (arr N T) (map MIN MAX K V) (struct CODE|- FIELD*) (ptr T) (iface (CODE T)*)`,
`FIELD = (fld KEY OPT OMIT T) | (emb P FIELD*) | (inl CODE|- FIELD*)`.
Values: `nil T F (n INT) (f W BITS TEXT BACK) (s HEX) (x HEX) (l V*) (m (K V)*) (st V*) (some V)
(if CODE V)`; a float carries the text Go's strconv prints for it and the bits strconv parses back
(the model's `FloatCodec` of the case is that table).  Printed floats are `(f BITS)`.
JSON: `N T F (n INT) (s HEX) (a J*) (o (KEY J)*)`.
-/
namespace Hive.SerixJson
open Hive.Proto

inductive SExp
  | atom (s : String)
  | list (xs : List SExp)
deriving Inhabited

def tokenize (s : String) : List String :=
  let step := fun (acc : List String × List Char) (c : Char) =>
    let flush : List String := if acc.2.isEmpty then acc.1 else String.ofList acc.2.reverse :: acc.1
    if c == '(' then ("(" :: flush, [])
    else if c == ')' then (")" :: flush, [])
    else if c == ' ' then (flush, [])
    else (acc.1, c :: acc.2)
  let r := s.toList.foldl step ([], [])
  let out := if r.2.isEmpty then r.1 else String.ofList r.2.reverse :: r.1
  out.reverse

/-- stack parser: returns the top-level expressions. -/
def parseSExps (toks : List String) : Option (List SExp) :=
  let rec go : List String → List (List SExp) → Option (List SExp)
    | [], [top] => some top.reverse
    | [], _ => none
    | "(" :: ts, st => go ts ([] :: st)
    | ")" :: ts, cur :: parent :: st => go ts ((SExp.list cur.reverse :: parent) :: st)
    | ")" :: _, _ => none
    | t :: ts, cur :: st => go ts ((SExp.atom t :: cur) :: st)
    | _ :: _, [] => none
  go toks [[]]

def strOfHex (h : String) : Option String := do
  let bs ← unhex h
  String.fromUTF8? (ByteArray.mk bs.toArray)

def hexOfStr (s : String) : String := hex s.toUTF8.toList

def atomNat : SExp → Option Nat
  | .atom s => s.toNat?
  | _ => none

def atomInt : SExp → Option Int
  | .atom s => s.toInt?
  | _ => none

def atomBool : SExp → Option Bool
  | .atom "1" => some true
  | .atom "0" => some false
  | _ => none

def atomStr : SExp → Option String
  | .atom s => strOfHex s
  | _ => none

def atomOptNat : SExp → Option (Option Nat)
  | .atom "-" => some none
  | .atom s => s.toNat?.map some
  | _ => none

mutual
partial def toJTy : SExp → Option JTy
  | .atom "bool" => some .bool
  | .atom "u256" => some .u256
  | .atom "time" => some .time
  | .list [.atom "u", w] => JTy.uint <$> atomNat w
  | .list [.atom "i", w] => JTy.int <$> atomNat w
  | .list [.atom "f", w] => JTy.float <$> atomNat w
  | .list [.atom "str", a, b] => do pure (.str ⟨← atomNat a, ← atomNat b⟩)
  | .list [.atom "bytes", a, b] => do pure (.bytes ⟨← atomNat a, ← atomNat b⟩)
  | .list [.atom "barr", p, n] => do pure (.byteArr (← atomBool p) (← atomNat n))
  | .list [.atom "tb", p, n, c, k] => do
    pure (.typedBytes (← atomBool p) (← atomOptNat n) (← atomNat c) (← atomStr k))
  | .list [.atom "slice", a, b, t] => do pure (.slice ⟨← atomNat a, ← atomNat b⟩ (← toJTy t))
  | .list [.atom "arr", n, t] => do pure (.array (← atomNat n) (← toJTy t))
  | .list [.atom "map", a, b, k, v] => do
    pure (.map ⟨← atomNat a, ← atomNat b⟩ (← toJTy k) (← toJTy v))
  | .list (.atom "struct" :: c :: fs) => do pure (.struct (← atomOptNat c) (← toFields fs))
  | .list [.atom "ptr", t] => JTy.ptr <$> toJTy t
  | .list (.atom "iface" :: alts) => JTy.iface <$> toAlts alts
  | _ => none
partial def toFields : List SExp → Option Fields
  | [] => some .nil
  | .list [.atom "fld", k, opt, omt, t] :: rest => do
    pure (.named (← atomStr k) (← atomBool opt) (← atomBool omt) (← toJTy t) (← toFields rest))
  | .list (.atom "emb" :: p :: fs) :: rest => do
    pure (.embedded (← atomBool p) (← toFields fs) (← toFields rest))
  | .list (.atom "inl" :: c :: fs) :: rest => do
    pure (.inlined (← atomOptNat c) (← toFields fs) (← toFields rest))
  | _ => none
partial def toAlts : List SExp → Option Alts
  | [] => some .nil
  | .list [c, t] :: rest => do pure (.cons (← atomNat c) (← toJTy t) (← toAlts rest))
  | _ => none
end

/-- float table of a case: (width, bits, text, bits parsed back). -/
abbrev FTab := List (Nat × Nat × String × Nat)

/-- texts that merely occur in a document: (width, text, bits `strconv.ParseFloat` returns). -/
abbrev PTab := List (Nat × String × Nat)

/-- `fmt` knows the floats of the case's values; `parse` additionally knows the `ftab` entries. -/
def FTab.codec (tab : FTab) (ptab : PTab) : FloatCodec where
  fmt := fun w b =>
    match tab.find? (fun e => e.1 == w && e.2.1 == b) with
    | some e => e.2.2.1
    | none => "?"
  parse := fun w s =>
    match tab.find? (fun e => e.1 == w && e.2.2.1 == s) with
    | some e => some e.2.2.2
    | none => (ptab.find? (fun e => e.1 == w && e.2.1 == s)).map (·.2.2)

def toPTab : List SExp → Option PTab
  | [] => some []
  | .list [w, t, b] :: rest => do pure ((← atomNat w, ← atomStr t, ← atomNat b) :: (← toPTab rest))
  | _ => none

/-- values; the float entries met on the way are collected. -/
partial def toVal : SExp → StateT FTab Option Val
  | .atom "nil" => pure .nil
  | .atom "T" => pure (.bool true)
  | .atom "F" => pure (.bool false)
  | .list [.atom "n", n] => do pure (.num (← (atomInt n : Option Int)))
  | .list [.atom "f", w, b, t, back] => do
    let w ← (atomNat w : Option Nat)
    let b ← (atomNat b : Option Nat)
    let t ← (atomStr t : Option String)
    let back ← (atomNat back : Option Nat)
    modify (fun tab => tab ++ [(w, b, t, back)])
    pure (.float b)
  | .list [.atom "s", s] => do pure (.str (← (atomStr s : Option String)))
  | .list [.atom "x", h] => do
    match h with
    | .atom h => pure (.bytes (← (unhex h : Option (List UInt8))))
    | _ => failure
  | .list (.atom "l" :: xs) => do pure (.list (← xs.mapM toVal))
  | .list (.atom "m" :: es) => do
    let es ← es.mapM (fun e => do
      match e with
      | .list [k, v] => do pure ((← toVal k), (← toVal v))
      | _ => failure)
    pure (.map es)
  | .list (.atom "st" :: xs) => do pure (.struct (← xs.mapM toVal))
  | .list [.atom "some", v] => do pure (.some (← toVal v))
  | .list [.atom "if", c, v] => do pure (.iface (← (atomNat c : Option Nat)) (← toVal v))
  | _ => failure

partial def toJson : SExp → Option Json
  | .atom "N" => some .null
  | .atom "T" => some (.bool true)
  | .atom "F" => some (.bool false)
  | .list [.atom "n", n] => Json.num <$> atomInt n
  | .list [.atom "s", s] => Json.str <$> atomStr s
  | .list (.atom "a" :: xs) => Json.arr <$> xs.mapM toJson
  | .list (.atom "o" :: ms) => do
    let ms ← ms.mapM (fun m =>
      match m with
      | .list [k, j] => do pure ((← atomStr k), (← toJson j))
      | _ => none)
    pure (.obj ms)
  | _ => none

def insertBy {α : Type} (lt : α → α → Bool) (a : α) : List α → List α
  | [] => [a]
  | b :: bs => if lt a b then a :: b :: bs else b :: insertBy lt a bs

def sortBy {α : Type} (lt : α → α → Bool) (l : List α) : List α := l.foldr (insertBy lt) []

partial def showJson (sorted : Bool) : Json → String
  | .null => "N"
  | .bool true => "T"
  | .bool false => "F"
  | .num n => s!"(n {n})"
  | .str s => s!"(s {hexOfStr s})"
  | .arr xs => "(a" ++ String.join (xs.map (fun j => " " ++ showJson sorted j)) ++ ")"
  | .obj ms =>
    let ms := if sorted then sortBy (fun a b => a.1 < b.1) ms else ms
    "(o" ++ String.join (ms.map (fun m => s!" ({hexOfStr m.1} {showJson sorted m.2})")) ++ ")"

partial def showVal : Val → String
  | .nil => "nil"
  | .bool true => "T"
  | .bool false => "F"
  | .num n => s!"(n {n})"
  | .float b => s!"(f {b})"
  | .str s => s!"(s {hexOfStr s})"
  | .bytes bs => s!"(x {hex bs})"
  | .list xs => "(l" ++ String.join (xs.map (fun v => " " ++ showVal v)) ++ ")"
  | .map es =>
    let ps := sortBy (fun a b => a.1 < b.1) (es.map (fun e => (showVal e.1, showVal e.2)))
    "(m" ++ String.join (ps.map (fun p => s!" ({p.1} {p.2})")) ++ ")"
  | .struct xs => "(st" ++ String.join (xs.map (fun v => " " ++ showVal v)) ++ ")"
  | .some v => s!"(some {showVal v})"
  | .iface c v => s!"(if {c} {showVal v})"

mutual
partial def JTy.hasMap : JTy → Bool
  | .slice _ e => e.hasMap
  | .array _ e => e.hasMap
  | .map _ _ _ => true
  | .struct _ fs => fs.hasMap
  | .ptr t => t.hasMap
  | .iface alts => alts.hasMap
  | _ => false
partial def Fields.hasMap : Fields → Bool
  | .nil => false
  | .named _ _ _ t rest => t.hasMap || rest.hasMap
  | .embedded _ fs rest => fs.hasMap || rest.hasMap
  | .inlined _ fs rest => fs.hasMap || rest.hasMap
partial def Alts.hasMap : Alts → Bool
  | .nil => false
  | .cons _ t rest => t.hasMap || rest.hasMap
end

structure PSt where
  ty : Option JTy := none
  ftab : FTab := []
  ptab : PTab := []

def b01 (b : Bool) : String := if b then "1" else "0"

def stepLine (s : PSt) (toks : List String) : PSt × String :=
  match toks with
  | "def" :: rest =>
    match parseSExps (tokenize (" ".intercalate rest)) with
    | some [e] =>
      match toJTy e with
      | some t => ({ s with ty := some t }, s!"ok x={b01 (expressible t)}")
      | none => (s, "bad-schema")
    | _ => (s, "bad-sexp")
  | "enc" :: v :: rest =>
    match s.ty, parseSExps (tokenize (" ".intercalate rest)) with
    | some t, some [e] =>
      match (toVal e).run s.ftab with
      | some (val, tab) =>
        let fc := FTab.codec tab s.ptab
        let o : Opts := ⟨v == "1"⟩
        let vx := b01 (valOk fc t val)
        let r := match mapEncode fc o t val with
          | .ok j => "ok " ++ showJson t.hasMap j
          -- with a Go map in the type the first failing entry depends on the iteration order
          | .error .err => if t.hasMap then "fail" else "err"
          | .error .panic => if t.hasMap then "fail" else "panic"
          | .error .illTyped => "illtyped"
        ({ s with ftab := tab }, s!"{r} vx={vx} wt={b01 (wt fc t val)} c={showVal (canon fc t val)}")
      | none => (s, "bad-value")
    | _, _ => (s, "bad-enc")
  | "ftab" :: rest =>
    match parseSExps (tokenize (" ".intercalate rest)) with
    | some es =>
      match toPTab es with
      | some pt => ({ s with ptab := s.ptab ++ pt }, "ok")
      | none => (s, "bad-ftab")
    | none => (s, "bad-sexp")
  | "dec" :: v :: rest =>
    match s.ty, parseSExps (tokenize (" ".intercalate rest)) with
    | some t, some [e] =>
      match toJson e with
      | some j =>
        let fc := FTab.codec s.ftab s.ptab
        let o : Opts := ⟨v == "1"⟩
        match mapDecode fc o t j with
        | .ok val => (s, "ok " ++ showVal val)
        | .error _ => (s, "fail")
      | none => (s, "bad-json")
    | _, _ => (s, "bad-dec")
  | _ => (s, "bad-op")

end Hive.SerixJson
