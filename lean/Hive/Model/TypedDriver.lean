import Hive.Model.TypedStore
import Hive.Model.TypedConc
import Hive.Model.TypedLin
import Hive.Model.TypedRef
import Hive.Model.TypedCode
import Hive.Model.TypedDirty
import Hive.Gen.C06_Code
import Hive.Model.TypedStoreCode
import Hive.Gen.C06_StoreCode
/-!
# Line-protocol driver state for C06: one `TypedValue[uint64]` (`tv …`), one `TypedValue[*T]` (`tp …`),
one `TypedStore` (`ts …`) and the
trace predicates of the concurrent part (`conc …`).
-/
namespace Hive.Typed
open Hive.Proto

structure DState where
  tv : St UInt64
  ts : Store
  tp : RState
  wrapped : Bool := false    -- `tv store wrapped|fmt`: the harness's store reports its errors wrapped
  varKeys : Bool := false    -- `ts keys var`: the TypedStore's key codec is the variable-length `codecVar`
  tvZero : Bool := false     -- `tv values zempty`: the TypedValue's codec is `codec64z` (0 encodes as the empty byte string)
  tsZero : Bool := false     -- `ts values zempty`: the same for the TypedStore's values
  tsWrapped : Bool := false  -- `ts store wrapped|fmt`: the harness's store reports its errors wrapped (matters for the translated code only)
  tvDirty : Bool := false    -- `tv faults dirty`: a failing store write of the harness's store takes effect all the same (`stepD`)

def dinit : DState := { tv := fresh none, ts := [], tp := rinit }

def parseCsv (s : String) : Option (List Nat) :=
  if s == "-" then some [] else
  (s.splitOn ",").foldr (fun t acc => do let l ← acc; let n ← t.toNat?; pure (n :: l)) (some [])

/-- `tv` lines are answered by the hand-written model **and** by the regenerated method bodies run under the
statement language's semantics (`Hive/Gen/C06_Code.lean`, re-translated from the working tree on every run).  By
`C06_code_refines_model` the two agree; if a changed source breaks that proof, the disagreement shows up here on
the concrete inputs of the run (and the real code is then compared with both). -/
def stepLineBoth (w : Bool) (C : Codec UInt64) (s : St UInt64) (toks : List String) : St UInt64 × String :=
  match toks with
  | "init" :: _ => stepLine s toks
  | _ =>
    match parseOp toks with
    | some (op, F) =>
      let r := step C s op F
      let g := Code.execOpW w Hive.Gen.C06Code.prog C s op F
      -- a panicking compute function (`compute boom`): the same state change as a failing one (none); the caller sees the panic
      let boom := fun (x : String) => if toks.take 2 == ["compute", "boom"] then (x.replace "err:fn" "boom").replace "F!" "F^" else x
      let a := boom (showRes r)
      let b := boom (showRes g)
      (r.st, if a == b then a else a ++ " [translated-code: " ++ b ++ "]")
    | none => (s, "bad-op")

/-- `ts` lines of all eight methods are answered by the hand-written model **and** by the
regenerated method bodies (`Hive/Gen/C06_StoreCode.lean`) run under `SCode.sexec`; by `C06_store_code_refines_model` the two
agree, and the real code is compared with both. -/
def sstepLineBoth (w : Bool) (KC : Codec UInt16) (VC : Codec UInt64) (m : Store) (toks : List String) : Store × String :=
  let (m', a) := sstepLineK KC VC m toks
  let differ := fun (b : String) => (m', if a == b then a else a ++ " [translated-code: " ++ b ++ "]")
  match parseSOp toks with
  | some (op, F) => differ (showSRes (SCode.sexecOp w Hive.Gen.C06StoreCode.sprog KC VC m op F))
  | none =>
    let pass := fun (body : SCode.SStmt) (p : Bytes) (F : SFaults) (letter : String) =>
      match SCode.sexecPass w KC VC body m p F with
      | (st, none) => differ s!"ok calls={letter} store={showStore st}"
      | (st, some e) => differ s!"{showSErr e} calls={letter}! store={showStore st}"
    match toks with
    | ["delp", p, f] =>
      match unhex p, parseSFaults f with
      | some p, some F => pass Hive.Gen.C06StoreCode.sprog.deletePrefix p F "P"
      | _, _ => (m', a)
    | ["clear", f] =>
      match parseSFaults f with
      | some F => pass Hive.Gen.C06StoreCode.sprog.clear [] F "Z"
      | none => (m', a)
    | ["iterk", p, d, stop, f] =>
      match unhex p, (if d == "fwd" then some false else if d == "bwd" then some true else none), stop.toNat?, parseSFaults f with
      | some p, some bwd, some stop, some F => differ (showIterk (SCode.sexecKeys w Hive.Gen.C06StoreCode.sprog KC m p bwd stop F) m)
      | _, _, _, _ => (m', a)
    | _ => (m', a)

def dstepLine (s : DState) (toks : List String) : DState × String :=
  match toks with
  | [_, "codec", _] => (s, "ok")   -- codec flavour of the harness (allocating / scratch buffers): no semantic content
  | ["tv", "store", fl] => ({ s with wrapped := fl != "plain" }, "ok")
  | ["ts", "store", fl] => ({ s with tsWrapped := fl != "plain" }, "ok")
  | [_, "store", _] => (s, "ok")
  | ["ts", "keys", fl] => ({ s with varKeys := fl == "var" }, "ok")
  | ["tv", "values", fl] => ({ s with tvZero := fl == "zempty" }, "ok")
  | ["ts", "values", fl] => ({ s with tsZero := fl == "zempty" }, "ok")
  | ["tv", "faults", fl] => ({ s with tvDirty := fl == "dirty" }, "ok")
  | "tv" :: rest =>
    let C := if s.tvZero then codec64z else codec64
    if s.tvDirty then
      -- over a store with dirty failures only the hand-written model answers (`exec` has atomic store calls)
      match rest, parseOp rest with
      | "init" :: _, _ => let (tv', o) := stepLine s.tv rest; ({ s with tv := tv' }, o)
      | _, some (op, F) =>
        let r := stepD C s.tv op F
        let boom := fun (x : String) => if rest.take 2 == ["compute", "boom"] then (x.replace "err:fn" "boom").replace "F!" "F^" else x
        ({ s with tv := r.st }, boom (showRes r))
      | _, none => (s, "bad-op")
    else
      let (tv', o) := stepLineBoth s.wrapped C s.tv rest
      ({ s with tv := tv' }, o)
  | "tp" :: rest => let (tp', o) := rstepLine s.tp rest; ({ s with tp := tp' }, o)
  | "ts" :: rest =>
    let (ts', o) := sstepLineBoth s.tsWrapped (if s.varKeys then codecVar else codec16) (if s.tsZero then codec64z else codec64) s.ts rest
    ({ s with ts := ts' }, o)
  | ["conc", "counter", final, incs, gets] =>
    match final.toNat?, parseCsv incs, parseCsv gets with
    | some f, some i, some g => (s, Conc.counterWhy i f g)
    | _, _, _ => (s, "bad-op")
  | ["conc", "gate", init, final, kinds, ws, ss] =>
    match init.toNat?, final.toNat?, parseCsv kinds, parseCsv ws, parseCsv ss with
    | some i, some f, some k, some w, some sn =>
      (s, if k.length == w.length && w.length == sn.length && Conc.serialOk i (Conc.zipG k w sn) f then "accept"
          else "reject no-serial-order-explains-the-observations")
    | _, _, _, _, _ => (s, "bad-op")
  | ["conc", "upgrade", init, final, kinds, ws, ss, qget, qhas]
  | ["conc", "rgate", init, final, kinds, ws, ss, qget, qhas] =>
    match init.toNat?, final.toNat?, parseCsv kinds, parseCsv ws, parseCsv ss, qget.toNat?, qhas.toNat? with
    | some i, some f, some k, some w, some sn, some qg, some qh =>
      (s, if !(k.length == w.length && w.length == sn.length && Conc.serialOk i (Conc.zipG k w sn) f) then
            "reject no-serial-order-explains-the-observations"
          else if !Conc.quiescentOk [qg, qh] [f, if f = 0 then 0 else 1] then "reject cache-differs-from-store-at-quiescence"
          else "accept")
    | _, _, _, _, _, _, _ => (s, "bad-op")
  | ["conc", "lin", init, final, kinds, ws, ss, invs, rets, qget, qhas] =>
    match init.toNat?, final.toNat?, parseCsv kinds, parseCsv ws, parseCsv ss, parseCsv invs, parseCsv rets, qget.toNat?, qhas.toNat? with
    | some i, some f, some k, some w, some sn, some iv, some rt, some qg, some qh =>
      (s, if !(k.length == w.length && w.length == sn.length && sn.length == iv.length && iv.length == rt.length &&
               Conc.linOk i (Conc.zipL k w sn iv rt) f) then
            "reject no-real-time-respecting-serial-order-explains-the-history"
          else if !Conc.quiescentOk [qg, qh] [f, if f = 0 then 0 else 1] then "reject cache-differs-from-store-at-quiescence"
          else "accept")
    | _, _, _, _, _, _, _, _, _ => (s, "bad-op")
  | ["conc", "wide", n, gets] =>
    match n.toNat?, parseCsv gets with
    | some n, some g => (s, if Conc.wideOk n g then "accept" else "reject reader-saw-unwritten-value")
    | _, _ => (s, "bad-op")
  | ["conc", "mixed", written, gets, qget, qraw] =>
    match parseCsv written, parseCsv gets, parseCsv qget, parseCsv qraw with
    | some w, some g, some qg, some qr =>
      (s, if !Conc.readersOk w g then "reject reader-saw-unwritten-value"
          else if !Conc.quiescentOk qg qr then "reject cache-differs-from-store-at-quiescence"
          else "accept")
    | _, _, _, _ => (s, "bad-op")
  | _ => (s, "bad-op")

end Hive.Typed
