import Hive.Model.DerivedLocks
/-!
# Lock system with fresh and conditional acquisitions (C14 deadlock freedom, second version)

`Hive/Model/DerivedLocks.lean` left out the acquisitions that cannot block.  Here they are part of the
scripts:

* `fresh l`  — `OnUpdate` taking the execution lock of the callback it has just created (possibly while
  holding locks of higher rank).  It makes the lock *visible*.  No rank condition.
* `acqIf l` / `relIf l` — `LockExecution` / `UnlockExecution` / `MarkUnsubscribed` of a callback by a
  thread that did not create it: the callback's lock can only be taken if the callback has been
  registered (is visible); otherwise the thread does not have it in its snapshot and skips.
* `acq` / `rel` — every other lock.

Templates (`TAct` over `Role`s) are scripts whose lock instances are still abstract; they are what the
interpreter of the regenerated skeletons produces.  `TRanked` is decidable on closed templates.
-/
namespace Hive.Derived
open Hive.Conc

inductive Act2
  | acq (l : Lock)
  | rel (l : Lock)
  | fresh (l : Lock)
  | acqIf (l : Lock)
  | relIf (l : Lock)
deriving Repr, DecidableEq

structure LT2 where
  held : List Lock
  script : List Act2
deriving Repr, DecidableEq

structure LS2 where
  held : List Lock
  visible : List Lock
deriving Repr, DecidableEq

def lockStep2 (s : LS2) (t : LT2) : List (LS2 × LT2) :=
  match t.script with
  | [] => []
  | .acq l :: rest =>
    if s.held.contains l then [] else [({ s with held := l :: s.held }, { held := l :: t.held, script := rest })]
  | .rel l :: rest => [({ s with held := s.held.erase l }, { held := t.held.erase l, script := rest })]
  | .fresh l :: rest =>
    if s.held.contains l then []
    else [({ held := l :: s.held, visible := l :: s.visible }, { held := l :: t.held, script := rest })]
  | .acqIf l :: rest =>
    if s.visible.contains l then
      (if s.held.contains l then [] else [({ s with held := l :: s.held }, { held := l :: t.held, script := rest })])
    else [(s, { t with script := rest })]
  | .relIf l :: rest =>
    if t.held.contains l then [({ s with held := s.held.erase l }, { held := t.held.erase l, script := rest })]
    else [(s, { t with script := rest })]

def lockSys2 : Sys LS2 LT2 := { step := lockStep2 }

/-- Lock discipline.  Rank conditions only at (possibly) blocking acquisitions; a conditional
acquisition must be fine whether it is taken or skipped. -/
def Ranked2 : List Lock → List Act2 → Prop
  | held, [] => held = []
  | held, .acq l :: rest => (∀ h ∈ held, h.cls.rank < l.cls.rank) ∧ Ranked2 (l :: held) rest
  | held, .rel l :: rest => l ∈ held ∧ Ranked2 (held.erase l) rest
  | held, .fresh l :: rest => l ∉ held ∧ Ranked2 (l :: held) rest
  | held, .acqIf l :: rest => (∀ h ∈ held, h.cls.rank < l.cls.rank) ∧ Ranked2 (l :: held) rest ∧ Ranked2 held rest
  | held, .relIf l :: rest => Ranked2 (held.erase l) rest

def freshOf : List Act2 → List Lock
  | [] => []
  | .fresh l :: rest => l :: freshOf rest
  | _ :: rest => freshOf rest

def plainOf : List Act2 → List Lock
  | [] => []
  | .acq l :: rest => l :: plainOf rest
  | _ :: rest => plainOf rest

/-- Well-formed pool: every fresh lock is created once, is not visible initially, and nobody takes it
with a plain `acq`. -/
structure PoolWF (vis0 : List Lock) (ts : List LT2) : Prop where
  nodup : (ts.flatMap (fun t => freshOf t.script)).Nodup
  notVisible : ∀ t ∈ ts, ∀ l ∈ freshOf t.script, l ∉ vis0
  noPlain : ∀ t ∈ ts, ∀ t' ∈ ts, ∀ l ∈ freshOf t.script, l ∉ plainOf t'.script

/-! ## Templates -/

structure Role where
  cls : Cls
  tag : Nat
deriving Repr, DecidableEq

inductive TAct
  | acq (r : Role)
  | rel (r : Role)
  | fresh (r : Role)
  | acqIf (r : Role)
  | relIf (r : Role)
deriving Repr, DecidableEq

def TRanked : List Role → List TAct → Bool
  | held, [] => held.isEmpty
  | held, .acq r :: rest => held.all (fun h => decide (h.cls.rank < r.cls.rank)) && TRanked (r :: held) rest
  | held, .rel r :: rest => held.contains r && TRanked (held.erase r) rest
  | held, .fresh r :: rest => !held.contains r && TRanked (r :: held) rest
  | held, .acqIf r :: rest =>
    held.all (fun h => decide (h.cls.rank < r.cls.rank)) && TRanked (r :: held) rest && TRanked held rest
  | held, .relIf r :: rest => TRanked (held.erase r) rest

def instLock (σ : Role → Nat) (r : Role) : Lock := ⟨r.cls, σ r⟩

def instAct (σ : Role → Nat) : TAct → Act2
  | .acq r => .acq (instLock σ r)
  | .rel r => .rel (instLock σ r)
  | .fresh r => .fresh (instLock σ r)
  | .acqIf r => .acqIf (instLock σ r)
  | .relIf r => .relIf (instLock σ r)

end Hive.Derived
