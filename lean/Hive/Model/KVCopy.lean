import Hive.Model.KV
import Hive.Spec.KV
/-!
# Two store trees, `kvstore.Copy` / `kvstore.CopyBatched`, and the pure helpers of the anchored files (C04)

* A *pair* of independent `KV.St` machines models two `mapdb.NewMapDB()` store trees; every request
  of `Hive/Model/KV.lean` addresses one of them, `copy` / `copyb` go from a view of one tree to a view
  of the other (or of the same tree).
* `copyStep` mirrors `kvstore.Copy`: `source.Iterate(EmptyPrefix, …)` hands its snapshot, in forward
  order, to a consumer that `Set`s into the target and stops at the first error; then `target.Flush()`.
* `copybStep` mirrors `kvstore.CopyBatched`: `target.Batched()` first (a closed target fails here),
  the entries are `Set` into a batch that is committed (and replaced by a fresh one) whenever it holds
  `n` entries (`n = 0`: never), the rest — possibly nothing — is committed at the end; then `Flush()`.
* `upperBound` = `utils.KeyPrefixUpperBound`, `concatBytes` = `byteutils.ConcatBytes` /
  `ConcatBytesToString`, `copyBytes` = `utils.CopyBytes`, `getIterDirection` = `kvstore.GetIterDirection`.

Core Lean only.
-/
namespace Hive.KV

/-! ## Copy -/

/-- The consumer of `Copy`: `target.Set` entry after entry, stopping at the first error. -/
def copySets (ws : List Wrap) (realm : Bytes) : List Entry → Store → Store × Out
  | [], s => (s, .ok)
  | e :: rest, s =>
    match vMut (dbSet realm e.1 e.2) ws s with
    | (s', .ok) => copySets ws realm rest s'
    | r => r

def copyStep (src dst : St) (v w : Nat) : St × Out :=
  match src.views.lookup v, dst.views.lookup w with
  | some vs, some vd =>
    match vRead (dbIterate vs.realm [] .fwd 0) vs.wraps src.db with
    | .kvs es =>
      match copySets vd.wraps vd.realm es dst.db with
      | (db', .ok) => ({ dst with db := db' }, vFlush vd.wraps db')
      | (db', e) => ({ dst with db := db' }, e)
    | e => (dst, e)
  | _, _ => (dst, .badHandle)

/-- The batches `CopyBatched` commits: full batches of `n` entries while at least `n` entries are
left, then the rest (possibly empty).  `fuel` bounds the recursion (`es.length` suffices). -/
def chunkFuel : Nat → Nat → List Entry → List (List Entry)
  | 0, _, es => [es]
  | f + 1, n, es => if n ≤ es.length then es.take n :: chunkFuel f n (es.drop n) else [es]

def chunks (n : Nat) (es : List Entry) : List (List Entry) :=
  if n = 0 then [es] else chunkFuel es.length n es

/-- The batches `CopyBatched` commits, computed by the loop as it is written: `cur` = what was `Set` into the current
batch, `cnt` = `currentBatchSize`; the batch is committed when `batchSize != 0 && currentBatchSize >= batchSize`, what is
left when the iteration ends is the final Commit.  (`Hive/Proofs/KVCopy.lean`: this is `chunks`.) -/
def loopBatches (n : Nat) : List Entry → Nat → List Entry → List (List Entry)
  | cur, _, [] => [cur]
  | cur, cnt, e :: rest =>
    if n != 0 && cnt + 1 >= n then (cur ++ [e]) :: loopBatches n [] 0 rest
    else loopBatches n (cur ++ [e]) (cnt + 1) rest

/-- One `Commit` per batch, stopping at the first error. -/
def copyCommits (ws : List Wrap) (realm : Bytes) : List (List Entry) → Store → Store × Out
  | [], s => (s, .ok)
  | c :: rest, s =>
    match vMut (dbCommit realm c []) ws s with
    | (s', .ok) => copyCommits ws realm rest s'
    | r => r

def copybStep (src dst : St) (v w n : Nat) : St × Out :=
  match src.views.lookup v, dst.views.lookup w with
  | some vs, some vd =>
    match vRead dbCheck vd.wraps dst.db with
    | .ok =>
      match vRead (dbIterate vs.realm [] .fwd 0) vs.wraps src.db with
      | .kvs es =>
        match copyCommits vd.wraps vd.realm (chunks n es) dst.db with
        | (db', .ok) => ({ dst with db := db' }, vFlush vd.wraps db')
        | (db', e) => ({ dst with db := db' }, e)
      | e => (dst, e)
    | e => (dst, e)
  | _, _ => (dst, .badHandle)

/-! ## two store trees -/

inductive POp
  | on (second : Bool) (op : Op)
  | copy (srcSecond : Bool) (v : Nat) (dstSecond : Bool) (w : Nat)
  | copyb (srcSecond : Bool) (v : Nat) (dstSecond : Bool) (w : Nat) (n : Nat)
deriving DecidableEq, Repr

abbrev Pair := St × St

def Pair.get (p : Pair) (second : Bool) : St := if second then p.2 else p.1
def Pair.put (p : Pair) (second : Bool) (s : St) : Pair := if second then (p.1, s) else (s, p.2)

def pinit : Pair := (init, init)

def pstep (p : Pair) : POp → Pair × Out
  | .on b op => let r := step (p.get b) op; (p.put b r.1, r.2)
  | .copy sb v db w => let r := copyStep (p.get sb) (p.get db) v w; (p.put db r.1, r.2)
  | .copyb sb v db w n => let r := copybStep (p.get sb) (p.get db) v w n; (p.put db r.1, r.2)

def prunOps (p : Pair) : List POp → Pair × List Out
  | [] => (p, [])
  | op :: ops =>
    let r := pstep p op
    let rs := prunOps r.1 ops
    (rs.1, r.2 :: rs.2)

/-! ## the same at the level of the specification -/

namespace Spec

/-- `Copy` / `CopyBatched` at the level of the ordered map: every entry of the source view, realm
stripped, is inserted under the target view's realm. -/
def copyStep (src dst : Spec.St) (v w : Nat) : Spec.St × Out :=
  match src.views.lookup v, dst.views.lookup w with
  | some rs, some rd =>
    if src.closed || dst.closed then (dst, .closed)
    else
      ({ dst with m := (iterate rs rs.length .fwd 0 src.m).foldl (fun m e => insert (rd ++ e.1) e.2 m) dst.m }, .ok)
  | _, _ => (dst, .badHandle)

abbrev Pair := Spec.St × Spec.St

def Pair.get (p : Pair) (second : Bool) : Spec.St := if second then p.2 else p.1
def Pair.put (p : Pair) (second : Bool) (s : Spec.St) : Pair := if second then (p.1, s) else (s, p.2)

def pstep (p : Pair) : POp → Pair × Out
  | .on b op => let r := step (p.get b) op; (p.put b r.1, r.2)
  | .copy sb v db w => let r := copyStep (p.get sb) (p.get db) v w; (p.put db r.1, r.2)
  | .copyb sb v db w _ => let r := copyStep (p.get sb) (p.get db) v w; (p.put db r.1, r.2)

def prunOps (p : Pair) : List POp → Pair × List Out
  | [] => (p, [])
  | op :: ops =>
    let r := pstep p op
    let rs := prunOps r.1 ops
    (rs.1, r.2 :: rs.2)

end Spec

/-! ## pure helpers -/

/-- `utils.KeyPrefixUpperBound`: the smallest byte string above every string with prefix `p`
(drop the trailing 0xff bytes, increment the last remaining byte); none for the empty and the
all-0xff prefix. -/
def upperBound : Bytes → Option Bytes
  | [] => none
  | b :: rest =>
    match upperBound rest with
    | some u => some (b :: u)
    | none => if b.toNat = 255 then none else some [b + 1]

/-- `byteutils.ConcatBytes` / `ConcatBytesToString`. -/
def concatBytes (parts : List Bytes) : Bytes := parts.flatten

/-- `utils.CopyBytes(source, size...)`: a new slice of the requested size (default: the source's),
filled from the source, zero-padded. -/
def copyBytes (src : Bytes) : Option Nat → Bytes
  | none => src
  | some n => src.take n ++ List.replicate (n - src.length) 0

/-- `kvstore.GetIterDirection(dirs...)`: forward by default, the first argument if it is a known
direction, a panic (`none`) otherwise. -/
def getIterDirection : List Nat → Option Dir
  | [] => some .fwd
  | 0 :: _ => some .fwd
  | 1 :: _ => some .bwd
  | _ :: _ => none

/-- `utils.SortSlice(slice, dirs...)`: `sort.StringSlice` order or its reverse (`none`: unknown direction, panic). -/
def sortSlice (keys : List Bytes) (dirs : List Nat) : Option (List Bytes) :=
  (getIterDirection dirs).map (fun d => sortBy (dirLt d) keys)

/-- `byteutils.ReadAvailableBytesToBuffer(target, targetOffset, source, sourceOffset, sourceLength)` for offsets inside
the slices (`targetOffset ≤ len(target)`, `sourceOffset ≤ sourceLength ≤ len(source)`): copies
`min(sourceLength - sourceOffset, len(target) - targetOffset)` bytes; the new content of `target` and that number. -/
def readAvailable (target : Bytes) (tOff : Nat) (source : Bytes) (sOff sLen : Nat) : Bytes × Nat :=
  let n := min (sLen - sOff) (target.length - tOff)
  (target.take tOff ++ (source.drop sOff).take n ++ target.drop (tOff + n), n)

/-! ## line protocol of `drv_c04` -/
open Hive.Proto

def parseTree : String → Option Bool
  | "1" => some false
  | "2" => some true
  | _ => none

def showOptBytes : Option Bytes → String
  | none => "nobound"
  | some b => "bytes " ++ hex b

def pureLine : List String → Option String
  | ["ub", p] => do pure (showOptBytes (upperBound (← unhex p)))
  | "concat" :: parts => do pure ("bytes " ++ hex (concatBytes (← parts.mapM unhex)))
  | ["copybytes", src, "-"] => do pure ("bytes " ++ hex (copyBytes (← unhex src) none))
  | ["copybytes", src, n] => do pure ("bytes " ++ hex (copyBytes (← unhex src) (some (← n.toNat?))))
  | "sort" :: d :: keys => do
    let dirs ← if d == "def" then some [] else (d.toNat?).map (fun n => [n])
    match sortSlice (← keys.mapM unhex) dirs with
    | some l => pure (" ".intercalate ("keys" :: l.map hex))
    | none => pure "panic"
  | ["readavail", target, tOff, source, sOff, sLen] => do
    let r := readAvailable (← unhex target) (← tOff.toNat?) (← unhex source) (← sOff.toNat?) (← sLen.toNat?)
    pure ("bytes " ++ hex r.1 ++ " " ++ toString r.2)
  | "dir" :: args => do
    match getIterDirection (← args.mapM String.toNat?) with
    | some .fwd => pure "fwd"
    | some .bwd => pure "bwd"
    | none => pure "panic"
  | _ => none

/-- Requests: `<request of Hive/Model/KV.lean>` (tree 1), `2 <request>` (tree 2),
`copy S V D W`, `copyb S V D W N` (view `V` of tree `S` into view `W` of tree `D`), `fn …` (pure helpers). -/
def pstepLine (p : Pair) (toks : List String) : Pair × String :=
  match toks with
  | "fn" :: rest => (p, (pureLine rest).getD "bad-op")
  | ["copy", s, v, d, w] =>
    match parseTree s, v.toNat?, parseTree d, w.toNat? with
    | some s, some v, some d, some w => let r := pstep p (.copy s v d w); (r.1, showOut r.2)
    | _, _, _, _ => (p, "bad-op")
  | ["copyb", s, v, d, w, n] =>
    match parseTree s, v.toNat?, parseTree d, w.toNat?, n.toNat? with
    | some s, some v, some d, some w, some n => let r := pstep p (.copyb s v d w n); (r.1, showOut r.2)
    | _, _, _, _, _ => (p, "bad-op")
  | "2" :: rest => let r := stepLine p.2 rest; ((p.1, r.1), r.2)
  | _ => let r := stepLine p.1 toks; ((r.1, p.2), r.2)

end Hive.KV
