import Hive.Model.DerivedCounter
import Hive.Conc.Sys
/-!
# Protocol model of `reactive.EvictionState` under concurrency (eviction_state_impl.go)

Any number of goroutines, each with an arbitrary script of `Evict(slot)` and `EvictionEvent(slot)`
calls.  `evict()` (under the write lock) is one step: it advances `lastEvictedSlot`, removes the
events of the newly evicted slots from the map and hands them to the calling goroutine, which then
triggers them one step at a time *outside* the lock.  `EvictionEvent` is one step: it holds only the
read lock of the eviction state, so concurrent `EvictionEvent` calls do overlap in the code, and the
step is atomic **because `ShrinkingMap.GetOrCreate` is** (write lock, re-check, create) — a hypothesis
of this model, tied by the skeleton obligation on `GetOrCreate` and the `evictsame` stress scenario.  State = the sequential model's state `EV`.
-/
namespace Hive.Derived
open Hive.Conc

inductive EVCall
  | evict (slot : Int)
  | event (slot : Int)
deriving Repr, DecidableEq

structure EVT where
  todo : List Int          -- events returned by `evict()`, not yet triggered by this goroutine
  script : List EVCall
deriving Repr, DecidableEq

def evStep (s : EV) (t : EVT) : List (EV × EVT) :=
  match t.todo, t.script with
  | e :: rest, _ => [({ s with trig := s.trig ++ [e] }, { t with todo := rest })]
  | [], [] => []
  | [], .event slot :: sc => [((s.step (.event slot)).1, { todo := [], script := sc })]
  | [], .evict slot :: sc =>
    if s.evicted slot then [(s, { todo := [], script := sc })]
    else
      [({ s with last := some slot, events := s.events.filter (fun i => !decide (i ≤ slot)) },
        { todo := evFire s.events slot, script := sc })]

def evSys : Sys EV EVT := { step := evStep }

def EVT.finished (t : EVT) : Bool := t.todo.isEmpty && t.script.isEmpty

/-! ## Lock level: `evict()`'s test and its update as separate steps

`evSys` makes `evict()` one step.  Here the write lock of the eviction state is part of the state and `evict()` is
`Lock` → test `slot <= lastEvictedSlot` → (collect the events, store the slot) → `Unlock`, one step each, the update
*not* re-testing (as in the code).  `inside = true` is the code: the test is made under the write lock.
`inside = false` is the variant that decides "evicted already" in front of the critical section (under the read lock
only) and takes the write lock afterwards.  `EvictionEvent` holds the read lock: it cannot run while the write lock is
held. -/

structure EVL where
  ev : EV
  lock : Bool        -- `e.mutex` is write-locked

inductive EVLT
  | run (t : EVT)
  | check (slot : Int) (sc : List EVCall)         -- `evict()`: about to test `slot <= lastEvictedSlot`
  | waitLock (slot : Int) (sc : List EVCall)      -- `inside = false` only: test passed, about to `Lock`
  | update (slot : Int) (sc : List EVCall)        -- holds the write lock, test passed: collect + store
  | unlock (todo : List Int) (sc : List EVCall)   -- deferred `Unlock`
deriving Repr, DecidableEq

def EVT.atEvict (t : EVT) : Option (Int × List EVCall) :=
  match t.todo, t.script with
  | [], .evict slot :: sc => some (slot, sc)
  | _, _ => none

def EVT.atEvent (t : EVT) : Bool :=
  match t.todo, t.script with
  | [], .event _ :: _ => true
  | _, _ => false

def evlStep (inside : Bool) (s : EVL) : EVLT → List (EVL × EVLT)
  | .run t =>
    match t.atEvict with
    | some (slot, sc) =>
      if inside then (if s.lock then [] else [({ s with lock := true }, .check slot sc)])
      else [(s, .check slot sc)]
    | none =>
      if t.atEvent && s.lock then []
      else (evStep s.ev t).map (fun p => ({ s with ev := p.1 }, .run p.2))
  | .check slot sc =>
    if !inside && s.lock then []      -- the read lock of the variant waits for a writer
    else if s.ev.evicted slot then
      (if inside then [(s, .unlock [] sc)] else [(s, .run { todo := [], script := sc })])
    else if inside then [(s, .update slot sc)] else [(s, .waitLock slot sc)]
  | .waitLock slot sc => if s.lock then [] else [({ s with lock := true }, .update slot sc)]
  | .update slot sc =>
    [({ s with ev := { s.ev with last := some slot, events := s.ev.events.filter (fun i => !decide (i ≤ slot)) } },
      .unlock (evFire s.ev.events slot) sc)]
  | .unlock todo sc => [({ s with lock := false }, .run { todo := todo, script := sc })]

def evlSys (inside : Bool) : Sys EVL EVLT := { step := evlStep inside }

/-- The call-level thread a lock-level thread stands for: inside `evict()` the call has not happened yet until the
update (or the positive test) is done. -/
def EVLT.abs : EVLT → EVT
  | .run t => t
  | .check slot sc => { todo := [], script := .evict slot :: sc }
  | .waitLock slot sc => { todo := [], script := .evict slot :: sc }
  | .update slot sc => { todo := [], script := .evict slot :: sc }
  | .unlock todo sc => { todo := todo, script := sc }

def EVLT.finished : EVLT → Bool
  | .run t => t.finished
  | _ => false

/-- Two evictors and one `EvictionEvent(4)`: with the test in front of the critical section `Evict(3)` passes the test,
`Evict(5)` runs completely (and triggers the event of slot 4), then `Evict(3)` stores its slot. -/
def evlBackSched : List (Nat × Nat) :=
  [(2, 0), (0, 0), (0, 0), (1, 0), (1, 0), (1, 0), (1, 0), (1, 0), (1, 0), (0, 0), (0, 0), (0, 0)]

def evlBackInit : Cfg EVL EVLT :=
  ({ ev := EV.init, lock := false },
    [.run ⟨[], [.evict 3]⟩, .run ⟨[], [.evict 5]⟩, .run ⟨[], [.event 4]⟩])

end Hive.Derived
