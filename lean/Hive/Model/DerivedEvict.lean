import Hive.Model.DerivedCounter
import Hive.Conc.Sys
/-!
# Protocol model of `reactive.EvictionState` under concurrency (eviction_state_impl.go)

Any number of goroutines, each with an arbitrary script of `Evict(slot)` and `EvictionEvent(slot)`
calls.  `evict()` (under the write lock) is one step: it advances `lastEvictedSlot`, removes the
events of the newly evicted slots from the map and hands them to the calling goroutine, which then
triggers them one step at a time *outside* the lock.  `EvictionEvent` is one step: it holds only the
read lock of the eviction state, so concurrent `EvictionEvent` calls do overlap in the code, and the
step is atomic **because `ShrinkingMap.GetOrCreate` is** (write lock, re-check, create) — a hypothesis
of this model, tied by the skeleton obligation on `GetOrCreate` and the `evictsame` stress scenario.  State = the sequential model's state `EV`.
-/
namespace Hive.Derived
open Hive.Conc

inductive EVCall
  | evict (slot : Int)
  | event (slot : Int)
deriving Repr, DecidableEq

structure EVT where
  todo : List Int          -- events returned by `evict()`, not yet triggered by this goroutine
  script : List EVCall
deriving Repr, DecidableEq

def evStep (s : EV) (t : EVT) : List (EV × EVT) :=
  match t.todo, t.script with
  | e :: rest, _ => [({ s with trig := s.trig ++ [e] }, { t with todo := rest })]
  | [], [] => []
  | [], .event slot :: sc => [((s.step (.event slot)).1, { todo := [], script := sc })]
  | [], .evict slot :: sc =>
    if s.evicted slot then [(s, { todo := [], script := sc })]
    else
      [({ s with last := some slot, events := s.events.filter (fun i => !decide (i ≤ slot)) },
        { todo := evFire s.events slot, script := sc })]

def evSys : Sys EV EVT := { step := evStep }

def EVT.finished (t : EVT) : Bool := t.todo.isEmpty && t.script.isEmpty

end Hive.Derived
