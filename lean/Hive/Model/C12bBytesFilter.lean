import Hive.Model.C12bBase
/-!
# Model of `bytesfilter.BytesFilter` (ds/bytesfilter/bytesfilter.go)

Data layout as in the Go code: the slice `identifiers` (oldest first), the set `knownIdentifiers`
(a ShrinkingMap with empty values, modelled as a duplicate-free list of keys) and `size`.
Identifiers are `Nat`s (the harness maps them injectively to `[32]byte`).

`addIdentifier`:
```
if known.Get(id) exists { return false }
if len(identifiers) == size { known.Delete(identifiers[0]); identifiers = append(identifiers[1:], id) }
else { identifiers = append(identifiers, id) }
known.Set(id); return true
```
With `size = 0` the expression `identifiers[0]` panics before anything is mutated (totalised
corner: answer `panic`, state unchanged).  `Add(bytes)` / `Contains(bytes)` differ from
`AddIdentifier` / `ContainsIdentifier` only by applying `newIdentifierFunc` first.
-/
namespace Hive.C12b.BF

structure St where
  size : Nat
  ids : List Nat      -- the slice
  known : List Nat    -- the set
  accepted : List Nat -- ghost: every identifier for which Add returned true, oldest first
deriving Repr

def init (size : Nat) : St := { size := size, ids := [], known := [], accepted := [] }

inductive Op
  | add (x : Nat)
  | has (x : Nat)
deriving Repr, DecidableEq

inductive Out
  | bool (b : Bool)
  | panic
deriving Repr, DecidableEq

def setInsert (s : List Nat) (x : Nat) : List Nat := if x ∈ s then s else s ++ [x]
def setErase (s : List Nat) (x : Nat) : List Nat := s.filter (· ≠ x)

def step (s : St) : Op → St × Out
  | .has x => (s, .bool (decide (x ∈ s.known)))
  | .add x =>
    if x ∈ s.known then (s, .bool false)
    else if s.ids.length = s.size then
      match s.ids with
      | [] => (s, .panic)      -- identifiers[0] with len 0 = size 0
      | o :: rest =>
        ({ s with known := setInsert (setErase s.known o) x, ids := rest ++ [x],
                  accepted := s.accepted ++ [x] }, .bool true)
    else
      ({ s with known := setInsert s.known x, ids := s.ids ++ [x], accepted := s.accepted ++ [x] },
        .bool true)

def run (s : St) : List Op → St × List Out
  | [] => (s, [])
  | op :: ops =>
    let r := step s op
    let rs := run r.1 ops
    (rs.1, r.2 :: rs.2)

def final (s : St) (ops : List Op) : St := ops.foldl (fun s op => (step s op).1) s

/-! ## abstract specification: the last `size` distinct identifiers -/

/-- The last `n` elements of a list. -/
def lastN (n : Nat) (l : List Nat) : List Nat := l.drop (l.length - n)

structure Spec where
  size : Nat
  recent : List Nat
deriving Repr

def specStep (s : Spec) : Op → Spec × Out
  | .has x => (s, .bool (decide (x ∈ s.recent)))
  | .add x =>
    if x ∈ s.recent then (s, .bool false)
    else if s.size = 0 then (s, .panic)
    else ({ s with recent := lastN s.size (s.recent ++ [x]) }, .bool true)

def abs (s : St) : Spec := { size := s.size, recent := s.ids }

/-! ## line protocol -/
open Hive.Proto

def showOut : Out → String
  | .bool b => showBool b
  | .panic => "panic"

def stepLine (s : St) (toks : List String) : St × String :=
  match toks with
  | ["new", n] => match n.toNat? with
    | some n => (init n, "ok")
    | none => (s, "bad-op")
  | ["add", x] | ["addb", x] => match x.toNat? with
    | some x => let r := step s (.add x); (r.1, showOut r.2)
    | none => (s, "bad-op")
  | ["has", x] | ["hasb", x] => match x.toNat? with
    | some x => let r := step s (.has x); (r.1, showOut r.2)
    | none => (s, "bad-op")
  | ["state"] =>
    (s, s!"size={s.size} ids={showNats s.ids} known={showNats (sortBy id s.known)}")
  | ["all", u] => match u.toNat? with
    | some u => (s, showNats ((List.range u).filter (fun x => decide (x ∈ s.known))))
    | none => (s, "bad-op")
  | _ => (s, "bad-op")

end Hive.C12b.BF
