import Hive.Model.DeserBase
/-!
# Model of `serializer/stream` (read.go, write.go, byte_buffer.go) — C01 stream part and C02

The reader is *data plus a list of chunk sizes*: the k-th `Read` that finds data returns at most
`chunks[k]` bytes (0 allowed), once the list is used up reads are unlimited; at the end of the data
`Read` returns `io.EOF`.  This is every behaviour an `io.Reader` over a fixed byte string can show
to `io.ReadFull`.  The model is the code after the `fix:` commits dcbd6f5 (io.ReadFull), 8016efd
(uint64 prefix must fit an int) and 7143981 (no allocation by an untrusted length); the old
behaviour is kept as `readBytesOld` / `readFixedSizeOld` for the witness theorems.
-/
namespace Hive.Stream
open Hive.Dec

structure Rd where
  rest : Bytes
  chunks : List Nat
deriving Repr, DecidableEq

/-- `io.ReadFull(reader, buf)` with `len buf = n`, as a loop of `Read` calls (`racc`: the bytes
delivered so far, newest first). -/
def readFullAux : List Nat → Nat → Bytes → Bytes → Option Bytes × Rd
  | cs, 0, rest, racc => (some racc.reverse, ⟨rest, cs⟩)
  | [], n + 1, rest, racc =>
    if n + 1 ≤ rest.length then (some (racc.reverse ++ rest.take (n + 1)), ⟨rest.drop (n + 1), []⟩)
    else (none, ⟨[], []⟩)
  | c :: cs, n + 1, rest, racc =>
    if rest.isEmpty then (none, ⟨[], c :: cs⟩)
    else
      -- one Read: at most the chunk, at most what is asked for, at most what is there
      let t := rest.take (min (n + 1) c)
      readFullAux cs (n + 1 - t.length) (rest.drop t.length) (t.reverse ++ racc)

def readFull (n : Nat) (rd : Rd) : Option Bytes × Rd := readFullAux rd.chunks n rd.rest []

/-- `math.MaxInt` on the 64-bit platforms the repository targets -/
def maxInt : Nat := 2 ^ 63 - 1

/-- `readFixedSize`: `binary.Read` of the prefix, then the conversion to `int`.  (The scratch buffer of
`binary.Read` has the fixed size of the type read: a fixed-size allocation, not charged to `alloc`.) -/
def readFixedSize (lp : LP) (rd : Rd) : Option Nat × Rd × Cost :=
  match readFull lp.width rd with
  | (none, rd') => (none, rd', {})
  | (some bs, rd') =>
    if lp = .u64 ∧ maxInt < leNat bs then (none, rd', {}) else (some (leNat bs), rd', {})

/-- `maxReadBytesPreallocation` -/
def prealloc : Nat := 16384

/-- the growth loop of `ReadBytes`: extend by at most as much again as was already delivered -/
def growAux : Nat → Nat → Bytes → Rd → Nat → Option Bytes × Rd × Nat
  | 0, _, acc, rd, a => (some acc, rd, a)
  | f + 1, n, acc, rd, a =>
    if acc.length < n then
      let next := min (n - acc.length) acc.length
      match readFull next rd with
      | (none, rd') => (none, rd', a + (acc.length + next))
      | (some b, rd') => growAux f n (acc ++ b) rd' (a + (acc.length + next))
    else (some acc, rd, a)

/-- `ReadBytes(reader, length)`: result, reader, bytes allocated -/
def readBytes (n : Int) (rd : Rd) : Option Bytes × Rd × Nat :=
  if n < 0 then (none, rd, 0)
  else
    let first := min n.toNat prealloc
    match readFull first rd with
    | (none, rd') => (none, rd', first)
    | (some b, rd') => growAux n.toNat n.toNat b rd' first

/-- the `objectFromBytesFunc` parameters used by the tie -/
inductive From
  | id | u64 | a32 | half | fail
deriving Repr, DecidableEq

/-- the callback's result; `ReadObject` demands that it consumed every byte it was given -/
def applyFrom : From → Bytes → Option Bytes
  | .id, b => some b
  | .u64, b => if b.length = 8 then some b else none
  | .a32, b => if b.length = 32 then some b else none
  | .half, b => if b.length = 0 then some [] else none
  | .fail, _ => none

mutual
inductive ROp
  | num (w : Nat)
  | bool
  | arr (n : Nat)
  | bytes (n : Int)
  | bws (lp : LP)
  | obj (n : Int) (f : From)
  | ows (lp : LP) (f : From)
  | peek (lp : LP)
  | coll (lp : LP) (item : RProg)
  | sub (item : RProg)          -- ReadObjectFromReader: the callback reads from the same reader
inductive RProg
  | nil
  | cons (op : ROp) (rest : RProg)
end

structure ROut where
  res : Res
  rd : Rd
  vals : List Val
  cost : Cost
deriving Repr, DecidableEq

def rfail (rd : Rd) (c : Cost) : ROut := ⟨.err, rd, [], c⟩
def rok (rd : Rd) (v : Val) (c : Cost) : ROut := ⟨.ok, rd, [v], c⟩

/-- `ReadObject(reader, n, f)` -/
def readObj (n : Int) (f : From) (rd : Rd) (c0 : Cost) : ROut :=
  match readBytes n rd with
  | (none, rd', a) => rfail rd' (c0 + ⟨a, 0⟩)
  | (some b, rd', a) =>
    match applyFrom f b with
    | none => rfail rd' (c0 + ⟨a, 0⟩)
    | some v => rok rd' (.bytes v) (c0 + ⟨a, 0⟩)

/-- `for i := range count { readCallback(i) }` -/
def loopItems (body : Rd → ROut) : Nat → Rd → ROut
  | 0, rd => ⟨.ok, rd, [], {}⟩
  | n + 1, rd =>
    let o := body rd
    if o.res = .ok then
      let o2 := loopItems body n o.rd
      ⟨o2.res, o2.rd, o.vals ++ o2.vals, o.cost + o2.cost + ⟨0, 1⟩⟩
    else ⟨o.res, o.rd, o.vals, o.cost + ⟨0, 1⟩⟩

mutual
def runOp : ROp → Rd → ROut
  | .num w, rd =>
    match readFull w rd with
    | (none, rd') => rfail rd' {}
    | (some b, rd') => rok rd' (.bytes b) {}
  | .bool, rd =>
    match readFull 1 rd with
    | (none, rd') => rfail rd' {}
    | (some b, rd') => rok rd' (.bytes [if b.head? = some 0 then 0 else 1]) {}
  | .arr n, rd =>
    match readFull n rd with
    | (none, rd') => rfail rd' {}
    | (some b, rd') => rok rd' (.bytes b) {}
  | .bytes n, rd =>
    match readBytes n rd with
    | (none, rd', a) => rfail rd' ⟨a, 0⟩
    | (some b, rd', a) => rok rd' (.bytes b) ⟨a, 0⟩
  | .bws lp, rd =>
    match readFixedSize lp rd with
    | (none, rd', c) => rfail rd' c
    | (some n, rd', c) =>
      if n = 0 then rok rd' (.bytes []) c
      else
        match readBytes n rd' with
        | (none, rd'', a) => rfail rd'' (c + ⟨a, 0⟩)
        | (some b, rd'', a) => rok rd'' (.bytes b) (c + ⟨a, 0⟩)
  | .obj n f, rd => readObj n f rd {}
  | .ows lp f, rd =>
    match readFixedSize lp rd with
    | (none, rd', c) => rfail rd' c
    | (some n, rd', c) => readObj n f rd' c
  | .peek lp, rd =>
    match readFixedSize lp rd with
    | (none, rd', c) => rfail rd' c
    | (some n, rd', c) => rok ⟨rd.rest, rd'.chunks⟩ (.size n) c
  | .coll lp item, rd =>
    match readFixedSize lp rd with
    | (none, rd', c) => rfail rd' c
    | (some n, rd', c) =>
      let o := loopItems (runProg item) n rd'
      ⟨o.res, o.rd, o.vals, c + o.cost⟩
  | .sub item, rd => runProg item rd
def runProg : RProg → Rd → ROut
  | .nil, rd => ⟨.ok, rd, [], {}⟩
  | .cons op rest, rd =>
    let o := runOp op rd
    if o.res = .ok then
      let o2 := runProg rest o.rd
      ⟨o2.res, o2.rd, o.vals ++ o2.vals, o.cost + o2.cost⟩
    else o
end

/-! ## the unrepaired readers (witness theorems only) -/

/-- old `ReadBytes`: `make([]byte, length)` (panics for a negative length), then ONE `Read`. -/
def readBytesOld (n : Int) (rd : Rd) : Res × Nat :=
  if n < 0 then (.panic, 0)
  else
    match rd.chunks with
    | [] => (if n.toNat ≤ rd.rest.length then .ok else .err, n.toNat)
    | c :: _ => (if n.toNat ≤ min c rd.rest.length then .ok else .err, n.toNat)

/-- old `readFixedSize` for a uint64 prefix: `int(result)` wraps around. -/
def readFixedSizeOld64 (bs : Bytes) : Int :=
  if maxInt < leNat bs then (leNat bs : Int) - 2 ^ 64 else leNat bs

/-! ## writers -/

/-- `stream.ByteBuffer` -/
structure BB where
  buf : Bytes
  pos : Nat
deriving Repr, DecidableEq

def BB.write (w : BB) (p : Bytes) : BB :=
  let buf1 := w.buf ++ List.replicate (w.pos - w.buf.length) 0
  ⟨buf1.take w.pos ++ p ++ buf1.drop (w.pos + p.length), w.pos + p.length⟩

/-- `whence` of `io.Seeker` -/
inductive Whence
  | start | cur | fin
deriving Repr, DecidableEq

/-- `ByteBuffer.Seek` (`stream.GoTo` = start, `stream.Skip` = cur, `stream.Offset` = cur 0): the new position is
computed from the start, the current position or the length of the storage; a negative result is an error
and leaves the buffer as it is; a position beyond the end is allowed (the next write pads with zeros). -/
def BB.seek (w : BB) (wh : Whence) (off : Int) : Option BB :=
  let np : Int := match wh with
    | .start => off
    | .cur => (w.pos : Int) + off
    | .fin => (w.buf.length : Int) + off
  if np < 0 then none else some ⟨w.buf, np.toNat⟩

def fitsLP : LP → Nat → Bool
  | .u8, n => n ≤ 255
  | .u16, n => n ≤ 65535
  | .u32, n => n ≤ 4294967295
  | .u64, n => n ≤ maxInt

def writeFixedSize (lp : LP) (n : Nat) (w : BB) : Option BB :=
  if fitsLP lp n then some (w.write (natLE lp.width n)) else none

def numBytes (w : Nat) (d : Bytes) : Bytes := natLE w (leNat (d.take 8))

def boolByte (d : Bytes) : UInt8 :=
  match d with
  | [] => 0
  | b :: _ => if b = 0 then 0 else 1

def padTo (n : Nat) (d : Bytes) : Bytes := (d ++ List.replicate n 0).take n

/-- item kinds of a written collection -/
inductive IK
  | bws (lp : LP) | ows (lp : LP) | num (w : Nat) | obj (n : Nat)
deriving Repr, DecidableEq

inductive WOp
  | num (w : Nat) (d : Bytes)
  | bool (d : Bytes)
  | arr (n : Nat) (d : Bytes)
  | bytes (d : Bytes)
  | bws (lp : LP) (d : Bytes)
  | obj (d : Bytes)
  | ows (lp : LP) (d : Bytes)
  | coll (lp : LP) (k : IK) (items : List Bytes)
deriving Repr, DecidableEq

def writeSized (lp : LP) (d : Bytes) (w : BB) : Option BB :=
  match writeFixedSize lp d.length w with
  | none => none
  | some w1 => some (w1.write d)

def writeItem : IK → Bytes → BB → Option BB
  | .bws lp, it, w => writeSized lp it w
  | .ows lp, it, w => writeSized lp it w
  | .num wd, it, w => some (w.write (numBytes wd it))
  | .obj _, it, w => some (w.write it)

def writeItems (k : IK) : List Bytes → BB → Option BB
  | [], w => some w
  | it :: its, w =>
    match writeItem k it w with
    | none => none
    | some w1 => writeItems k its w1

/-- one `Write*` call on a ByteBuffer -/
def runWOp : WOp → BB → Option BB
  | .num wd d, w => some (w.write (numBytes wd d))
  | .bool d, w => some (w.write [boolByte d])
  | .arr n d, w => some (w.write (padTo n d))
  | .bytes d, w => some (w.write d)
  | .bws lp d, w => writeSized lp d w
  | .obj d, w => some (w.write d)
  | .ows lp d, w => writeSized lp d w
  | .coll lp k items, w =>
    -- WriteCollection: placeholder count, the items, seek back, the real count, seek to the end
    match writeFixedSize lp 0 w with
    | none => none
    | some w1 =>
      match writeItems k items w1 with
      | none => none
      | some w2 =>
        match writeFixedSize lp items.length ⟨w2.buf, w.pos⟩ with
        | none => none
        | some w3 => some ⟨w3.buf, w2.pos⟩

def runW : List WOp → BB → Option BB
  | [], w => some w
  | op :: ops, w =>
    match runWOp op w with
    | none => none
    | some w1 => runW ops w1

def readOfItem : IK → ROp
  | .bws lp => .bws lp
  | .ows lp => .ows lp .id
  | .num w => .num w
  | .obj n => .obj n .id

/-- the reader call that reads back what a writer call wrote -/
def readOf1 : WOp → ROp
  | .num w _ => .num w
  | .bool _ => .bool
  | .arr n _ => .arr n
  | .bytes d => .bytes d.length
  | .bws lp _ => .bws lp
  | .obj d => .obj d.length .id
  | .ows lp _ => .ows lp .id
  | .coll lp k _ => .coll lp (.cons (readOfItem k) .nil)

def readOf : List WOp → RProg
  | [] => .nil
  | op :: ops => .cons (readOf1 op) (readOf ops)

def itemVal : IK → Bytes → Val
  | .num w, it => .bytes (numBytes w it)
  | _, it => .bytes it

/-- the values a writer call was given, as the reader reports them -/
def valsOf1 : WOp → List Val
  | .num w d => [.bytes (numBytes w d)]
  | .bool d => [.bytes [boolByte d]]
  | .arr n d => [.bytes (padTo n d)]
  | .bytes d => [.bytes d]
  | .bws _ d => [.bytes d]
  | .obj d => [.bytes d]
  | .ows _ d => [.bytes d]
  | .coll _ k items => items.map (itemVal k)

def valsOf : List WOp → List Val
  | [] => []
  | op :: ops => valsOf1 op ++ valsOf ops

/-! ## line protocol -/
open Hive.Proto

def parseChunks (s : String) : Option (List Nat) :=
  if s == "-" then some [] else (s.splitOn ",").mapM String.toNat?

/-- The reader token `CHUNKS[!][@K]`: `!` = the reader hands out its last bytes together with `io.EOF`
(allowed by the `io.Reader` contract; `io.ReadFull` ignores an error that comes with enough bytes — same
behaviour), `@K` = the reader fails with an error other than EOF once `K` bytes were delivered: for the
helpers (outcome class, values, bytes taken from the reader) that is the reader over the first `K` bytes. -/
def parseReader (s : String) (d : Bytes) : Option (List Nat × Bytes) :=
  match s.splitOn "@" with
  | [c] => do pure (← parseChunks ((c.splitOn "!").headD ""), d)
  | [c, k] => do pure (← parseChunks ((c.splitOn "!").headD ""), d.take (← k.toNat?))
  | _ => none

/-- the seek token of an `rw` line: `N` = GoTo N, `c+N` / `c-N` = Skip, `e+N` / `e-N` = Seek(·, io.SeekEnd) -/
def parseSeek (s : String) : Option (Whence × Int) :=
  match s.toList with
  | 'c' :: r => do pure (.cur, ← (String.mk (if r.head? = some '+' then r.drop 1 else r)).toInt?)
  | 'e' :: r => do pure (.fin, ← (String.mk (if r.head? = some '+' then r.drop 1 else r)).toInt?)
  | _ => do pure (.start, ← s.toInt?)

def parseFrom : String → Option From
  | "id" => some .id
  | "idc" => some .id
  | "u64" => some .u64
  | "a32" => some .a32
  | "half" => some .half
  | "fail" => some .fail
  | _ => none

/-- reader programs: tokens up to the matching `)` (fuel = number of tokens) -/
def parseR : Nat → List String → Option (RProg × List String)
  | 0, _ => none
  | _ + 1, [] => some (.nil, [])
  | _ + 1, ")" :: ts => some (.nil, ts)
  | f + 1, "num" :: w :: ts => do
    let (r, ts') ← parseR f ts
    pure (.cons (.num (← w.toNat?)) r, ts')
  | f + 1, "bool" :: ts => do
    let (r, ts') ← parseR f ts
    pure (.cons .bool r, ts')
  | f + 1, "arr" :: n :: ts => do
    let (r, ts') ← parseR f ts
    pure (.cons (.arr (← n.toNat?)) r, ts')
  | f + 1, "bytes" :: n :: ts => do
    let (r, ts') ← parseR f ts
    pure (.cons (.bytes (← n.toInt?)) r, ts')
  | f + 1, "bws" :: lp :: ts => do
    let (r, ts') ← parseR f ts
    pure (.cons (.bws (← parseLP lp)) r, ts')
  | f + 1, "peek" :: lp :: ts => do
    let (r, ts') ← parseR f ts
    pure (.cons (.peek (← parseLP lp)) r, ts')
  | f + 1, "obj" :: n :: fr :: ts => do
    let (r, ts') ← parseR f ts
    pure (.cons (.obj (← n.toInt?) (← parseFrom fr)) r, ts')
  | f + 1, "ows" :: lp :: fr :: ts => do
    let (r, ts') ← parseR f ts
    pure (.cons (.ows (← parseLP lp) (← parseFrom fr)) r, ts')
  | f + 1, "coll" :: lp :: "(" :: ts => do
    let (item, ts1) ← parseR f ts
    let (r, ts2) ← parseR f ts1
    pure (.cons (.coll (← parseLP lp) item) r, ts2)
  | f + 1, "ofr" :: "(" :: ts => do
    let (item, ts1) ← parseR f ts
    let (r, ts2) ← parseR f ts1
    pure (.cons (.sub item) r, ts2)
  | _ + 1, _ => none

def takeItems : List String → Option (List Bytes × List String)
  | [] => none
  | ")" :: ts => some ([], ts)
  | t :: ts => do
    let b ← unhex t
    let (bs, ts') ← takeItems ts
    pure (b :: bs, ts')

def parseW : Nat → List String → Option (List WOp)
  | 0, _ => none
  | _ + 1, [] => some []
  | f + 1, "num" :: w :: d :: ts => do pure (.num (← w.toNat?) (← unhex d) :: (← parseW f ts))
  | f + 1, "arr" :: n :: d :: ts => do pure (.arr (← n.toNat?) (← unhex d) :: (← parseW f ts))
  | f + 1, "bool" :: d :: ts => do pure (.bool (← unhex d) :: (← parseW f ts))
  | f + 1, "bytes" :: d :: ts => do pure (.bytes (← unhex d) :: (← parseW f ts))
  | f + 1, "obj" :: d :: ts => do pure (.obj (← unhex d) :: (← parseW f ts))
  | f + 1, "bws" :: lp :: d :: ts => do pure (.bws (← parseLP lp) (← unhex d) :: (← parseW f ts))
  | f + 1, "ows" :: lp :: d :: ts => do pure (.ows (← parseLP lp) (← unhex d) :: (← parseW f ts))
  | f + 1, "coll" :: lp :: "bws" :: ilp :: "(" :: ts => do
    let (its, ts') ← takeItems ts
    pure (.coll (← parseLP lp) (.bws (← parseLP ilp)) its :: (← parseW f ts'))
  | f + 1, "coll" :: lp :: "ows" :: ilp :: "(" :: ts => do
    let (its, ts') ← takeItems ts
    pure (.coll (← parseLP lp) (.ows (← parseLP ilp)) its :: (← parseW f ts'))
  | f + 1, "coll" :: lp :: "num" :: w :: "(" :: ts => do
    let (its, ts') ← takeItems ts
    pure (.coll (← parseLP lp) (.num (← w.toNat?)) its :: (← parseW f ts'))
  | f + 1, "coll" :: lp :: "obj" :: n :: "(" :: ts => do
    let (its, ts') ← takeItems ts
    pure (.coll (← parseLP lp) (.obj (← n.toNat?)) its :: (← parseW f ts'))
  | _ + 1, _ => none

/-! ### a seekable reader (`stream.ByteReader` = `bytes.Reader`): reader programs between Skip / GoTo / Offset -/

inductive SOp
  | run (p : RProg)
  | goto (n : Int)          -- stream.GoTo
  | skip (n : Int)          -- stream.Skip
  | off                     -- stream.Offset
  | bread                   -- ByteReader.BytesRead

structure SOut where
  res : Res
  pos : Nat
  vals : List Val
deriving Repr

/-- the position of a `bytes.Reader` may lie beyond the data (then every read is `io.EOF`), never below 0
(`Seek` refuses); `BytesRead` = `Size() - Len()` = the position capped at the size. -/
def runS : List SOp → Bytes → Nat → SOut
  | [], _, pos => ⟨.ok, pos, []⟩
  | .run p :: rest, d, pos =>
    let o := runProg p ⟨d.drop pos, []⟩
    let pos' := pos + ((d.drop pos).length - o.rd.rest.length)
    match o.res with
    | .ok => let r := runS rest d pos'; ⟨r.res, r.pos, o.vals ++ r.vals⟩
    | x => ⟨x, pos', o.vals⟩
  | .goto n :: rest, d, pos => if n < 0 then ⟨.err, pos, []⟩ else runS rest d n.toNat
  | .skip n :: rest, d, pos => if (pos : Int) + n < 0 then ⟨.err, pos, []⟩ else runS rest d ((pos : Int) + n).toNat
  | .off :: rest, d, pos => let r := runS rest d pos; ⟨r.res, r.pos, .size pos :: r.vals⟩
  | .bread :: rest, d, pos => let r := runS rest d pos; ⟨r.res, r.pos, .size (min pos d.length) :: r.vals⟩

def parseS : Nat → List String → Option (List SOp)
  | 0, _ => none
  | _ + 1, [] => some []
  | f + 1, "goto" :: n :: ts => do pure (.goto (← n.toInt?) :: (← parseS f ts))
  | f + 1, "skip" :: n :: ts => do pure (.skip (← n.toInt?) :: (← parseS f ts))
  | f + 1, "off" :: ts => do pure (.off :: (← parseS f ts))
  | f + 1, "br" :: ts => do pure (.bread :: (← parseS f ts))
  | f + 1, "run" :: "(" :: ts => do
    let (p, ts1) ← parseR (ts.length + 1) ts
    pure (.run p :: (← parseS f ts1))
  | _ + 1, _ => none

def showS (o : SOut) : String :=
  match o.res with
  | .ok => s!"ok {o.pos} {showVals o.vals}"
  | .err => s!"err {o.pos} {showVals o.vals}"
  | .panic => "panic"

def showRes (total : Nat) (o : ROut) : String :=
  match o.res with
  | .ok => s!"ok {total - o.rd.rest.length} {o.cost.iters} {showVals o.vals}"
  | .err => s!"err {total - o.rd.rest.length} {o.cost.iters}"
  | .panic => "panic"

/-- `sr READER DATAHEX prog…`, `sk DATAHEX sprog…`, `rt READER TAILHEX wprog…`, `rw INIT CHUNKS phase1… | SEEK | phase2…` -/
def stepLine (toks : List String) : String :=
  match toks with
  | "sr" :: cs :: d :: ps =>
    match unhex d, parseR (ps.length + 1) ps with
    | some d, some (p, _) =>
      match parseReader cs d with
      | some (cs, d) => showRes d.length (runProg p ⟨d, cs⟩)
      | none => "bad-op"
    | _, _ => "bad-op"
  | "sk" :: d :: ps =>
    match unhex d, parseS (ps.length + 1) ps with
    | some d, some sp => showS (runS sp d 0)
    | _, _ => "bad-op"
  | "rt" :: cs :: tl :: ps =>
    match unhex tl, parseW (ps.length + 1) ps with
    | some tl, some wp =>
      match runW wp ⟨[], 0⟩ with
      | none => "werr"
      | some bb =>
        match parseReader cs (bb.buf ++ tl) with
        | none => "bad-op"
        | some (cs, d) =>
          let o := runProg (readOf wp) ⟨d, cs⟩
          let consumed := d.length - o.rd.rest.length
          match o.res with
          | .ok => s!"ok {hex bb.buf} {consumed} {showVals o.vals}"
          | .err => s!"rerr {consumed}"
          | .panic => "panic"
    | _, _ => "bad-op"
  | "rw" :: init :: cs :: rest =>
    -- rw INIT CHUNKS phase1… | OFF | phase2…: a ByteBuffer with INIT bytes of storage, phase 1 written from
    -- offset 0, Seek to OFF, phase 2 written in place; phase 2 read back from OFF of the final storage
    let p1 := rest.takeWhile (· != "|")
    match (rest.dropWhile (· != "|")).drop 1 with
    | off :: "|" :: p2 =>
      match init.toNat?, parseChunks cs, parseSeek off, parseW (p1.length + 1) p1, parseW (p2.length + 1) p2 with
      | some init, some cs, some (wh, off), some w1, some w2 =>
        match runW w1 ⟨List.replicate init 0, 0⟩ with
        | none => "werr"
        | some b1 =>
          match b1.seek wh off with
          | none => "serr"
          | some b1s =>
            match runW w2 b1s with
            | none => "werr"
            | some b2 =>
              let o := runProg (readOf w2) ⟨b2.buf.drop b1s.pos, cs⟩
              let consumed := (b2.buf.drop b1s.pos).length - o.rd.rest.length
              match o.res with
              | .ok => s!"ok {hex b2.buf} {b1s.pos} {b2.pos} {consumed} {showVals o.vals}"
              | .err => s!"rerr {hex b2.buf} {b1s.pos} {b2.pos} {consumed}"
              | .panic => "panic"
      | _, _, _, _, _ => "bad-op"
    | _ => "bad-op"
  | _ => "bad-op"

end Hive.Stream
