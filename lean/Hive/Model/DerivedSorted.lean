import Hive.Model.DerivedBase
/-!
# Sequential model of `reactive.SortedSet` (ds/reactive/sorted_set_impl.go)

The slice `sortedElements` (heaviest first) is a list of entries; every entry carries the `index`
field of its `sortedSetElement`.  The element an update is about is located by position (the code
locates it through its `index` field; that the two agree is the index-consistency theorem), so the
moves are written over a zipper: `revPre` = the part before the element, reversed; `post` = the part
after it.  `swap` exchanges the two `index` fields literally.  If the element type has a `Less`
method ties are broken by it (modelled: `Less` is `<` on the element identifiers).
-/
namespace Hive.Derived
open Hive.Proto

structure Ent where
  el : Nat
  w : Int
  idx : Nat
deriving Repr, DecidableEq

/-- The condition under which `swap(left, right)` exchanges the two. -/
def swapc (less : Bool) (l r : Ent) : Bool :=
  decide (l.w < r.w) || (decide (l.w = r.w) && less && decide (l.el < r.el))

/-- `for ; element.index != 0; moved = true { if !swap(sorted[index-1], element) break }` -/
def bubbleL (less : Bool) : List Ent → Ent → List Ent → Bool → List Ent × Ent × List Ent × Bool
  | [], x, post, moved => ([], x, post, moved)
  | y :: rp, x, post, moved =>
    if swapc less y x then bubbleL less rp { x with idx := y.idx } ({ y with idx := x.idx } :: post) true
    else (y :: rp, x, post, moved)

/-- `for ; element.index != len-1; moved = true { if !swap(element, sorted[index+1]) break }` -/
def bubbleR (less : Bool) : List Ent → Ent → List Ent → Bool → List Ent × Ent × List Ent × Bool
  | rp, x, [], moved => (rp, x, [], moved)
  | rp, x, z :: post, moved =>
    if swapc less x z then bubbleR less ({ z with idx := x.idx } :: rp) { x with idx := z.idx } post true
    else (rp, x, z :: post, moved)

def zip (rp : List Ent) (x : Ent) (post : List Ent) : List Ent := rp.reverse ++ x :: post

def headEl (l : List Ent) : Nat := match l.head? with | some e => e.el | none => 0
def lastEl (l : List Ent) : Nat := match l.getLast? with | some e => e.el | none => 0

structure SS where
  less : Bool
  wv : Nat → Int          -- the weight variables
  ents : List Ent
  heaviest : Nat          -- `heaviestElement` (0 = zero value)
  lightest : Nat

def SS.init (less : Bool) : SS := { less := less, wv := fun _ => 0, ents := [], heaviest := 0, lightest := 0 }

/-- `updatePosition(element)` for the element at the focus of the zipper, followed by the deferred
update of the heaviest / lightest variables. -/
def updatePosition (less : Bool) (rp : List Ent) (x : Ent) (post : List Ent) (h l : Nat) : List Ent × Nat × Nat :=
  let fromIdx := x.idx
  let r1 := bubbleL less rp x post false
  let r2 := if r1.2.2.2 then r1 else bubbleR less r1.1 r1.2.1 r1.2.2.1 false
  let out := zip r2.1 r2.2.1 r2.2.2.1
  let moved := r2.2.2.2
  let x' := r2.2.1
  let h' := if moved && fromIdx == 0 then headEl out else if x'.idx == 0 then x'.el else h
  let l' := if moved && fromIdx == out.length - 1 then lastEl out else if x'.idx == out.length - 1 then x'.el else l
  (out, h', l')

/-- Split the slice at the entry of element `e`. -/
def splitAtEl (e : Nat) : List Ent → List Ent → Option (List Ent × Ent × List Ent)
  | _, [] => none
  | rp, y :: rest => if y.el == e then some (rp, y, rest) else splitAtEl e (y :: rp) rest

def SS.has (s : SS) (e : Nat) : Bool := s.ents.any (fun y => y.el == e)

/-- The weight subscription's callback (weight already stored in the variable). -/
def SS.weightCallback (s : SS) (e : Nat) (w : Int) : SS :=
  match splitAtEl e [] s.ents with
  | none => s
  | some (rp, x, post) =>
    let r := updatePosition s.less rp { x with w := w } post s.heaviest s.lightest
    { s with ents := r.1, heaviest := r.2.1, lightest := r.2.2 }

/-- `addSorted`: append a fresh entry (weight = zero value, index = len) and subscribe to the weight
variable, which delivers the current weight at once. -/
def SS.addSorted (s : SS) (e : Nat) : SS :=
  if s.has e then s
  else SS.weightCallback { s with ents := s.ents ++ [{ el := e, w := 0, idx := s.ents.length }] } e (s.wv e)

/-- `deleteSorted`: shift the tail one position to the left, then repair heaviest / lightest. -/
def SS.deleteSorted (s : SS) (e : Nat) : SS :=
  match splitAtEl e [] s.ents with
  | none => s
  | some (rp, x, post) =>
    let out := rp.reverse ++ post.map (fun y => { y with idx := y.idx - 1 })
    let h' := if x.idx == 0 then headEl out else s.heaviest
    let l' := if x.idx == out.length then lastEl out else s.lightest
    { s with ents := out, heaviest := h', lightest := l' }

inductive SSOp
  | apply (adds dels : List Nat)     -- `Add e` = apply [e] [], `Delete e` = apply [] [e]
  | weight (e : Nat) (w : Int)       -- `weightVariable(e).Set(w)`
deriving Repr

/-- The subscriber of the underlying set gets the *applied* mutations: first the elements that were
really added (in request order), then those really deleted. -/
def ssAdds : List Nat → SS → SS
  | [], s => s
  | e :: es, s => ssAdds es (s.addSorted e)

def ssDels : List Nat → SS → SS
  | [], s => s
  | e :: es, s => ssDels es (s.deleteSorted e)

def SS.step (s : SS) : SSOp → SS
  | .apply A D => ssDels D (ssAdds A s)
  | .weight e w =>
    if s.wv e == w then s
    else
      let s1 := { s with wv := setAt s.wv e w }
      if s1.has e then s1.weightCallback e w else s1

def SS.run (s : SS) : List SSOp → SS
  | [] => s
  | op :: ops => SS.run (s.step op) ops

def SS.show (s : SS) : String :=
  s!"desc={showOrDigest (s.ents.map (·.el))} h={s.heaviest} l={s.lightest}"

def SS.stepLine (s : SS) (toks : List String) : SS × String :=
  match toks with
  | ["new", "plain"] => (SS.init false, "ok")
  | ["new", "less"] => (SS.init true, "ok")
  | ["add", e] =>
    match e.toNat? with
    | some e => let s' := s.step (.apply [e] []); (s', s'.show)
    | none => (s, "bad-op")
  | ["del", e] =>
    match e.toNat? with
    | some e => let s' := s.step (.apply [] [e]); (s', s'.show)
    | none => (s, "bad-op")
  | ["apply", a, d] =>
    match parseNats a, parseNats d with
    | some a, some d => let s' := s.step (.apply a d); (s', s'.show)
    | _, _ => (s, "bad-op")
  | ["window"] =>
    -- forced schedule of harness/c14/window.go: with correct locking it serialises to this history
    let s' := (SS.init true).run [.weight 1 9, .weight 2 5, .weight 3 5, .apply [1] [], .apply [2] [], .apply [3] [],
      .weight 3 9, .weight 1 1]
    (s', s'.show)
  | ["w", e, w] =>
    match e.toNat?, w.toInt? with
    | some e, some w => let s' := s.step (.weight e w); (s', s'.show)
    | _, _ => (s, "bad-op")
  | _ => (s, "bad-op")

end Hive.Derived
