import Hive.Conc.Sys
import Hive.Model.Events
/-!
# Protocol model of `WithMaxTriggerCount` under concurrent `Trigger` callers (C15)

One event with limit `n`, one hook with limit `m` (0 = unlimited), any number of concurrent
`Trigger` callers.  A caller performs one atomic `Add(1)` on the event's counter and compares the
result with `n`; if it may proceed it looks the hook up in the registry; if the hook is (still)
registered it performs one atomic `Add(1)` on the hook's counter and compares the result with `m`;
an exceeding caller unhooks the hook, the others invoke it.  Every line is one step, so any
interleaving of the callers is covered.

Ghost counters: `passed` (callers that passed the event's check), `skipped` (callers that found the
hook already unhooked), `fired` (invocations of the hook).
-/
namespace Hive.EventsMax
open Hive.Conc

structure Sh where
  n : Nat
  m : Nat
  ec : Nat
  hc : Nat
  attached : Bool
  fired : Nat
  passed : Nat
  skipped : Nat
deriving Repr, DecidableEq

inductive Th
  | t0   -- before `e.triggerCount.Add(1)`
  | t1   -- passed the event's check, about to reach the hook in the registry
  | t2   -- reached the hook, before `hook.triggerCount.Add(1)`
  | t3   -- the hook's limit is exceeded, about to `Unhook`
  | t4   -- about to invoke (or submit) the hook
  | fin
deriving Repr, DecidableEq

def step (s : Sh) : Th → List (Sh × Th)
  | .t0 =>
    if Hive.Events.exceeds s.n (s.ec + 1) then [({ s with ec := s.ec + 1 }, .fin)]
    else [({ s with ec := s.ec + 1, passed := s.passed + 1 }, .t1)]
  | .t1 => if s.attached then [(s, .t2)] else [({ s with skipped := s.skipped + 1 }, .fin)]
  | .t2 =>
    if Hive.Events.exceeds s.m (s.hc + 1) then [({ s with hc := s.hc + 1 }, .t3)]
    else [({ s with hc := s.hc + 1 }, .t4)]
  | .t3 => [({ s with attached := false }, .fin)]
  | .t4 => [({ s with fired := s.fired + 1 }, .fin)]
  | .fin => []

def sys : Sys Sh Th := { step := step }

def init (n m : Nat) : Sh :=
  { n := n, m := m, ec := 0, hc := 0, attached := true, fired := 0, passed := 0, skipped := 0 }

/-- `min(limit, x)` where limit 0 means "no limit". -/
def minLim (lim x : Nat) : Nat := if lim = 0 then x else min lim x

end Hive.EventsMax
