import Hive.Conc.Sys
import Hive.Spec.BatchWriter
/-!
# Protocol model of kvstore.BatchedWriter (batch_writer.go, batch_collector.go)

As the code is after `fix: BatchedWriter must add to its WaitGroup before starting the writer goroutine`
and `fix: BatchedWriter.Enqueue must count the object before checking running` (`sys`); the Enqueue of
the code before the second fix is kept as `sysOld` for the `C08_old_*_witness` theorems.  One atomic step per
synchronisation-relevant operation, in source order:

* **Enqueue(o)** (`PPc`): `autoStartOnce.Do` (other callers block while the first runs the body) whose body
  is `if !running { startBatchWriter() }` = lock `startStopMutex`; `if !running { running.Store(true);
  writeWg.Add(1); go runBatchWriter() }`; unlock.  Then `scheduledCount.Add(1)`, `running.Load()` (if false:
  `scheduledCount.Add(-1)`, return) — *verif yield point* — `object.BatchWriteScheduled()` (the object's flag
  test-and-set; if it was set: `scheduledCount.Add(-1)`, return), `batchQueue <- object` (blocks while the
  bounded queue is full).  Old code: `running.Load()`, yield point, flag, `scheduledCount.Add(1)`, send.
* **StopBatchWriter** (`SPc`): lock; `running.Load()`; `running.Store(false)`; `writeWg.Wait()`; unlock.
* **Flush**: `running.Load()`; non-blocking send on the 1-buffered flush channel.
* **runBatchWriter** (`WPc`; there is one writer goroutine, its locals live in the shared state): loop
  condition `running.Load() || scheduledCount.Load() != 0` (two loads); new collector; `select` over queue /
  flush channel / timer (the timer may fire at any step); `BatchCollector.Add` = `ResetBatchWriteScheduled`,
  `scheduledCount.Add(-1)`, `BatchWrite`, size test; `Commit` = cancel when empty, otherwise commit the
  batched mutations and then `BatchWriteDone` for every collected object in order; the flush loop drains the
  queue without blocking, committing full batches on the way; `writeWg.Done()` at the end.
* observers read the store at any time.

Every step that is visible to the client appends its `Event` to the ghost trace and feeds the monitor
(`Spec.BatchWriter.Mon`), so `mon = Mon.run trace` by construction (`Proofs`: `mon_eq_run`).
Store errors (`Batched()` / `Commit()` failing makes the writer goroutine panic = the process dies) are `sysE` in
`Model/BatchWriterErr.lean`; batch sizes ≤ 0 (one object per batch since fix 681b215) are `bsize = 0`; the Int32 counter
is an unbounded integer here (`C08_counter_in_int32_range`).  The step functions of this file are proved equal to the
interpreted programs that three go/ast translators generate from the source on every run (`Props/BatchWriterColl.lean`,
`Props/BatchWriterCalls.lean`, `Props/BatchWriterLoop.lean`).  Core Lean only.
-/
namespace Hive.BatchWriter
open Hive.Conc Hive.Spec.BatchWriter

inductive PPc
  | idle | onceChk | body | startLock | startLoad | startStore | startAdd | startGo | startUnlock
  | onceEnd | inc | chkRun | cas | send | undo | ret
  deriving DecidableEq, Repr

inductive SPc
  | idle | lock | load | store | wait | unlock | ret | fin
  deriving DecidableEq, Repr

inductive WPc
  | notStarted | loopRun | loopCnt | sel | fsel | addReset | addDec | addWrite | commit | doneLoop
  | wgDone | exited
  deriving DecidableEq, Repr

inductive Thread
  | prod (id : Nat) (pc : PPc) (cur : Nat) (script : List Nat)
  | stopper (id : Nat) (pc : SPc)
  | flusher (loaded : Bool) (n : Nat)
  | writer
  | obs (script : List Nat)
  deriving DecidableEq, Repr

structure St where
  -- configuration
  qsize : Nat
  bsize : Nat
  -- BatchedWriter fields
  running : Bool := false
  once : Nat := 0          -- 0 fresh; 1 body entered; 2 body past its start decision; 3 done
  mu : Bool := false
  wg : Nat := 0
  count : Int := 0
  queue : List Nat := []
  flushCh : Bool := false
  spawned : Bool := false
  -- objects (harness side): scheduled flag, version, the store
  flag : Nat → Bool := fun _ => false
  ver : Nat → Nat := fun _ => 0
  store : Nat → Option Nat := fun _ => none
  -- writer goroutine locals
  wpc : WPc := .notStarted
  wcur : Nat := 0
  batch : List Nat := []          -- writtenValues of the live collector
  muts : List (Nat × Nat) := []   -- its batched mutations
  todo : List Nat := []           -- objects whose BatchWriteDone is still to be called by Commit
  fl : Bool := false              -- inside the FlushValues loop
  again : Bool := false           -- the running Commit is followed by a new collector in the flush loop
  -- ghosts
  started : Bool := false         -- running.Store(true) executed
  added : Bool := false           -- writeWg.Add(1) executed
  stopped : Bool := false         -- some Stop executed running.Store(false)
  waited : Bool := false          -- that Stop passed writeWg.Wait()
  win : Nat := 0                  -- producers between a successful running check and the end of their queue send
  rst : Nat → Nat := fun _ => 0   -- resets per object
  snt : Nat → Nat := fun _ => 0   -- queue sends per object
  rcv : Nat → Nat := fun _ => 0   -- queue receives per object
  tr : List Event := []           -- newest first
  mon : Mon := {}

def emit (e : Event) (s : St) : St := { s with tr := e :: s.tr, mon := s.mon.step e }

def applyMuts (ms : List (Nat × Nat)) (f : Nat → Option Nat) : Nat → Option Nat :=
  ms.foldl (fun g m => upd g m.1 (some m.2)) f

@[simp] theorem applyMuts_nil (f : Nat → Option Nat) : applyMuts [] f = f := rfl

def stepProd (s : St) (id : Nat) (pc : PPc) (cur : Nat) (script : List Nat) : List (St × Thread) :=
  match pc with
  | .idle =>
    match script with
    | [] => []
    | o :: rest => [(emit (.enqCall id o) { s with ver := upd s.ver o (s.ver o + 1) }, .prod id .onceChk o rest)]
  | .onceChk =>
    if s.once = 0 then [({ s with once := 1 }, .prod id .body cur script)]
    else if s.once = 3 then [(s, .prod id .inc cur script)]
    else []
  | .body =>
    if s.running then [({ s with once := 2 }, .prod id .onceEnd cur script)]
    else [(s, .prod id .startLock cur script)]
  | .startLock => if s.mu then [] else [({ s with mu := true }, .prod id .startLoad cur script)]
  | .startLoad =>
    if s.running then [({ s with once := 2 }, .prod id .startUnlock cur script)]
    else [(s, .prod id .startStore cur script)]
  | .startStore => [({ s with running := true, once := 2, started := true }, .prod id .startAdd cur script)]
  | .startAdd => [({ s with wg := s.wg + 1, added := true }, .prod id .startGo cur script)]
  | .startGo => [({ s with spawned := true }, .prod id .startUnlock cur script)]
  | .startUnlock => [({ s with mu := false }, .prod id .onceEnd cur script)]
  | .onceEnd => [({ s with once := 3 }, .prod id .inc cur script)]
  | .inc => [({ s with count := s.count + 1 }, .prod id .chkRun cur script)]
  | .chkRun =>
    if s.running then [(emit (.hook id) { s with win := s.win + 1 }, .prod id .cas cur script)]
    else [(s, .prod id .undo cur script)]
  | .cas =>
    if s.flag cur then [(emit (.schedDup cur) { s with win := s.win - 1 }, .prod id .undo cur script)]
    else [(emit (.schedNew cur) { s with flag := upd s.flag cur true }, .prod id .send cur script)]
  | .send =>
    if s.queue.length < s.qsize then
      [({ s with queue := s.queue ++ [cur], snt := upd s.snt cur (s.snt cur + 1), win := s.win - 1 },
        .prod id .ret cur script)]
    else if s.qsize = 0 ∧ s.wpc = .sel then
      [({ s with snt := upd s.snt cur (s.snt cur + 1), rcv := upd s.rcv cur (s.rcv cur + 1), wcur := cur, wpc := .addReset,
                 win := s.win - 1 }, .prod id .ret cur script)]
    else if s.qsize = 0 ∧ s.wpc = .fsel then
      [({ s with snt := upd s.snt cur (s.snt cur + 1), rcv := upd s.rcv cur (s.rcv cur + 1), wcur := cur, wpc := .addReset,
                 win := s.win - 1 }, .prod id .ret cur script)]
    else []
  | .undo => [({ s with count := s.count - 1 }, .prod id .ret cur script)]
  | .ret => [(emit (.enqRet id cur) s, .prod id .idle cur script)]

/-- Enqueue as it was before `fix: BatchedWriter.Enqueue must count the object before checking running`:
running check, yield point, flag test-and-set, counter increment, send. -/
def stepProdOld (s : St) (id : Nat) (pc : PPc) (cur : Nat) (script : List Nat) : List (St × Thread) :=
  match pc with
  | .onceChk =>
    if s.once = 0 then [({ s with once := 1 }, .prod id .body cur script)]
    else if s.once = 3 then [(s, .prod id .chkRun cur script)]
    else []
  | .onceEnd => [({ s with once := 3 }, .prod id .chkRun cur script)]
  | .chkRun =>
    if s.running then [(emit (.hook id) s, .prod id .cas cur script)] else [(s, .prod id .ret cur script)]
  | .cas =>
    if s.flag cur then [(emit (.schedDup cur) s, .prod id .ret cur script)]
    else [(emit (.schedNew cur) { s with flag := upd s.flag cur true }, .prod id .inc cur script)]
  | .inc => [({ s with count := s.count + 1 }, .prod id .send cur script)]
  | .send =>
    if s.queue.length < s.qsize then
      [({ s with queue := s.queue ++ [cur], snt := upd s.snt cur (s.snt cur + 1) }, .prod id .ret cur script)]
    else []
  | .undo => []
  | _ => stepProd s id pc cur script

def stepStop (s : St) (id : Nat) (pc : SPc) : List (St × Thread) :=
  match pc with
  | .idle => [(emit (.stopCall id) s, .stopper id .lock)]
  | .lock => if s.mu then [] else [({ s with mu := true }, .stopper id .load)]
  | .load => if s.running then [(s, .stopper id .store)] else [(s, .stopper id .unlock)]
  | .store =>
    [({ s with running := false, stopped := true }, .stopper id .wait)]
  | .wait => if s.wg = 0 then [({ s with waited := true }, .stopper id .unlock)] else []
  | .unlock => [({ s with mu := false }, .stopper id .ret)]
  | .ret => [(emit (.stopRet id) s, .stopper id .fin)]
  | .fin => []

def stepFlush (s : St) (loaded : Bool) (n : Nat) : List (St × Thread) :=
  match loaded, n with
  | _, 0 => []
  | false, n + 1 =>
    if s.running then [(emit .flush s, .flusher true (n + 1))] else [(emit .flush s, .flusher false n)]
  | true, n + 1 => [({ s with flushCh := true }, .flusher false n)]

/-- What follows a finished `Commit`. -/
def afterCommit (s : St) : St :=
  if s.again then { s with wpc := .fsel, batch := [], muts := [], todo := [], again := false }
  else { s with wpc := .loopRun, batch := [], muts := [], todo := [], fl := false }

def recvStep (s : St) : List St :=
  match s.queue with
  | [] => []
  | o :: rest => [{ s with queue := rest, rcv := upd s.rcv o (s.rcv o + 1), wcur := o, wpc := .addReset }]

def stepWriter (s : St) : List St :=
  match s.wpc with
  | .notStarted => if s.spawned then [{ s with wpc := .loopRun }] else []
  | .loopRun =>
    if s.running then [{ s with wpc := .sel, batch := [], muts := [], fl := false }] else [{ s with wpc := .loopCnt }]
  | .loopCnt =>
    if s.count ≠ 0 then [{ s with wpc := .sel, batch := [], muts := [], fl := false }] else [{ s with wpc := .wgDone }]
  | .sel =>
    recvStep s ++ (if s.flushCh then [{ s with flushCh := false, fl := true, wpc := .fsel }] else [])
      ++ [{ s with wpc := .commit, again := false }]
  | .fsel =>
    match s.queue with
    | [] => [{ s with wpc := .commit, again := false }]
    | _ :: _ => recvStep s
  | .addReset =>
    [emit (.reset s.wcur) { s with flag := upd s.flag s.wcur false, rst := upd s.rst s.wcur (s.rst s.wcur + 1), wpc := .addDec }]
  | .addDec => [{ s with count := s.count - 1, wpc := .addWrite }]
  | .addWrite =>
    let s1 := emit (.write s.wcur (s.ver s.wcur))
      { s with batch := s.batch ++ [s.wcur], muts := s.muts ++ [(s.wcur, s.ver s.wcur)] }
    if s.bsize ≤ s.batch.length + 1 then [{ s1 with wpc := .commit, again := s.fl }]
    else [{ s1 with wpc := if s.fl then .fsel else .sel }]
  | .commit =>
    match s.batch with
    | [] => [afterCommit s]
    | _ :: _ =>
      [emit .commit { s with store := applyMuts s.muts s.store, todo := s.batch, batch := [], muts := [], wpc := .doneLoop }]
  | .doneLoop =>
    match s.todo with
    | [] => [afterCommit s]
    | o :: rest => [emit (.done o) { s with todo := rest }]
  | .wgDone => [{ s with wg := s.wg - 1, wpc := .exited }]
  | .exited => []

def stepObs (s : St) (script : List Nat) : List (St × Thread) :=
  match script with
  | [] => []
  | o :: rest =>
    [(emit (match s.store o with | some v => .storeHas o v | none => .storeNone o) s, .obs rest)]

def step (s : St) : Thread → List (St × Thread)
  | .prod id pc cur script => stepProd s id pc cur script
  | .stopper id pc => stepStop s id pc
  | .flusher l n => stepFlush s l n
  | .writer => (stepWriter s).map (fun s' => (s', .writer))
  | .obs script => stepObs s script

def sys : Sys St Thread := ⟨step⟩

def stepOld (s : St) : Thread → List (St × Thread)
  | .prod id pc cur script => stepProdOld s id pc cur script
  | t => step s t

/-- the protocol of the code before the Enqueue repair -/
def sysOld : Sys St Thread := ⟨stepOld⟩

/-- The writer with the two loads of its loop condition swapped (`scheduledCount.Load() != 0 || running.Load()`):
kept only for `C08_loop_condition_order_witness` — the order pinned by `C08_skeleton_runBatchWriter` /
`C08_stmts_BatchedWriter_runBatchWriter` is load-bearing. -/
def stepWriterSwapped (s : St) : List St :=
  match s.wpc with
  | .loopRun =>
    if s.count ≠ 0 then [{ s with wpc := .sel, batch := [], muts := [], fl := false }] else [{ s with wpc := .loopCnt }]
  | .loopCnt =>
    if s.running then [{ s with wpc := .sel, batch := [], muts := [], fl := false }] else [{ s with wpc := .wgDone }]
  | _ => stepWriter s

def stepSwapped (s : St) : Thread → List (St × Thread)
  | .writer => (stepWriterSwapped s).map (fun s' => (s', .writer))
  | t => step s t

def sysSwapped : Sys St Thread := ⟨stepSwapped⟩

def initSt (q b : Nat) : St := { qsize := q, bsize := b }

/-- Initial thread states: every call still to be made. -/
def Thread.initial : Thread → Bool
  | .prod _ pc _ _ => pc = .idle
  | .stopper _ pc => pc = .idle
  | .flusher l _ => l = false
  | .writer => true
  | .obs _ => true

/-- the key under which the monitor files a caller: producers `(false, id)`, Stop callers `(true, id)` -/
def Thread.pid : Thread → Option (Bool × Nat)
  | .prod id _ _ _ => some (false, id)
  | .stopper id _ => some (true, id)
  | _ => none

/-- Producer identifiers (they index the monitor's `mark`/`passed`) are pairwise distinct, and so are the
identifiers of the Stop callers (they index `snap`). -/
def distinctIds (ts : List Thread) : Prop := (ts.filterMap Thread.pid).Nodup

/-- A thread that has nothing left to do. -/
def Thread.finished : Thread → Bool
  | .prod _ pc _ script => pc = .idle && script.isEmpty
  | .stopper _ pc => pc = .fin
  | .flusher _ n => n = 0
  | .writer => true     -- the writer token is never waited for
  | .obs script => script.isEmpty

/-! ### Driver: evaluates the monitor on recorded traces; prints the model's trace on the witness schedules -/

/-- producers `0..p-1` (producer i enqueues object `objOf i`), one Stop caller, the writer. -/
def witnessThreads (p : Nat) (objOf : Nat → Nat) : List Thread :=
  (List.range p).map (fun i => Thread.prod i .idle 0 [objOf i]) ++ [.stopper 0 .idle, .writer]

def rep (i n : Nat) : List (Nat × Nat) := List.replicate n (i, 0)

/-! Old code.  `window`: every producer runs up to the yield point (the first one starts the writer on the
way: 11 steps, the others 3), Stop runs to completion (4 steps up to its Wait, the writer's 4 steps to exit,
3 steps), then the producers finish one after the other (4 steps each; a blocked send ends `runSched`). -/
def oldWindowSched (p : Nat) : List (Nat × Nat) :=
  rep 0 11 ++ ((List.range (p - 1)).map (fun i => rep (i + 1) 3)).flatten
    ++ rep p 4 ++ rep (p + 1) 4 ++ rep p 3
    ++ ((List.range p).map (fun i => rep i 4)).flatten

/-- Old code, `window-dup`: producer 0 up to and including its successful flag test-and-set (12 steps),
producer 1 enqueues the same object completely (finds it scheduled: 5 steps), Stop completes, producer 0
finishes. -/
def oldWindowDupSched : List (Nat × Nat) :=
  rep 0 12 ++ rep 1 5 ++ rep 2 4 ++ rep 3 4 ++ rep 2 3 ++ rep 0 3

/-! Repaired code, the same forced schedules.  `window` / `window-block`: every producer up to the yield
point (12 resp. 4 steps: the counter increment comes first), Stop up to its Wait (4), the writer finds the
counter non-zero and waits in its select (3); then producer i finishes (flag, send, return: 3 steps) and the
writer takes its object (receive, reset, decrement, BatchWrite — batch size 1 — commit, Done, end of commit:
7 steps, back at the loop condition); finally the writer leaves the loop (via the non-zero counter test the
first p-1 times) and Stop returns. -/
def windowSchedW (w : Nat) (p : Nat) : List (Nat × Nat) :=
  rep 0 12 ++ ((List.range (p - 1)).map (fun i => rep (i + 1) 4)).flatten
    ++ rep p 4 ++ rep (p + 1) 3
    ++ ((List.range p).map (fun i => rep i 3 ++ rep (p + 1) w ++ (if i + 1 < p then rep (p + 1) 2 else []))).flatten
    ++ rep (p + 1) 3 ++ rep p 3

def windowSched (p : Nat) : List (Nat × Nat) := windowSchedW 7 p

/-- Queue size 0: the same forced schedule; the producer's send is the hand-off to the writer waiting in its
select, so the writer has no receive step of its own (6 steps instead of 7). -/
def windowSchedU (p : Nat) : List (Nat × Nat) := windowSchedW 6 p

/-- Repaired code, `window-dup`: producer 0 through its successful flag test-and-set (13 steps), producer 1
enqueues the same object (counts, passes the check, finds it scheduled, un-counts, returns: 7 steps), Stop up
to its Wait, the writer waits (counter is 1), producer 0 sends and returns, the writer writes, Stop returns. -/
def windowDupSched : List (Nat × Nat) :=
  rep 0 13 ++ rep 1 7 ++ rep 2 4 ++ rep 3 3 ++ rep 0 2 ++ rep 3 7 ++ rep 3 3 ++ rep 2 3

/-- `window-dup` with queue size 0 (hand-off instead of send + receive). -/
def windowDupSchedU : List (Nat × Nat) :=
  rep 0 13 ++ rep 1 7 ++ rep 2 4 ++ rep 3 3 ++ rep 0 2 ++ rep 3 6 ++ rep 3 3 ++ rep 2 3

/-- `two-stops`: producer 0, two Stop callers, the writer. -/
def twoStopsThreads : List Thread :=
  [.prod 0 .idle 0 [0], .stopper 0 .idle, .stopper 1 .idle, .writer]

/-- `two-stops`: the producer enqueues object 0 completely (15), the writer takes it up to and including
its BatchWrite (6: there the real BatchWrite is held on a channel), Stop 0 runs up to its Wait (4), Stop 1 is
invoked and blocks on the mutex (1); release: the writer commits, calls Done and leaves (6), Stop 0 returns
(3), Stop 1 gets the mutex, finds `running` false and returns (4). -/
def twoStopsSched : List (Nat × Nat) :=
  rep 0 15 ++ rep 3 6 ++ rep 1 4 ++ rep 2 1 ++ rep 3 6 ++ rep 1 3 ++ rep 2 4

/-- `two-stops` with queue size 0: the producer runs up to its send (13), the writer reaches its select (2),
the producer hands the object over and returns (2), the writer resets, decrements, writes (3); the rest as above. -/
def twoStopsSchedU : List (Nat × Nat) :=
  rep 0 13 ++ rep 3 2 ++ rep 0 2 ++ rep 3 3 ++ rep 1 4 ++ rep 2 1 ++ rep 3 6 ++ rep 1 3 ++ rep 2 4

/-- Swapped loop condition: the producer runs up to its counter increment (10), the writer starts and loads the
counter = 0 (2), the producer increments and passes the running check (2), Stop clears `running` and waits (4), the
writer loads `running = false` and leaves (2), Stop returns (3), the producer marks its object, sends it and returns
(3): scheduled, queued, never written. -/
def swappedSched : List (Nat × Nat) :=
  rep 0 10 ++ rep 2 2 ++ rep 0 2 ++ rep 1 4 ++ rep 2 2 ++ rep 1 3 ++ rep 0 3

/-! ### The time-out alternative of `collectValues` is load-bearing (variant of seeded change r6-3) -/

/-- The writer whose `collectValues` has no time-out alternative (a nil timer channel: "time-out disabled") … -/
def stepWriterNoTimer (s : St) : List St :=
  match s.wpc with
  | .sel => recvStep s ++ (if s.flushCh then [{ s with flushCh := false, fl := true, wpc := .fsel }] else [])
  | _ => stepWriter s

/-- … and the `StopBatchWriter` that wakes the writer with a flush request right after clearing `running`. -/
def stepStopWake (s : St) (id : Nat) (pc : SPc) : List (St × Thread) :=
  match pc with
  | .store => [({ s with running := false, stopped := true, flushCh := true }, .stopper id .wait)]
  | _ => stepStop s id pc

def stepNoTimer (s : St) : Thread → List (St × Thread)
  | .writer => (stepWriterNoTimer s).map (fun s' => (s', .writer))
  | .stopper id pc => stepStopWake s id pc
  | t => step s t

def sysNoTimer : Sys St Thread := ⟨stepNoTimer⟩

/-- producer up to the yield point (12), Stop clears `running`, leaves its wake-up flush and waits (4), the writer
starts, finds the counter at 1, takes the flush request, commits the empty batch and comes back to its select (8),
the producer marks, sends and returns (3), the writer receives, resets, decrements, writes (4) — batch size 2: the
batch stays open — and waits in a select that nothing will ever wake. -/
def noTimerSched : List (Nat × Nat) := rep 0 12 ++ rep 1 4 ++ rep 2 8 ++ rep 0 3 ++ rep 2 4

def noTimerCfg : Cfg St Thread := runSched sysNoTimer (initSt 1 2, witnessThreads 1 (fun _ => 0)) noTimerSched

/-! ### Flush scenarios (forced on the real code with the first object's `BatchWrite` held on a channel)

`runThread` lets one thread run on its own: at every step `choice` picks the successor; it stops when `stop`
holds, the thread cannot move, or the fuel is used up (the writer never blocks while its time-out alternative
exists, so `runSched` with a fixed number of steps cannot express "until the queue is drained"). -/

def runThread (S : Sys St Thread) (i : Nat) (choice : St → Nat) (stop : St → Bool) : Nat → Cfg St Thread → Cfg St Thread
  | 0, c => c
  | fuel + 1, (s, ts) =>
    if stop s then (s, ts)
    else
      match ts[i]? with
      | none => (s, ts)
      | some t =>
        match (S.step s t)[choice s]? with
        | none => (s, ts)
        | some (s', t') => runThread S i choice stop fuel (s', ts.set i t')

/-- the writer's preference in the flush scenarios: in its blocking `select` the flush request if there is one
(the alternative after the receive, when the queue is not empty), otherwise the first alternative (receive; with
an empty queue: the time-out) -/
def flushFirst (s : St) : Nat :=
  if s.wpc = .sel ∧ s.flushCh ∧ s.queue ≠ [] then 1 else 0

/-- producer 0 (objects `0..n-1`), one Flush caller, one Stop caller, the writer -/
def flushThreads (n : Nat) : List Thread :=
  [.prod 0 .idle 0 (List.range n), .flusher false 1, .stopper 0 .idle, .writer]

/-- `flush-span`: the producer enqueues object 0 completely (15), the writer takes it up to and including its
BatchWrite (6: there the real BatchWrite is held), the producer enqueues objects `1..n-1` (7 steps each; queue
size `n`), Flush (2); release: the writer finishes the batch of object 0 if it is full, takes the flush request
at its next `select` and drains the queue in the flush loop — committing every full batch and replacing the
collector inside the one flush — until the queue is empty and the last (partial or empty) batch is committed;
then Stop runs up to its Wait (4), the writer leaves (3), Stop returns (3). -/
def flushSpanCfg (b n : Nat) : Cfg St Thread :=
  let c1 := runSched sys (initSt n b, flushThreads n) (rep 0 15 ++ rep 3 6 ++ rep 0 (7 * (n - 1)) ++ rep 1 2)
  let c2 := runThread sys 3 flushFirst (fun s => s.wpc = .loopRun && s.queue.isEmpty && !s.flushCh) (40 * n + 40) c1
  runSched sys c2 (rep 2 4 ++ rep 3 3 ++ rep 2 3)

/-- `flush-stop` (batch size ≥ 2): the producer enqueues object 0 (15), the writer takes it up to and including
its BatchWrite (6), Flush (2), Stop is invoked and reaches its Wait (4: `running` is false now); release: the
writer goes back to its `select`, takes the pending flush request, finds the queue empty, commits, calls Done,
sees `running = false` and the counter at 0 and leaves (8); Stop returns (3). -/
def flushStopCfg (q b : Nat) : Cfg St Thread :=
  runSched sys (initSt q b, flushThreads 1) (rep 0 15 ++ rep 3 6 ++ rep 1 2 ++ rep 2 4 ++ rep 3 8 ++ rep 2 3)

def stuckProducers (S : Sys St Thread) (c : Cfg St Thread) : List Nat :=
  c.2.filterMap (fun t => match t with
    | .prod id pc _ _ => if pc ≠ .idle ∧ (S.step c.1 t).isEmpty then some id else none
    | _ => none)

/-- A trace per participant (producers, flag test-and-sets, each Stop caller, writer): what a forced schedule
determines. -/
def projections (S : Sys St Thread) (c : Cfg St Thread) (p : Nat) (k : Nat := 1) : String :=
  let tr := c.1.tr.reverse
  let prod (i : Nat) : String :=
    s!"P{i}:" ++ ",".intercalate ((tr.filter (fun e => match e with
      | .enqCall q _ => q == i | .hook q => q == i | .enqRet q _ => q == i | _ => false)).map Event.render
      ++ ((stuckProducers S c).filter (· == i)).map (fun q => s!"bl.{q}"))
  let grp (name : String) (f : Event → Bool) : String := name ++ ",".intercalate ((tr.filter f).map Event.render)
  "|".intercalate ((List.range p).map prod ++
    [grp "F:" (fun e => match e with | .schedNew _ => true | .schedDup _ => true | _ => false)] ++
    (List.range k).map (fun j => grp s!"S{j}:" (fun e => match e with
      | .stopCall t => t == j | .stopRet t => t == j | _ => false)) ++
    [grp "W:" (fun e => match e with | .reset _ => true | .write _ _ => true | .commit => true | .done _ => true | _ => false)])

def kvArg (k : String) (ws : List String) : Nat :=
  match ws.filterMap (fun w => if w.startsWith (k ++ "=") then (w.drop (k.length + 1)).toNat? else none) with
  | n :: _ => n
  | [] => 0

def modelLine (ws : List String) : String :=
  let q := kvArg "q" ws
  let p := kvArg "p" ws
  match ws with
  | "window" :: _ =>
    projections sys (runSched sys (initSt q 1, witnessThreads p (fun _ => 0)) (if q = 0 then windowSchedU p else windowSched p)) p
  | "window-block" :: _ => projections sys (runSched sys (initSt q 1, witnessThreads p id) (windowSched p)) p
  | "window-dup" :: _ =>
    projections sys (runSched sys (initSt q 1, witnessThreads 2 (fun _ => 0)) (if q = 0 then windowDupSchedU else windowDupSched)) 2
  | "two-stops" :: _ =>
    projections sys (runSched sys (initSt q 1, twoStopsThreads) (if q = 0 then twoStopsSchedU else twoStopsSched)) 1 2
  | "flush-span" :: _ => projections sys (flushSpanCfg (kvArg "b" ws) (kvArg "n" ws)) 1
  | "flush-stop" :: _ => projections sys (flushStopCfg q (kvArg "b" ws)) 1
  | _ => "unknown-witness"

/-! ### Writer conformance: the model's writer goroutine, driven by what the real one was observed to do

`wconf b=<batch size> <writer events>`: the events of the real writer goroutine (`rs.o`, `w.o.v`, `cm`, `d.o`, in
their order) of one run.  The acceptor runs the model's own `stepWriter`: before each observed event the
environment is made as permissive as it can be (the object of an observed `rs.o` is put into the queue, its
version set to the observed value, a flush request pending, `running` set), then the model's writer must be able
to reach — through steps that emit nothing — a step that emits exactly the observed event.  So the order reset →
decrement → BatchWrite, "commit exactly when the batch is full, otherwise only on time-out / flush and never
empty", Done for every object of the batch in BatchWrite order before anything else happens, are checked on every
recorded run against the model itself, not against a hand-written grammar. -/

/-- all model writer states that emit `e` next, reachable from `s` through at most `fuel` silent writer steps -/
def wReach (e : Event) : Nat → St → List St
  | 0, _ => []
  | fuel + 1, s =>
    let s0 : St :=
      match e with
      | .reset o => { s with queue := if s.wpc = .addReset then [] else [o] }
      | .write o v => { s with ver := upd s.ver o v, queue := [] }
      | _ => { s with queue := [] }
    (stepWriter { s0 with tr := [], running := true, flushCh := true }).flatMap (fun s' =>
      match s'.tr with
      | [] => wReach e fuel s'
      | e' :: _ => if e' = e then [s'] else [])

/-- what distinguishes two candidate writer states -/
def wKey (s : St) : WPc × Bool × Bool × List Nat × List Nat × Nat := (s.wpc, s.fl, s.again, s.batch, s.todo, s.wcur)

def wDedup (l : List St) : List St :=
  (l.foldl (fun (acc : List St) s => if acc.any (fun a => wKey a == wKey s) then acc else s :: acc) []).reverse

/-- position of the first observed event the model's writer cannot produce, if any -/
def wConform (b : Nat) (evs : List Event) : Option (Nat × Event) :=
  let rec go (k : Nat) (cands : List St) : List Event → Option (Nat × Event)
    | [] => none
    | e :: rest =>
      match wDedup (cands.flatMap (wReach e 12)) with
      | [] => some (k, e)
      | next => go (k + 1) next rest
  go 0 [{ (initSt 1 b) with wpc := .loopRun, spawned := true, running := true, mon := {} }] evs

/-! ### Producer conformance: the model's `Enqueue`, driven by what one real producer was observed to do

`pconf p=<id> <events>`: the events of producer `id` (`ec.p.o`, `hk.p`, `sn.o` / `sd.o` issued by *its* call of
`BatchWriteScheduled`, `er.p.o`) in their order.  The acceptor runs the model's own `stepProd` for this one
producer in a permissive environment (before every step `running` and the object's flag may be either value, the
mutex is free, the queue has room): the model must be able to emit exactly the observed sequence — after the call
either the return at once (the running check failed: no yield point, no flag operation) or the yield point, then
exactly one flag test-and-set, then the return. -/

def pEnvs (s : St) (pc : PPc) (cur : Nat) : List St :=
  let s1 : St := { s with mu := false, queue := [], qsize := 1, tr := [] }
  match pc with
  | .chkRun => [{ s1 with running := true }, { s1 with running := false }]
  | .cas => [{ s1 with flag := upd s1.flag cur true }, { s1 with flag := upd s1.flag cur false }]
  | _ => [s1]

/-- producer states (shared state, pc, current object) that emit `e` next, through at most `fuel` silent steps -/
def pReach (id : Nat) (e : Event) : Nat → St × PPc × Nat → List (St × PPc × Nat)
  | 0, _ => []
  | fuel + 1, (s, pc, cur) =>
    let script : List Nat := match e with | .enqCall _ o => [o] | _ => []
    (pEnvs s pc cur).flatMap (fun s0 =>
      (stepProd s0 id pc cur script).flatMap (fun (s', t') =>
        match t' with
        | .prod _ pc' cur' _ =>
          match s'.tr with
          | [] => pReach id e fuel (s', pc', cur')
          | e' :: _ => if e' = e then [(s', pc', cur')] else []
        | _ => []))

def pDedup (l : List (St × PPc × Nat)) : List (St × PPc × Nat) :=
  (l.foldl (fun (acc : List (St × PPc × Nat)) x =>
    if acc.any (fun a => a.2.1 == x.2.1 && a.2.2 == x.2.2 && a.1.once == x.1.once) then acc else x :: acc) []).reverse

def pConform (id : Nat) (evs : List Event) : Option (Nat × Event) :=
  let rec go (k : Nat) (cands : List (St × PPc × Nat)) : List Event → Option (Nat × Event)
    | [] => none
    | e :: rest =>
      match pDedup (cands.flatMap (pReach id e 16)) with
      | [] => some (k, e)
      | next => go (k + 1) next rest
  go 0 [({ (initSt 1 1) with mon := {} }, .idle, 0)] evs

def pconfLine (ws : List String) : String :=
  let id := kvArg "p" ws
  let evs := ws.filterMap (fun w => if w.startsWith "p=" then none else parseEvent (w.splitOn "."))
  match pConform id evs with
  | none => "conforms"
  | some (k, e) => s!"deviates at {k}: {e.render}"

def wconfLine (ws : List String) : String :=
  let b := match kvArg "b" ws with | 0 => 10000 | n => n
  let evs := ws.filterMap (fun w => if w.startsWith "b=" then none else parseEvent (w.splitOn "."))
  match wConform b evs with
  | none => "conforms"
  | some (k, e) => s!"deviates at {k}: {e.render}"

def showVerdict (final : Bool) : Option Why → String
  | none => if final then "accept" else "ok"
  | some w => "reject " ++ w.toString

def stepLine (m : Mon) (ws : List String) : Mon × String :=
  match ws with
  | "cfg" :: _ => ({}, "ok")
  | ["end"] => (m, showVerdict true m.finalVerdict)
  | "model" :: rest => (m, modelLine rest)
  | "wconf" :: rest => (m, wconfLine rest)
  | "pconf" :: rest => (m, pconfLine rest)
  | _ =>
    match parseEvent ws with
    | some e => let m' := m.step e; (m', showVerdict false m'.verdict)
    | none => (m, "bad-line")

end Hive.BatchWriter
