import Hive.Base.Proto
import Hive.Model.ReactiveInst
import Hive.Spec.ReactiveVariants
/-!
# Sequential model of a `Variable[int]` with subscribers of every variant (`newvarx` cases of harness/c13)

Writers: `Set`, `Compute`, `DefaultTo`, `Init`, `ToggleValue` (+ its reset), `DeriveValueFrom` (+ its
teardown; the source is a `DerivedVariable` computing `(input + k) % 5`, fed by `feed x`).
Subscribers: `OnUpdateOnce(cb, cond)`, `WithValue(setup, cond)` / `WithNonEmptyValue(setup)`,
`OnUpdateWithContext(cb, flag)`; reader: `Read`.  Every change runs the variant machines of
`Hive/Spec/ReactiveVariants.lean` over the subscribers in registration order (= callback-list order)
and the answer lists the events they produce, so the differential run ties those machines — the
objects of the `C13_once_*`, `C13_withvalue_*`, `C13_context_torn_down` theorems — to the code.
-/
namespace Hive.Reactive.VX
open Hive.Proto Hive.Reactive

inductive SubKind where
  | once (cond : Nat) (fired : Bool)
  | wv (cond : Nat) (active : Option Nat)
  | ctx (st : CtxSt)
  | log (active str : Bool)     -- `LogUpdates`: is the log level active (= is the inner `OnUpdate` registered); stringer given

structure VSub where
  live : Bool
  kind : SubKind

structure St where
  value : Nat := 0
  subs : List VSub := []
  order : List Nat := []       -- the callback list: indices of `subs` in registration order of their inner `OnUpdate`
  toggles : Nat := 0
  derive : Option (Nat × Nat × Bool) := none    -- k, value of the derived source, still attached

/-- `OnUpdateOnce` conditions used by the harness. -/
def onceCond (c : Nat) (n : Nat × Nat) : Bool :=
  match c with
  | 1 => n.2 % 2 == 1
  | 2 => decide (n.2 > n.1)
  | _ => true

/-- `WithValue` conditions used by the harness (3 = `WithNonEmptyValue`). -/
def wvCond (c : Nat) (v : Nat) : Bool :=
  match c with
  | 1 => v % 2 == 1
  | 2 => decide (v ≥ 2)
  | 3 => v != 0
  | _ => true

/-- What the harness's `OnUpdateWithContext` callback does: `new % 3` context subscriptions; for the
value 4 the first one returns a nil teardown. -/
def ctxBody (_k : Nat) (n : Nat × Nat) : List Bool :=
  (List.range (n.2 % 3)).map (fun j => !(n.2 == 4 && j == 0))

def showId (id : CtxId) : String := s!"{id.1}.{id.2}"

def wvTok (i : Nat) : WvEv Nat → String
  | .setup v => s!"w{i}+{v}"
  | .teardown v => s!"w{i}-{v}"

def ctxTok (i : Nat) : CtxEv (Nat × Nat) → String
  | .call n => s!"c{i}!{n.1}:{n.2}"
  | .sub id => s!"c{i}+{showId id}"
  | .subNil id => s!"c{i}~{showId id}"
  | .down id => s!"c{i}-{showId id}"

/-- One subscriber is handed one note. -/
def deliverOne (i : Nat) (s : VSub) (n : Nat × Nat) : VSub × List String :=
  if !s.live then (s, [])
  else match s.kind with
    | .once c fired =>
      let r := onceStep (onceCond c) fired n
      ({ s with kind := .once c r.1 }, r.2.map fun m => s!"o{i}:{m.1}:{m.2}")
    | .wv c active =>
      let r := wvStep (wvCond c) active n.2
      ({ s with kind := .wv c r.1 }, r.2.map (wvTok i))
    | .ctx st =>
      let r := ctxStep ctxBody st n
      ({ s with kind := .ctx r.1 }, r.2.map (ctxTok i))
    | .log active str =>
      -- while the level is active the inner `OnUpdate` (no initial-zero trigger) logs the new value of every note
      (s, if active then [s!"l{i}=" ++ (if str then "s" else "") ++ toString n.2] else [])

def deliverAll : Nat → List VSub → Nat × Nat → List VSub × List String
  | _, [], _ => ([], [])
  | i, s :: r, n =>
    let a := deliverOne i s n
    let b := deliverAll (i + 1) r n
    (a.1 :: b.1, a.2 ++ b.2)

/-- All callbacks of the callback list, in list order. -/
def deliverOrd (n : Nat × Nat) : List Nat → List VSub → List VSub × List String
  | [], subs => (subs, [])
  | i :: r, subs =>
    match subs[i]? with
    | none => deliverOrd n r subs
    | some s =>
      let a := deliverOne i s n
      let b := deliverOrd n r (subs.set i a.1)
      (b.1, a.2 ++ b.2)

def answer (ret : String) (toks : List String) : String :=
  ret ++ " |" ++ String.join (toks.map (" " ++ ·))

/-- A write through `Compute(f)`. -/
def write (st : St) (f : Nat → Nat) (ret : String) : St × String :=
  match (varObj Nat 0 0).upd st.value f with
  | .change v' n =>
    let r := deliverOrd n st.order st.subs
    ({ st with value := v', subs := r.1 }, answer ret r.2)
  | .quiet _ => (st, answer ret [])

/-- Registration: the new subscriber is handed the initial note, if there is one. -/
def subscribe (st : St) (kind : SubKind) (flag : Bool) : St × String :=
  let i := st.subs.length
  let s : VSub := { live := true, kind := kind }
  match (varObj Nat 0 0).ini st.value flag with
  | some n =>
    let r := deliverOne i s n
    ({ st with subs := st.subs ++ [r.1], order := st.order ++ [i] }, answer "ok" r.2)
  | none => ({ st with subs := st.subs ++ [s], order := st.order ++ [i] }, answer "ok" [])

def unsubscribe (st : St) (i : Nat) : St × String :=
  match st.subs[i]? with
  | none => (st, "bad-op")
  | some s =>
    if !s.live then (st, answer "ok" [])
    else
      let (kind', toks) : SubKind × List String :=
        match s.kind with
        | .once c f => (.once c f, [])
        | .wv c active => (.wv c none, (wvUnsub active).map (wvTok i))
        | .ctx cs => (.ctx { cs with opens := [] }, (ctxUnsub (N := Nat × Nat) cs).map (ctxTok i))
        | .log _ str => (.log false str, [])
      ({ st with subs := st.subs.set i { live := false, kind := kind' }, order := st.order.filter (· != i) }, answer "ok" toks)

def showSub (s : VSub) : String :=
  if !s.live then "x"
  else match s.kind with
    | .once _ fired => if fired then "o1" else "o0"
    | .wv _ active => match active with | some a => s!"w{a}" | none => "w-"
    | .ctx cs => s!"c{cs.opens.length}"
    | .log active _ => if active then "l1" else "l0"

def stepLine (st : St) (toks : List String) : St × String :=
  match toks with
  | ["set", v] => match v.toNat? with
    | some v => write st (fun _ => v) (toString st.value)
    | none => (st, "bad-op")
  | ["compute", k] => match k.toNat? with
    | some k => write st (fun v => (2 * v + k) % 5) (toString st.value)
    | none => (st, "bad-op")
  | ["defaultto", v] => match v.toNat? with
    | some v =>
      let upd := st.value == 0
      write st (fun c => if c == 0 then v else c) (toString (if upd then v else st.value) ++ " " ++ showBool upd)
    | none => (st, "bad-op")
  | ["init", v] => match v.toNat? with
    | some v => write st (fun _ => v) "ok"
    | none => (st, "bad-op")
  | ["toggle", v] => match v.toNat? with
    | some v => write { st with toggles := st.toggles + 1 } (fun _ => v) "ok"
    | none => (st, "bad-op")
  | ["reset"] =>
    if st.toggles = 0 then (st, "bad-op") else write { st with toggles := st.toggles - 1 } (fun _ => 0) "ok"
  | ["derive", k] => match k.toNat?, st.derive with
    | some k, none =>
      let dv := k % 5
      write { st with derive := some (k, dv, true) } (fun _ => dv) (toString dv)
    | _, _ => (st, "bad-op")
  | ["feed", x] => match x.toNat?, st.derive with
    | some x, some (k, dv, att) =>
      if att then
        let dv' := (x + k) % 5
        if dv' = dv then (st, answer (toString dv) [])
        else write { st with derive := some (k, dv', att) } (fun _ => dv') (toString dv')
      else (st, answer (toString dv) [])
    | _, _ => (st, "bad-op")
  | ["underive"] => match st.derive with
    | some (k, dv, _) => ({ st with derive := some (k, dv, false) }, answer "ok" [])
    | none => (st, "bad-op")
  | ["read"] => (st, answer (toString st.value) [])
  | ["once", c] => match c.toNat? with
    | some c => subscribe st (.once c false) false
    | none => (st, "bad-op")
  | ["withvalue", c] => match c.toNat? with
    | some c => subscribe st (.wv c none) true
    | none => (st, "bad-op")
  | ["nonempty"] => subscribe st (.wv 3 none) true
  | ["ctx", f] => subscribe st (.ctx {}) (f == "1")
  | ["log", a, str] =>
    -- `LogUpdates` on a receiver whose level is active (`a = 1`) or not: active = the inner `OnUpdate` is registered now
    if a == "1" then subscribe st (.log true (str == "1")) false
    else ({ st with subs := st.subs ++ [{ live := true, kind := .log false (str == "1") }] }, answer "ok" [])
  | ["level", i, b] => match i.toNat? with
    | some i =>
      match st.subs[i]? with
      | some s =>
        match s.kind with
        | .log active str =>
          if !s.live then (st, answer "ok" [])
          else if b == "1" && !active then
            -- the level is activated: the receiver runs the setup, i.e. `OnUpdate` (initial note iff the value is non-zero)
            let s' : VSub := { s with kind := .log true str }
            match (varObj Nat 0 0).ini st.value false with
            | some n =>
              let r := deliverOne i s' n
              ({ st with subs := st.subs.set i r.1, order := st.order.filter (· != i) ++ [i] }, answer "ok" r.2)
            | none => ({ st with subs := st.subs.set i s', order := st.order.filter (· != i) ++ [i] }, answer "ok" [])
          else if b != "1" && active then
            -- deactivated: the shutdown function (the inner unsubscribe) removes the callback from the list
            ({ st with subs := st.subs.set i { s with kind := .log false str }, order := st.order.filter (· != i) }, answer "ok" [])
          else (st, answer "ok" [])
        | _ => (st, "bad-op")
      | none => (st, "bad-op")
    | none => (st, "bad-op")
  | ["unsub", i] => match i.toNat? with
    | some i => unsubscribe st i
    | none => (st, "bad-op")
  | ["state"] => (st, answer (toString st.value) (st.subs.map showSub))
  | _ => (st, "bad-op")

end Hive.Reactive.VX
