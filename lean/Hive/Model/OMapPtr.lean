import Hive.Model.OMap
/-!
# Pointer-level model of `ds/orderedmap.OrderedMap` (C11)

Mirrors `orderedmap.go` field by field: `head`, `tail`, `size`, the `dictionary` (key ↦ element) and
the elements themselves with their `prev`/`next` pointers.  An element's identity is its index in
`heap`, the list of all elements ever allocated (`new(Element)` appends).  Unlinked elements stay in
the heap *with their stale pointers* — exactly what a `ForEach` that released the lock between two
steps keeps following (`currentEntry = currentEntry.next`).

The dictionary is kept as an association list in insertion order; the code only ever looks keys up
in it, the order is used by the proofs as the ghost copy of the live chain.
-/
namespace Hive.OMap

structure Node where
  key : Nat
  val : Nat
  prev : Option Nat
  next : Option Nat
deriving Repr, DecidableEq

structure PMap where
  heap : List Node
  head : Option Nat
  tail : Option Nat
  dict : List (Nat × Nat)
  size : Nat
deriving Repr

namespace PMap

def empty : PMap := { heap := [], head := none, tail := none, dict := [], size := 0 }

def setNext (h : List Node) (i : Nat) (nx : Option Nat) : List Node := h.modify i (fun n => { n with next := nx })
def setPrev (h : List Node) (i : Nat) (pv : Option Nat) : List Node := h.modify i (fun n => { n with prev := pv })
def setVal (h : List Node) (i : Nat) (v : Nat) : List Node := h.modify i (fun n => { n with val := v })

/-- `Get`. -/
def get (p : PMap) (k : Nat) : Option Nat :=
  match AMap.get p.dict k with
  | none => none
  | some i => (p.heap[i]?).map (·.val)

def has (p : PMap) (k : Nat) : Bool := (AMap.get p.dict k).isSome

/-- `Set`. -/
def set (p : PMap) (k v : Nat) : PMap × Option Nat :=
  match AMap.get p.dict k with
  | some i =>
    -- previousValue = oldValue.value; oldValue.value = newValue
    ({ p with heap := setVal p.heap i v }, (p.heap[i]?).map (·.val))
  | none =>
    let e := p.heap.length
    match p.head with
    | none =>
      ({ heap := p.heap ++ [{ key := k, val := v, prev := none, next := none }],
         head := some e, tail := some e, dict := p.dict ++ [(k, e)], size := p.size + 1 }, none)
    | some hd =>
      -- o.tail.next = newElement; newElement.prev = o.tail
      ({ heap := (match p.tail with
                  | some t => setNext p.heap t (some e)
                  | none => p.heap) ++ [{ key := k, val := v, prev := p.tail, next := none }],
         head := some hd, tail := some e, dict := p.dict ++ [(k, e)], size := p.size + 1 }, none)

/-- the pointer surgery of `Delete` on an element with neighbours `pv`/`nx`:
`if value.prev != nil { value.prev.next = value.next }`, `if value.next != nil { value.next.prev = value.prev }` -/
def unlink (h : List Node) (pv nx : Option Nat) : List Node :=
  let h1 := match pv with
    | some a => setNext h a nx
    | none => h
  match nx with
  | some b => setPrev h1 b pv
  | none => h1

/-- `Delete`: unlink, but leave the element's own `prev`/`next` untouched. -/
def delete (p : PMap) (k : Nat) : PMap × Bool :=
  match AMap.get p.dict k with
  | none => (p, false)
  | some i =>
    match p.heap[i]? with
    | none => (p, false)
    | some n =>
      ({ heap := unlink p.heap n.prev n.next,
         head := (match n.prev with
           | some _ => p.head
           | none => n.next),
         tail := (match n.next with
           | some _ => p.tail
           | none => n.prev),
         dict := AMap.remove p.dict k, size := p.size - 1 }, true)

/-- `Clear`: a fresh dictionary, `head = tail = nil`; the old elements are simply dropped (and stay
reachable from an iteration in progress). -/
def clear (p : PMap) : PMap := { p with head := none, tail := none, dict := [], size := 0 }

def entry (h : List Node) (c : Option Nat) : Option (Nat × Nat) :=
  match c with
  | none => none
  | some i => (h[i]?).map (fun n => (n.key, n.val))

def headKV (p : PMap) : Option (Nat × Nat) := entry p.heap p.head
def tailKV (p : PMap) : Option (Nat × Nat) := entry p.heap p.tail

/-- following `next` (`fwd = true`) or `prev` pointers from a cursor; `fuel` bounds the number of visits -/
def walk (h : List Node) (fwd : Bool) : Nat → Option Nat → List (Nat × Nat)
  | 0, _ => []
  | _ + 1, none => []
  | f + 1, some i =>
    match h[i]? with
    | none => []
    | some n => (n.key, n.val) :: walk h fwd f (if fwd then n.next else n.prev)

/-- `ForEach` with no interference: start at `head`, follow `next`. -/
def forEach (p : PMap) : List (Nat × Nat) := walk p.heap true p.heap.length p.head
/-- `ForEachReverse`. -/
def forEachReverse (p : PMap) : List (Nat × Nat) := walk p.heap false p.heap.length p.tail

/-- `Clone`. -/
def clone (p : PMap) : PMap := (forEach p).foldl (fun c kv => (set c kv.1 kv.2).1) empty

/-! ### iteration that is interleaved with writers

Between two steps of `ForEach` the lock is released; any number of `Set`/`Delete`/`Clear` calls may
run (from the consumer itself or from other goroutines). -/

inductive MOp
  | set (k v : Nat)
  | del (k : Nat)
  | clear
deriving Repr, DecidableEq

def applyOp (p : PMap) : MOp → PMap
  | .set k v => (set p k v).1
  | .del k => (delete p k).1
  | .clear => clear p

def applyOps (p : PMap) (ops : List MOp) : PMap := ops.foldl applyOp p

/-- One step of the loop body for cursor `i`: report the element, let `ops` run, then read the
successor pointer of the (possibly unlinked) current element under the lock. -/
def stepCursor (p : PMap) (fwd : Bool) (i : Nat) : Option Nat :=
  match p.heap[i]? with
  | none => none
  | some n => if fwd then n.next else n.prev

/-- `weakWalk fwd fuel p cursor script`: `script` gives, per visit, the writers that run during/after
the consumer call and whether the consumer returns `false` (stop).  When the script is exhausted no
further interference happens.  Returns the final map, the visited elements (identity and key/value
as passed to the consumer) and whether `ForEach` ran to completion (returned `true`). -/
def weakWalk (fwd : Bool) : Nat → PMap → Option Nat → List (List MOp × Bool) → PMap × List (Nat × (Nat × Nat)) × Bool
  | 0, p, _, _ => (p, [], false)
  | _ + 1, p, none, _ => (p, [], true)
  | f + 1, p, some i, script =>
    match p.heap[i]? with
    | none => (p, [], false)
    | some n =>
      let p' := applyOps p (script.headD ([], false)).1
      if (script.headD ([], false)).2 then (p', [(i, (n.key, n.val))], false)
      else
        let r := weakWalk fwd f p' (stepCursor p' fwd i) script.tail
        (r.1, (i, (n.key, n.val)) :: r.2.1, r.2.2)

end PMap

end Hive.OMap
