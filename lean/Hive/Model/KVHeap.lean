import Hive.Model.KV
/-!
# The store with memory: which buffers it keeps, which it copies (C04, the private-copy clause)

`Hive/Model/KV.lean` has value semantics.  This file models `mapdb` one level lower, with *references*: a
byte slice is a reference `r` into a memory of buffers, the Go map `syncedKVMap.m` maps a key (a Go string:
immutable, converted from the caller's key bytes, so a value here) to the reference of the stored slice, a
batch's `setOperations` maps a key to a reference, too.  The allocation sites are those of the code
(pinned by the regenerated obligation `C04_calls_mapdb`):

* `syncedKVMap.set` stores `byteutils.ConcatBytes(value)` — a **new** buffer holding the bytes the caller's
  buffer has at that moment;
* `syncedKVMap.get` returns `byteutils.ConcatBytes(value)` of the stored slice — a new buffer;
* `syncedKVMap.iterate` copies every matching value into its snapshot (`ConcatBytes`), and hands those copies
  to the consumer;
* `batchedMutations.Set` stores the **caller's** slice in `setOperations` (no copy); `Commit` calls
  `kvStore.set` for every entry, which copies then; `Cancel` forgets the references.

The caller is modelled by two requests: `alloc b` (it makes a buffer) and `write r b` (it overwrites a buffer it
holds: one it allocated or one a read returned; `known` is the ghost set of those).  Core Lean only.
-/
namespace Hive.KV.Heap

abbrev Ref := Nat

/-- Buffers by reference (newest binding first); `next` is the first unused reference. -/
structure Mem where
  cells : List (Ref × Bytes)
  next : Ref
deriving Repr

def Mem.read (m : Mem) (r : Ref) : Bytes := (m.cells.lookup r).getD []

/-- `make` + `copy`: a new buffer. -/
def Mem.alloc (m : Mem) (b : Bytes) : Mem × Ref := ({ cells := (m.next, b) :: m.cells, next := m.next + 1 }, m.next)

/-- Overwriting the content of a buffer. -/
def Mem.write (m : Mem) (r : Ref) (b : Bytes) : Mem := { m with cells := (r, b) :: m.cells }

abbrev RMap := List (Bytes × Ref)

structure HBatch where
  realm : Bytes
  sets : RMap            -- setOperations: key ↦ the slice the caller passed
  dels : List Bytes      -- deleteOperations
deriving Repr

structure HSt where
  mem : Mem
  m : RMap                         -- syncedKVMap.m: full key ↦ stored slice
  batches : List (Nat × HBatch)
  known : List Ref                 -- ghost: the buffers the caller holds a reference to
deriving Repr

def hinit : HSt := { mem := { cells := [], next := 0 }, m := [], batches := [], known := [] }

inductive HOp
  | alloc (b : Bytes)
  | write (r : Ref) (b : Bytes)
  | set (realm k : Bytes) (v : Ref)
  | get (realm k : Bytes)
  | del (realm k : Bytes)
  | delp (realm p : Bytes)
  | iter (realm p : Bytes) (d : Dir)
  | batch (b : Nat) (realm : Bytes)
  | bset (b : Nat) (k : Bytes) (v : Ref)
  | bdel (b : Nat) (k : Bytes)
  | commit (b : Nat)
  | cancel (b : Nat)
deriving Repr

inductive HOut
  | ok
  | notfound
  | bad                                  -- a reference the caller does not hold / an unknown batch
  | ref (r : Ref)
  | refs (l : List (Bytes × Ref))        -- consumer calls: key (a fresh `[]byte(key)[len(realm):]`), value slice
deriving Repr

def rget (k : Bytes) (m : RMap) : Option Ref := (m.find? (fun e => e.1 == k)).map (·.2)
def rset (k : Bytes) (r : Ref) (m : RMap) : RMap := (k, r) :: m.filter (fun e => e.1 != k)
def rdel (k : Bytes) (m : RMap) : RMap := m.filter (fun e => e.1 != k)
def rdelPfx (p : Bytes) (m : RMap) : RMap := m.filter (fun e => !hasPfx p e.1)

/-- `syncedKVMap.set(key, value)`: `s.m[string(key)] = byteutils.ConcatBytes(value)`. -/
def mapSet (mem : Mem) (m : RMap) (fk : Bytes) (v : Ref) : Mem × RMap :=
  let a := mem.alloc (mem.read v)
  (a.1, rset fk a.2 m)

/-- `Commit`: `kvStore.set` for every set operation (each copies), then `kvStore.delete` for every delete operation. -/
def commitSets (realm : Bytes) : RMap → Mem × RMap → Mem × RMap
  | [], x => x
  | e :: rest, x => let y := commitSets realm rest x; mapSet y.1 y.2 (realm ++ e.1) e.2

/-- The snapshot of `iterate`: a copy of every value. -/
def copyAll : RMap → Mem → Mem × RMap
  | [], mem => (mem, [])
  | e :: rest, mem =>
    let y := copyAll rest mem
    let a := y.1.alloc (y.1.read e.2)
    (a.1, (e.1, a.2) :: y.2)

def hstep (s : HSt) : HOp → HSt × HOut
  | .alloc b => let a := s.mem.alloc b; ({ s with mem := a.1, known := a.2 :: s.known }, .ref a.2)
  | .write r b => if r ∈ s.known then ({ s with mem := s.mem.write r b }, .ok) else (s, .bad)
  | .set realm k v =>
    if v ∈ s.known then
      let x := mapSet s.mem s.m (realm ++ k) v
      ({ s with mem := x.1, m := x.2 }, .ok)
    else (s, .bad)
  | .get realm k =>
    match rget (realm ++ k) s.m with
    | none => (s, .notfound)
    | some r => let a := s.mem.alloc (s.mem.read r); ({ s with mem := a.1, known := a.2 :: s.known }, .ref a.2)
  | .del realm k => ({ s with m := rdel (realm ++ k) s.m }, .ok)
  | .delp realm p => ({ s with m := rdelPfx (realm ++ p) s.m }, .ok)
  | .iter realm p d =>
    let y := copyAll (s.m.filter (fun e => hasPfx (realm ++ p) e.1)) s.mem
    let out := (sortBy (dirLt d) (y.2.map (·.1))).map (fun k => (k.drop realm.length, (rget k y.2).getD 0))
    ({ s with mem := y.1, known := y.2.map (·.2) ++ s.known }, .refs out)
  | .batch b realm => ({ s with batches := (b, { realm := realm, sets := [], dels := [] }) :: s.batches }, .ok)
  | .bset b k v =>
    match s.batches.lookup b with
    | none => (s, .bad)
    | some bt =>
      if v ∈ s.known then
        ({ s with batches := (b, { bt with sets := rset k v bt.sets, dels := bt.dels.filter (· != k) }) :: s.batches }, .ok)
      else (s, .bad)
  | .bdel b k =>
    match s.batches.lookup b with
    | none => (s, .bad)
    | some bt =>
      ({ s with batches := (b, { bt with sets := rdel k bt.sets, dels := k :: bt.dels.filter (· != k) }) :: s.batches }, .ok)
  | .commit b =>
    match s.batches.lookup b with
    | none => (s, .bad)
    | some bt =>
      let x := commitSets bt.realm bt.sets (s.mem, s.m)
      ({ s with mem := x.1, m := bt.dels.foldr (fun k m => rdel (bt.realm ++ k) m) x.2 }, .ok)
  | .cancel b =>
    match s.batches.lookup b with
    | none => (s, .bad)
    | some bt => ({ s with batches := (b, { bt with sets := [], dels := [] }) :: s.batches }, .ok)

def hrun (s : HSt) : List HOp → HSt
  | [] => s
  | op :: ops => hrun (hstep s op).1 ops

/-- The stored data, by value: what `Hive/Model/KV.lean` calls `Store.m`. -/
def deref (mem : Mem) (m : RMap) : AList := m.map (fun e => (e.1, mem.read e.2))

def storeView (s : HSt) : AList := deref s.mem s.m

end Hive.KV.Heap
