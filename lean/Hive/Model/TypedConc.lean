import Hive.Model.TypedValue
import Hive.Conc.Sys
/-!
# Protocol model of one shared `TypedValue` (kvstore/typedvalue.go) for C06

Any number of goroutines, each with an arbitrary remaining script of operations (with fault
vectors), share one `TypedValue`: its `syncutils.RWMutex` (`writer`, `readers`), the store key and
the two cache fields.  The lock structure is the one of the code:

* `Get` / `Has`: `RLock`; inspect the cache; on a hit `RUnlock` and return; on a miss `RUnlock`,
  then `Lock`, re-check the cache, read the store, fill the cache, `Unlock`;
* `Set` / `Delete` / `Compute`: `Lock` … `Unlock`.

Inside the write lock an operation is three shared-memory micro-steps, in program order: the *read
phase* (`w1`: cache inspection and store read — decoding, the compute function and encoding are
local computation and are folded into it), the *store write* (`w2`) and the *cache update* (`w3`).
Other goroutines may be scheduled between any two micro-steps; that they cannot interfere is what
the theorems prove from the lock, it is not built into the model.  `RLock` is modelled without
writer preference (more schedules than Go allows, which is sound for safety properties).

Ghost state: `log` — one entry per completed operation, appended while the lock is still held;
`base` — the state after the last completed write section.
-/
namespace Hive.Typed.Conc
open Hive.Conc

variable {V : Type}

inductive Pc (V : Type)
  | idle
  | wantR                             -- Get/Has before `mutex.RLock()`
  | r1                                -- read lock held, before the cache check
  | rHit (o : Out V)                  -- cache hit, result known, before the deferred `RUnlock`
  | rMiss                             -- cache miss, before `RUnlock`
  | wantW                             -- before `mutex.Lock()`
  | w1                                -- write lock held, before the read phase
  | w2 (r : Res V)                    -- read phase done (everything computed), store write pending
  | w3 (r : Res V)                    -- store written, cache update pending
  | wUnlock (r : Res V)               -- before the deferred `Unlock`

structure Thread (V : Type) where
  script : List (Op V × Faults)       -- remaining operations, the head is the one in progress
  pc : Pc V

structure Shared (V : Type) where
  tv : St V
  writer : Bool
  readers : Nat
  log : List (Op V × Faults × Out V)
  base : St V

/-- Result of the fast path (cache inspection under the read lock), `none` on a miss. -/
def fastOut (s : St V) : Op V → Option (Out V)
  | .get => if s.ch = some false then some .notfound else s.cv.map .val
  | .has => s.ch.map .has
  | _ => none

def usesReadLock : Op V → Bool
  | .get | .has => true
  | _ => false

def isMethod : Op V → Bool
  | .reopen => false
  | _ => true

def tstep [Inhabited V] (C : Codec V) (sh : Shared V) (t : Thread V) : List (Shared V × Thread V) :=
  match t.script with
  | [] => []
  | (op, F) :: rest =>
    match t.pc with
    | .idle =>
      if !isMethod op then []                       -- `reopen` is not a method of the shared object
      else if usesReadLock op then [(sh, { t with pc := .wantR })]
      else [(sh, { t with pc := .wantW })]
    | .wantR =>
      if sh.writer then [] else [({ sh with readers := sh.readers + 1 }, { t with pc := .r1 })]
    | .r1 =>
      match fastOut sh.tv op with
      | some o => [({ sh with log := sh.log ++ [(op, F, o)] }, { t with pc := .rHit o })]
      | none => [(sh, { t with pc := .rMiss })]
    | .rHit _ => [({ sh with readers := sh.readers - 1 }, { script := rest, pc := .idle })]
    | .rMiss => [({ sh with readers := sh.readers - 1 }, { t with pc := .wantW })]
    | .wantW =>
      if sh.writer || sh.readers != 0 then [] else [({ sh with writer := true }, { t with pc := .w1 })]
    | .w1 => [(sh, { t with pc := .w2 (step C sh.tv op F) })]
    | .w2 r => [({ sh with tv := { sh.tv with store := r.st.store } }, { t with pc := .w3 r })]
    | .w3 r => [({ sh with tv := { sh.tv with cv := r.st.cv, ch := r.st.ch } }, { t with pc := .wUnlock r })]
    | .wUnlock r =>
      [({ sh with writer := false, log := sh.log ++ [(op, F, r.out)], base := sh.tv },
        { script := rest, pc := .idle })]

def sys [Inhabited V] (C : Codec V) : Sys (Shared V) (Thread V) := { step := tstep C }

def init (s0 : St V) : Shared V := { tv := s0, writer := false, readers := 0, log := [], base := s0 }

def start (script : List (Op V × Faults)) : Thread V := { script := script, pc := .idle }

def inW : Pc V → Bool
  | .w1 | .w2 _ | .w3 _ | .wUnlock _ => true
  | _ => false

def inR : Pc V → Bool
  | .r1 | .rHit _ | .rMiss => true
  | _ => false

/-- The history recorded in the log, as input for the sequential machine. -/
def logOps (log : List (Op V × Faults × Out V)) : List (Op V × Faults) := log.map fun e => (e.1, e.2.1)
def logOuts (log : List (Op V × Faults × Out V)) : List (Out V) := log.map fun e => e.2.2

/-! ## Counter workload and its trace predicate

`incFn` is the increment the stress harness runs through `Compute` from several goroutines.  The
trace predicate is evaluated by the driver on what the goroutines observed (in whatever order the
harness lists it) and is what `C06_serialised_counter` proves about every schedule of the model. -/

def incFn : Nat → Bool → FnRes Nat := fun cur ex => .ok (if ex then cur + 1 else 1)

/-- Values returned by the successful increments, in log order. -/
def incRets : List (Out Nat) → List Nat
  | [] => []
  | .computed v true :: rest => v :: incRets rest
  | _ :: rest => incRets rest

/-- Values seen by `Get` (0 for "not found"). -/
def getVals : List (Out Nat) → List Nat
  | [] => []
  | .val v :: rest => v :: getVals rest
  | .notfound :: rest => 0 :: getVals rest
  | _ :: rest => getVals rest

/-- `incs`: the values returned by the successful increments; `final`: the value in the store at
quiescence (0 if absent); `gets`: the values concurrent `Get`s returned.  No update is lost iff every
number `1..n` was returned by some increment (`n` increments, so each exactly once) and the store
ends at `n`; readers saw only written values iff every `Get` value is in `0..n`. -/
def counterOk (incs : List Nat) (final : Nat) (gets : List Nat) : Bool :=
  (List.range incs.length).all (fun i => incs.contains (i + 1)) && final == incs.length &&
    gets.all (fun g => g ≤ incs.length)

def counterWhy (incs : List Nat) (final : Nat) (gets : List Nat) : String :=
  if !(List.range incs.length).all (fun i => incs.contains (i + 1)) then "reject lost-or-duplicated-update"
  else if final != incs.length then "reject final-differs-from-successful-increments"
  else if !gets.all (fun g => g ≤ incs.length) then "reject reader-saw-unwritten-value"
  else "accept"

/-- Mixed workload: every value a reader saw was written by somebody (or is the initial one). -/
def readersOk (written : List Nat) (gets : List Nat) : Bool := gets.all (fun g => written.contains g)

/-- Wide-value workload: the written values are the uniform generations `0..n`; a torn value is none of them. -/
def wideOk (n : Nat) (gets : List Nat) : Bool := readersOk (List.range (n + 1)) gets

/-- At every quiescent point (no call in progress) `Get` returns what the store holds (0: absent). -/
def quiescentOk (gets raws : List Nat) : Bool := gets == raws

/-! ## Gate schedules: a judge for "some serial order explains what the calls observed"

One writer is parked inside the store (holding the write lock); a `Delete`, `Set`s and `Compute`s queue
behind it and run in whatever order the lock admits them.  Every `Set`/`Compute` writes a unique value,
every `Compute` reports the value its function was given (0: absent).  Serialisation (the log of
`C06_serialised` is a sequential run) means: *some* order of the queued calls, started from the state
the parked writer left, hands every `Compute` exactly what it reported and ends in the final state. -/

structure GOp where
  kind : Nat      -- 0 Delete, 1 Set, 2 Compute, 3 Has, 4 Get
  w : Nat         -- the value written (unique, non-zero); ignored for Delete, Has, Get
  s : Nat         -- Compute: the value its function was given (0: absent); Has: 1/0 as answered; Get: the value
                  -- returned (0: not found)
deriving Repr, DecidableEq

/-- State: the stored value, 0 for absent.  Reads (`Has`, `Get`: the reader-gate schedules, where a reader is parked
inside its store call) leave the state alone and must have answered what the state was. -/
def applyG (st : Nat) (o : GOp) : Option Nat :=
  if o.kind = 0 then some 0
  else if o.kind = 1 then some o.w
  else if o.kind = 2 then (if o.s = st then some o.w else none)
  else if o.kind = 3 then (if (o.s == 1) = (st != 0) then some st else none)
  else if o.s = st then some st else none

def replayG (st : Nat) : List GOp → Option Nat
  | [] => some st
  | o :: rest => (applyG st o).bind fun st' => replayG st' rest

def serialSearch : Nat → Nat → List GOp → Nat → Bool
  | _, st, [], final => st == final
  | 0, _, _ :: _, _ => false
  | fuel + 1, st, ops, final =>
    (List.range ops.length).any fun i =>
      match ops[i]? with
      | some o =>
        match applyG st o with
        | some st' => serialSearch fuel st' (ops.eraseIdx i) final
        | none => false
      | none => false

/-- Is there an order of `ops` that replays from `init` to `final`? -/
def serialOk (init : Nat) (ops : List GOp) (final : Nat) : Bool := serialSearch (ops.length + 1) init ops final

def zipG : List Nat → List Nat → List Nat → List GOp
  | k :: ks, w :: ws, s :: ss => ⟨k, w, s⟩ :: zipG ks ws ss
  | _, _, _ => []

end Hive.Typed.Conc
