import Hive.Model.BatchWriter
/-!
# The store-error path of kvstore.BatchedWriter

`runBatchWriter` calls the store at three places — `bw.store.Batched()` at the top of every loop iteration,
`batchCollector.Commit()` → `batchedMuts.Commit()` for a non-empty batch, and `bw.store.Batched()` again when the
flush loop replaces the collector after a full batch — and answers an error with `panic(err)` **in the writer
goroutine**.  A panic in a goroutine that nobody recovers terminates the process: no `BatchWriteDone` of the failed
batch, no further step of any goroutine, no return of any call.  (`BatchCollector.Commit` returns the error before
its Done loop; an empty batch is cancelled without touching the store.)

`sysE` is `sys` plus exactly this: at each of the three store calls the call may fail, which sets the `dead` flag
(second component of the state) and leaves everything else as it is — a failed `Commit` applies nothing to the
store (the batched mutations of kvstore are atomic) — and in a dead configuration no thread has a successor.
Core Lean only.
-/
namespace Hive.BatchWriter
open Hive.Conc Hive.Spec.BatchWriter

/-- The store call the writer goroutine performs in its next step, if any. -/
def storeCall (s : St) : Option String :=
  match s.wpc with
  | .loopRun => if s.running then some "Batched" else none
  | .loopCnt => if s.count ≠ 0 then some "Batched" else none
  | .commit => if s.batch ≠ [] then some "Commit" else none
  | .doneLoop => if s.todo = [] ∧ s.again = true then some "Batched" else none
  | _ => none

/-- shared state of `sys` and "the process has died" -/
abbrev StE := St × Bool

def stepE (s : StE) (t : Thread) : List (StE × Thread) :=
  if s.2 then []
  else
    (step s.1 t).map (fun x => ((x.1, false), x.2)) ++
      (if t = .writer ∧ (storeCall s.1).isSome then [((s.1, true), Thread.writer)] else [])

/-- the protocol with a store whose `Batched()` / `Commit()` may fail at any call -/
def sysE : Sys StE Thread := ⟨stepE⟩

def liftCfg (c : Cfg St Thread) : Cfg StE Thread := ((c.1, false), c.2)
def dropCfg (c : Cfg StE Thread) : Cfg St Thread := (c.1.1, c.2)

/-- index of the failure alternative among the writer's successors in `sysE` -/
def failChoice (s : St) : Nat := (stepWriter s).length

/-- The writer goroutine runs on its own in `sysE` (`choice` picks among the successors of `sys`) until `stop`
holds; the `left`-th store call of the given kind (`"Commit"` / `"Batched"`) from now on fails.  Returns the
configuration and the remaining count (0 once the failure has happened). -/
def runWriterE (wi : Nat) (choice : St → Nat) (stop : St → Bool) (kind : String) :
    Nat → Cfg StE Thread × Nat → Cfg StE Thread × Nat
  | 0, x => x
  | fuel + 1, (c, left) =>
    if c.1.2 || stop c.1.1 then (c, left)
    else
      let s := c.1.1
      let calls := storeCall s = some kind
      let j := if calls ∧ left = 1 then failChoice s else choice s
      match (sysE.step c.1 .writer)[j]? with
      | none => (c, left)
      | some (s', t') => runWriterE wi choice stop kind fuel ((s', c.2.set wi t'), if calls then left - 1 else left)

/-- `store-fail`: the scenario `flush-span` (object 0's BatchWrite held, objects `1..n-1` queued, Flush, release,
drain in batches of `b`, Stop) with a store whose `k`-th `Commit()` / `Batched()` call fails: the configuration at
the crash, or the complete run when there are fewer such calls. -/
def storeFailCfg (b n : Nat) (kind : String) (k : Nat) : Cfg StE Thread :=
  let c1 := runSched sysE (liftCfg (initSt n b, flushThreads n)) (rep 0 15)
  let (c2, l2) := runWriterE 3 flushFirst (fun s => s.tr.head? = some (.write 0 1)) kind 20 (c1, k)
  if c2.1.2 then c2 else
  let c3 := runSched sysE c2 (rep 0 (7 * (n - 1)) ++ rep 1 2)
  let (c4, l4) := runWriterE 3 flushFirst
    (fun s => s.wpc = .sel && s.queue.isEmpty && !s.flushCh && s.batch.isEmpty) kind (40 * n + 40) (c3, l2)
  if c4.1.2 then c4 else
  let c5 := runSched sysE c4 (rep 2 4)
  let (c6, _) := runWriterE 3 flushFirst (fun s => s.wpc = .exited) kind 20 (c5, l4)
  if c6.1.2 then c6 else runSched sysE c6 (rep 2 3)

/-- the writer's part of the trace and whether the process died -/
def storeFailLine (ws : List String) : String :=
  let kind := if kvArg "fk" ws = 2 then "Batched" else "Commit"
  let c := storeFailCfg (kvArg "b" ws) (kvArg "n" ws) kind (kvArg "fa" ws)
  let w := (c.1.1.tr.reverse.filter (fun e => match e with
    | .reset _ => true | .write _ _ => true | .commit => true | .done _ => true | _ => false)).map Event.render
  "W:" ++ ",".intercalate w ++ (if c.1.2 then "|crashed" else "|completed")

/-- `crash`: the verdict on a trace that ends with the death of the process (no final all-or-nothing check: nothing
returns any more), and the objects that were written but never committed -/
def crashLine (m : Mon) : String :=
  match m.verdict with
  | some w => "reject " ++ w.toString
  | none =>
    let un := (m.objs.filter (fun o => m.com o < m.wr o)).mergeSort (· ≤ ·)
    "crashed uncommitted=" ++ ",".intercalate (un.map toString)

/-! ### Writer conformance with the store calls

`wconf` lines may carry, besides the writer's events, the calls the writer goroutine makes on the store — `nb`
(`store.Batched()`: a new collector), `cc` (`batchedMuts.Cancel()`: an empty batch) — and `x` (the goroutine has
terminated: Stop returned).  The acceptor labels the model's own writer steps: a step from a state whose next store
call (`storeCall`, the points where `sysE` lets the store fail) is `Batched` is `nb`; `Commit` of an empty batch is
`cc`; reaching `.exited` is `x`. -/

inductive WTok
  | ev (e : Event) | nb | cc | exit
  deriving DecidableEq

def parseWTok (w : String) : Option WTok :=
  match w with
  | "nb" => some .nb
  | "cc" => some .cc
  | "x" => some .exit
  | _ => (parseEvent (w.splitOn ".")).map .ev

def WTok.render : WTok → String
  | .ev e => e.render
  | .nb => "nb"
  | .cc => "cc"
  | .exit => "x"

/-- label of the writer step `s0 → s'` (none: silent) -/
def wLabel (s0 s' : St) : Option WTok :=
  match s'.tr with
  | e :: _ => some (.ev e)
  | [] =>
    if storeCall s0 = some "Batched" then some .nb
    else if s0.wpc = .commit ∧ s0.batch = [] then some .cc
    else if s'.wpc = .exited then some .exit
    else none

/-- the most permissive environment in which the model's writer could produce `tok` next -/
def wEnv (tok : WTok) (s : St) : St :=
  let s1 : St := { s with tr := [], running := true, flushCh := true, queue := [] }
  match tok with
  | .ev (.reset o) => { s1 with queue := if s.wpc = .addReset then [] else [o] }
  | .ev (.write o v) => { s1 with ver := upd s.ver o v }
  | .exit => { s1 with running := false, flushCh := false, count := 0 }
  | _ => s1

def wReachS (tok : WTok) : Nat → St → List St
  | 0, _ => []
  | fuel + 1, s =>
    let s0 := wEnv tok s
    (stepWriter s0).flatMap (fun s' =>
      match wLabel s0 s' with
      | none => wReachS tok fuel s'
      | some l => if l = tok then [s'] else [])

def wConformS (b : Nat) (toks : List WTok) : Option (Nat × WTok) :=
  let rec go (k : Nat) (cands : List St) : List WTok → Option (Nat × WTok)
    | [] => none
    | t :: rest =>
      match wDedup (cands.flatMap (wReachS t 12)) with
      | [] => some (k, t)
      | next => go (k + 1) next rest
  go 0 [{ (initSt 1 b) with wpc := .loopRun, spawned := true, running := true, mon := {} }] toks

def wconfLineS (ws : List String) : String :=
  let b := match kvArg "b" ws with | 0 => 10000 | n => n
  let toks := ws.filterMap (fun w => if w.startsWith "b=" then none else parseWTok w)
  match wConformS b toks with
  | none => "conforms"
  | some (k, t) => s!"deviates at {k}: {t.render}"

def stepLineE (m : Mon) (ws : List String) : Mon × String :=
  match ws with
  | ["crash"] => (m, crashLine m)
  | "model" :: "store-fail" :: rest => (m, storeFailLine rest)
  | "wconfs" :: rest => (m, wconfLineS rest)
  | _ => stepLine m ws

end Hive.BatchWriter
