/-!
# The node-store adapter at the level of buffers (C09, `ads/map_store_adapter.go`)

The third-party trie reads its nodes through `mapStoreAdapter.Get` and **keeps sub-slices of what it gets**
(`parseLeaf` / `parseNode`: the path and value of a leaf, the child digests of an inner / extension node alias the
returned slice).  It writes nodes at `Commit` through `mapStoreAdapter.Set(key, value)` with a freshly serialized
`value`.  The adapter forwards `Get` / `Set` / `Delete` one to one (`C09_skeleton_adapter`, regenerated); the hive
store below hands out a private copy on `Get` and stores a copy on `Set` (for mapdb: `C04_get_returns_a_private_copy`,
`C04_set_stores_a_copy`).

A byte slice is a reference into a memory of buffers.  `Variant.forward` is the adapter as written; `Variant.reuse`
is the adapter with one read buffer that every `Get` overwrites and hands out (seeded change r6-1).  `held` is the
ghost list of what the trie holds on to, with the bytes it saw when it got the buffer.  Core Lean only.
-/
namespace Hive.Ads.Adapter

abbrev Ref := Nat
abbrev Bytes := List UInt8

/-- Buffers by reference (newest binding first); `next` is the first unused reference. -/
structure Mem where
  cells : List (Ref × Bytes)
  next : Ref

def Mem.read (m : Mem) (r : Ref) : Bytes := (m.cells.lookup r).getD []
/-- `make` + `copy`: a new buffer. -/
def Mem.alloc (m : Mem) (b : Bytes) : Mem × Ref := ({ cells := (m.next, b) :: m.cells, next := m.next + 1 }, m.next)
/-- Overwriting the content of a buffer (`append(buf[:0], …)` within its capacity). -/
def Mem.write (m : Mem) (r : Ref) (b : Bytes) : Mem := { m with cells := (r, b) :: m.cells }

inductive Variant
  | forward   -- `return k.underlying.Get(key)`
  | reuse     -- `k.readBuffer = append(k.readBuffer[:0], value...); return k.readBuffer`
deriving DecidableEq

structure ASt where
  mem : Mem
  /-- the hive store below the adapter: key ↦ the buffer the store owns -/
  store : List (Bytes × Ref)
  /-- the adapter's read buffer (`reuse` only) -/
  buf : Option Ref
  /-- ghost: buffers the trie holds on to, with the bytes they had when `Get` returned them -/
  held : List (Ref × Bytes)

def ainit : ASt := { mem := { cells := [], next := 0 }, store := [], buf := none, held := [] }

inductive AOp
  | get (k : Bytes)        -- the trie resolves a node: the result is parsed in place and kept
  | set (k v : Bytes)      -- the trie flushes a node it serialized into a new buffer
  | del (k : Bytes)        -- the trie deletes an orphaned node

def sget (k : Bytes) (st : List (Bytes × Ref)) : Option Ref := (st.find? (fun e => e.1 == k)).map (·.2)

def astep (v : Variant) (s : ASt) : AOp → ASt
  | .get k =>
    match sget k s.store with
    | none => s                                   -- ErrKeyNotFound
    | some r0 =>
      let b := s.mem.read r0
      -- the store's `Get`: a private copy
      let a := s.mem.alloc b
      match v with
      | .forward => { s with mem := a.1, held := (a.2, b) :: s.held }
      | .reuse =>
        match s.buf with
        | some rb =>
          if b.length ≤ (a.1.read rb).length then
            -- the new node fits into the read buffer: it is overwritten in place and handed out again
            { s with mem := a.1.write rb b, held := (rb, b) :: s.held }
          else
            let n := a.1.alloc b
            { s with mem := n.1, buf := some n.2, held := (n.2, b) :: s.held }
        | none =>
          let n := a.1.alloc b
          { s with mem := n.1, buf := some n.2, held := (n.2, b) :: s.held }
  | .set k val =>
    -- the trie's buffer, then the store's copy of it
    let t := s.mem.alloc val
    let c := t.1.alloc val
    { s with mem := c.1, store := (k, c.2) :: s.store.filter (fun e => e.1 != k) }
  | .del k => { s with store := s.store.filter (fun e => e.1 != k) }

def arun (v : Variant) (s : ASt) (ops : List AOp) : ASt := ops.foldl (astep v) s

/-- Everything the trie holds on to still has the bytes it saw. -/
def Intact (s : ASt) : Prop := ∀ e ∈ s.held, s.mem.read e.1 = e.2

instance (s : ASt) : Decidable (Intact s) := by unfold Intact; infer_instance

end Hive.Ads.Adapter
