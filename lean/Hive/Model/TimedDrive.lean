import Hive.Model.Timed
import Hive.Base.Proto
/-!
# Deterministic scheduler over the C18 protocol model and the `drv_c18` line protocol

The correspondence run drives the real `timed.TaskExecutor` from one goroutine at well separated
instants (operations at even clock values, due times at odd ones, one clock unit = half a slot of
real time).  Between two operations the real system becomes quiescent.  The driver reproduces this
with the protocol model itself: it executes `Hive.Timed.step` under a fixed scheduling policy
(workers first, then pending `Shutdown` callers, then the controller, and the ticker only when
nothing else can move), so what is compared with the implementation is the very transition function
the theorems quantify over.

Second request kind: `ev …` lines accumulate an event trace recorded from the implementation
under stress, `check` answers `accept`/`reject n` by evaluating `okLog` on it.
-/
namespace Hive.Timed
open Hive.Conc Hive.Proto

structure Aux where
  idx : Nat
  ret : Option Nat := none
  panicked : Bool := false
deriving Repr

structure DSt where
  cfg : Cfg Sh Th := ({}, [])
  workers : Nat := 0
  handles : List (Nat × Nat) := []       -- harness tag ↦ serial
  runs : List (Nat × Nat) := []          -- (clock, tag), newest first
  aux : List Aux := []
  trace : List Ev := []
  started : Bool := false
  res : Res := .none                     -- return value of the controller's last call
deriving Repr

def DSt.init : DSt := {}

def mainIdx : Nat := 1

/-- A goroutine in the middle of `TaskExecutor.ExecuteAt` (between cancelling the old element and
adding the new one): it is running, whereas a poller it just woke up still has to be scheduled. -/
def midCall : Th → Bool
  | .ctl (.exec2 ..) _ => true
  | .cb e 1 => match e.kind with | .resched .. => true | _ => false
  | _ => false

/-- Scheduling order: a goroutine in the middle of an API call, then workers, shutdown callers, controller. -/
def order (d : DSt) : List Nat :=
  ((List.range d.cfg.2.length).filter fun i => match d.cfg.2[i]? with | some t => midCall t | none => false) ++
  (List.range d.workers).map (· + 2) ++ d.aux.map (·.idx) ++ [mainIdx]

def enabledAt (c : Cfg Sh Th) (i : Nat) : Bool :=
  match c.2[i]? with
  | some t => !(step c.1 t).isEmpty
  | none => false

def mainWaiting (c : Cfg Sh Th) : Bool :=
  match c.2[mainIdx]? with
  | some (.ctl _ (_ :: _)) => true
  | some (.ctl pc []) => pc != .ready
  | _ => false

/-- One scheduled step; records runs and Shutdown returns. -/
def fire (d : DSt) (i : Nat) : DSt :=
  match d.cfg.2[i]? with
  | none => d
  | some t =>
    match (step d.cfg.1 t)[0]? with
    | none => d
    | some (s', t') =>
      let runs := match t, t' with
        | .wrap _, .cb e 0 => (d.cfg.1.clock, e.tag) :: d.runs
        | _, _ => d.runs
      let aux := d.aux.map fun a =>
        if a.idx == i then
          match t' with
          | .ctl .ready [] => { a with ret := some s'.clock, panicked := s'.lastRes == .panic }
          | _ => a
        else a
      let res := if i == mainIdx then (match t' with | .ctl .ready [] => s'.lastRes | _ => d.res) else d.res
      { d with cfg := (s', d.cfg.2.set i t'), runs := runs, aux := aux, res := res }

/-- Run until the controller has finished its script and nothing but the ticker can move. -/
def drive : Nat → DSt → DSt
  | 0, d => d
  | fuel + 1, d =>
    match (order d).find? (enabledAt d.cfg) with
    | some i => drive fuel (fire d i)
    | none => if mainWaiting d.cfg then drive fuel (fire d 0) else d

def setScript (d : DSt) (script : List EnvOp) : DSt :=
  { d with cfg := (d.cfg.1, d.cfg.2.set mainIdx (.ctl .ready script)) }

def fuel : Nat := 200000

/-! ## parsing -/

def parseKind (s : String) : Option Kind :=
  match s.splitOn ":" with
  | ["plain"] => some .plain
  | ["block"] => some .block
  | ["cself"] => some .cancelSelf
  | ["rs", d, b, t] =>
    match d.toNat?, b.toNat?, t.toNat? with
    | some d, some b, some t => some (.resched d (b != 0) t)
    | _, _, _ => none
  | _ => none

/-- A due clock with a representation suffix (`17w` wall-clock reading only, `17u` UTC, `17e` / `17a` other time
zones, with or without a monotonic reading): the harness hands the *same instant* to `ExecuteAt` as a differently
represented `time.Time`.  The model has instants only, so the suffix is dropped: heap order, timers and every
comparison of scheduled times in the code must go by the instant. -/
def parseDueRep (s : String) : Option Nat :=
  match s.toList.reverse with
  | c :: rest =>
    if (c == 'w' || c == 'u' || c == 'e' || c == 'a') && !rest.isEmpty && rest.all Char.isDigit then
      some (rest.reverse.foldl (fun n d => 10 * n + (d.toNat - '0'.toNat)) 0)
    else none
  | [] => none

/-- Due clocks of the sequential op lines: a number, or an instant far away from the session — `z` (zero
`time.Time`) and `y1600`: clock 0, i.e. due at once and before every ordinary due clock; `y2300`, `n300` (now + 300
years), `y9999`, `u62` (`time.Unix(1<<62, 0)`): clocks that a session never reaches. -/
def parseDue (s : String) : Option Nat :=
  match s with
  | "z" => some 0
  | "y1600" => some 0
  | "y2300" => some 1000001
  | "n300" => some 1000003
  | "y9999" => some 1000005
  | "u62" => some 1000007
  | _ =>
    match s.toNat? with
    | some n => some n
    | none => parseDueRep s

/-- The flags of a `shutdown` line as the harness passes them to the code: the or of the source's constants. -/
def flagMask (s : String) : Nat :=
  (if s.contains 'c' then 1 else 0) ||| (if s.contains 'i' then 2 else 0) ||| (if s.contains 'p' then 4 else 0) |||
    (if s.contains 'd' then 128 else 0)

def parseFlags (s : String) : Flags := Flags.ofMask (flagMask s)

def showRes : Res → String
  | .none => "none"
  | .ok _ => "ok"
  | .nil => "nil"
  | .panic => "panic"
  | .bool b => showBool b
  | .done => "done"

def answer (d : DSt) : String := s!"{showRes d.res} sz={d.cfg.1.heap.length}"

/-- Apply one controller operation at clock `now` and let the system become quiescent. -/
def opAt (d : DSt) (now : Nat) (op : List EnvOp) : DSt :=
  drive fuel (setScript d (.waitUntil now :: op))

def insertSorted (p : Nat × Nat) : List (Nat × Nat) → List (Nat × Nat)
  | [] => [p]
  | q :: rest => if p.1 < q.1 || (p.1 == q.1 && p.2 ≤ q.2) then p :: q :: rest else q :: insertSorted p rest

def sortPairs (l : List (Nat × Nat)) : List (Nat × Nat) := l.foldr insertSorted []

def showRuns (d : DSt) : String :=
  let sorted := sortPairs d.runs
  let runs := " ".intercalate (sorted.map fun p => s!"{p.1}:{p.2}")
  let ord := if d.workers == 1 then " ".intercalate (d.runs.reverse.map fun p => toString p.2) else "-"
  let sd := " ".intercalate (d.aux.map fun a =>
    if a.panicked then "panic" else match a.ret with | some c => toString c | none => "never")
  s!"runs=[{runs}] ord=[{ord}] sd=[{sd}]"

def parseOptNat (s : String) : Option (Option Nat) :=
  if s == "-" then some none else s.toNat?.map some

def parseEv : List String → Option Ev
  | ["sched", x, i, d] =>
    match x.toNat?, parseOptNat i, d.toNat? with
    | some x, some i, some d => some (.sched x i d)
    | _, _, _ => none
  | ["run", x, t] =>
    match x.toNat?, t.toNat? with
    | some x, some t => some (.run x t)
    | _, _ => none
  | ["deliver", x, t] =>
    match x.toNat?, t.toNat? with
    | some x, some t => some (.deliver x t)
    | _, _ => none
  | ["cancelled", x] => x.toNat?.map .cancelled
  | ["cres", i, b, x] =>
    match i.toNat?, parseOptNat x with
    | some i, some x => some (.cancelRes i (b == "true") x)
    | _, _ => none
  | ["replaced", i, x] =>
    match i.toNat?, x.toNat? with
    | some i, some x => some (.replaced i x)
    | _, _ => none
  | ["shutdown", c, i] => some (.shutdown (c == "1") (i == "1"))
  | _ => none

/-! ## direct Queue sessions without concurrency: `qseq <maxSize> <op>…`

`a<rank>` = `Queue.Add` with due rank (the i-th Add creates element i), `c<i>` = `Cancel()` of element i;
afterwards `Size()` is read and the queue is drained by `Poll(false)` until it returns nil.  The answer
is the size and the elements in the order of their delivery — computed with the model's own `add`,
`cancelElem` and `Heap.pop` (size bound victim, ties). -/

/-- Due ranks of a `qseq` line: `p0` the zero `time.Time`, `p1` the year 1600 (both long past: due at once and
before everything else), a number `r` an ordinary instant (rank `r + 2`), `f0..f3` the year 2300, now + 300 years,
9999-12-31 and `time.Unix(1<<62, 0)` (never reached in a session). -/
def qseqRank (t : String) : Option Nat :=
  match t.toList with
  | 'p' :: rest => (String.ofList rest).toNat?
  | 'f' :: rest => (String.ofList rest).toNat?.map (· + 1000000)
  | _ => t.toNat?.map (· + 2)

def qseqOp (s : Sh) (tok : String) : Sh :=
  match tok.toList with
  | 'a' :: rest =>
    match qseqRank (String.ofList rest) with
    | some rank => (add s rank none .plain s.next).1
    | none => s
  | 'c' :: rest =>
    match (String.ofList rest).toNat? with
    | some i => if i < s.next then cancelElem s i else s
    | none => s
  | _ => s

def drainHeap : Nat → List Elem → List Nat → List Nat
  | 0, _, acc => acc.reverse
  | fuel + 1, h, acc =>
    match Heap.pop h with
    | none => acc.reverse
    | some (e, h') => drainHeap fuel h' (e.serial :: acc)

def qseq (m : Nat) (toks : List String) : String :=
  let s := toks.foldl qseqOp ({ maxSize := m } : Sh)
  let order := drainHeap (s.heap.length + 1) s.heap []
  s!"size={s.heap.length} order=[{" ".intercalate (order.map toString)}]"

/-! ## the heap alone: `gheap <op>…`, and `HeapKey.CompareTo`: `hkcmp a b`

`p<rank>` = `heap.Push` of a new element (the i-th push creates element i), `x` = `heap.Pop`, `r<i>` =
`heap.Remove(i)` on a `generalheap.Heap[timed.HeapKey, int]`.  The answer is the layout of the slice after
every operation (for `x` / `r<i>` preceded by the element that came out), computed with the model's own
`Heap.push` / `Heap.pop` / `Heap.removeAt`. -/

def showLayout (h : List Elem) : String := " ".intercalate (h.map (fun e => toString e.serial))

def gheapStep (st : List Elem × Nat × List String) (tok : String) : List Elem × Nat × List String :=
  match tok.toList with
  | 'p' :: rest =>
    match qseqRank (String.ofList rest) with
    | some rank =>
      let h' := Heap.push st.1 { serial := st.2.1, due := rank, id := none, kind := .plain, tag := st.2.1 }
      (h', st.2.1 + 1, showLayout h' :: st.2.2)
    | none => (st.1, st.2.1, "bad" :: st.2.2)
  | ['x'] =>
    match Heap.pop st.1 with
    | some (e, h') => (h', st.2.1, s!"{e.serial}<{showLayout h'}" :: st.2.2)
    | none => (st.1, st.2.1, "empty" :: st.2.2)
  | 'r' :: rest =>
    match (String.ofList rest).toNat? with
    | some i =>
      match Heap.removeAt st.1 i with
      | some (e, h') => (h', st.2.1, s!"{e.serial}<{showLayout h'}" :: st.2.2)
      | none => (st.1, st.2.1, "none" :: st.2.2)
    | none => (st.1, st.2.1, "bad" :: st.2.2)
  | _ => (st.1, st.2.1, "bad" :: st.2.2)

def gheap (toks : List String) : String :=
  "|".intercalate (toks.foldl gheapStep ([], 0, [])).2.2.reverse

/-- `HeapKey.CompareTo` on two rank tokens: the order of the model's clocks. -/
def hkcmp (a b : String) : String :=
  match qseqRank a, qseqRank b with
  | some x, some y => if x < y then "-1" else if y < x then "1" else "0"
  | _, _ => "bad-op"

/-- The size bound of a `new` line.  `WithMaxSize(n)` / `WithMaxQueueSize(n)` with `n ≤ 0` is "no bound" (`Add` tests
`t.maxSize > 0`): a negative option value is the model's `maxSize = 0`. -/
def parseMax (m : String) : Option Nat :=
  match m.toNat? with
  | some n => some n
  | none =>
    match m.toList with
    | '-' :: rest => if !rest.isEmpty && rest.all Char.isDigit then some 0 else none
    | _ => none

def stepLine (d : DSt) (toks : List String) : DSt × String :=
  match toks with
  | ["new", w, m] =>
    match w.toNat?, parseMax m with
    | some w, some m =>
      let ts : List Th := [.ticker, .ctl .ready []] ++ List.replicate w .idle
      let d0 : DSt := { cfg := initCfg m ts, workers := w, started := true }
      (drive fuel d0, "ok")
    | _, _ => (d, "bad-op")
  | "ev" :: rest =>
    match parseEv rest with
    | some ev => ({ d with trace := ev :: d.trace }, "ok")
    | none => (d, "bad-op")
  | ["nop"] => (d, "done")
  | "stress" :: _ => (d, "done")
  | "burst" :: _ => (d, "done")
  | "cbshutdown" :: _ => (d, "done")
  | "addrace" :: _ => (d, "done")
  | "addburst" :: _ => (d, "done")
  | "sdrace" :: _ => (d, "done")
  | "cancelrace" :: _ => (d, "done")
  | "qsess" :: _ => (d, "done")
  | "qpanic" :: _ => (d, "done")
  | "gheaps" :: _ => (d, "done")
  | "gheap" :: rest => (d, gheap rest)
  | ["hkcmp", a, b] => (d, hkcmp a b)
  | "qseq" :: m :: rest =>
    match m.toNat? with
    | some m => (d, qseq m rest)
    | none => (d, "bad-op")
  | ["check"] =>
    let ans := match firstBad d.trace with
      | none => "accept"
      | some i => s!"reject {i}"
    ({ d with trace := [] }, ans)
  | ["end", t] =>
    if !d.started then (d, "bad-op") else
    match t.toNat? with
    | some t => let d' := opAt d t []; (d', showRuns d')
    | none => (d, "bad-op")
  | now :: rest =>
    if !d.started then (d, "bad-op") else
    match now.toNat? with
    | none => (d, "bad-op")
    | some now =>
      match rest with
      | ["nop"] => let d' := opAt d now []; (d', s!"done sz={d'.cfg.1.heap.length}")
      | ["add", tag, due, kind] =>
        match tag.toNat?, parseDue due, parseKind kind with
        | some tag, some due, some kind =>
          let d' := opAt d now [.add due kind tag]
          let d' := match d'.res with
            | .ok x => { d' with handles := (tag, x) :: d'.handles }
            | _ => d'
          (d', answer d')
        | _, _, _ => (d, "bad-op")
      | ["addafter", tag, delay, kind] =>
        -- Executor.ExecuteAfter: the due time is the clock at the call plus the delay
        match tag.toNat?, delay.toNat?, parseKind kind with
        | some tag, some delay, some kind =>
          let d' := opAt d now [.add (now + delay) kind tag]
          let d' := match d'.res with
            | .ok x => { d' with handles := (tag, x) :: d'.handles }
            | _ => d'
          (d', answer d')
        | _, _, _ => (d, "bad-op")
      | ["execafter", i, tag, delay, kind] =>
        match i.toNat?, tag.toNat?, delay.toNat?, parseKind kind with
        | some i, some tag, some delay, some kind =>
          let d' := opAt d now [.exec i (now + delay) kind tag]
          let d' := match d'.res with
            | .ok x => { d' with handles := (tag, x) :: d'.handles }
            | _ => d'
          (d', answer d')
        | _, _, _, _ => (d, "bad-op")
      | ["exec", i, tag, due, kind] =>
        match i.toNat?, tag.toNat?, parseDue due, parseKind kind with
        | some i, some tag, some due, some kind =>
          let d' := opAt d now [.exec i due kind tag]
          let d' := match d'.res with
            | .ok x => { d' with handles := (tag, x) :: d'.handles }
            | _ => d'
          (d', answer d')
        | _, _, _, _ => (d, "bad-op")
      | ["ecancel", tag] =>
        match tag.toNat? with
        | some tag =>
          match regGet d.handles tag with
          | some x => let d' := opAt d now [.cancelElem x]; (d', answer d')
          | none => (d, "bad-op")
        | none => (d, "bad-op")
      | ["cancel", i] =>
        match i.toNat? with
        | some i => let d' := opAt d now [.cancelId i]; (d', answer d')
        | none => (d, "bad-op")
      | ["release", tag] =>
        match tag.toNat? with
        | some tag => let d' := opAt d now [.release tag]; (d', answer d')
        | none => (d, "bad-op")
      | ["arm", tag] =>
        match tag.toNat? with
        | some tag => let d' := opAt d now [.arm tag]; (d', answer d')
        | none => (d, "bad-op")
      | [sd, fl] =>
        -- Executor.Shutdown is called from a goroutine of its own; `shutdown` calls it through the TaskExecutor
        -- (promoted method, one flag per argument), `xshutdown` on the embedded Executor with the flags or-ed into
        -- one argument: the same function
        if sd != "shutdown" && sd != "xshutdown" then (d, "bad-op") else
        let d1 := opAt d now []
        let idx := d1.cfg.2.length
        let d2 : DSt := { d1 with cfg := (d1.cfg.1, d1.cfg.2 ++ [.ctl .ready [.shutdown (parseFlags fl)]]),
                                  aux := d1.aux ++ [{ idx := idx }] }
        let d3 := drive fuel d2
        (d3, s!"called sz={d3.cfg.1.heap.length}")
      | _ => (d, "bad-op")
  | _ => (d, "bad-op")

end Hive.Timed
